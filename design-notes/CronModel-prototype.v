(* PROTOTYPE (design phase): code-shaped model of the repaired internal/csm + quartz/cron.go NextFireTime *)
From Coq Require Import ZArith List Bool.
Import ListNotations.
Open Scope Z_scope.

(* ---------- calendar ---------- *)
Definition is_leap (y : Z) : bool := (y mod 4 =? 0) && (negb (y mod 100 =? 0) || (y mod 400 =? 0)).
Definition month_len (y m : Z) : Z :=
  if m =? 2 then (if is_leap y then 29 else 28)
  else if (m =? 4) || (m =? 6) || (m =? 9) || (m =? 11) then 30 else 31.
Definition days_before_year (y : Z) : Z :=
  365 * (y - 1970) + ((y - 1969) / 4 - (y - 1901) / 100 + (y - 1601) / 400).
Definition cum (m : Z) : Z := nth (Z.to_nat m) [0;0;31;59;90;120;151;181;212;243;273;304;334;365] 0.
Definition days_before_month (y m : Z) : Z := cum m + (if (2 <? m) && is_leap y then 1 else 0).
Definition days_from_civil (y m d : Z) : Z := days_before_year y + days_before_month y m + (d - 1).
Definition weekday_of_days (n : Z) : Z := (n + 4) mod 7.
Definition weekday_of (y m d : Z) : Z := weekday_of_days (days_from_civil y m d).

(* civil from days: H. Hinnant's algorithm; the result is *checked* against days_from_civil *)
Definition civil_from_days_raw (z0 : Z) : Z * Z * Z :=
  let z := z0 + 719468 in
  let era := z / 146097 in
  let doe := z - era * 146097 in
  let yoe := (doe - doe / 1460 + doe / 36524 - doe / 146096) / 365 in
  let y := yoe + era * 400 in
  let doy := doe - (365 * yoe + yoe / 4 - yoe / 100) in
  let mp := (5 * doy + 2) / 153 in
  let d := doy - (153 * mp + 2) / 5 + 1 in
  let m := if mp <? 10 then mp + 3 else mp - 9 in
  ((if m <=? 2 then y + 1 else y), m, d).
Definition civil_from_days (n : Z) : option (Z * Z * Z) :=
  let '(y, m, d) := civil_from_days_raw n in
  if (1 <=? m) && (m <=? 12) && (1 <=? d) && (d <=? month_len y m) && (days_from_civil y m d =? n)
  then Some (y, m, d) else None.

(* ---------- CommonNode ---------- *)
Record cnode := { cn_lo : Z; cn_hi : Z; cn_vals : list Z }.
Definition cn_has_range (n : cnode) : bool := match cn_vals n with [] => false | _ => true end.
Definition cn_is_valid (n : cnode) (v : Z) : bool :=
  (cn_lo n <=? v) && (v <=? cn_hi n) &&
  (if cn_has_range n then existsb (Z.eqb v) (cn_vals n) else true).
Definition cn_next (n : cnode) (v : Z) : Z * bool :=
  if cn_has_range n then
    match find (fun x => v <? x) (cn_vals n) with
    | Some x => (x, false)
    | None => (hd 0 (cn_vals n), true)
    end
  else if cn_hi n <? v + 1 then (cn_lo n, true) else (v + 1, false).
Definition cn_reset (n : cnode) : Z := fst (cn_next n (cn_hi n)).

(* ---------- DayNode ---------- *)
Record dnode := { dn_c : cnode; dn_w : list Z; dn_n : Z }.
Definition dn_is_weekday (n : dnode) : bool := match dn_w n with [] => false | _ => true end.
Definition is_wk (w : Z) : bool := negb (w =? 6) && negb (w =? 0).

Definition closest_weekday (y m d : Z) : Z :=
  if is_wk (weekday_of y m d) then d else
  let len := month_len y m in
  let fix go (is : list Z) : Z :=
    match is with
    | [] => d
    | i :: is' =>
        if (1 <=? d - i) && is_wk (weekday_of y m (d - i)) then d - i
        else if (d + i <=? len) && is_wk (weekday_of y m (d + i)) then d + i
        else go is'
    end in
  go [1;2;3;4;5;6;7].

Definition bit_weekday (n : Z) : bool := Z.testbit n 1.   (* n & NWeekday(2) != 0 *)
Definition bit_last (n : Z) : bool := Z.testbit n 0.      (* n & NLastDayOfMonth(1) != 0 *)

(* dayN: the single day selected by an L / W / # rule in month (y,m), if any *)
Definition dn_dayN (n : dnode) (y m : Z) : Z * bool :=
  let last := month_len y m in
  if dn_is_weekday n && (0 <? dn_n n) then
    let day := 1 + ((hd 0 (dn_w n) - weekday_of y m 1 + 7) mod 7) + 7 * (dn_n n - 1) in
    (day, day <=? last)
  else if dn_is_weekday n then
    (last - ((weekday_of y m last - hd 0 (dn_w n) + 7) mod 7), true)
  else if bit_weekday (dn_n n) && (0 <? dn_n n) then
    let date0 := hd 0 (cn_vals (dn_c n)) in
    let date := if (last <? date0) || bit_last (dn_n n) then last else date0 in
    (closest_weekday y m date, true)
  else if dn_n n =? 1 then (last, true)
  else (last + dn_n n, 1 <=? last + dn_n n).

Definition dn_next_dayN (n : dnode) (y m v : Z) : Z * bool :=
  let '(day, ok) := dn_dayN n y m in
  if negb ok || (day <=? v) then (v, true) else (day, false).

Definition dn_next_weekday (n : dnode) (y m v : Z) : Z * bool :=
  let wd := weekday_of y m v in
  let offset := match find (fun x => wd <? x) (dn_w n) with
                | Some x => x - wd
                | None => 7 + hd 0 (dn_w n) - wd
                end in
  if month_len y m <? v + offset then (v, true) else (v + offset, false).

Definition dn_next_day (n : dnode) (y m v : Z) : Z * bool :=
  let '(v', ov) := cn_next (dn_c n) v in (v', ov || (month_len y m <? v')).

Definition dn_next (n : dnode) (y m v : Z) : Z * bool :=
  if negb (dn_n n =? 0) then dn_next_dayN n y m v
  else if dn_is_weekday n then dn_next_weekday n y m v
  else dn_next_day n y m v.

Definition dn_reset (n : dnode) (y m : Z) : Z * bool := dn_next n y m (cn_lo (dn_c n) - 1).

Definition dn_is_valid (n : dnode) (y m v : Z) : bool :=
  if negb (dn_n n =? 0) then
    let '(day, ok) := dn_dayN n y m in ok && (v =? day)
  else
    cn_is_valid (dn_c n) v && (v <=? month_len y m) &&
    (if dn_is_weekday n then existsb (Z.eqb (weekday_of y m v)) (dn_w n) else true).

(* ---------- state machine ---------- *)
Record csm := { f_sec : cnode; f_min : cnode; f_hour : cnode; f_day : dnode; f_mon : cnode; f_year : cnode }.
Record st := { s_sec : Z; s_min : Z; s_hour : Z; s_day : Z; s_mon : Z; s_year : Z; s_expired : bool }.

(* node ids: 0 seconds .. 5 years *)
Definition node_next (c : csm) (id : nat) (s : st) : st * bool :=
  match id with
  | 0%nat => let '(v, o) := cn_next (f_sec c) (s_sec s) in
             ({| s_sec := v; s_min := s_min s; s_hour := s_hour s; s_day := s_day s; s_mon := s_mon s; s_year := s_year s; s_expired := s_expired s |}, o)
  | 1%nat => let '(v, o) := cn_next (f_min c) (s_min s) in
             ({| s_sec := s_sec s; s_min := v; s_hour := s_hour s; s_day := s_day s; s_mon := s_mon s; s_year := s_year s; s_expired := s_expired s |}, o)
  | 2%nat => let '(v, o) := cn_next (f_hour c) (s_hour s) in
             ({| s_sec := s_sec s; s_min := s_min s; s_hour := v; s_day := s_day s; s_mon := s_mon s; s_year := s_year s; s_expired := s_expired s |}, o)
  | 3%nat => let '(v, o) := dn_next (f_day c) (s_year s) (s_mon s) (s_day s) in
             ({| s_sec := s_sec s; s_min := s_min s; s_hour := s_hour s; s_day := v; s_mon := s_mon s; s_year := s_year s; s_expired := s_expired s |}, o)
  | 4%nat => let '(v, o) := cn_next (f_mon c) (s_mon s) in
             ({| s_sec := s_sec s; s_min := s_min s; s_hour := s_hour s; s_day := s_day s; s_mon := v; s_year := s_year s; s_expired := s_expired s |}, o)
  | _ => let '(v, o) := cn_next (f_year c) (s_year s) in
             ({| s_sec := s_sec s; s_min := s_min s; s_hour := s_hour s; s_day := s_day s; s_mon := s_mon s; s_year := v; s_expired := s_expired s |}, o)
  end.

Definition node_reset (c : csm) (id : nat) (s : st) : st * bool :=
  match id with
  | 0%nat => ({| s_sec := cn_reset (f_sec c); s_min := s_min s; s_hour := s_hour s; s_day := s_day s; s_mon := s_mon s; s_year := s_year s; s_expired := s_expired s |}, false)
  | 1%nat => ({| s_sec := s_sec s; s_min := cn_reset (f_min c); s_hour := s_hour s; s_day := s_day s; s_mon := s_mon s; s_year := s_year s; s_expired := s_expired s |}, false)
  | 2%nat => ({| s_sec := s_sec s; s_min := s_min s; s_hour := cn_reset (f_hour c); s_day := s_day s; s_mon := s_mon s; s_year := s_year s; s_expired := s_expired s |}, false)
  | 3%nat => let '(v, o) := dn_reset (f_day c) (s_year s) (s_mon s) in
             ({| s_sec := s_sec s; s_min := s_min s; s_hour := s_hour s; s_day := v; s_mon := s_mon s; s_year := s_year s; s_expired := s_expired s |}, o)
  | 4%nat => ({| s_sec := s_sec s; s_min := s_min s; s_hour := s_hour s; s_day := s_day s; s_mon := cn_reset (f_mon c); s_year := s_year s; s_expired := s_expired s |}, false)
  | _ => ({| s_sec := s_sec s; s_min := s_min s; s_hour := s_hour s; s_day := s_day s; s_mon := s_mon s; s_year := cn_reset (f_year c); s_expired := s_expired s |}, false)
  end.

Definition node_is_valid (c : csm) (id : nat) (s : st) : bool :=
  match id with
  | 0%nat => cn_is_valid (f_sec c) (s_sec s)
  | 1%nat => cn_is_valid (f_min c) (s_min s)
  | 2%nat => cn_is_valid (f_hour c) (s_hour s)
  | 3%nat => dn_is_valid (f_day c) (s_year s) (s_mon s) (s_day s)
  | 4%nat => cn_is_valid (f_mon c) (s_mon s)
  | _ => cn_is_valid (f_year c) (s_year s)
  end.

Definition set_expired (s : st) : st :=
  {| s_sec := s_sec s; s_min := s_min s; s_hour := s_hour s; s_day := s_day s; s_mon := s_mon s; s_year := s_year s; s_expired := true |}.

(* resetFrom / overflowFrom: the two mutually recursive loops, as one fuelled function.
   mode true = overflowFrom(id), mode false = resetFrom(id); id is an option: None = below seconds *)
Fixpoint run (fuel : nat) (c : csm) (over : bool) (id : nat) (s : st) : option st :=
  match fuel with
  | O => None
  | S fuel' =>
      if over then
        if (5 <? id)%nat then Some (set_expired s)
        else let '(s', o) := node_next c id s in
             if o then run fuel' c true (S id) s'
             else match id with O => Some s' | S id' => run fuel' c false id' s' end
      else
        let '(s', o) := node_reset c id s in
        if o then run fuel' c true (S id) s'
        else match id with O => Some s' | S id' => run fuel' c false id' s' end
  end.

Definition find_forward (fuel : nat) (c : csm) (s : st) : option st :=
  let fix scan (ids : list nat) : option st :=
    match ids with
    | [] => run fuel c true 0%nat s
    | id :: ids' =>
        if node_is_valid c id s then scan ids'
        else let '(s', o) := node_next c id s in
             if o then run fuel c true (S id) s'
             else match id with O => Some s' | S id' => run fuel c false id' s' end
    end in
  scan [5;4;3;2;1;0]%nat.

(* ---------- NextFireTime for a fixed-offset location ---------- *)
Record fields := { fl_sec : list Z; fl_min : list Z; fl_hour : list Z; fl_dom : list Z; fl_dom_n : Z;
                   fl_mon : list Z; fl_dow : list Z; fl_dow_n : Z; fl_year : list Z }.
Definition max_year : Z := 2262.
Definition max_nanos : Z := 9223372036854775807.

Definition mk_csm (f : fields) : csm :=
  {| f_sec := {| cn_lo := 0; cn_hi := 59; cn_vals := fl_sec f |};
     f_min := {| cn_lo := 0; cn_hi := 59; cn_vals := fl_min f |};
     f_hour := {| cn_lo := 0; cn_hi := 23; cn_vals := fl_hour f |};
     f_day := match fl_dow f with
              | [] => {| dn_c := {| cn_lo := 1; cn_hi := 31; cn_vals := fl_dom f |}; dn_w := []; dn_n := fl_dom_n f |}
              | _ => {| dn_c := {| cn_lo := 1; cn_hi := 31; cn_vals := [] |}; dn_w := fl_dow f; dn_n := fl_dow_n f |}
              end;
     f_mon := {| cn_lo := 1; cn_hi := 12; cn_vals := fl_mon f |};
     f_year := {| cn_lo := 0; cn_hi := max_year; cn_vals := fl_year f |} |}.

Inductive res := Fire (ns : Z) | Expired | ModelError.

Definition fuel0 : nat := Z.to_nat 60000.

Definition next_fire_time (f : fields) (offset prev : Z) : res :=
  let prev_s := prev / 1000000000 in
  let local := prev_s + offset in
  match civil_from_days (local / 86400) with
  | None => ModelError
  | Some (y, m, d) =>
      let sod := local mod 86400 in
      let s0 := {| s_sec := sod mod 60; s_min := (sod / 60) mod 60; s_hour := sod / 3600;
                   s_day := d; s_mon := m; s_year := y; s_expired := false |} in
      match find_forward fuel0 (mk_csm f) s0 with
      | None => ModelError
      | Some s =>
          if s_expired s then Expired else
          let t := (days_from_civil (s_year s) (s_mon s) (s_day s)) * 86400
                   + s_hour s * 3600 + s_min s * 60 + s_sec s - offset in
          if (t <=? prev_s) || (max_nanos <? t * 1000000000) then Expired else Fire (t * 1000000000)
      end
  end.

From Coq Require Import Extraction ExtrOcamlBasic.
Extraction "cronm.ml" next_fire_time Z.add Z.mul Z.div Z.modulo Z.opp.
