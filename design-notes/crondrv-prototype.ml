open Cronm
let rec pos_of_int n = if n = 1 then XH else if n land 1 = 0 then XO (pos_of_int (n/2)) else XI (pos_of_int (n/2))
let z_of_int n = if n = 0 then Z0 else if n > 0 then Zpos (pos_of_int n) else Zneg (pos_of_int (-n))
let rec int_of_pos = function XH -> 1 | XO p -> 2 * int_of_pos p | XI p -> 2 * int_of_pos p + 1
let int_of_z = function Z0 -> 0 | Zpos p -> int_of_pos p | Zneg p -> - int_of_pos p
let ten = z_of_int 10
let z_of_string s =
  let neg = String.length s > 0 && s.[0] = '-' in
  let acc = ref Z0 in
  String.iteri (fun i c -> if not (i = 0 && neg) then acc := Z.add (Z.mul !acc ten) (z_of_int (Char.code c - 48))) s;
  if neg then Z.opp !acc else !acc
let string_of_z z =
  if z = Z0 then "0" else begin
    let neg = (match z with Zneg _ -> true | _ -> false) in
    let z = ref (if neg then Z.opp z else z) in
    let b = Buffer.create 20 in
    while !z <> Z0 do Buffer.add_char b (Char.chr (48 + int_of_z (Z.modulo !z ten))); z := Z.div !z ten done;
    let s = Buffer.contents b in
    let n = String.length s in
    (if neg then "-" else "") ^ String.init n (fun i -> s.[n-1-i]) end
let lst s = if s = "" then [] else List.map (fun x -> z_of_int (int_of_string x)) (String.split_on_char ',' s)
let () =
  let bad = ref 0 and tot = ref 0 in
  (try while true do
    let line = input_line stdin in
    match String.split_on_char ';' line with
    | [sec;mi;hr;dom;domn;mon;dow;down;yr;off;prev;res] ->
      incr tot;
      let f = { fl_sec = lst sec; fl_min = lst mi; fl_hour = lst hr; fl_dom = lst dom; fl_dom_n = z_of_int (int_of_string domn);
                fl_mon = lst mon; fl_dow = lst dow; fl_dow_n = z_of_int (int_of_string down); fl_year = lst yr } in
      let r = match next_fire_time f (z_of_int (int_of_string off)) (z_of_string prev) with
        | Fire ns -> string_of_z ns | Expired -> "E" | ModelError -> "M" in
      if r <> res then (incr bad; if !bad < 10 then Printf.printf "MISMATCH %s model=%s\n" line r)
    | _ -> failwith ("bad line " ^ line)
  done with End_of_file -> ());
  Printf.printf "total %d mismatches %d\n" !tot !bad
