From Coq Require Import List ZArith Lia Bool Sorted.
Import ListNotations.
Open Scope Z_scope.

(* first element of a list for which f gives Some *)
Fixpoint first_some {A B} (f : A -> option B) (l : list A) : option B :=
  match l with
  | [] => None
  | x :: l' => match f x with Some y => Some y | None => first_some f l' end
  end.

Lemma first_some_Some {A B} (f : A -> option B) l y :
  first_some f l = Some y ->
  exists l1 x l2, l = l1 ++ x :: l2 /\ f x = Some y /\ forall z, In z l1 -> f z = None.
Proof.
  induction l as [|a l IH]; simpl; [discriminate|].
  destruct (f a) eqn:E.
  - intros [= <-]. exists [], a, l. repeat split; auto. intros z [].
  - intros H. destruct (IH H) as (l1 & x & l2 & -> & Hx & Hn).
    exists (a :: l1), x, l2. repeat split; auto.
    intros z [<-|Hz]; auto.
Qed.

Lemma first_some_None {A B} (f : A -> option B) l :
  first_some f l = None -> forall z, In z l -> f z = None.
Proof.
  induction l as [|a l IH]; simpl; [intros _ z []|].
  destruct (f a) eqn:E; [discriminate|].
  intros H z [<-|Hz]; auto.
Qed.

Section Lex.
  (* candidates for the digit that follows prefix p (most significant first) *)
  Variable cands : list Z -> list Z.
  Hypothesis cands_sorted : forall p, StronglySorted Z.lt (cands p).

  Fixpoint matches (p t : list Z) : Prop :=
    match t with
    | [] => True
    | v :: t' => In v (cands p) /\ matches (p ++ [v]) t'
    end.

  (* lexicographic order on lists of equal length *)
  Fixpoint lex_lt (a b : list Z) : Prop :=
    match a, b with
    | x :: a', y :: b' => x < y \/ (x = y /\ lex_lt a' b')
    | _, _ => False
    end.
  Definition lex_le a b := a = b \/ lex_lt a b.

  Fixpoint least (k : nat) (p : list Z) : option (list Z) :=
    match k with
    | O => Some []
    | S k' => first_some (fun v => option_map (cons v) (least k' (p ++ [v]))) (cands p)
    end.

  Fixpoint next_gt (k : nat) (p cur : list Z) : option (list Z) :=
    match k, cur with
    | S k', c :: cs =>
        match (if existsb (Z.eqb c) (cands p) then next_gt k' (p ++ [c]) cs else None) with
        | Some r => Some (c :: r)
        | None => first_some (fun v => option_map (cons v) (least k' (p ++ [v])))
                    (filter (fun v => c <? v) (cands p))
        end
    | _, _ => None
    end.

  Lemma sorted_split_lt l1 x l2 :
    StronglySorted Z.lt (l1 ++ x :: l2) -> forall z, In z l1 -> z < x.
  Proof.
    induction l1 as [|a l1 IH]; simpl; intros H z Hz; [destruct Hz|].
    inversion H as [|? ? Hs Hf]; subst.
    destruct Hz as [<-|Hz].
    - rewrite Forall_forall in Hf. apply Hf. apply in_or_app. right. left. reflexivity.
    - eapply IH; eauto.
  Qed.
  Lemma sorted_split_gt l1 x l2 :
    StronglySorted Z.lt (l1 ++ x :: l2) -> forall z, In z l2 -> x < z.
  Proof.
    induction l1 as [|a l1 IH]; simpl; intros H z Hz.
    - inversion H as [|? ? Hs Hf]; subst. rewrite Forall_forall in Hf. auto.
    - inversion H; subst. eauto.
  Qed.

  Lemma least_None k p t : least k p = None -> length t = k -> ~ matches p t.
  Proof.
    revert p t. induction k as [|k IH]; intros p t; simpl; [discriminate|].
    intros E Ht Hm. destruct t as [|v t]; [discriminate|]. injection Ht as Ht.
    destruct Hm as [Hv Hm]. pose proof (first_some_None _ _ E v Hv) as Hn. simpl in Hn.
    destruct (least k (p ++ [v])) eqn:E'; [discriminate|]. eapply IH; eauto.
  Qed.

  Lemma least_Some k : forall p r, least k p = Some r ->
    length r = k /\ matches p r /\ forall t, length t = k -> matches p t -> lex_le r t.
  Proof.
    induction k as [|k IH]; intros p r; simpl.
    - intros [= <-]. repeat split; auto. intros [|? ?]; simpl; [left; auto|discriminate].
    - intros E. apply first_some_Some in E. destruct E as (l1 & x & l2 & Hc & Hx & Hn).
      destruct (least k (p ++ [x])) as [r'|] eqn:E'; [|discriminate].
      injection Hx as <-. destruct (IH _ _ E') as (Hl & Hm & Hmin).
      repeat split; simpl; auto.
      + rewrite Hc. apply in_or_app. right. left. reflexivity.
      + intros [|v t] Ht; [discriminate|]. injection Ht as Ht. intros [Hv Hm'].
        rewrite Hc in Hv. apply in_app_or in Hv. destruct Hv as [Hv|[<-|Hv]].
        * exfalso. specialize (Hn v Hv). simpl in Hn.
          destruct (least k (p ++ [v])) eqn:E''; [discriminate|].
          eapply least_None; eauto.
        * destruct (Hmin t Ht Hm') as [->|Hlt]; [left; reflexivity|right; right; auto].
        * right. left. pose proof (cands_sorted p) as Hs. rewrite Hc in Hs.
          eapply sorted_split_gt; eauto.
  Qed.

  Lemma filter_sorted f l : StronglySorted Z.lt l -> StronglySorted Z.lt (filter f l).
  Proof.
    induction 1 as [|a l Hs IH Hf]; simpl; [constructor|].
    destruct (f a); auto. constructor; auto.
    rewrite Forall_forall in *. intros x Hx. apply filter_In in Hx. apply Hf, Hx.
  Qed.

  Lemma existsb_eqb_In c l : existsb (Z.eqb c) l = true <-> In c l.
  Proof.
    rewrite existsb_exists. split.
    - intros (x & Hx & E). apply Z.eqb_eq in E. subst; auto.
    - intros H. exists c. split; auto. apply Z.eqb_refl.
  Qed.

  Lemma next_gt_None k : forall p cur t, length cur = k -> next_gt k p cur = None ->
    length t = k -> matches p t -> ~ lex_lt cur t.
  Proof.
    induction k as [|k IH]; intros p cur t Hc E Ht Hm Hlt.
    - destruct cur, t; simpl in *; try discriminate; contradiction.
    - destruct cur as [|c cs]; [discriminate|]. destruct t as [|v t]; [discriminate|].
      injection Hc as Hc. injection Ht as Ht. simpl in E, Hm, Hlt. destruct Hm as [Hv Hm].
      destruct (if existsb (Z.eqb c) (cands p) then next_gt k (p ++ [c]) cs else None) eqn:E1;
        [discriminate|].
      destruct Hlt as [Hlt|[-> Hlt]].
      + assert (Hin : In v (filter (fun v => c <? v) (cands p))).
        { apply filter_In. split; auto. apply Z.ltb_lt; auto. }
        pose proof (first_some_None _ _ E v Hin) as Hn. simpl in Hn.
        destruct (least k (p ++ [v])) eqn:E'; [discriminate|]. eapply least_None; eauto.
      + apply existsb_eqb_In in Hv. rewrite Hv in E1. exact (IH _ _ _ Hc E1 Ht Hm Hlt).
  Qed.

  Lemma next_gt_Some k : forall p cur r, length cur = k -> next_gt k p cur = Some r ->
    length r = k /\ matches p r /\ lex_lt cur r /\
    forall t, length t = k -> matches p t -> lex_lt cur t -> lex_le r t.
  Proof.
    induction k as [|k IH]; intros p cur r Hc E.
    - destruct cur; simpl in *; discriminate.
    - destruct cur as [|c cs]; [discriminate|]. injection Hc as Hc. simpl in E.
      destruct (if existsb (Z.eqb c) (cands p) then next_gt k (p ++ [c]) cs else None) as [r'|] eqn:E1.
      + injection E as <-. destruct (existsb (Z.eqb c) (cands p)) eqn:Ec; [|discriminate].
        apply existsb_eqb_In in Ec. destruct (IH _ _ _ Hc E1) as (Hl & Hm & Hlt & Hmin).
        repeat split; simpl; auto.
        intros [|v t] Ht; [discriminate|]. injection Ht as Ht. intros [Hv Hm'] [Hgt|[-> Hgt]].
        * right. left. auto.
        * destruct (Hmin t Ht Hm' Hgt) as [->|H]; [left; auto|right; right; auto].
      + apply first_some_Some in E. destruct E as (l1 & x & l2 & Hf & Hx & Hn).
        destruct (least k (p ++ [x])) as [r'|] eqn:E'; [|discriminate]. injection Hx as <-.
        destruct (least_Some _ _ _ E') as (Hl & Hm & Hmin).
        assert (Hxin : In x (filter (fun v => c <? v) (cands p))).
        { rewrite Hf. apply in_or_app. right. left. auto. }
        apply filter_In in Hxin. destruct Hxin as [Hxc Hxgt]. apply Z.ltb_lt in Hxgt.
        repeat split; simpl; auto.
        intros [|v t] Ht; [discriminate|]. injection Ht as Ht. intros [Hv Hm'] [Hgt|[-> Hgt]].
        * assert (Hin : In v (filter (fun v => c <? v) (cands p))).
          { apply filter_In. split; auto. apply Z.ltb_lt; auto. }
          rewrite Hf in Hin. apply in_app_or in Hin. destruct Hin as [Hin|[<-|Hin]].
          -- exfalso. specialize (Hn v Hin). simpl in Hn.
             destruct (least k (p ++ [v])) eqn:E''; [discriminate|]. eapply least_None; eauto.
          -- destruct (Hmin t Ht Hm') as [->|H]; [left; auto|right; right; auto].
          -- right. left. pose proof (filter_sorted (fun v => c <? v) _ (cands_sorted p)) as Hs.
             rewrite Hf in Hs. eapply sorted_split_gt; eauto.
        * exfalso. destruct (existsb (Z.eqb v) (cands p)) eqn:Ec.
          -- exact (next_gt_None _ _ _ _ Hc E1 Ht Hm' Hgt).
          -- apply existsb_eqb_In in Hv. congruence.
  Qed.
End Lex.
Print Assumptions next_gt_Some.
