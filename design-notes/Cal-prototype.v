From Coq Require Import ZArith Lia Bool List ZifyBool.
Import ListNotations.
Open Scope Z_scope.
Ltac Zify.zify_post_hook ::= Z.div_mod_to_equations.

Definition is_leap (y : Z) : bool := (y mod 4 =? 0) && (negb (y mod 100 =? 0) || (y mod 400 =? 0)).
Definition month_len (y m : Z) : Z :=
  if m =? 2 then (if is_leap y then 29 else 28)
  else if (m =? 4) || (m =? 6) || (m =? 9) || (m =? 11) then 30 else 31.
(* days from 1970-01-01 to y-01-01 *)
Definition days_before_year (y : Z) : Z :=
  365 * (y - 1970) + ((y - 1969) / 4 - (y - 1901) / 100 + (y - 1601) / 400).
Definition year_len y := if is_leap y then 366 else 365.

Lemma days_before_year_succ y : days_before_year (y + 1) = days_before_year y + year_len y.
Proof.
  unfold days_before_year, year_len, is_leap.
  destruct (y mod 4 =? 0) eqn:E4; destruct (y mod 100 =? 0) eqn:E100; destruct (y mod 400 =? 0) eqn:E400; cbn [andb orb negb]; lia.
Qed.

Definition cum (m : Z) : Z := nth (Z.to_nat m) [0;0;31;59;90;120;151;181;212;243;273;304;334;365] 0.
Definition days_before_month (y m : Z) : Z := cum m + (if (2 <? m) && is_leap y then 1 else 0).
Definition days_from_civil (y m d : Z) : Z := days_before_year y + days_before_month y m + (d - 1).
Definition weekday (n : Z) : Z := (n + 4) mod 7.
Eval vm_compute in (days_from_civil 2024 2 29, weekday (days_from_civil 2024 2 29), days_from_civil 2262 4 11).

Lemma dbm_13 y : days_before_month y 13 = year_len y.
Proof. unfold days_before_month, year_len. change (cum 13) with 365. change (2 <? 13) with true. cbn [andb]. destruct (is_leap y); lia. Qed.

Lemma dbm_succ y m : 1 <= m <= 12 -> days_before_month y (m + 1) = days_before_month y m + month_len y m.
Proof.
  intros H. assert (m = 1 \/ m = 2 \/ m = 3 \/ m = 4 \/ m = 5 \/ m = 6 \/ m = 7 \/ m = 8 \/ m = 9 \/ m = 10 \/ m = 11 \/ m = 12) as Hm by lia.
  unfold days_before_month, month_len.
  repeat (destruct Hm as [Hm|Hm]); subst m;
  match goal with |- cum ?a + (if (2 <? ?a) && _ then _ else _) = cum ?b + (if (2 <? ?b) && _ then _ else _) + _ =>
    let ca := eval vm_compute in (cum a) in let cb := eval vm_compute in (cum b) in
    let la := eval vm_compute in (2 <? a) in let lb := eval vm_compute in (2 <? b) in
    change (cum a) with ca; change (cum b) with cb; change (2 <? a) with la; change (2 <? b) with lb end;
  cbn [andb orb Z.eqb Pos.eqb]; destruct (is_leap y); lia.
Qed.

(* lexicographic monotonicity on valid dates *)
Definition valid_date y m d := 1 <= m <= 12 /\ 1 <= d <= month_len y m.
Lemma month_len_pos y m : 28 <= month_len y m <= 31.
Proof. unfold month_len. destruct (m =? 2); [destruct (is_leap y); lia|]. destruct ((m =? 4) || (m =? 6) || (m =? 9) || (m =? 11)); lia. Qed.

Lemma dbm_mono y m1 m2 : 1 <= m1 -> m1 < m2 -> m2 <= 13 -> days_before_month y m1 + month_len y m1 <= days_before_month y m2.
Proof.
  intros H1 H12 H2. assert (exists k, m2 = m1 + 1 + Z.of_nat k) as [k ->] by (exists (Z.to_nat (m2 - m1 - 1)); lia).
  clear H12. induction k as [|k IH].
  - rewrite Z.add_0_r. rewrite dbm_succ by lia. lia.
  - replace (m1 + 1 + Z.of_nat (S k)) with ((m1 + 1 + Z.of_nat k) + 1) by lia.
    rewrite dbm_succ by lia. pose proof (month_len_pos y (m1 + 1 + Z.of_nat k)). specialize (IH ltac:(lia)). lia.
Qed.
