(* PROTOTYPE (design phase): loop / timer / interrupt-token transition system and the
   no-lost-wake-up invariant (C05), with API calls split into "mutate" and "send token". *)
From Coq Require Import ZArith List Bool Lia.
Import ListNotations.
Open Scope Z_scope.

Inductive pc := Size | Tick | Select | Fetch.
Record st := { q : list Z; tok : bool; armed : bool; dl : Z; armed_at : Z; chan : bool;
               now : Z; lpc : pc; pend : nat }.
Definition minp (l : list Z) : Z := fold_right Z.min (hd 0 l) l.
Definition far : Z := 9223372036854775807.

Inductive label :=
| Adv (dt : Z)            (* clock advances, dt >= 0 *)
| TimerFire               (* runtime delivers the tick into the (buffered) timer channel *)
| LoopSize | LoopTick
| SelTick | SelTok        (* the two ways out of select (ctx.Done omitted) *)
| LoopFetch (q' : list Z) (* pop/classify/push under the locker: any new contents; sends token *)
| ApiMutate (q' : list Z) (* an API body changed the queue (any change) *)
| ApiToken.               (* ... and then called Reset() *)

Definition set_timer (s : st) (d : Z) (p : pc) : st :=
  {| q := q s; tok := tok s; armed := true; dl := now s + d; armed_at := now s; chan := chan s;
     now := now s; lpc := p; pend := pend s |}.

Definition step (s : st) (l : label) : option st :=
  match l with
  | Adv dt => if 0 <=? dt then Some {| q := q s; tok := tok s; armed := armed s; dl := dl s;
        armed_at := armed_at s; chan := chan s; now := now s + dt; lpc := lpc s; pend := pend s |} else None
  | TimerFire => if armed s && (dl s <=? now s) then Some {| q := q s; tok := tok s; armed := false; dl := dl s;
        armed_at := armed_at s; chan := true; now := now s; lpc := lpc s; pend := pend s |} else None
  | LoopSize => match lpc s with Size =>
        match q s with [] => Some (set_timer s far Select) | _ => Some {| q := q s; tok := tok s; armed := armed s;
          dl := dl s; armed_at := armed_at s; chan := chan s; now := now s; lpc := Tick; pend := pend s |} end
      | _ => None end
  | LoopTick => match lpc s with Tick =>
        match q s with [] => Some (set_timer s 0 Select)
        | _ => Some (set_timer s (Z.max 0 (minp (q s) - now s)) Select) end
      | _ => None end
  | SelTick => match lpc s with Select => if chan s then Some {| q := q s; tok := tok s; armed := armed s; dl := dl s;
        armed_at := armed_at s; chan := false; now := now s; lpc := Fetch; pend := pend s |} else None | _ => None end
  | SelTok => match lpc s with Select => if tok s then Some {| q := q s; tok := false; armed := false; dl := dl s;
        armed_at := armed_at s; chan := chan s; now := now s; lpc := Size; pend := pend s |} else None | _ => None end
  | LoopFetch q' => match lpc s with Fetch => Some {| q := q'; tok := true; armed := armed s; dl := dl s;
        armed_at := armed_at s; chan := chan s; now := now s; lpc := Size; pend := pend s |} | _ => None end
  | ApiMutate q' => Some {| q := q'; tok := tok s; armed := armed s; dl := dl s; armed_at := armed_at s;
        chan := chan s; now := now s; lpc := lpc s; pend := S (pend s) |}
  | ApiToken => match pend s with O => None | S n => Some {| q := q s; tok := true; armed := armed s; dl := dl s;
        armed_at := armed_at s; chan := chan s; now := now s; lpc := lpc s; pend := n |} end
  end.

Fixpoint run (s : st) (tr : list label) : option st :=
  match tr with [] => Some s | l :: tr' => match step s l with Some s' => run s' tr' | None => None end end.

Definition init : st := {| q := []; tok := false; armed := false; dl := 0; armed_at := 0; chan := false;
                           now := 0; lpc := Size; pend := 0 |}.

(* parked = blocked in select with nothing pending and no API call half-way *)
Definition parked (s : st) : Prop :=
  lpc s = Select /\ tok s = false /\ chan s = false /\ pend s = O.

Definition Inv (s : st) : Prop :=
  (armed_at s <= now s) /\
  (parked s -> armed s = true /\ (q s <> [] -> dl s <= Z.max (armed_at s) (minp (q s)))).

Lemma inv_init : Inv init.
Proof. split; [simpl; lia|]. intros (H & _). discriminate. Qed.

Lemma inv_step s l s' : Inv s -> step s l = Some s' -> Inv s'.
Proof.
  intros [Ht Hp] Hs. destruct l; simpl in Hs.
  - destruct (0 <=? dt) eqn:E; [|discriminate]. injection Hs as <-. apply Z.leb_le in E.
    split; simpl; [lia|]. intros (H1 & H2 & H3 & H4). apply Hp. repeat split; auto.
  - destruct (armed s && (dl s <=? now s)); [|discriminate]. injection Hs as <-.
    split; simpl; auto. intros (_ & _ & H & _). discriminate.
  - destruct (lpc s) eqn:Epc; try discriminate. destruct (q s) eqn:Eq; injection Hs as <-.
    + split; simpl; [lia|]. intros _. split; auto. intros H; congruence.
    + split; simpl; auto. intros (H & _). discriminate.
  - destruct (lpc s) eqn:Epc; try discriminate. destruct (q s) eqn:Eq; injection Hs as <-.
    + split; simpl; [lia|]. intros _. split; auto. rewrite Eq. intros H; congruence.
    + split; [simpl; lia|]. intros _. split; [reflexivity|]. intros _. unfold set_timer; cbn [dl armed_at q now]. rewrite Eq. lia.
  - destruct (lpc s) eqn:Epc; try discriminate. destruct (chan s); [|discriminate]. injection Hs as <-.
    split; simpl; auto. intros (H & _). discriminate.
  - destruct (lpc s) eqn:Epc; try discriminate. destruct (tok s); [|discriminate]. injection Hs as <-.
    split; simpl; auto. intros (H & _). discriminate.
  - destruct (lpc s) eqn:Epc; try discriminate. injection Hs as <-.
    split; simpl; auto. intros (H & _). discriminate.
  - injection Hs as <-. split; simpl; auto. intros (_ & _ & _ & H). discriminate.
  - destruct (pend s) eqn:Ep; [discriminate|]. injection Hs as <-.
    split; simpl; auto. intros (_ & H & _). discriminate.
Qed.

Theorem no_lost_wakeup : forall tr s, run init tr = Some s -> Inv s.
Proof.
  intros tr. assert (G : forall s0, Inv s0 -> forall s, run s0 tr = Some s -> Inv s).
  { induction tr as [|l tr IH]; simpl; intros s0 H0 s Hr.
    - injection Hr as <-. exact H0.
    - destruct (step s0 l) eqn:E; [|discriminate]. eapply IH; [eapply inv_step; eauto|exact Hr]. }
  intros s. apply G, inv_init.
Qed.

(* enabledness: a parked loop with a due head can always be woken by the timer *)
Theorem due_head_enables_timer : forall tr s, run init tr = Some s -> parked s -> q s <> [] ->
  minp (q s) <= now s -> exists s', step s TimerFire = Some s'.
Proof.
  intros tr s Hr Hp Hq Hdue. destruct (no_lost_wakeup _ _ Hr) as [Ht Hi].
  destruct (Hi Hp) as [Ha Hd]. specialize (Hd Hq). simpl. rewrite Ha.
  assert (dl s <=? now s = true) as -> by (apply Z.leb_le; lia). simpl. eauto.
Qed.

(* non-vacuity: a parked state with a far head is reachable, and a due job then wakes the loop *)
Example parked_reachable :
  exists s, run init [ApiMutate [1000]; ApiToken; LoopSize; LoopTick; SelTok; LoopSize; LoopTick] = Some s /\ parked s /\ q s = [1000].
Proof. eexists. split; [vm_compute; reflexivity|]. repeat split. Qed.
Print Assumptions no_lost_wakeup.
