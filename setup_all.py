"""./check --setup : build everything from files on disk (offline)."""
import importlib
import os
import sys

import vlib

PROJECTS = []  # (coq project, genparams section or None)


def discover():
    out = []
    cdir = os.path.join(vlib.VERIF, "coq")
    for p in sorted(os.listdir(cdir)):
        if os.path.exists(os.path.join(cdir, p, "_CoqProject")):
            out.append(p)
    return out


def main():
    rc = 0
    binp, out = vlib.go_build("genparams")
    if binp is None:
        print(out)
        return 1
    # regenerate every Params.v through the checks' own genparams functions
    for prop in ["C%02d" % i for i in range(1, 19)]:
        try:
            mod = importlib.import_module("checks." + prop.lower())
        except ModuleNotFoundError:
            continue
        gp = getattr(mod, "genparams", None)
        if gp:
            ok, o = gp()
            if not ok:
                print("genparams for %s failed:\n%s" % (prop, o))
                rc = 1
    for proj in discover():
        ok, o = vlib.coq_build(proj)
        print("coq project %s: %s" % (proj, "ok" if ok else "FAILED"))
        if not ok:
            print(o[-4000:])
            rc = 1
    # harness commands
    hdir = os.path.join(vlib.VERIF, "harness", "cmd")
    for cmd in sorted(os.listdir(hdir)):
        b, o = vlib.go_build(cmd)
        print("harness %s: %s" % (cmd, "ok" if b else "FAILED"))
        if b is None:
            print(o[-3000:])
            rc = 1
    # extracted OCaml drivers
    odir = os.path.join(vlib.VERIF, "ocaml")
    if os.path.isdir(odir):
        for proj in sorted(os.listdir(odir)):
            if os.path.exists(os.path.join(odir, proj, "build.sh")):
                b, o = vlib.ocaml_build(proj)
                print("ocaml %s: %s" % (proj, "ok" if b else "FAILED"))
                if b is None:
                    print(o[-3000:])
                    rc = 1
    # per-check extra setup (e.g. race builds)
    for prop in ["C%02d" % i for i in range(1, 19)]:
        try:
            mod = importlib.import_module("checks." + prop.lower())
        except ModuleNotFoundError:
            continue
        st = getattr(mod, "setup", None)
        if st:
            st()
    return rc
