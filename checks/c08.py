"""C08 -- Pause, resume, delete and clear take effect on firing immediately."""
import vlib
from checks import sched_common as sc

PROJ = "sched"

MANIFEST = dict(
    engine="sched",
    technique="Coq proof (what a successful PauseJob / DeleteJob / Clear / ResumeJob leaves behind; an invariant over all label sequences "
              "showing that an inactive job consumes no fire time) + step correspondence through the extracted model + event-log oracles "
              "on free-running schedulers with concurrent pause / resume / delete / re-schedule / clear",
    text="Machine-checked Coq theorems: PauseJob = Ok leaves {suspended, MaxInt64, same trigger} and makes no trigger call; DeleteJob / Clear "
         "= Ok leave no entry; from any state in which a job is absent or suspended, along any trace of any number of schedulers, clients, "
         "foreign changes and clock advances that contains no resume / re-schedule / foreign push of that job, there is no trigger call for "
         "it and no valid dequeue of it, every execution that still starts had been dequeued before, and a paused entry stays exactly as it "
         "is; ResumeJob = Ok asks the trigger with the clock of the call and installs that fire time. Tie: step correspondence that places "
         "API calls between fetch steps, and free-running schedulers in all modes with two client goroutines pausing, resuming, deleting, "
         "re-scheduling and clearing firing jobs: after a successful call returns no trigger call for the job is recorded until the next "
         "resume / re-schedule is invoked, and at most the already dequeued executions start.",
    design_ref="6 C08")

genparams = sc.genparams

CONFIGS = ([(m, "api", None) for m in sc.MODES] + [(m, "shared,api", "asynctimerchan=0") for m in sc.MODES] +
           [(m, "api,slow,foreign", None) for m in sc.MODES])


def run(ctx):
    return sc.dynamic_check(
        ctx, "C08", 8, CONFIGS,
        sc.STEP_RULE + "free runs: 9 configurations x 0.5 s (3 s thorough) with two clients calling PauseJob/ResumeJob/DeleteJob/ScheduleJob"
                       "(Replace, Suspended)/Clear every 0.5-4 ms on three firing jobs; for every successful pause/delete/clear/suspended-"
                       "schedule the window until the next resume/re-schedule invocation must contain no trigger call of the job and no more "
                       "executions than on-time dequeues made before the call returned",
        sc.COMMON_ASSUMPTIONS,
        "the ordering of a call's return against trigger calls and execution starts is taken from one monotonic clock read by the harness "
        "goroutines; that the locker serialises the call with the loop's pop/classify/push section is the atomicity assumption, observed by "
        "the recording locker, not proved")


def replay(ctx, path):
    return sc.dynamic_replay(ctx, "C08", path)
