"""Shared machinery of the scheduler-engine checks C03, C04, C08, C09 (model: coq/sched, harness: schedh).

Step traces (harness `schedh steps`): every line is  <command> TAB <what the implementation did>.  The
commands are run through the extracted Coq model (ocaml/sched/driver.ml) and the answers compared
(`mismatches`); independently a small specification written from the property texts (registry table,
fetch classification) is applied to what the implementation did (`failures`).
"""
import json
import os
import re
import subprocess

import vlib

PROJ = "sched"
MAXI = 9223372036854775807


def genparams(need_fetch=True):
    """Regenerate Gen/ParamsApi.v and Gen/ParamsFetch.v from the Go sources (fail closed, per file).
    need_fetch=False (C09): the facts about validateJob / fetchAndReschedule are regenerated when the translator
    can read them, but their absence does not break this property's step."""
    binp, out = vlib.go_build("genparams")
    if binp is None:
        return False, out
    gen = os.path.join(vlib.coq_dir(PROJ), "theories", "Gen")
    results = {}
    # trigsrc: quartz/trigger.go's SimpleTrigger / RunOnceTrigger translated from source (TrigTie.v, used by Props/C04.v)
    for section, fn in (("sched-api", "ParamsApi.v"), ("sched-fetch", "ParamsFetch.v"), ("trigsrc", "TrigSrc.v")):
        rc, out = vlib.run([binp, "-repo", vlib.REPO, section])
        results[section] = (rc, out)
        if rc == 0:
            vlib.write_if_changed(os.path.join(gen, fn), out)
    if results["sched-api"][0] != 0:
        return False, results["sched-api"][1]
    if need_fetch and results["sched-fetch"][0] != 0:
        return False, results["sched-fetch"][1]
    if need_fetch and results["trigsrc"][0] != 0:
        return False, results["trigsrc"][1]
    return True, ""


def proof_step(ctx, prop, need_fetch=True):
    """Like vlib.proof_step, but builds only what Props/<prop>.v depends on, so that a generated fact
    that matters to another property of this engine does not break this one's proofs."""
    broken = None
    ok, out = genparams(need_fetch)
    if not ok:
        broken = {"stage": "genparams", "detail": out[-3000:],
                  "what": "translator could not read the expected declarations from the scheduler sources"}
    hits = vlib.coq_source_scan(PROJ)
    if hits:
        broken = {"stage": "source-scan", "detail": hits, "what": "forbidden command in the Coq development"}
    d = vlib.coq_dir(PROJ)
    target = "theories/Props/%s.vo" % prop
    with vlib.Lock("coq-" + PROJ):
        mk = os.path.join(d, "Makefile.coq")
        cp = os.path.join(d, "_CoqProject")
        rc = 0
        if (not os.path.exists(mk)) or os.path.getmtime(mk) < os.path.getmtime(cp):
            rc, out = vlib.run(["coq_makefile", "-f", "_CoqProject", "-o", "Makefile.coq"], cwd=d, timeout=120)
        if rc == 0:
            rc, out = vlib.run(["make", "-f", "Makefile.coq", "-j16", target], cwd=d, timeout=1500)
    ok = rc == 0
    if not ok and broken is None:
        m = re.search(r"File \"([^\"]+)\", line (\d+)[^\n]*\n(Error:[^\n]*(\n[^\n]+){0,6})", out)
        broken = {"stage": "coq-build", "what": "a proof obligation of the development no longer checks",
                  "file": m.group(1) if m else None, "line": m.group(2) if m else None,
                  "detail": (m.group(3) if m else out[-3000:])}
    res = {"ok": False, "obligations": 0, "discharged": 0, "theorems": [], "axioms": [], "log": ""}
    if ok:
        res = vlib.props_check(PROJ, prop)
        if not res["ok"] and broken is None:
            broken = {"stage": "props", "what": "property theorem file does not check or relies on a non-stdlib axiom",
                      "file": res.get("file"), "detail": res["log"][-3000:]}
    return res, broken


def build_all(race=False):
    binp, out = vlib.go_build("schedh", race=race)
    if binp is None:
        raise RuntimeError("cannot build schedh: " + out[-3000:])
    return binp


def build_driver():
    ml, out = vlib.ocaml_build(PROJ)
    return ml, out


def workdir(ctx):
    d = os.path.join(vlib.BUILD, "sched-" + ctx.prop + vlib._repo_tag())
    os.makedirs(d, exist_ok=True)
    return d


# ---------------------------------------------------------------------------
# the specification used as oracle on step traces (written from the property texts)
# ---------------------------------------------------------------------------

class Trig:
    def __init__(self, spec):
        t = spec.split()
        self.kind = t[0]
        if self.kind == "si":
            self.interval = int(t[1])
        elif self.kind == "ro":
            self.delay, self.expired = int(t[1]), t[2] == "1"
        elif self.kind == "fl":
            self.code = int(t[1])
        else:
            self.script = [] if t[1] == "-" else t[1].split(",")
            self.dflt = t[2]

    def fire(self, prev):
        """-> result string as printed: a number or E<code>; advances the trigger."""
        if self.kind == "si":
            return str(prev + self.interval)
        if self.kind == "ro":
            if self.expired:
                return "E0"
            self.expired = True
            return str(prev + self.delay)
        if self.kind == "fl":
            return "E%d" % self.code
        r = self.script.pop(0) if self.script else self.dflt
        # Ew: the trigger reports expiry with the sentinel wrapped (fmt.Errorf("...: %w", ErrTriggerExpired)); it is an expiry
        return "E0" if r == "Ew" else r


def err_of(res):
    return "ETX" if res == "E0" else "ETC" + res[1:]


def reg_str(reg):
    return "{" + ";".join("%s:%d:%d:%d" % (k, v[0], v[1], v[2]) for k, v in sorted(reg.items())) + "}"


def parse_reg(s):
    s = s.strip()
    if not (s.startswith("{") and s.endswith("}")):
        return None
    reg = {}
    body = s[1:-1]
    if not body:
        return reg
    for it in body.split(";"):
        p = it.rsplit(":", 3)
        if len(p) != 4:
            return None
        try:
            reg[p[0]] = [int(p[1]), int(p[2]), int(p[3])]
        except ValueError:
            return None
    return reg


def spec_api(reg, trigs, now, toks, fault=None):
    """Registry specification (C09).  toks: op tokens after the clock.  Mutates reg/trigs.
    Returns (result, calls) as printed.  fault = "push" | "remove": the queue's next Push / Remove fails with a
    transient error; the call must hand that error back (EQF) -- what is left of the entry is what the current
    code leaves (Remove failed: nothing changed; Push failed after the Remove: the entry is lost)."""
    op = toks[0]
    if op == "S":
        name, group, r, s, tid = toks[1:6]
        if name in ("-jdnil-", "-nil-", "-empty-") or tid == "nil":
            return "EIA", []
        k = name + "/" + group
        tid = int(tid)
        calls = []
        if s == "1":
            ent = [1, MAXI, tid]
        else:
            res = trigs[tid].fire(now)
            calls.append("%d:%d:%s" % (tid, now, res))
            if res.startswith("E"):
                return err_of(res), calls
            ent = [0, int(res), tid]
        if fault == "push":
            return "EQF", calls
        if k in reg and r != "1":
            return "EAE", calls
        reg[k] = ent
        return "ok", calls
    if op in "DPRG":
        name, group = toks[1:3]
        if name == "-nil-":
            return "EIA", []
        k = name + "/" + group
        if op == "D" and fault == "remove":
            return "EQF", []
        if k not in reg:
            return "ENF", []
        e = reg[k]
        if op == "D":
            del reg[k]
            return "ok", []
        if op == "G":
            return "J:%s:%d:%d:%d" % (k, e[0], e[1], e[2]), []
        if op == "P":
            if e[0]:
                return "ESU", []
            if fault == "remove":
                return "EQF", []
            if fault == "push":
                del reg[k]
                return "EQF", []
            reg[k] = [1, MAXI, e[2]]
            return "ok", []
        if not e[0]:
            return "EAC", []
        res = trigs[e[2]].fire(now)
        calls = ["%d:%d:%s" % (e[2], now, res)]
        if res.startswith("E"):
            return err_of(res), calls
        if fault == "remove":
            return "EQF", calls
        if fault == "push":
            del reg[k]
            return "EQF", calls
        reg[k] = [0, int(res), e[2]]
        return "ok", calls
    if op == "C":
        reg.clear()
        return "ok", []
    if op == "K":
        return "K:" + ",".join(sorted(reg)), []
    raise ValueError("bad op " + " ".join(toks))


def spec_fetch(reg, trigs, now, thr, hint, push_fails=False):
    """Fetch specification (C04 text): pop a minimum (the hinted key if it is one), classify, re-base or keep.
    Returns the expected observation "<ret> [calls] <M..|-> " (without the token field) ; mutates reg/trigs."""
    if not reg:
        return "none [] -"
    minp = min(v[1] for v in reg.values())
    k = hint if (hint in reg and reg[hint][1] == minp) else None
    if k is None:
        cands = sorted(kk for kk, v in reg.items() if v[1] == minp)
        if len(cands) != 1:
            return None  # a tie the observation does not resolve: no verdict
        k = cands[0]
    susp, prio, tid = reg[k]
    if susp:
        reg[k] = [1, MAXI, tid]
        if push_fails:
            del reg[k]      # a popped job whose push-back fails is lost (never duplicated)
        return "%s:%d:0 [] -" % (k, prio)
    if prio < now - thr:
        res = trigs[tid].fire(now)
        if res.startswith("E") or push_fails:
            del reg[k]
        else:
            reg[k] = [0, int(res), tid]
        return "%s:%d:0 [%d:%d:%s] M%d" % (k, prio, tid, now, res, prio)
    if prio > now:
        if push_fails:
            del reg[k]
        return "%s:%d:0 [] -" % (k, prio)
    res = trigs[tid].fire(prio)
    if res.startswith("E") or push_fails:
        del reg[k]
    else:
        reg[k] = [0, int(res), tid]
    return "%s:%d:1 [%d:%d:%s] -" % (k, prio, tid, prio, res)


def spec_foreign(reg, toks):
    if toks[0] == "push":
        name, group, prio, s, r, tid = toks[1:7]
        k = name + "/" + group
        if k in reg and r != "1":
            return
        reg[k] = [int(s), int(prio), int(tid)]
    elif toks[0] == "remove":
        reg.pop(toks[1] + "/" + toks[2], None)
    else:
        reg.clear()


# ---------------------------------------------------------------------------
# running and comparing a step trace
# ---------------------------------------------------------------------------

def norm_fetch(obs, model):
    """Apply the wildcards of an observation (misfire offer not observable, token already pending) to the model line."""
    o = obs.split(" | ")
    m = model.split(" | ")
    if len(o) != 2 or len(m) != 2:
        return model
    ot, mt = o[0].split(" "), m[0].split(" ")
    if len(ot) != 4 or len(mt) != 4:
        return model
    if ot[2] == "?":
        mt[2] = "?"
    if ot[3] == "r?":
        mt[3] = "r?"
    return " ".join(mt) + " | " + m[1]


def run_steps(ctx, binp, ml, profile, seed, only=None, timeout=900):
    """-> dict(lines, stats, mismatches [...], failures [...], spec_disagreements, ...); streams the trace."""
    wd = workdir(ctx)
    trace = os.path.join(wd, "%s-%d%s.trace" % (profile, seed, "" if only is None else "-only%d" % only))
    cmd = [binp, "steps", profile, str(seed), trace] + ([str(only)] if only is not None else [])
    rc, out = vlib.run(cmd, timeout=timeout)
    if rc != 0:
        raise RuntimeError("schedh steps failed: " + out[-2000:])
    stats = json.loads([l for l in out.splitlines() if l.startswith("{")][-1])
    inp, mout = trace + ".cmds", trace + ".model"
    n = 0
    with open(trace, encoding="utf-8") as f, open(inp, "w", encoding="utf-8") as g:
        for line in f:
            if not line.startswith("#"):
                g.write(line.split("\t", 1)[0].rstrip("\n") + "\n")
                n += 1
    if ml is not None:
        with open(mout, "w") as mo:
            p = subprocess.run([ml, inp], stdout=mo, stderr=subprocess.PIPE, text=True, timeout=timeout)
        if p.returncode != 0:
            raise RuntimeError("model driver failed: " + p.stderr[-2000:])
    res = {"lines": n, "stats": stats, "mismatches": [], "failures": [], "spec_disagreements": 0,
           "api_calls": 0, "fetches": 0, "foreign": 0, "fetch_classes": {}, "result_classes": {}, "no_verdict": 0,
           "trace": trace, "dropped_reports": 0}
    trigs, reg = {}, {}   # oracle state for line-per-command traces
    seq_notes = []
    produced, flagged = {}, set()   # per job key: fire times its own trigger returned for it (or a foreign writer queued)
    bad_seq = False
    seq_cmds = []
    cur = ""
    LIMIT = 200           # reports kept (counts stay exact)

    def keep(lst, item):
        if len(lst) < LIMIT:
            lst.append(item)
        else:
            res["dropped_reports"] += 1

    mf = open(mout, encoding="utf-8") if ml is not None else None
    with open(trace, encoding="utf-8") as f:
        for line in f:
            if line.startswith("#"):
                cur = line[1:].strip()
                continue
            pp = line.rstrip("\n").split("\t")
            c, o = pp[0], (pp[1] if len(pp) > 1 else "")
            # third field: of a Q line the sequence id; of a step line extra facts for the oracles (after=<clock after the step> ...)
            meta = pp[2] if (len(pp) > 2 and c.startswith("Q ")) else cur
            extra = dict(x.split("=", 1) for x in pp[2].split(" ") if "=" in x) if (len(pp) > 2 and not c.startswith("Q ")) else {}
            mline, sline = None, None
            if mf is not None:
                ms = mf.readline().rstrip("\n").split("\t")
                mline, sline = ms[0], (ms[1] if len(ms) > 1 else "-")
            if c.startswith("Q "):
                # a whole API sequence on one line: results per call, final registry
                parts = c.split(" ;; ")[1:]
                tr, rg, outs = {}, {}, []
                for pc in parts:
                    t = pc.split()
                    if t[0] == "T":
                        tr[int(t[1])] = Trig(" ".join(t[2:]))
                        outs.append("ok")
                    else:
                        r, calls = spec_api(rg, tr, int(t[1]), t[2:])
                        outs.append(r + " [" + ",".join(calls) + "]")
                        res["api_calls"] += 1
                        cls = r.split(":")[0]
                        res["result_classes"][cls] = res["result_classes"].get(cls, 0) + 1
                want = " ;; ".join(outs) + " | " + reg_str(rg)
                if o != want:
                    keep(res["failures"], {"case": {"sequence": meta, "commands": parts, "profile": profile, "seed": seed},
                                           "observed": o, "specification": want,
                                           "why": ["API results / final registry differ from the sequential registry specification"]})
                if mline is not None:
                    if o != mline:
                        keep(res["mismatches"], {"case": {"sequence": meta, "commands": parts, "profile": profile, "seed": seed},
                                                 "observed": o, "model": mline})
                    if sline is not None and sline != "-":
                        # Coq's registry specification against this file's copy of it
                        so = " ;; ".join(("-" if pc.startswith("T ") else x.split(" [")[0]) for pc, x in zip(parts, outs)) + " | " + reg_str(rg)
                        if sline != so:
                            res["spec_disagreements"] += 1
                continue
            t = c.split()
            if t[0] == "reset":
                trigs, reg, bad_seq, seq_cmds = {}, {}, False, []
                seq_notes = []
                produced, flagged = {}, set()
                continue
            seq_cmds.append(c)
            if t[0] == "T":
                trigs[int(t[1])] = Trig(" ".join(t[2:]))
                continue

            if extra.get("reused-detail"):
                seq_notes.append("%s  <- %s" % (c, extra["reused-detail"]))

            def context():
                d = {"sequence": meta, "commands": seq_cmds[-80:], "step": c, "profile": profile, "seed": seed}
                if seq_notes:
                    d["notes"] = list(seq_notes)
                return d

            oparts = o.split(" | ")
            oreg = parse_reg(oparts[1]) if len(oparts) == 2 else None
            # --- C03 on what was observed alone (independent of the step specification and of earlier differences) ---
            ocalls = re.findall(r"\[([^\]]*)\]", oparts[0])
            ocalls = [x.split(":") for x in ocalls[-1].split(",") if x] if ocalls else []
            okey = None
            if t[0] in ("A", "AXP", "AXR") and len(t) >= 5 and t[2] in ("S", "R"):
                okey = t[3] + "/" + t[4]
            elif t[0] in ("F", "FX") and oparts[0].split(" ")[0].count(":") >= 2:
                okey = oparts[0].split(" ")[0].rsplit(":", 2)[0]
            if t[0] in ("F", "FX") and okey is not None:
                ret = oparts[0].split(" ")[0].rsplit(":", 2)
                if ret[2] == "1" and re.fullmatch(r"-?\d+", ret[1]):
                    prio = int(ret[1])
                    after = int(extra["after"]) if re.fullmatch(r"\d+", extra.get("after", "")) else None
                    if after is not None and prio > after and ("early", okey) not in flagged:
                        flagged.add(("early", okey))
                        keep(res["failures"], {
                            "case": context(), "observed": o, "specification": "%s:%d:0 [] - (not due: requeued unchanged, not executed)" % (okey, prio),
                            "early_execution": True, "step_facts": extra, "fire_time": prio, "clock_after_the_fetch": after, "early_by_ns": prio - after,
                            "why": ["fetchAndReschedule returned job %s as valid (to be executed) for fire time %d, but the clock read AFTER the "
                                    "fetch had returned was %d: the job is run at least %d ns before its fire time" % (okey, prio, after, prio - after)]})
                    otid = str(reg[okey][2]) if okey in reg else None   # the trigger of the entry as registered before this fetch
                    own = produced.get((okey, otid), set()) if otid is not None else set().union(*[v for (kk, _), v in produced.items() if kk == okey] or [set()])
                    if prio not in own and ("invented", okey) not in flagged:
                        flagged.add(("invented", okey))
                        keep(res["failures"], {
                            "case": context(), "observed": o, "specification": "a valid dequeue carries a fire time returned by the job's own trigger",
                            "invented_fire_time": True, "step_facts": extra, "fire_time": prio,
                            "trigger_of_the_entry": otid, "fire_times_its_trigger_produced_for_the_job": sorted(own)[-8:],
                            "why": ["fetchAndReschedule returned job %s as valid (to be executed) for the instant %d, which none of the NextFireTime "
                                    "calls made for this job on its trigger (%s) returned (and no foreign writer queued with that trigger): an "
                                    "execution without a fire time of the job's own trigger" % (okey, prio, otid)]})
            if okey is not None:
                for cc in ocalls:
                    if len(cc) == 3 and re.fullmatch(r"-?\d+", cc[2]):
                        produced.setdefault((okey, cc[0]), set()).add(int(cc[2]))
            if t[0] == "X" and len(t) >= 8 and t[1] == "push":
                produced.setdefault((t[2] + "/" + t[3], t[7]), set()).add(int(t[4]))
            # --- model ---
            if mline is not None and o != mline:
                ml2 = norm_fetch(o, mline) if t[0] in ("F", "FX") else mline
                if o != ml2 and not bad_seq:
                    keep(res["mismatches"], {"case": context(), "observed": o, "model": mline})
            # --- oracle ---
            want = None
            got = o
            susp_before = ()
            reg_before = reg_str(reg)
            if t[0] in ("A", "AXP", "AXR"):
                res["api_calls"] += 1
                r, calls = spec_api(reg, trigs, int(t[1]), t[2:], {"AXP": "push", "AXR": "remove"}.get(t[0]))
                cls = r.split(":")[0]
                res["result_classes"][cls] = res["result_classes"].get(cls, 0) + 1
                want = r + " [" + ",".join(calls) + "] | " + reg_str(reg)
            elif t[0] in ("F", "FX"):
                res["fetches"] += 1
                hint = None if t[3] == "-" else t[3] + "/" + t[4]
                susp_before = {k for k, v in reg.items() if v[0]}
                w = spec_fetch(reg, trigs, int(t[1]), int(t[2]), hint, push_fails=(t[0] == "FX"))
                if w is None:
                    res["no_verdict"] += 1
                else:
                    cls = "empty" if w.startswith("none") else ("valid" if w.split(" ")[0].endswith(":1") else
                                                                ("misfire" if " M" in w else "requeued"))
                    res["fetch_classes"][cls] = res["fetch_classes"].get(cls, 0) + 1
                    want = w + " | " + reg_str(reg)
                    ot = oparts[0].split(" ")
                    if len(ot) == 4:
                        if ot[2] == "?":
                            wt = w.split(" ")
                            wt[2] = "?"
                            want = " ".join(wt) + " | " + reg_str(reg)
                        got = " ".join(ot[:3]) + " | " + (oparts[1] if len(oparts) == 2 else "")
            else:
                res["foreign"] += 1
                spec_foreign(reg, t[1:])
                want = "ok | " + reg_str(reg)
            if want is not None and got != want and not bad_seq:
                fl = {"case": context(), "observed": o, "specification": want,
                      "why": ["the implementation's answer differs from the property's specification of this step"]}
                if t[0] in ("F", "FX") and want.split(" ")[0].rsplit(":", 2)[0] in susp_before:
                    fl["popped_suspended"] = True
                if t[0] == "F" and len(oparts[0].split(" ")) == 4 and oparts[0].split(" ")[2] == "-" and " M" in want.split(" | ")[0]:
                    how = ("a listener goroutine was parked in a receive on the unbuffered MisfiredChan" if extra.get("listener-parked-in-receive") == "1"
                           else "MisfiredChan had free capacity (%s occupied before the fetch)" % extra.get("misfired-chan", "0"))
                    fl["misfire_not_offered"] = True
                    fl["why"] = ["the dequeued fire time was more than OutdatedThreshold late (skipped and re-based), but it was not offered to "
                                 "MisfiredChan although " + how] + fl["why"]
                if t[0] == "F" and okey is not None and any(len(cc) == 3 and cc[2].startswith("E") for cc in ocalls) \
                        and oreg is not None and okey in oreg:
                    fl["job_kept_after_trigger_error"] = True
                    fl["why"] = ["the job's trigger failed (%s) when asked for the fire time after %s, so the job has to leave the registry, but it is "
                                 "still registered: %s:%s" % ([cc[2] for cc in ocalls if len(cc) == 3][-1], oparts[0].split(" ")[0].rsplit(":", 2)[1],
                                                              okey, ":".join(str(x) for x in oreg[okey]))] + fl["why"]
                if t[0] in ("A", "AXP", "AXR") and o.startswith("E") and oreg is not None and reg_str(oreg) != reg_before \
                        and want.split(" | ")[-1] == reg_before:
                    fl["error_changed_registry"] = True
                    fl["registry_before"] = reg_before
                    fl["why"] = ["the call returned an error (%s) but the registry is not what it was before the call: before %s, after %s" % (
                        o.split(" ")[0], reg_before, reg_str(oreg))] + fl["why"]
                if t[0] in ("A", "AXP", "AXR") and len(t) > 2 and t[2] == "R" and o.startswith("ok") and want.startswith("ok") and o != want:
                    fl["why"] = ["ResumeJob returned Ok, but the fire time of the resumed job is not the one its current trigger computes at the "
                                 "moment of resumption (NextFireTime(clock)): expected trigger calls and registry %s, observed %s" % (want, o)] + fl["why"]
                if t[0] in ("A", "AXP", "AXR") and len(t) > 6 and t[2] == "S" and t[6] == "1" and ocalls:
                    fl["why"] = ["ScheduleJob of a job in the PAUSED state (Suspended option) asked the job's trigger for a fire time (%s): a paused "
                                 "job consumes nothing of its trigger (a run-once / k-shot trigger loses a fire time)" % ",".join(":".join(cc) for cc in ocalls)] + fl["why"]
                if extra:
                    fl["step_facts"] = extra
                if t[0] == "FX":
                    # a failing push-back: what the property forbids is that the fire time just handed out as valid is
                    # still in the queue (it would be handed out again); other ways of coping with the failure are not judged here
                    ret = oparts[0].split(" ")[0]
                    rk = ret.rsplit(":", 2)
                    dup = (len(rk) == 3 and rk[2] == "1" and oreg is not None and rk[0] in oreg
                           and oreg[rk[0]][1] == int(rk[1]) and not oreg[rk[0]][0])
                    if dup:
                        fl["fire_time_returned_for_the_reschedule_dropped"] = [cc[2] for cc in ocalls if len(cc) == 3][-1:] 
                        fl["why"] = ["the reschedule Push failed; the job was returned for execution (valid) and its entry is still queued with "
                                     "the same fire time %s: the next tick executes it again for the same fire time" % rk[1]]
                        fl["duplicated_fire_time"] = True
                        keep(res["failures"], fl)
                    else:
                        res["pushfail_other"] = res.get("pushfail_other", 0) + 1
                else:
                    keep(res["failures"], fl)
                bad_seq = True  # later steps of the sequence follow from this one
            # resynchronise the oracle with what the implementation holds now
            if oreg is not None:
                reg = oreg
            if want is None and oreg is None:
                bad_seq = True
    if mf is not None:
        mf.close()
    if not res["failures"] and not res["mismatches"]:
        for fn in (trace, inp, mout):   # large; kept only when there is something to look at
            try:
                os.remove(fn)
            except OSError:
                pass
    return res


def tags_of(f):
    """Which of the engine's properties a failing step concerns (from what differs)."""
    step = f["case"].get("step", "")
    if not step:
        return {"C09"}                     # a whole API sequence
    t = step.split()
    o, w = f["observed"], f["specification"]
    if t[0] in ("A", "AXP", "AXR"):
        tg = {"C09"}
        op, wp = o.split(" | "), w.split(" | ")
        state_differs = len(op) != 2 or len(wp) != 2 or op[1] != wp[1]
        calls_differ = op[0].split(" ")[1:] != wp[0].split(" ")[1:]
        both_ok = op[0].startswith("ok") and wp[0].startswith("ok")
        ok_differs = op[0].startswith("ok") != wp[0].startswith("ok")
        if t[2] in "PRDC" and (state_differs or calls_differ or ok_differs):
            tg.add("C08")      # the call did not take the effect on firing it should have (a wrong error class alone is C09's)
        if t[2] in "SR" and (calls_differ or (both_ok and state_differs)):
            tg.add("C04")      # initial / resumed fire time
        if t[2] == "S" and both_ok and state_differs and not calls_differ:
            tg.add("C03")      # the entry does not carry the fire time its own trigger returned for this call
        if t[2] == "R" and both_ok and state_differs:
            tg.add("C03")      # the resumed entry does not carry the fire time its (current) trigger returned at the resumption
        if t[2] == "S" and len(t) > 6 and t[6] == "1" and calls_differ:
            tg.add("C08")      # a job added in the paused state: its trigger was asked although nothing may be consumed while paused
        return tg
    if t[0] == "X":
        return {"C09"}         # the harness's own queue calls: the queue does not meet the contract the model assumes
    op, wp = o.split(" | "), w.split(" | ")
    ot, wt = op[0].split(" "), wp[0].split(" ")
    tg = set()
    if f.get("duplicated_fire_time"):
        return {"C03", "C04"}   # executed twice (C03); the fire time the trigger returned for the reschedule is dropped, the old one re-queued (C04)
    if f.get("early_execution") or f.get("invented_fire_time"):
        return {"C03"}
    if o.startswith("BLOCKED"):
        return {"C04"}
    if len(ot) < 4:
        return {"C04", "C03"}
    if ot[0] != wt[0]:
        tg |= {"C03", "C04"}
    if ot[1] != wt[1] or (wt[2] != "?" and ot[2] != wt[2]):
        tg.add("C04")
    if len(op) > 1 and len(wp) > 1 and op[1] != wp[1]:
        tg.add("C04")
    # the popped job was suspended: pausing is what went wrong
    if f.get("popped_suspended") or ":%d:" % MAXI in wt[0]:
        tg.add("C08")
    return tg or {"C04"}


def replay_steps(ctx, obj):
    """Re-run exactly the recorded sequence (same profile and seed, that sequence only)."""
    case = obj.get("case", {})
    m = re.search(r"(?:seq |#)(\d+)", case.get("sequence", ""))
    if not m or "profile" not in case:
        return None
    binp = build_all()
    ml, _ = build_driver()
    r = run_steps(ctx, binp, ml, case["profile"], int(case["seed"]), only=int(m.group(1)))
    return r


# ---------------------------------------------------------------------------
# free-running runs and their oracles
# ---------------------------------------------------------------------------

def run_free(binp, mode, seed, millis, flags, godebug=None, timeout=120):
    env = {"GODEBUG": godebug} if godebug else None
    rc, out = vlib.run([binp, "free", mode, str(seed), str(millis), flags or "-"], timeout=timeout, env_extra=env)
    if rc != 0:
        raise RuntimeError("schedh free failed (%s): %s" % (rc, out[-3000:]))
    line = [l for l in out.splitlines() if l.startswith("{")][-1]
    return json.loads(line)


SLACK = 10_000_000_000     # a clock reading handed to a trigger is never older than this (10 s), even on a loaded machine
LATE_SLACK = 2_000_000_000 # between validateJob reading the clock and the trigger being called: far less than 2 s
TOL = 1_000_000            # wall-clock comparisons: 1 ms


def free_oracles(run):
    """-> dict(c03=[...], c04=[...], c08=[...], lock=[...], counts={...}); each list holds oracle failures."""
    evs = sorted(run["events"], key=lambda e: e["seq"])
    thr = run["thr_ns"]
    f03, f04, f08 = [], [], []
    counts = {"execs": 0, "trigger_calls": 0, "on_time_calls": 0, "misfire_rebases": 0, "api_rebases": 0,
              "misfires_received": 0, "api_calls": 0, "foreign_writes": 0, "pause_windows": 0, "delete_windows": 0}
    by_key = {}
    missing_total, missing_keys = 0, []
    stop_mono = run.get("stop_mono") or float("inf")
    for e in evs:
        if e["kind"] in ("trig", "exec", "foreign", "misfire") and e.get("key"):
            by_key.setdefault(e["key"], []).append(e)
    apis = [e for e in evs if e["kind"] == "api"]
    counts["api_calls"] = len(apis)
    for key, kev in by_key.items():
        trig = [e for e in kev if e["kind"] == "trig"]
        execs = sorted([e for e in kev if e["kind"] == "exec"], key=lambda e: e["mono"])
        foreign = [e for e in kev if e["kind"] == "foreign" and e.get("op") == "push"]
        misf = [e for e in kev if e["kind"] == "misfire"]
        kapi = [a for a in apis if a.get("key") in (key, "")]
        counts["execs"] += len(execs)
        counts["trigger_calls"] += len(trig)
        counts["foreign_writes"] += len(foreign)
        counts["misfires_received"] += len(misf)
        # values an entry of this job may legitimately carry: results of its own trigger, foreign writes
        produced = sorted([(e["mono"], e["res"]) for e in trig if "err" not in e] +
                          [(e["mono"], e["res"]) for e in foreign])
        on_time = []
        rebases = 0
        ambiguous = 0
        last_loop_mono = -1
        for i, c in enumerate(trig):
            before = [v for (m, v) in produced if m <= c["mono"] and not (m == c["mono"] and v == c.get("res"))]
            earlier_vals = set(before)
            clockish = -TOL <= c["wall"] - c["prev"] <= SLACK
            if c["prev"] in earlier_vals:
                # on time: the scheduled fire time is handed back to the trigger
                on_time.append(c)
                last_loop_mono = c["mono"]
                if c["prev"] > c["wall"] + TOL:
                    f03.append({"key": key, "call": c, "why": "fire time %d consumed before the clock reached it (clock %d)" % (c["prev"], c["wall"])})
                if c["wall"] - c["prev"] > thr + LATE_SLACK:
                    f04.append({"key": key, "call": c, "why": "fire time consumed as on time although it was %d ns late (threshold %d)" % (c["wall"] - c["prev"], thr)})
                continue
            if not clockish:
                f04.append({"key": key, "call": c, "why": "trigger asked with prev=%d: neither an earlier fire time of this job nor the clock (%d)" % (c["prev"], c["wall"])})
                continue
            # clock-based call: ScheduleJob / ResumeJob in progress, or a misfire re-base
            in_api = any(a["op"] in ("S", "R") and a["mono0"] - TOL <= c["mono"] <= a["mono"] + TOL for a in kapi)
            last = before[-1] if before else None
            # which entry was pending is not observable when ScheduleJob calls came in between (their results may never have been
            # committed): any fire time produced since the loop's last own call (inclusive) may be the pending one
            cands = [v for (m, v) in produced if last_loop_mono <= m <= c["mono"]] or [v for (m, v) in produced if m <= c["mono"]][-4:]
            late = [v for v in cands if v < c["prev"] - thr]
            if in_api:
                counts["api_rebases"] += 1
                if late:
                    ambiguous += 1   # could also be a misfire re-base made by the loop while the call was in progress
                continue
            if late:
                rebases += 1
                last_loop_mono = c["mono"]
                continue
            f04.append({"key": key, "call": c, "last_fire_time": last,
                        "why": "re-based on the clock (prev=%d) although the pending fire time %s was not more than the threshold (%d) late: drift" % (c["prev"], last, thr)})
        counts["on_time_calls"] += len(on_time)
        counts["misfire_rebases"] += rebases
        # C04: when the trigger reports that there is no further fire time (any error) the job leaves the registry: the loop never
        # asks this trigger again (a later call inside a ScheduleJob / ResumeJob invocation on the key is that call's own)
        failed = [c for c in trig if "err" in c and not any(a["op"] in ("S", "Ss", "R") and a["mono0"] - TOL <= c["mono"] <= a["mono"] + TOL for a in kapi)]
        if failed:
            counts["trigger_failures_in_loop"] = counts.get("trigger_failures_in_loop", 0) + 1
            later = [c for c in trig if c["mono"] > failed[0]["mono"] and c["seq"] > failed[0]["seq"]
                     and not any(a["op"] in ("S", "Ss", "R") and a["mono0"] - TOL <= c["mono"] <= a["mono"] + TOL for a in kapi)]
            resched = [a for a in kapi if a["op"] in ("S", "Ss", "R") and a["err"] == "ok" and a["mono"] >= failed[0]["mono"]]
            if later and not resched and not any(f.get("key") == key for f in f04):
                f04.append({"key": key, "failing_call": failed[0], "later_call": later[0], "later_calls": len(later),
                            "why": "the job's trigger failed (%s) when the loop asked it for the next fire time, yet the loop asked it again %d more "
                                   "times (first %d ns later) without any ScheduleJob / ResumeJob: the job did not leave the registry" % (
                                       failed[0]["err"], len(later), later[0]["mono"] - failed[0]["mono"])})
        # C03: one fire time is consumed (handed back to its trigger as the scheduled time) at most once
        seen_prev = {}
        for c in on_time:
            if c["prev"] in seen_prev:
                f03.append({"key": key, "first_call": seen_prev[c["prev"]], "second_call": c,
                            "why": "fire time %d of the job was dequeued as due twice (two on-time trigger calls with the same prev): "
                                   "two executions for one fire time" % c["prev"]})
                break
            seen_prev[c["prev"]] = c
        # (after Stop has been called the loop may still dequeue fire times whose hand-off the shutdown aborts: not counted)
        n_before = len([c for c in on_time if c["mono"] < stop_mono])
        missing_total += max(0, n_before - len(execs))
        if n_before - len(execs) > 0:
            missing_keys.append((key, n_before, len(execs)))
        # C03: an injection from executions to earlier on-time dequeues that were due
        ot = sorted(on_time, key=lambda c: c["mono"])
        for rank, e in enumerate(execs, 1):
            avail = [c for c in ot if c["mono"] <= e["mono"] and c["prev"] <= e["wall"] + TOL]
            if len(avail) < rank:
                f03.append({"key": key, "exec": e, "rank": rank, "available_due_dequeues": len(avail),
                            "why": "execution #%d of the job started, but only %d fire times of its own trigger had been dequeued as due before it "
                                   "(early, duplicated or invented execution)" % (rank, len(avail))})
                break
        # C04: a misfire is offered to the channel for every re-base (the channel is drained, 4096 deep)
        if not (rebases <= len(misf) <= rebases + ambiguous) and not any(f.get("key") == key for f in f04):
            f04.append({"key": key, "misfires_received": len(misf), "clock_rebases_by_the_loop": rebases,
                        "why": "MisfiredChan deliveries (%d) differ from the number of misfire re-bases (%d)" % (len(misf), rebases)})
        # C08: after PauseJob / DeleteJob / Clear returned Ok, until the next ScheduleJob / ResumeJob invocation on the key
        for a in kapi:
            if a["err"] != "ok" or a["op"] not in ("P", "D", "C", "Ss"):
                continue
            t_ret = a["mono"]
            nxt = [b["mono0"] for b in kapi if b["op"] in ("S", "Ss", "R") and b["mono"] >= a["mono0"] and b is not a]
            fpush = [e["mono"] for e in foreign if e["mono"] >= a["mono0"]]
            t_end = min(nxt + fpush + [float("inf")])
            counts["pause_windows" if a["op"] in ("P", "Ss") else "delete_windows"] += 1
            calls_in = [c for c in trig if t_ret < c["mono"] < t_end]
            if calls_in:
                f08.append({"key": key, "api": a, "trigger_call": calls_in[0],
                            "why": "trigger of the job asked %d ns after %s returned Ok and before any resume / re-schedule" % (calls_in[0]["mono"] - t_ret, a["op"])})
            pending = len([c for c in ot if c["mono"] <= t_ret]) - len([e for e in execs if e["mono"] <= t_ret])
            ex_in = [e for e in execs if t_ret < e["mono"] < t_end]
            if len(ex_in) > max(pending, 0):
                f08.append({"key": key, "api": a, "executions_after": len(ex_in), "dequeued_before": pending,
                            "why": "%d executions started after %s returned Ok although only %d had been dequeued before" % (len(ex_in), a["op"], pending)})
    # C04: at quiescence (Stop + Wait returned) every fire time dequeued as due before Stop was called has been executed;
    # the one hand-off a worker-pool loop is waiting with may be aborted by the shutdown, once per scheduler
    allowed = run.get("schedulers", 1) if run.get("mode") == "pool" else 0
    counts["dequeued_due_not_executed"] = missing_total
    if run.get("wait_ok", True) and missing_total > allowed:
        f04.append({"keys": missing_keys[:6], "not_executed": missing_total, "allowed_by_shutdown": allowed,
                    "why": "%d fire times were dequeued as due (their trigger was asked for the next one) but never executed nor misfired "
                           "(at most %d hand-offs can be aborted by the shutdown in mode %s)" % (missing_total, allowed, run.get("mode"))})
    lock = []
    if run.get("lock_violations"):
        lock.append({"lock_violations": run["lock_violations"], "first": run.get("first_violation"),
                     "why": "the scheduler called the queue (%s) without holding the queue locker" % run.get("first_violation")})
    if not run.get("wait_ok", True):
        f03.append({"why": "Wait did not return within 30 s after Stop"})
    return {"c03": f03, "c04": f04, "c08": f08, "lock": lock, "counts": counts}


# ---------------------------------------------------------------------------
# linearizability of concurrent API histories (C09)
# ---------------------------------------------------------------------------

def conc_apply(state, op):
    """Registry specification with fire times abstracted to parked / active.  state: tuple of (key, susp, parked, tid)
    sorted; returns (new_state, result) -- deterministic."""
    reg = {k: (s, p, t) for (k, s, p, t) in state}
    o, k = op["op"], op["key"]
    if o == "S":
        if op["susp"]:
            ent = (1, 1, op["tid"])
        elif op["fail"]:
            return state, "ETC5"
        else:
            ent = (0, 0, op["tid"])
        if k in reg and not op["repl"]:
            return state, "EAE"
        reg[k] = ent
        res = "ok"
    elif o == "D":
        if k not in reg:
            return state, "ENF"
        del reg[k]
        res = "ok"
    elif o == "P":
        if k not in reg:
            return state, "ENF"
        if reg[k][0]:
            return state, "ESU"
        reg[k] = (1, 1, reg[k][2])
        res = "ok"
    elif o == "R":
        if k not in reg:
            return state, "ENF"
        if not reg[k][0]:
            return state, "EAC"
        if op["_fails"].get(reg[k][2]):
            return state, "ETC5"
        reg[k] = (0, 0, reg[k][2])
        res = "ok"
    elif o == "G":
        if k not in reg:
            return state, "ENF"
        s, p, t = reg[k]
        return state, "J:%s:%d" % ("p" if p else "a", t)
    elif o == "K":
        return state, "K:" + ",".join(sorted(reg))
    elif o == "Kp":
        return state, "K:" + ",".join(sorted(kk for kk, v in reg.items() if v[0]))
    else:
        reg = {}
        res = "ok"
    return tuple(sorted((kk,) + v for kk, v in reg.items())), res


def linearizable(rnd, budget=400000):
    """Wing-Gong search with memoisation.  True / False / None (budget exhausted: no verdict)."""
    ops = sorted(rnd["ops"], key=lambda o: o["t0"])
    fails = {o["tid"]: o["fail"] for o in ops if o["op"] == "S"}
    for o in ops:
        o["_fails"] = fails
    n = len(ops)
    init = tuple(sorted((k, 0, 0, t) for k, t in rnd["initial"].items()))
    seen = set()
    steps = [0]

    def go(done, state):
        if len(done) == n:
            return True
        key = (done, state)
        if key in seen:
            return False
        seen.add(key)
        steps[0] += 1
        if steps[0] > budget:
            raise TimeoutError
        rem = [i for i in range(n) if i not in done]
        first_ret = min(ops[i]["t1"] for i in rem)
        for i in rem:
            if ops[i]["t0"] > first_ret:
                break  # ops are sorted by invocation: the rest started after some pending call had returned
            st2, r = conc_apply(state, ops[i])
            if r == ops[i]["res"] and go(done | frozenset([i]), st2):
                return True
        return False

    try:
        return go(frozenset(), init)
    except (TimeoutError, RecursionError):
        return None
    finally:
        for o in ops:
            o.pop("_fails", None)


def run_conc(binp, seed, rounds, variant, timeout=300):
    rc, out = vlib.run([binp, "conc", str(seed), str(rounds), variant], timeout=timeout)
    races = out.count("WARNING: DATA RACE")
    lines = [l for l in out.splitlines() if l.startswith("{")]
    if rc != 0 and not races:
        raise RuntimeError("schedh conc failed (%s): %s" % (rc, out[-3000:]))
    return [json.loads(l) for l in lines], races, out


# ---------------------------------------------------------------------------
# the common shape of the checks C03 / C04 / C08
# ---------------------------------------------------------------------------

def tags_of_mismatch(m):
    f = {"case": m.get("case", {}), "observed": m.get("observed", ""), "specification": m.get("model", "")}
    try:
        return tags_of(f)
    except Exception:
        return {"C03", "C04", "C08", "C09"}


def free_phase(prop, binp, configs, millis, seeds):
    key = {"C03": "c03", "C04": "c04", "C08": "c08"}[prop]
    failures, runs = [], []
    total = {}
    for seed in seeds:
        for (mode, flags, godebug) in configs:
            run = run_free(binp, mode, seed, millis, flags, godebug)
            o = free_oracles(run)
            for k, v in o["counts"].items():
                total[k] = total.get(k, 0) + v
            runs.append({"mode": mode, "flags": flags, "godebug": godebug, "seed": seed, "events": len(run["events"]),
                         "oracle_failures": len(o[key]), "lock_violations": run.get("lock_violations", 0)})
            cfg = {"kind": "free", "mode": mode, "flags": flags, "godebug": godebug, "seed": seed, "millis": millis}
            for f in o[key][:3]:
                d = dict(f)
                why = d.pop("why")
                failures.append({"case": cfg, "detail": d, "why": [why]})
            if prop in ("C03", "C08"):
                for f in o["lock"]:
                    failures.append({"case": cfg, "why": [f["why"]]})
    return failures, runs, total


GATES = {
    "C04": [["pool", "none", "3"], ["pool", "none", "1"], ["both", "2"]],
    "C08": [["pool", "pause", "3"], ["pool", "delete", "3"], ["pool", "clear", "2"],
            ["window", "clear"], ["window", "pause"], ["window", "delete"]],
    "C03": [["replace", "1"], ["replace", "3"]],
}


def run_gate(binp, args, timeout=180):
    rc, out = vlib.run([binp, "gate"] + args, timeout=timeout)
    if rc != 0:
        raise RuntimeError("schedh gate failed (%s): %s" % (rc, out[-2000:]))
    return json.loads([l for l in out.splitlines() if l.startswith("{")][-1])


def gate_phase(prop, binp, repeat=1):
    failures, runs = [], []
    for args in GATES.get(prop, []):
        for _ in range(repeat):
            g = run_gate(binp, args)
            evs = g.pop("events", [])
            runs.append(dict(g))
            why = []
            if g["scenario"] == "pool" and g["workers_busy"]:
                if prop == "C08" and g["op_result"] == "ok":
                    if g["starts_after"] > 1:
                        why.append("%d executions of the job started after %s returned Ok while all %d workers were busy: more than the one "
                                   "execution the loop had already dequeued" % (g["starts_after"], g["op"], g["workers"]))
                    if g["trigger_calls_after"] > 0:
                        why.append("the job's trigger was asked %d times after %s returned Ok" % (g["trigger_calls_after"], g["op"]))
                if prop == "C04" and g["op"] == "none":
                    if g["on_time_calls"] - g["executions"] > 1:
                        why.append("%d fire times were dequeued as due while the worker pool was saturated but only %d executions happened: "
                                   "fire times dropped without execution or misfire" % (g["on_time_calls"], g["executions"]))
                    if g["once_executions"] != 1 or g["once_listed"]:
                        why.append("a run-once job that became due while the pool was saturated ran %d times (listed afterwards: %s); "
                                   "expected exactly once, then gone" % (g["once_executions"], g["once_listed"]))
            if g["scenario"] == "both" and prop == "C04":
                if g["executions"] == 0 or g["on_time_calls"] - g["executions"] > 0:
                    why.append("WithBlockingExecution + WithWorkerLimit(%d): %d fire times dequeued as due, %d executions in 0.4 s of a 10 ms job "
                               "(the worker limit is documented as ignored in blocking mode)" % (g["workers"], g["on_time_calls"], g["executions"]))
                if g["once_executions"] != 1 or g["once_listed"]:
                    why.append("WithBlockingExecution + WithWorkerLimit: the run-once job ran %d times (listed afterwards: %s)" % (
                        g["once_executions"], g["once_listed"]))
            if g["scenario"] == "replace" and prop == "C03" and g["workers_busy"] and g["op_result"] == "ok":
                if g["new_executions"] > g["new_fire_times_due"]:
                    why.append("all %d workers were busy with the job registered under the key and the loop was holding one more of its fire "
                               "times when ScheduleJob(Replace) put a different job with its own trigger (first fire time one hour away) under "
                               "the key; when the workers became free the NEW job was executed %d times although %d fire times of its own "
                               "trigger had come due (executions of the replaced job after the call: %d): the job that runs is not the one "
                               "whose trigger produced the dequeued fire time" % (
                                   g["workers"], g["new_executions"], g["new_fire_times_due"], g["old_starts_after"]))
            if g["scenario"] == "window" and prop == "C08" and g["entered_window"] and g["op_result"] == "ok":
                if g["trigger_calls_after"] > 0:
                    why.append("%s returned Ok while fetchAndReschedule was between Pop and Push (op waited for the step: %s); afterwards the "
                               "job's trigger was asked %d more times" % (g["op"], g["op_waited_for_window"], g["trigger_calls_after"]))
                if g["op"] in ("clear", "delete") and g["listed_after"]:
                    why.append("the job is listed again after %s returned Ok" % g["op"])
                if g["starts_after"] > 1:
                    why.append("%d executions started after %s returned Ok" % (g["starts_after"], g["op"]))
            if why:
                failures.append({"case": {"kind": "gate", "args": args}, "observed": g, "events_tail": evs[-12:], "why": why})
                break
    return failures, runs


def dynamic_check(ctx, prop, seed_offset, configs, rule, assumptions, partial_runtime):
    res, broken = proof_step(ctx, prop)
    binp = build_all()
    ml, mlout = build_driver()
    quick = ctx.tier == "quick"
    st = run_steps(ctx, binp, ml, "fetch-quick" if quick else "fetch-thorough", ctx.seed + seed_offset, timeout=3000)
    failures = [f for f in st["failures"] if prop in tags_of(f)]
    mismatches = [m for m in st["mismatches"] if prop in tags_of_mismatch(m)]
    if ml is None:
        mismatches.append({"error": "the extracted model could not be built", "detail": mlout[-1500:]})
    s = st["stats"]
    if s["blocked"] and prop == "C04":
        failures.append({"case": {"kind": "steps", "profile": "fetch", "seed": ctx.seed + seed_offset},
                         "why": ["fetchAndReschedule blocked (>20 s) on %d steps: the offer to MisfiredChan is not non-blocking" % s["blocked"]]})
    if s["lock_violations"] and prop in ("C03", "C08"):
        failures.append({"case": {"kind": "lock-discipline", "profile": "fetch", "seed": ctx.seed + seed_offset},
                         "why": ["queue.%s called by the scheduler without the queue locker held (%d of %d recorded queue calls)" % (
                             s["first_violation"], s["lock_violations"], s["queue_calls_checked"])]})
    ff, runs, total = free_phase(prop, binp, configs, 500 if quick else 3000, [ctx.seed] if quick else [ctx.seed, ctx.seed + 1, ctx.seed + 2])
    failures += ff
    gf, gruns = gate_phase(prop, binp, 1 if quick else 3)
    failures += gf

    def search():
        found = []
        g2, _ = gate_phase(prop, binp, 3)
        if g2:
            return g2[:3]
        for k in range(1, 3):
            r = run_steps(ctx, binp, None, "fetch-quick", ctx.seed + seed_offset + 5000 * k, timeout=3000)
            found += [f for f in r["failures"] if prop in tags_of(f)]
            if found:
                return found[:3]
        f2, _, _ = free_phase(prop, binp, configs, 2500, [ctx.seed + 11, ctx.seed + 12])
        return f2[:3]

    vlib.decide(ctx, broken, failures, mismatches, search)
    cov = vlib.proof_coverage(res, PROJ, prop)
    cov.update({
        "evaluations": st["api_calls"] + st["fetches"] + st["foreign"] + sum(r["events"] for r in runs),
        "distinct_nontrivial": st["fetches"] - st["fetch_classes"].get("empty", 0),
        "rule": rule,
        "samples": runs[:4],
        "exhaustive": False,
        "step_sequences": s["sequences"],
        "fetch_classes": st["fetch_classes"],
        "result_classes": st["result_classes"],
        "steps_without_verdict": st["no_verdict"],
        "stalled_scenarios_retried": s["stalled_retries"],
        "model_mismatches": len(mismatches),
        "oracle_failures": len(failures),
        "free_runs": runs,
        "free_run_totals": total,
        "gate_scenarios": gruns,
        "lock_discipline": {"queue_calls_checked": s["queue_calls_checked"], "violations": s["lock_violations"]},
        "partial_runtime": partial_runtime,
    })
    vlib.write_evidence(ctx, cov, assumptions=assumptions)
    return 1 if ctx.violations else 0


def dynamic_replay(ctx, prop, path):
    obj = json.load(open(path))
    case = obj.get("case", {})
    if case.get("kind") == "gate":
        binp = build_all()
        bad = []
        for _ in range(3):
            g = run_gate(binp, case["args"])
            g.pop("events", None)
            bad.append(g)
        saved = GATES.get(prop)
        GATES[prop] = [case["args"]]
        try:
            fs, _ = gate_phase(prop, binp, 3)
        finally:
            GATES[prop] = saved
        print(json.dumps({"reruns": bad, "failures": [f["why"] for f in fs]}))
        if fs:
            vlib.report_violation(ctx, obj)
            return 1
        return 0
    if case.get("kind") == "free":
        binp = build_all()
        key = {"C03": "c03", "C04": "c04", "C08": "c08"}[prop]
        bad = 0
        for _ in range(3):  # a free-running schedule is not reproducible step by step: same configuration, three runs
            run = run_free(binp, case["mode"], case["seed"], case["millis"], case["flags"], case.get("godebug"))
            o = free_oracles(run)
            bad += len(o[key]) + (len(o["lock"]) if prop in ("C03", "C08") else 0)
        print(json.dumps({"oracle_failures_in_three_reruns": bad}))
        if bad:
            vlib.report_violation(ctx, obj)
            return 1
        return 0
    r = replay_steps(ctx, obj)
    if r is None:
        print("the replay file does not name a step sequence")
        return 0
    fs = [f for f in r["failures"] if prop in tags_of(f)]
    print(json.dumps({"failures": fs[:3], "lock_violations": r["stats"]["lock_violations"], "blocked": r["stats"]["blocked"]}, default=str))
    if fs or r["stats"]["lock_violations"] or r["stats"]["blocked"]:
        vlib.report_violation(ctx, obj)
        return 1
    return 0


MODES = ["blocking", "pool", "unbounded"]
COMMON_ASSUMPTIONS = [
    "the JobQueue in use meets SchedModel.queue_contract (proved for two executable queues; compared with the default queue on every step)",
    "each API body and each fetchAndReschedule is one atomic step (queue locker; regenerated as all_bodies_locked and observed by the recording locker)",
    "the clock is non-decreasing (label LAdv dt requires dt >= 0)",
    "triggers are arbitrary functions nft : tid -> state -> prev -> state * (fire time + error); nothing is assumed about them",
]
STEP_RULE = ("step correspondence: fixed scenarios plus random sequences of 40 steps (API calls, fetchAndReschedule through the verif hook, foreign "
             "pushes/removes/clears) on never-started schedulers with the default queue, a copying queue and two schedulers sharing queue and "
             "locker; fire times placed by margins (-60 s late, -3 s due, +1 h future; threshold 10 s) with scripted, SimpleTrigger and "
             "RunOnceTrigger triggers, MisfiredChan nil / unbuffered / 1 / 64; every step's returned job and valid flag, trigger calls (prev, result), "
             "misfire offer, Reset token and the whole registry compared with the extracted Coq model and with the property's own step "
             "specification; non-trivial = a fetch that popped a job. Round 3: MisfiredChan unbuffered with a listener goroutine parked in the "
             "receive (state read off the runtime's goroutine dump before and after the fetch), capacity 1 / 2 / 8 / 64 empty, full and with "
             "exactly one free slot (with a waiting receiver or room the offer must arrive); scripted triggers that fail at their 2nd, 3rd ... call "
             "with ErrTriggerExpired itself, the sentinel wrapped with %w, or an unrelated error, followed by fetches after the clock has passed "
             "now + RetryInterval (1-2 ms, once the default 100 ms); fire times placed 1 us .. 5 ms ahead of the clock of the moment; fire times "
             "MaxInt64 / MaxInt64-1; two oracles on the observation alone: a job returned as valid whose fire time is later than the clock read "
             "after the fetch (early), or is not a value its own trigger returned for it / a foreign writer queued (no fire time). ")
