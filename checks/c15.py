"""C15 -- the scheduler tolerates a failing or slow custom job queue."""
import json

import vlib
from checks import loop_common as lc

PROJ = lc.PROJ

MANIFEST = dict(
    engine="loop",
    technique="Coq proof (invariants by induction over all label sequences of the execution-loop transition system in which every queue "
              "call carries an oracle outcome ok/fail/delay, plus a model of each API method as its sequence of queue calls) on a model whose "
              "structure is regenerated from the source; fault-injecting JobQueue on the real scheduler",
    text="Machine-checked Coq theorems over the loop transition system with a per-call fault oracle: at every program point the loop has a "
         "successor for every oracle answer and a blocked select is always ended by a token, a tick or an armed timer (no panic, no deadlock); "
         "whenever the loop is about to repeat a Size/Head/Pop call whose last failure happened at t with no interrupt token or stale tick "
         "consumed since, at least RetryInterval has elapsed (the loop without the fetchFailed arm, i.e. before the fix of S12, is refuted by a "
         "failing Pop); an API method whose i-th queue call is the first to fail returns that error after exactly i+1 calls and sends no "
         "token; dispatches are exactly the valid pops, each once, under any faults, and a failing Pop changes nothing; once no call faults any "
         "more the no-lost-wake-up invariant of C05 holds again after at most two re-armings. The switch arms, the API methods' queue-call "
         "sequences, their error propagation and the Reset guards are regenerated from scheduler.go on every run. A fault-injecting JobQueue "
         "drives the real scheduler: single faults (fail or delay) at every call index of each of the eight methods over a fixed scenario, "
         "bursts of up to 50 consecutive failures, random mixes and a uniformly slow queue; the injected error is plain, wraps "
         "context.DeadlineExceeded / context.Canceled (a store with per-operation deadlines, while the scheduler's own context is alive) or wraps "
         "quartz.ErrQueueEmpty / ErrJobNotFound on operations where that sentinel is not an answer of the JobQueue contract, also in quiet bursts "
         "during which no API call wakes the loop; API results, the queue calls each API made (compared "
         "with the Coq model), the loop's call rate per RetryInterval window, the distance between consecutive failing Pops, executions versus "
         "trigger calls and post-fault liveness are checked. Real-time rates are observed, not proved.",
    design_ref="6 C15")

FAIL_PER_WINDOW = 40      # failing loop calls of one method per RetryInterval window (spinning gives thousands)
CALLS_PER_WINDOW = 1500


ERR_KINDS = {"deadline": "an error that wraps context.DeadlineExceeded (the queue's own per-operation deadline; the scheduler's context is alive)",
             "canceled": "an error that wraps context.Canceled (of the queue's own operation; the scheduler's context is alive)",
             "queue_empty": "an error that wraps quartz.ErrQueueEmpty (on an operation where that is not an answer of the JobQueue contract)",
             "not_found": "an error that wraps quartz.ErrJobNotFound (on an operation where that is not an answer of the JobQueue contract)",
             "mixed": "errors of a kind drawn per fault: plain, wrapping context.DeadlineExceeded / context.Canceled / quartz.ErrQueueEmpty / quartz.ErrJobNotFound"}


def injected(plan):
    return ERR_KINDS.get(plan.get("err") or "", "a plain error")


def oracle(r):
    why = []
    p = r["plan"]
    if r.get("hung"):
        why.append("API call %s did not return within 6 s (deadlock)" % r["hung"])
    if not r["wait_returned"]:
        why.append("Wait did not return after Stop")
    for k, v in sorted(r["fired_after_faults"].items()):
        if not v:
            why.append("job %s is stored and active but did not fire within 5 s after the faults stopped" % k)
    for k in r.get("state_differs") or []:
        why.append("job %s: its Suspended flag differs from what the successful API calls imply (a failed call changed the job's state)" % k)
    for a in r["apis"]:
        outs = a.get("outs") or []
        calls = a.get("calls") or []
        ff = next((i for i, o in enumerate(outs) if o == "fail"), None)
        if ff is not None:
            if a["err"] == "nil":
                why.append("%s returned nil although its queue call %s failed" % (a["name"], calls[ff]))
            if len(calls) != ff + 1:
                why.append("%s went on to call %s after %s had failed" % (a["name"], calls[ff + 1:], calls[ff]))
        elif a["err"] == "injected":
            why.append("%s returned the injected error although none of its queue calls failed" % a["name"])
    for m, n in r["max_failing_calls_per_window"].items():
        if n > FAIL_PER_WINDOW:
            why.append("%d failing %s calls by the loop within one RetryInterval (%d ms): busy-spinning" % (n, m, p["ri_ms"] or 100))
    for m, n in r["max_calls_per_window"].items():
        if n > CALLS_PER_WINDOW:
            why.append("%d %s calls by the loop within one RetryInterval" % (n, m))
    if p["kind"] == "burst" and p["method"] == "Pop":
        g = r["min_failing_gap_us"].get("Pop")
        if g is not None and g < (p["ri_ms"] or 100) * 1000 - 1000:
            why.append("two consecutive failing Pop calls only %d us apart, RetryInterval is %d ms" % (g, p["ri_ms"] or 100))
    for k, n in r["execs"].items():
        if n > r["distinct_fire_times_fetched"].get(k, 0):
            why.append("job %s was executed %d times for %d distinct fire times fetched (a fire time executed twice)" % (k, n, r["distinct_fire_times_fetched"].get(k, 0)))
    return why


MODEL_V = """From Coq Require Import ZArith List Bool String.
Require Import QzLoop.Gen.Params QzLoop.LoopModel.
Import ListNotations.
Open Scope string_scope.
Open Scope list_scope.
Fixpoint seqb (a b : list string) : bool := match a, b with [], [] => true | x :: a', y :: b' => String.eqb x y && seqb a' b' | _, _ => false end.
Definition cases : list (nat * (string * bool * list outcome * list string * bool)) := [
%s
].
(* (index, (API method, IsStarted, outcome of each queue call it made, the calls it made, it returned a queue error)) *)
Definition MISMATCH := Eval vm_compute in
  flat_map (fun x => let '(id, (m, st, outs, calls, err)) := x in
    match api_run m st outs with
    | Some r => if seqb (performed r) calls && Bool.eqb (match error r with Some _ => true | None => false end) err then [] else [id]
    | None => [id] end) cases.
Print MISMATCH.
"""


def model_mismatches(rows):
    items, meta = [], []
    for r in rows:
        for a in r["apis"]:
            outs = a.get("outs") or []
            calls = a.get("calls") or []
            if not calls:
                continue
            has_fail = "fail" in outs
            if not has_fail and a["err"] != "nil":
                continue   # a state error (job not found / already suspended): not a queue fault
            items.append('(%d%%nat, ("%s", %s, [%s], [%s], %s))' % (
                len(meta), a["name"], "true" if a["started"] else "false", "; ".join("Fail" if o == "fail" else "Ok" for o in outs),
                "; ".join('"%s"' % c for c in calls), "true" if a["err"] != "nil" else "false"))
            meta.append((r, a))
    if not items:
        return [], ""
    ids, out = lc.coq_eval_list("c15_cases", MODEL_V % ";\n".join(items))
    if ids is None:
        return None, out
    return [{"case": {"id": meta[i][0]["id"], "plan": meta[i][0]["plan"]}, "api": meta[i][1],
             "what": "the queue calls an API method made, or whether it returned the queue's error, differ from the Coq model (api_run)"} for i in ids], out


EXTRA = []


def slow_oracle(r):
    cfg = "%s inside a slow queue.%s (400 ms), then %s" % (r["api"], r["slow_queue_method"], {"stop": "Stop()", "cancel": "cancellation of the Start context",
                                                                                       "stopstart": "Stop(); Start()", "isstarted": "IsStarted()"}[r["action"]])
    if r.get("error"):
        return ["slow-API scenario could not be driven (%s): %s" % (cfg, r["error"])]
    why = []
    if r.get("calls_not_returned_within_5s"):
        return ["%s: %s did not return within 5 s (deadlock between the API call and the lifecycle call)" % (cfg, ", ".join(r["calls_not_returned_within_5s"]))]
    if not r["started_at_end"] or r["probe_execs"] != 1:
        why.append("%s: after a following Start the scheduler reports IsStarted=%s and a job due at once was executed %d times within 5 s" % (cfg, r["started_at_end"], r["probe_execs"]))
    if not r["wait_returned"]:
        why.append("%s: Wait did not return after the final Stop" % cfg)
    return why


def extra_oracle(r):
    if r["kind"] == "pushfault":
        cfg = ("WithMisfiredChan(make(chan, %d)) that nobody drains, the loop's own re-Push fails %d times (%d did), then the queue is healthy"
               % (r["misfired_chan_cap"], r["failing_repushes"], r["repushes_failed"]))
        why = []
        if r.get("calls_not_returned_within_5s"):
            return ["%s: %s did not return within 5 s after the faults had stopped (the loop is blocked holding the queue lock)" % (cfg, ", ".join(r["calls_not_returned_within_5s"]))]
        for k in r.get("stored_jobs_not_fired_within_5s") or []:
            why.append("%s: job %s is still stored but did not fire within 5 s after the faults stopped" % (cfg, k))
        if r["probe_execs"] != 1:
            why.append("%s: a job scheduled afterwards, due 5 ms later, was executed %d times within 5 s" % (cfg, r["probe_execs"]))
        if not r["wait_returned"]:
            why.append("%s: Wait did not return after Stop" % cfg)
        return why
    if r["kind"] == "staletimer":
        if r.get("error"):
            return ["stale-timer scenario could not be driven: " + r["error"]]
        if r["execs"] != 1:
            return ["the loop of the stopped run was inside a slow %s during Stop(); Start(); a job due in %d ms was scheduled, the new loop parked on it, then "
                    "the slow call returned (no API call afterwards): the stored job was executed %d times within %d ms + 5 s"
                    % ({"SizeDone": "Size() that had already taken its reading (empty queue)", "HeadDone": "Head() that had already taken its reading"}.get(
                        r["old_loop_held_in"], r["old_loop_held_in"] + "()"), r["job_due_in_ms"], r["execs"], r["job_due_in_ms"])]
    return []


def extra_failures(binp, rows_all):
    rows = [r for r in rows_all if r.get("kind") in ("pushfault", "staletimer")]
    bad = [r for r in rows if extra_oracle(r)]
    out = []
    if bad:
        again = [r for r in run_slow(binp, all_kinds=True) if r.get("kind") in ("pushfault", "staletimer") and extra_oracle(r)]
        for kind in ("pushfault", "staletimer"):
            b = [r for r in bad if r["kind"] == kind]
            if b and any(r["kind"] == kind for r in again):
                r = b[0]
                out.append({"case": {"kind": kind, **{k: r[k] for k in ("misfired_chan_cap", "failing_repushes", "old_loop_held_in", "job_due_in_ms") if k in r}},
                            "why": extra_oracle(r), "failing_trials": "%d of %d, then %d" % (len(b), len([x for x in rows if x["kind"] == kind]), len([x for x in again if x["kind"] == kind])),
                            "how": "looph slowapi (pushfault: 3+k recurring jobs, the first k Push calls made by fetchAndReschedule fail, MisfiredChan never read; "
                                   "staletimer: old loop held in a gated Size/Head, Stop, Start, ScheduleJob, 40 ms, release)"})
    return rows, out


def run_slow(binp, all_kinds=False):
    rc, rows, out = lc.run_json([binp, "slowapi"], timeout=300)
    if rc != 0:
        if "panic:" in out or "fatal error:" in out:
            m = out[out.find("panic:") if "panic:" in out else out.find("fatal error:"):]
            return [{"kind": "slowapi", "api": "ScheduleJob", "slow_queue_method": "Push", "action": "stop", "error": "the harness process died: " + m[:500]}]
        raise RuntimeError("looph slowapi failed: " + out[-2000:])
    if all_kinds:
        return rows
    return [r for r in rows if r.get("kind") == "slowapi"]


def slow_failures(binp):
    rows_all = run_slow(binp, all_kinds=True)
    EXTRA[:] = rows_all
    rows = [r for r in rows_all if r.get("kind") == "slowapi"]
    bad = [r for r in rows if slow_oracle(r)]
    out = []
    if bad:
        again = {(r["api"], r["action"]) for r in run_slow(binp) if slow_oracle(r)}
        for r in [x for x in bad if (x["api"], x["action"]) in again][:2]:
            out.append({"case": {"kind": "slowapi", "api": r["api"], "slow_queue_method": r["slow_queue_method"], "action": r["action"]}, "why": slow_oracle(r),
                        "failing_combinations_in_this_run": len(bad),
                        "how": "looph slowapi: custom queue whose Push / Remove / Clear takes 400 ms and signals entry; the API call runs in a goroutine, the "
                               "lifecycle call is issued 20 ms after the queue operation was entered; every call under a 5 s watchdog; then Start, a job due at once"})
    return rows, out


def run_faults(binp, seed, tier, only=None):
    cmd = [binp, "faults", str(seed), tier] + ([str(only)] if only is not None else [])
    rc, rows, out = lc.run_json(cmd, timeout=1500)
    rows = [r for r in rows if r.get("kind") == "faults"]
    return rc, rows, out


def run(ctx):
    res, broken = vlib.proof_step(ctx, PROJ, "C15", lc.genparams)
    binp = lc.looph()
    rc, rows, out = run_faults(binp, ctx.seed, ctx.tier)
    failures, mismatches = [], []
    if rc != 0:
        # the process died (a panic in a scheduler goroutine): find the plan that does it
        nplans = 200
        culprit = None
        for i in range(nplans):
            rc1, r1, out1 = run_faults(binp, ctx.seed, ctx.tier, only=i)
            if rc1 != 0:
                culprit = (i, out1)
                break
            if not r1:
                break
        failures.append({"case": {"kind": "crash", "seed": ctx.seed, "tier": ctx.tier, "plan_index": culprit[0] if culprit else None},
                         "why": ["the scheduler process died under queue faults: " + (culprit[1] if culprit else out)[-800:]]})
    for r in rows:
        why = oracle(r)
        if not why:
            continue
        rc2, again, _ = run_faults(binp, ctx.seed + 1, ctx.tier, only=r["id"])
        if rc2 != 0 or any(oracle(x) for x in again):
            failures.append({"case": {"id": r["id"], "plan": r["plan"], "seed": ctx.seed, "tier": ctx.tier}, "why": why,
                             "the_planned_queue_calls_fail_with": injected(r["plan"]), "failing_plans_in_this_run": len([x for x in rows if oracle(x)]),
                             "how": "looph faults: fixed API scenario on a scheduler whose JobQueue fails/delays the planned calls"})
    slow_rows, sf = slow_failures(binp)
    failures += sf
    extra_rows, ef = extra_failures(binp, EXTRA)
    failures += ef
    if lc.model_available() and rows:
        bad, mout = model_mismatches(rows)
        if bad is None:
            mismatches.append({"error": "model evaluation failed", "detail": mout[-1500:]})
        else:
            mismatches += bad[:10]

    def search():
        found = []
        for k in range(1, 3):
            rc3, rws, o3 = run_faults(binp, ctx.seed + 10 * k, "thorough")
            if rc3 != 0:
                found.append({"case": {"kind": "crash", "seed": ctx.seed + 10 * k, "tier": "thorough"}, "why": ["the scheduler process died under queue faults: " + o3[-800:]]})
            for r in rws:
                why = oracle(r)
                if why:
                    found.append({"case": {"id": r["id"], "plan": r["plan"], "seed": ctx.seed + 10 * k, "tier": "thorough"}, "why": why})
            if found:
                break
        return found[:3]

    vlib.decide(ctx, broken, failures, mismatches, search)
    cov = vlib.proof_coverage(res, PROJ, "C15")
    cov.update({
        "evaluations": len(rows), "faults_fired": sum(r["faults_fired"] for r in rows), "loop_queue_calls": sum(r["loop_calls"] for r in rows),
        "api_calls": sum(len(r["apis"]) for r in rows), "lifecycle_call_during_slow_api_trials": len(slow_rows), "repush_fault_with_undrained_misfired_chan_and_stale_timer_trials": len(extra_rows),
        "distinct_nontrivial": len({json.dumps(r["plan"], sort_keys=True) for r in rows if r["faults_fired"] > 0 or r["plan"]["fault"] == "delay" or r["plan"]["kind"] == "slow"}),
        "rule": "single fail / delay at call index i of each of Size, Head, Pop, Push, Get, Remove, ScheduledJobs, Clear over a fixed scenario of 18 API "
                "calls on 6 jobs; bursts of 2/10/50 consecutive failures of Size/Head/Pop; random mixes 5/20/50 %; uniformly slow queue; error kinds "
                "{plain, wraps context.DeadlineExceeded, wraps context.Canceled, wraps ErrQueueEmpty (not on Head/Pop), wraps ErrJobNotFound (not on "
                "Get/Remove)} as quiet bursts of 1-2 on Size/Head/Pop, single faults on every method, random mixes; long outages (200-300 consecutive "
                "failures of Size/Head/Pop with RetryInterval 1-2 ms; 1000-1500 in the thorough tier); Stop / cancel / Stop+Start / IsStarted issued while "
                "ScheduleJob / DeleteJob / PauseJob / Clear is inside a slow queue operation; "
                "non-trivial = at least one fault actually fired",
        "samples": [{"plan": r["plan"], "faults_fired": r["faults_fired"], "max_failing_calls_per_window": r["max_failing_calls_per_window"]} for r in rows[1:4]],
        "exhaustive": False, "model_mismatches": len(mismatches), "oracle_failures": len(failures),
        "max_failing_calls_per_window": max([max(r["max_failing_calls_per_window"].values() or [0]) for r in rows] or [0]),
        "partial_runtime": "call rates and post-fault liveness are measured in real time with wide margins, not proved",
    })
    vlib.write_evidence(ctx, cov, assumptions=[
        "a failing queue call has no effect on the queue (the oracle's Fail leaves the contents unchanged)",
        "an entry whose push-back fails is lost to the scheduler (the property speaks of jobs still stored)",
        "time.Timer does not fire before its duration has elapsed",
    ])
    return 1 if ctx.violations else 0


def replay(ctx, path):
    obj = json.load(open(path))
    c = obj.get("case", {})
    binp = lc.looph()
    if c.get("kind") in ("pushfault", "staletimer"):
        bad = [r for r in run_slow(binp, all_kinds=True) if r.get("kind") == c["kind"] and extra_oracle(r)]
        print(json.dumps(bad)[:2000])
        if bad:
            vlib.report_violation(ctx, {"case": c, "why": extra_oracle(bad[0])})
            return 1
        return 0
    if c.get("kind") == "slowapi":
        bad = [r for r in run_slow(binp) if (r["api"], r["action"]) == (c["api"], c["action"]) and slow_oracle(r)]
        print(json.dumps(bad))
        if bad:
            vlib.report_violation(ctx, {"case": c, "why": slow_oracle(bad[0])})
            return 1
        return 0
    rc, rows, out = run_faults(binp, c.get("seed", ctx.seed), c.get("tier", "quick"), only=c.get("id", c.get("plan_index")))
    if rc != 0:
        vlib.report_violation(ctx, {"case": c, "why": ["the scheduler process died: " + out[-600:]]})
        return 1
    for r in rows:
        why = oracle(r)
        print(json.dumps({"plan": r["plan"], "why": why}))
        if why:
            vlib.report_violation(ctx, {"case": c, "why": why})
            return 1
    return 0
