"""C17 -- Isolated job: executions never overlap, and the gate always reopens."""
import json
import os
import re
from fractions import Fraction

import vlib

PROJ = "jobs"

MANIFEST = dict(
    engine="jobs",
    technique="Coq proof (invariant by induction over all label sequences of a transition system with any number of threads) on a "
              "model whose shape is regenerated from the source; observed histories of the real code checked by a history oracle "
              "and replayed inside Coq as traces of the model",
    text="Machine-checked Coq theorems over a labelled transition system of isolatedJob.Execute for any number of calling threads and "
         "label sequences of any length: at most one thread is inside the underlying job (and the enter/exit events of every history "
         "alternate), the flag is set exactly while some thread is between its successful swap and its store, a call returns the "
         "fail-fast error without invoking the job iff its swap observed another thread's admitted execution, after the job ends in "
         "any way (ok, error, panic) the next label of that thread stores false and a following call is admitted, every thread can "
         "always step; plus witness traces showing that load-then-store admission and a non-deferred release break the property. "
         "Whether admission is one atomic Swap(true) and whether Store(false) is deferred is read from the Go source on every run. "
         "The real job is driven by 8-64 goroutines with scripted durations and outcomes (ok/error/panic); the recorded history is "
         "checked (admitted executions pairwise disjoint, every rejection overlaps an admitted call, a fresh call after quiescence is "
         "admitted) and a complete history is linearised and accepted by the Coq model (vm_compute); a deterministic hold scenario and a "
         "real scheduler in unbounded mode with interval < duration complete the tie. Goroutine scheduling itself is observed, not proved.",
    design_ref="6 C17")


def genparams():
    binp, out = vlib.go_build("genparams")
    if binp is None:
        return False, out
    rc, out = vlib.run([binp, "-repo", vlib.REPO, "jobs"])
    if rc != 0:
        return False, out
    vlib.write_if_changed(os.path.join(vlib.coq_dir(PROJ), "theories", "Gen", "Params.v"), out)
    return True, ""


# ---------------------------------------------------------------------------
# history oracle (property level, independent of the Coq model)
# ---------------------------------------------------------------------------

def classify(c):
    """admitted | rejected | bad (with reason)."""
    if c["entered"]:
        # how the job's own outcome is passed on is not part of C17: any class is accepted for an admitted call
        if not (c["invoke"] < c["enter"] < c["exit"] < c["ret"]):
            return "bad", "event order of an admitted call is impossible"
        return "admitted", None
    if c["class"] == "othererr":
        return "rejected", None
    if c["class"] == "ctxerr" and c.get("ctx"):
        # the context handed to Execute was already done and the call came back with the context's error without running
        # the job: whether such a call must be admitted is not part of C17; it is not judged (but it must not shut the gate)
        return "neutral", None
    return "bad", "call returned %s without invoking the underlying job" % c["class"]


def history_oracle(calls, summary, how):
    """Returns a list of failure dicts."""
    fails = []
    adm, rej = [], []
    for c in calls:
        k, why = classify(c)
        if k == "admitted":
            adm.append(c)
        elif k == "rejected":
            rej.append(c)
        elif k == "neutral":
            pass
        else:
            fails.append({"why": [why], "call": c})
    adm.sort(key=lambda c: c["enter"])
    # (1) admitted executions pairwise disjoint
    for a, b in zip(adm, adm[1:]):
        if not a["exit"] < b["enter"]:
            fails.append({"why": ["two executions of the underlying job overlap"], "first": a, "second": b})
            break
    if summary.get("max_inflight", 1) > 1:
        fails.append({"why": ["in-flight counter of the underlying job reached %d" % summary["max_inflight"]]})
    # (3) a rejection is legitimate only if its swap fell while another call held the flag; what is observable of
    #     that call is [invoke, ret], which contains its flag-held interval -> the two call intervals must overlap
    import bisect
    inv = sorted(adm, key=lambda c: c["invoke"])
    inv_keys = [c["invoke"] for c in inv]
    # prefix maximum of ret over calls sorted by invoke
    pm, m = [], -1
    for c in inv:
        m = max(m, c["ret"])
        pm.append(m)
    for r in rej:
        # exists admitted X with X.invoke < r.ret and r.invoke < X.ret
        i = bisect.bisect_left(inv_keys, r["ret"])  # calls with invoke < r.ret
        if i == 0 or pm[i - 1] <= r["invoke"]:
            fails.append({"why": ["call rejected although no admitted execution was in progress at any time during the call"], "call": r})
            break
    # (4) gate reopens: after quiescence a fresh call is admitted
    fr = summary.get("fresh")
    if fr is not None:
        k, why = classify(fr)
        if k != "admitted":
            fails.append({"why": ["a call made after every other call had returned was not admitted (gate wedged): %s" % (why or k)], "call": fr})
    if calls and not adm:
        fails.append({"why": ["no call was ever admitted"]})
    for f in fails:
        f["how"] = how
    return fails, adm, rej


def run_stress(binp, g, n, seed):
    rc, out = vlib.run([binp, "isolated", "stress", str(g), str(n), str(seed)], timeout=600)
    if rc != 0:
        return None, None, out
    calls, summary = [], None
    for l in out.splitlines():
        if not l.startswith("{"):
            continue
        d = json.loads(l)
        if "summary" in d:
            summary = d
        else:
            calls.append(d)
    return calls, summary, out


def stress_failures(binp, g, n, seed):
    calls, summary, out = run_stress(binp, g, n, seed)
    case = {"kind": "stress", "goroutines": g, "per_goroutine": n, "seed": seed}
    if calls is None or summary is None:
        return [{"case": case, "why": ["harness crashed or printed no summary (a panic escaped, a deadlock, ...)"], "detail": out[-1500:]}], None, None, None
    fails, adm, rej = history_oracle(calls, summary, "jobsh isolated stress: goroutines call Execute on one isolated job; history on a logical clock")
    for f in fails:
        f["case"] = case
    return fails, calls, summary, (adm, rej)


def hold_failures(binp):
    rc, out = vlib.run([binp, "isolated", "hold"], timeout=600)
    fails, recs = [], []
    if rc != 0:
        return [{"case": {"kind": "hold"}, "why": ["harness crashed"], "detail": out[-1500:]}], recs
    for l in out.splitlines():
        if not l.startswith("{"):
            continue
        d = json.loads(l)
        recs.append(d)
        why = []
        if d["scenario"] == "hold":
            if d.get("error"):
                why.append(d["error"])
            if d.get("blocked"):
                why.append("a call made while an execution was in progress blocked instead of failing fast")
            for c in d.get("during") or []:
                if classify(c)[0] != "rejected":
                    why.append("a call made while another execution was inside the job was not rejected: %s" % json.dumps(c))
                    break
            if not d.get("blocked") and len(d.get("during") or []) != 50:
                why.append("expected 50 calls during the hold")
            h = d.get("holder")
            if h and classify(h)[0] != "admitted":
                why.append("holder: %s" % (classify(h)[1],))
            fr = d.get("fresh")
            if fr and classify(fr)[0] != "admitted":
                why.append("after the holder ended with %s and returned, a fresh call was not admitted" % d["outcome"])
        elif d["scenario"] == "handles":
            what = "a chain of %d wrappers (h0 = NewIsolatedJob(job), h1 = NewIsolatedJob(h0), ...)" % d["depth"]
            if d.get("error"):
                why.append(d["error"])
            if d.get("blocked"):
                why.append("a call made while an execution was in progress blocked instead of failing fast")
            h = d.get("holder")
            if h and classify(h)[0] != "admitted":
                why.append("holder: %s" % (classify(h)[1],))
            for c in d.get("during") or []:
                if classify(c)[0] != "rejected":
                    why.append("%s: while an execution admitted through h%d was inside the underlying job, a call through %s was not rejected "
                               "(%s): %s" % (what, d["holder_handle"], c.get("handle"),
                                             "it ran the job as well" if c["entered"] else classify(c)[1], json.dumps(c)))
                    break
            if not d.get("blocked") and not d.get("error") and len(d.get("during") or []) != 4 * d["depth"]:
                why.append("expected %d calls during the hold" % (4 * d["depth"]))
            for c in d.get("fresh") or []:
                if classify(c)[0] != "admitted":
                    why.append("%s: after the holder (through h%d, outcome %s) had returned, a call through %s was not admitted: %s" % (
                        what, d["holder_handle"], d["outcome"], c.get("handle"), classify(c)[1] or classify(c)[0]))
                    break
            if not d.get("blocked") and not d.get("error") and len(d.get("fresh") or []) != d["depth"]:
                why.append("expected a fresh call through each of the %d handles" % d["depth"])
        elif d["scenario"] == "escaped":
            if d.get("error"):
                why.append(d["error"])
            if d.get("blocked"):
                why.append("a call made while an execution was in progress blocked instead of failing fast")
            h = d.get("holder")
            if h and classify(h)[0] != "admitted":
                why.append("holder: %s" % (classify(h)[1],))
            for c in d.get("during") or []:
                if classify(c)[0] != "rejected":
                    why.append("while an execution was inside the underlying job, a call whose context is %s was not rejected (%s): %s" % (
                        c.get("ctx_origin"), "it ran the job as well" if c["entered"] else classify(c)[1], json.dumps(c)))
                    break
            if not d.get("blocked") and not d.get("error") and len(d.get("during") or []) != 9:
                why.append("expected 9 calls during the hold")
            for c in d.get("fresh") or []:
                if classify(c)[0] != "admitted":
                    why.append("after the holder (outcome %s) had returned, a call whose context is %s was not admitted: %s" % (
                        d["outcome"], c.get("ctx_origin"), classify(c)[1] or classify(c)[0]))
                    break
            if not d.get("blocked") and not d.get("error") and len(d.get("fresh") or []) != 9:
                why.append("expected 9 calls after the hold")
        else:
            # sequential / chained: every call is made after the previous one returned, so nothing is in progress
            for n, c in enumerate(d["calls"]):
                k, w = classify(c)
                if k not in ("admitted", "neutral"):
                    prev = ["%s%s" % (x["outcome"], "/ctx-" + x["ctx"] if x.get("ctx") else "") for x in d["calls"][:n]]
                    why.append("%s call %d was not admitted although no execution was in progress (earlier calls, all returned: %s): %s" % (
                        d["scenario"], n, prev, w or k))
                    break
        if d.get("max_inflight", 1) > 1:
            why.append("in-flight counter reached %d" % d["max_inflight"])
        if why:
            case = {"kind": "hold", "scenario": d["scenario"], "outcome": d.get("outcome")}
            how = "jobsh isolated hold: deterministic scenario (holder blocked inside the job / sequential outcome series)"
            if d["scenario"] == "handles":
                case.update({"depth": d["depth"], "holder_handle": d["holder_handle"], "max_inflight": d.get("max_inflight"),
                             "holder": d.get("holder"), "during": d.get("during"), "fresh": d.get("fresh")})
                how = ("jobsh isolated hold, scenario `handles`: an isolated job wrapped a second (third) time, every handle of the chain in use; "
                       "the holder is blocked inside the underlying job through one handle, then 4 calls go through each handle in turn "
                       "(20 s watchdog each), the holder is released, then one call goes through each handle")
            if d["scenario"] == "escaped":
                case.update({"max_inflight": d.get("max_inflight"), "holder": d.get("holder"), "during": d.get("during"), "fresh": d.get("fresh")})
                how = ("jobsh isolated hold, scenario `escaped`: the wrapped job keeps the ctx argument of a finished execution and hands the ctx "
                       "argument of the running one to another goroutine; while the holder is blocked inside the job, calls are made with these "
                       "contexts, with contexts derived from them (WithValue / WithCancel / WithTimeout) and with Background (20 s watchdog each); "
                       "after the holder returned the same contexts are used again")
            fails.append({"case": case, "why": why, "how": how})
    if len(recs) != 13:
        fails.append({"case": {"kind": "hold"}, "why": ["expected 13 scenario records, got %d" % len(recs)], "detail": out[-800:]})
    return fails, recs


def sched_failures(binp, ms):
    rc, out = vlib.run([binp, "isolated", "sched", str(ms)], timeout=600)
    lines = [l for l in out.splitlines() if l.startswith("{")]
    case = {"kind": "sched", "ms": ms}
    if rc != 0 or not lines:
        return [{"case": case, "why": ["harness crashed"], "detail": out[-1500:]}], None
    d = json.loads(lines[-1])
    why = []
    if d.get("error"):
        why.append(d["error"])
    spans = sorted(d.get("spans") or [])
    for a, b in zip(spans, spans[1:]):
        if not a[1] < b[0]:
            why.append("two executions started by the scheduler overlap: %s %s" % (a, b))
            break
    if d.get("max_inflight", 1) > 1:
        why.append("in-flight counter reached %d" % d["max_inflight"])
    # interval 4 ms, duration 25 ms, outcomes ok/error/panic in turn: if the gate did not reopen after an error or a
    # panic there would be at most 2-3 executions however long the run (generous: ms/25 is the ideal count)
    if len(spans) < 5:
        why.append("only %d executions in %d ms of firings every 4 ms (gate does not reopen?)" % (len(spans), ms))
    if not d.get("fresh_admitted"):
        why.append("a direct call after the scheduler stopped was not admitted")
    fails = [{"case": case, "why": why, "how": "jobsh isolated sched: StdScheduler (unbounded mode), SimpleTrigger 4 ms, job duration 25 ms"}] if why else []
    return fails, d


# ---------------------------------------------------------------------------
# model tie: the observed history, linearised, must be a trace of the Coq model
# ---------------------------------------------------------------------------

def linearise(adm, rej):
    """Place the unobserved swap/store instants and return the label list (None if impossible, which the oracle reports)."""
    ev = []  # (time, seq, label)
    seq = [0]

    def add(t, lab):
        seq[0] += 1
        ev.append((Fraction(t), seq[0], lab))
    n = len(adm)
    swap, store = [None] * n, [None] * n
    for k, x in enumerate(adm):
        if k == 0:
            swap[k] = Fraction(x["invoke"]) + Fraction(3, 10)
        if k + 1 < n:
            y = adm[k + 1]
            if y["invoke"] < x["ret"]:
                b = Fraction(max(x["exit"], y["invoke"])) + Fraction(1, 2)
                store[k], swap[k + 1] = b, b + Fraction(1, 5)
            else:
                store[k], swap[k + 1] = Fraction(x["ret"]) - Fraction(3, 10), Fraction(y["invoke"]) + Fraction(3, 10)
        else:
            store[k] = Fraction(x["ret"]) - Fraction(3, 10)
    oc = {"ok": "OOk", "error": "OErr", "panic": "OPanic", "nested": "OErr", "nested-wrapped": "OErr"}
    for k, x in enumerate(adm):
        t = x["g"]
        add(swap[k], "ISwap %d" % t)
        add(x["enter"], "IEnter %d" % t)
        add(x["exit"], "IFinish %d %s" % (t, oc[x["outcome"]]))
        add(store[k], "IRelease %d" % t)
    import bisect
    for idx, r in enumerate(rej):
        # the holder intervals (swap_k, store_k) are disjoint and sorted: the first one ending after r began
        lo_r, hi_r = Fraction(r["invoke"]), Fraction(r["ret"])
        k = bisect.bisect_right(store, lo_r)
        if k >= n or not swap[k] < hi_r:
            return None
        lo, hi = max(lo_r, swap[k]), min(hi_r, store[k])
        sigma = lo + (hi - lo) * Fraction(1 + idx % 997, 1000)
        add(sigma, "ISwap %d" % r["g"])
        add((sigma + hi_r) / 2, "IReject %d" % r["g"])
    ev.sort()
    return [l for _, _, l in ev]


def coq_replay(labels, threads, name):
    v = """From Coq Require Import List Arith.
Require Import QzJobs.Gen.Params QzJobs.Isolated.
Import ListNotations.
Definition TRACE : list ilabel := [%s].
Definition VERDICT := Eval vm_compute in replay_verdict TRACE [%s].
Print VERDICT.
""" % (";\n ".join(labels), "; ".join(str(t) for t in threads))
    rc, out = vlib.coq_eval(PROJ, name, v, timeout=600)
    if rc != 0:
        return None, out
    m = re.search(r"VERDICT\s*=\s*\(\s*(\d+)\s*,\s*(true|false)\s*,\s*(true|false)\s*,\s*(true|false)\s*\)", out.replace("\n", " "))
    if not m:
        return None, out
    return (int(m.group(1)), m.group(2) == "true", m.group(3) == "true", m.group(4) == "true"), out


def model_tie(binp, g, n, seed):
    """One complete small history replayed in Coq. Returns (mismatches, info)."""
    fails, calls, summary, parts = stress_failures(binp, g, n, seed)
    if fails or parts is None:
        return [], {"skipped": "history already fails the oracle"}, fails
    adm, rej = parts
    fr = summary.get("fresh")
    if fr and fr["entered"]:
        adm = adm + [fr]
    labels = linearise(adm, rej)
    if labels is None:
        return [{"what": "no placement of swap/store instants found for a history the oracle accepts", "seed": seed}], {}, []
    threads = sorted({c["g"] for c in calls} | ({fr["g"]} if fr else set()))
    verdict, out = coq_replay(labels, threads, "c17_replay")
    info = {"labels": len(labels), "admitted": len(adm), "rejected": len(rej), "verdict": verdict}
    if verdict is None:
        return [{"what": "model evaluation failed", "detail": out[-1500:]}], info, []
    nacc, ok, flag_clear, idle = verdict
    if not (ok and nacc == len(labels) and flag_clear and idle):
        return [{"what": "the observed history is not a trace of the Coq model of isolatedJob.Execute",
                 "accepted_labels": nacc, "of": len(labels), "first_rejected_label": labels[nacc] if nacc < len(labels) else None,
                 "final_flag_clear": flag_clear, "all_idle": idle,
                 "case": {"kind": "stress", "goroutines": g, "per_goroutine": n, "seed": seed}}], info, []
    return [], info, []


def run(ctx):
    res, broken = vlib.proof_step(ctx, PROJ, "C17", genparams)
    binp, out = vlib.go_build("jobsh")
    if binp is None:
        raise RuntimeError("cannot build jobsh: " + out[-3000:])
    quick = ctx.tier == "quick"
    rounds = [(32, 650), (32, 650), (64, 300), (8, 2500), (3, 4000), (16, 1200)] if quick else \
        [(32, 6000), (32, 6000), (64, 3000), (8, 20000), (3, 40000), (16, 12000), (128, 1500), (2, 50000), (48, 4000), (32, 6000)]
    failures, mismatches = [], []
    total_calls = total_adm = total_rej = 0
    stress_info = []
    for k, (g, n) in enumerate(rounds):
        f, calls, summary, parts = stress_failures(binp, g, n, ctx.seed + k)
        failures += f[:2]
        if calls is not None:
            total_calls += len(calls)
        if parts:
            total_adm += len(parts[0])
            total_rej += len(parts[1])
            stress_info.append({"goroutines": g, "per_goroutine": n, "seed": ctx.seed + k, "admitted": len(parts[0]), "rejected": len(parts[1]),
                                "max_inflight": summary["max_inflight"]})
    hf, hold = hold_failures(binp)
    failures = hf + failures   # deterministic scenarios first: their replays reproduce without luck
    sf, sched = sched_failures(binp, 700 if quick else 4000)
    failures += sf
    tie_info = []
    if os.path.exists(os.path.join(vlib.coq_dir(PROJ), "theories", "Isolated.vo")):
        for k, (g, n) in enumerate([(6, 120), (3, 200)] if quick else [(6, 300), (3, 500), (12, 120), (2, 800)]):
            mm, info, f2 = model_tie(binp, g, n, ctx.seed + 50 + k)
            mismatches += mm
            failures += f2[:1]
            tie_info.append(info)
    else:
        mismatches.append({"what": "Isolated.vo missing: the model could not be evaluated"})

    def search():
        found = []
        for k in range(8):
            g, n = [(32, 8000), (64, 4000), (16, 16000), (128, 2000)][k % 4]
            f, _, _, _ = stress_failures(binp, g, n, ctx.seed + 1000 + k)
            if f:
                found.append(f[0])
                break
        return found

    vlib.decide(ctx, broken, failures, mismatches, search)
    cov = vlib.proof_coverage(res, PROJ, "C17")
    cov.update({
        "evaluations": total_calls + sum(len(d.get("during") or d.get("calls") or []) for d in hold) + (sched or {}).get("firings", 0),
        "distinct_nontrivial": total_adm,
        "rule": "stress: G goroutines x N Execute calls on one isolated job, underlying job with scripted duration (0 / Gosched / 1 ms), "
                "outcome (ok / error / panic / the fail-fast error of another busy isolated job, plain or wrapped) and 4 % of the calls made "
                "with an already cancelled or expired context; every call recorded on a logical clock (atomic counter); oracle: admitted executions "
                "pairwise disjoint, every rejected call overlaps an admitted call, a fresh call after quiescence is admitted, outcomes "
                "not judged for admitted calls. non-trivial = admitted executions (each is followed by a release the next admission depends on). hold: holder "
                "blocked inside the job, 50 calls rejected, gate reopens after ok/error/panic; sequential series (incl. already cancelled / expired "
                "contexts and an underlying job that ends with another busy isolated job's fail-fast error, plain and wrapped), an isolated job wrapped a second and third time with calls through every handle of the chain while one "
                "execution is in flight, calls with contexts that escaped from the wrapped job (ctx of a finished / of the running execution and "
                "contexts derived from them) while one execution is in flight and afterwards, and chained / "
                "nested isolated jobs all admitted. sched: "
                "real scheduler, 4 ms trigger, 25 ms job. model tie: complete small histories linearised and replayed in Coq.",
        "samples": stress_info[:3] + tie_info[:1],
        "exhaustive": False,
        "admitted_executions": total_adm,
        "rejected_calls": total_rej,
        "stress_rounds": stress_info,
        "hold_scenarios": len(hold),
        "scheduler": {k: v for k, v in (sched or {}).items() if k != "spans"},
        "scheduler_executions": len((sched or {}).get("spans") or []),
        "model_replays": tie_info,
        "model_mismatches": len(mismatches),
        "oracle_failures": len(failures),
        "partial_runtime": "which interleavings the Go runtime produces is observed, not proved; model-generated label sequences cannot be "
                           "forced on real goroutines, so the tie runs from observed histories to the model (trace inclusion), not the other way",
    })
    vlib.write_evidence(ctx, cov, assumptions=[
        "atomic.Bool.Swap and Store are single atomic actions on one word (sync/atomic's contract)",
        "a deferred call runs on every exit path of the function, including a panic (Go specification)",
        "the underlying job is arbitrary: it may take any time and end by returning nil, returning an error or panicking",
    ])
    return 1 if ctx.violations else 0


def replay(ctx, path):
    obj = json.load(open(path))
    binp, out = vlib.go_build("jobsh")
    c = obj.get("case", {})
    kind = c.get("kind")
    fails = []
    if kind == "stress":
        for _ in range(5):  # scheduling is not deterministic: a few attempts
            fails, _, _, _ = stress_failures(binp, c["goroutines"], c["per_goroutine"], c["seed"])
            if fails:
                break
    elif kind == "hold":
        fails, _ = hold_failures(binp)
    elif kind == "sched":
        fails, _ = sched_failures(binp, c.get("ms", 700))
    else:
        res, broken = vlib.proof_step(ctx, PROJ, "C17", genparams)
        print(json.dumps({"proof_ok": res.get("ok"), "broken": broken}, default=str))
        if broken:
            vlib.report_violation(ctx, obj, no_input=True)
            return 1
        return 0
    print(json.dumps(fails[:2], default=str)[:3000])
    if fails:
        vlib.report_violation(ctx, fails[0])
        return 1
    return 0
