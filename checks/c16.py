"""C16 -- Built-in jobs report each execution faithfully and do not leak resources."""
import json
import os
import re
import threading

import vlib

PROJ = "jobs"
NA, OK, FAILURE = 0, 1, 2

MANIFEST = dict(
    engine="jobs",
    technique="Coq proof (status functions over all inputs; invariant by induction over all interleavings of a transition system of "
              "concurrent executions of one job object) on a model regenerated in part from the source; exhaustive sweeps of the real "
              "jobs compared with the model evaluated inside Coq and with a property oracle; resource counts observed at run time",
    text="Machine-checked Coq theorems over the model of FunctionJob/ShellJob/CurlJob.Execute: status OK iff the function's error is nil / "
         "the command's run error is nil i.e. exit code 0 (all exit codes) / a response exists with 200 <= code < 400 (all codes), transport "
         "error => Failure, result zeroed on error, Execute returns the underlying error; for any number of threads executing one job "
         "object and every interleaving, whenever the mutex is free the visible tuple is exactly the committed outcome of the execution "
         "that committed last (never a mixture), one callback per execution after its own commit, and a CurlJob holds at most one "
         "unclosed response body in every reachable state. Status constants, branch tests, HTTP limits and operators, the position of "
         "the computation, of the field assignments and of the callback relative to Lock/Unlock, the ctx binding and the body close are "
         "read from the Go source on every run. The real jobs are swept exhaustively (HTTP codes 90..610 through a scripted client and "
         "100..599 over real connections, with/without body and callback, transport errors, exit codes 0..255, outputs up to 1 MiB, "
         "function results/errors, cancellation of a function, a request and `sleep 10`, 8 goroutines on one object with id-carrying "
         "outcomes under the race detector) and compared with the model inside Coq; goroutines, server connections, descriptors and "
         "child processes are counted before/after 300 executions (observed, not proved).",
    design_ref="6 C16")


def genparams():
    binp, out = vlib.go_build("genparams")
    if binp is None:
        return False, out
    rc, out = vlib.run([binp, "-repo", vlib.REPO, "jobs"])
    if rc != 0:
        return False, out
    vlib.write_if_changed(os.path.join(vlib.coq_dir(PROJ), "theories", "Gen", "Params.v"), out)
    return True, ""


def setup():
    vlib.go_build("jobsh", race=True)


# ---------------------------------------------------------------------------
# property oracles (on what the implementation did; independent of the Coq model)
# ---------------------------------------------------------------------------

def oracle_curl(c):
    why = []
    code, st, want = c["code"], c["status"], c["want"]
    if st not in (OK, FAILURE):
        why.append("status after an execution is %d, neither OK nor Failure" % st)
    if (st == OK) != (200 <= code < 400):
        why.append("status %s but the response held has code %d (OK iff 200 <= code < 400; no response => Failure)" % (
            "OK" if st == OK else "Failure" if st == FAILURE else st, code))
    v = c["variant"]
    if want < 0:
        expect = {"synthetic": "scripted", "transport-refused": "refused", "transport-timeout": "deadline",
                  "transport-cancelled-before": "canceled"}.get(v)
        if c["err_nil"] or (expect and c["err_class"] != expect):
            why.append("Execute did not return the transport error (got %r, expected %s)" % (c["err_class"] or "nil", expect))
        if code != -1:
            why.append("a response (code %d) is held after a transport error" % code)
    else:
        if not c["err_nil"]:
            why.append("Execute returned an error (%s) although the client delivered a response" % c["err_class"])
        if v == "synthetic" or want >= 200:
            if code != want:
                why.append("held response has code %d, the server sent %d (response of another execution?)" % (code, want))
    ncb = 1 if c["callback"] else 0
    if c["cb_calls"] != ncb:
        why.append("callback invoked %d times in one execution (expected %d)" % (c["cb_calls"], ncb))
    if c["callback"] and c["cb_calls"] == 1:
        if c["cb_status"] != st:
            why.append("the callback saw status %d, the committed status is %d (callback before commit?)" % (c["cb_status"], st))
        if not c["cb_ctx_same"]:
            why.append("the callback did not receive the context passed to Execute")
    return why


NOSTART_ERR = {"nostart-ctx-cancelled": "canceled", "nostart-ctx-expired": "deadline", "nostart-shell-missing": "notfound",
               "nostart-shell-not-executable": "noexec"}


def oracle_shell_nostart(c):
    """An execution in which the shell was never started (context already done, shell missing / not executable): it is an
    execution like any other -- Execute returns the launch error, the visible outcome is THIS execution's (Failure, exit -1 as
    there is no process state, nothing captured), never the previous execution's, and the callback runs once."""
    why = []
    v, ex, st = c["variant"], c["exit"], c["status"]
    what = "the shell was never started (%s; previous execution on this object: %s)" % (v[len("nostart-"):], c.get("prev"))
    if c["err_nil"]:
        why.append("Execute returned nil although " + what)
    elif c["err_class"] != NOSTART_ERR[v]:
        why.append("Execute returned an error of class %r, expected the launch error (%s)" % (c["err_class"], NOSTART_ERR[v]))
    if st != FAILURE:
        why.append("status %s is shown after an execution in which %s" % ({NA: "NA", OK: "OK"}.get(st, st), what))
    if ex != -1:
        why.append("exit code %d is shown (no process state: -1 expected) although %s" % (ex, what))
    if not c["out_ok"] or not c["errout_ok"]:
        why.append("stdout/stderr show %d/%d bytes although nothing ran in this execution (output of the previous execution?)" % (
            c["out_len"], c["errout_len"]))
    ncb = 1 if c["callback"] else 0
    if c["cb_calls"] != ncb:
        why.append("callback invoked %d times in this execution (expected %d)" % (c["cb_calls"], ncb))
    if c["callback"] and c["cb_calls"] == 1 and (c["cb_status"] != st or c["cb_exit"] != ex):
        why.append("the callback saw status %d / exit %d, committed are %d / %d" % (c["cb_status"], c["cb_exit"], st, ex))
    return why


def oracle_stream(c):
    """Executions repeated on one CurlJob; the server keeps the body of the earlier response open."""
    if c.get("error"):
        return [c["error"]]
    why = []
    if not (c["first_err_nil"] and c["first_status"] == OK and c["first_code"] == 200):
        why.append("first execution (200, headers delivered, body kept open by the server): err_nil=%s status=%d code=%d" % (
            c["first_err_nil"], c["first_status"], c["first_code"]))
    setting = "the server keeps the body of the previous execution's response open (%s); previous execution's context: %s" % (
        c["prev_body"], c["first_ctx"])
    if not c["second_returned"]:
        reach = "its request had reached the server" if c["second_reached"] else "its request never reached the server"
        if c["second"] == "hang-cancel":
            why.append("cancelling the context passed to Execute did not abort the execution within %d ms (%s): %s; Execute %s" % (
                c["patience_ms"], reach, setting,
                "returned only after the harness made the server end the old stream" if c["returned_at_last"] else "never returned"))
        else:
            why.append("Execute did not return within %d ms although the server answers the request at once (%s): %s; Execute %s" % (
                c["patience_ms"], reach, setting,
                "returned only after the harness made the server end the old stream" if c["returned_at_last"] else "never returned"))
        return why
    if c["second"] == "plain":
        if not c["err_nil"] or c["status"] != OK or c["code"] != 201:
            why.append("second execution (server answers 201): err=%s status=%d held code=%d -- not the outcome of the most recent execution" % (
                c["err_class"] or "nil", c["status"], c["code"]))
    else:
        if c["err_class"] != "canceled" or c["status"] != FAILURE or c["code"] != -1:
            why.append("second execution (request held by the server, context cancelled): err=%s status=%d held code=%d" % (
                c["err_class"] or "nil", c["status"], c["code"]))
    if c["cb_calls"] != 2:
        why.append("%d callbacks for 2 executions" % c["cb_calls"])
    return why


def oracle_dump(c):
    """The response held after an execution is that execution's, body included."""
    why = []
    what = "execution %d (server sent %d with %d bytes of body; job %s a callback)" % (c["step"], c["want"], c["size"], "with" if c["callback"] else "without")
    if not c["err_nil"] or c["code"] != c["want"] or (c["status"] == OK) != (200 <= c["want"] < 400):
        why.append("%s: err_nil=%s held code=%d status=%d" % (what, c["err_nil"], c["code"], c["status"]))
    if c.get("dump_err"):
        why.append("%s: DumpResponse(true) after Execute returned fails: %s" % (what, c["dump_err"]))
    elif not c["body_ok"]:
        why.append("%s: the body returned by DumpResponse(true) (%d bytes) is not what the server sent in this execution" % (what, c["body_len"]))
    if c.get("dump2_err") or not c["body2_ok"]:
        if not c.get("dump_err") and c["body_ok"]:
            why.append("%s: a second DumpResponse(true) differs: %s" % (what, c.get("dump2_err") or "other body"))
    ncb = 1 if c["callback"] else 0
    if c["cb_calls"] != ncb:
        why.append("callback invoked %d times in one execution (expected %d)" % (c["cb_calls"], ncb))
    return why


def oracle_shell(c):
    if c["variant"] in NOSTART_ERR:
        return oracle_shell_nostart(c)
    why = []
    want, ex, st = c["want"], c["exit"], c["status"]
    if ex != want:
        why.append("exit code %d reported, the command exited with %d" % (ex, want))
    if (st == OK) != (ex == 0) or st not in (OK, FAILURE):
        why.append("status %d with exit code %d (OK iff the command exited 0)" % (st, ex))
    if c["err_nil"] != (want == 0):
        why.append("Execute returned %s for exit code %d" % ("nil" if c["err_nil"] else "an error", want))
    if want != 0 and c["err_exit"] != want:
        why.append("the returned error carries exit code %d, not %d (not the run's own error)" % (c["err_exit"], want))
    if not c["out_ok"]:
        why.append("stdout differs from what the command wrote (length %d)" % c["out_len"])
    if not c["errout_ok"]:
        why.append("stderr differs from what the command wrote (length %d)" % c["errout_len"])
    ncb = 1 if c["callback"] else 0
    if c["cb_calls"] != ncb:
        why.append("callback invoked %d times in one execution (expected %d)" % (c["cb_calls"], ncb))
    if c["callback"] and c["cb_calls"] == 1 and (c["cb_status"] != st or c["cb_exit"] != ex):
        why.append("the callback saw status %d / exit %d, committed are %d / %d" % (c["cb_status"], c["cb_exit"], st, ex))
    return why


def oracle_func(c):
    why = []
    if not c["ret_same"]:
        why.append("Execute did not return the function's error")
    if c["status"] != (FAILURE if c["fn_err"] else OK):
        why.append("status %d although the function returned %s" % (c["status"], "an error" if c["fn_err"] else "nil"))
    if not c["err_same"]:
        why.append("Error() is not the function's error")
    if c["fn_err"] and not c["result_zero"]:
        why.append("result not zeroed although the function failed")
    if not c["fn_err"] and not c["result_kept"]:
        why.append("Result() is not what the function returned")
    if not c["ctx_same"]:
        why.append("the function did not receive the context passed to Execute")
    return why


def oracle_cancel(c):
    why = []
    if c.get("error"):
        return [c["error"]]
    v = c["variant"]
    if not c.get("aborted"):
        why.append("cancelling the context passed to Execute did not abort the running %s within the patience of the harness%s" % (
            v, " (the job's request was built with http.NewRequestWithContext and a value-only context)" if v == "http-valuectx" else ""))
        return why
    if c["status"] != FAILURE:
        why.append("status %d after an aborted execution" % c["status"])
    if v in ("function", "http", "http-valuectx") and c.get("err_class") != "canceled":
        why.append("Execute returned %r, expected the context's cancellation error" % c.get("err_class"))
    if v.startswith("http") and (c["code"] != -1 or c["cb_calls"] != 1):
        why.append("after the aborted request: held code %d, callbacks %d" % (c["code"], c["cb_calls"]))
    if v == "shell" and (c["err_nil"] or c["exit"] != -1 or c["cb_calls"] != 1 or not c["stdout_begun"]):
        why.append("after the killed command: err_nil=%s exit=%d callbacks=%d stdout kept=%s" % (c["err_nil"], c["exit"], c["cb_calls"], c["stdout_begun"]))
    return why


def oracle_conc(c):
    why = []
    if c.get("mixed"):
        why.append("%d of %d quiescent reads show a tuple that is not the complete outcome of one execution (first: %s)" % (
            c["mixed"], c["rounds"], json.dumps(c["first_mixed"])))
    if c.get("ret_wrong"):
        why.append("%d executions returned an error that is not their own" % c["ret_wrong"])
    if c.get("bad_reads") or c.get("cb_bad"):
        why.append("ill-formed value read from a getter while executions were in flight")
    if "cb_calls" in c and c["cb_calls"] != c["executions"]:
        why.append("%d callbacks for %d executions" % (c["cb_calls"], c["executions"]))
    if c.get("max_open_bodies_at_quiescence", 0) > 1:
        why.append("%d response bodies unclosed at a quiescent point" % c["max_open_bodies_at_quiescence"])
    return why


def oracle_overlap(c):
    if c.get("skipped"):
        return []
    if c.get("error"):
        return [c["error"]]
    why = []
    if not c["tuple_is_last"]:
        why.append("two overlapping executions of one %s (%s, %s): after both returned the visible tuple is not the outcome of the execution "
                   "that completed last (%s): %s" % (c["job"], c["order"], c["variant"], c["last"], c["detail"]))
    if not (c["ret_a_own"] and c["ret_b_own"]):
        why.append("an Execute call did not return its own execution's error")
    return why


def oracle_leak(c):
    why = []
    b, a, lim = c["before"], c["after"], c["bounds"]
    if a["goroutines"] - b["goroutines"] > lim["goroutines"]:
        why.append("goroutines grew from %d to %d over %d executions" % (b["goroutines"], a["goroutines"], c["executions"]))
    if a["fds"] - b["fds"] > lim["fds"]:
        why.append("open descriptors grew from %d to %d over %d executions" % (b["fds"], a["fds"], c["executions"]))
    if "open_conns" in lim and a["open_conns"] > lim["open_conns"]:
        why.append("%d server-side connections still open after %d executions" % (a["open_conns"], c["executions"]))
    if c.get("children", 0) > 2:
        why.append("%d child processes left" % c["children"])
    return why


def oracle(c):
    k = c.get("kind")
    if k == "curl":
        return oracle_curl(c)
    if k == "shell":
        return oracle_shell(c)
    if k == "func":
        return oracle_func(c)
    if k == "cancel":
        return oracle_cancel(c)
    if k == "conc":
        return oracle_conc(c)
    if k == "leak":
        return oracle_leak(c)
    if k == "overlap":
        return oracle_overlap(c)
    if k == "stream":
        return oracle_stream(c)
    if k == "dump":
        return oracle_dump(c)
    if k == "curl-bodies":
        n = c["handed_out"] - c["closed"]
        return ["%d response bodies unclosed after %d sequential executions" % (n, c["executions"])] if n > 1 else []
    if k == "curl-initial":
        return [] if (c["status"] == NA and c["code"] == -1) else ["a new CurlJob has status %d / code %d" % (c["status"], c["code"])]
    if k == "shell-initial":
        return [] if c["status"] == NA else ["a new ShellJob has status %d" % c["status"]]
    if k == "func-initial":
        return [] if (c["status"] == NA and c["result_zero"] and c["err_nil"]) else ["a new FunctionJob is not in its initial state"]
    return ["unknown record kind %r" % k]


# ---------------------------------------------------------------------------
# harness runs
# ---------------------------------------------------------------------------

SUBCMDS = {
    "http-synthetic": ["http", "synthetic"], "http-server": ["http", "server"], "http-transport": ["http", "transport"],
    "shell-exits": ["shell", "exits"], "shell-sizes": ["shell", "sizes"], "func": ["func"], "cancel": ["cancel"],
    "overlap": ["overlap"], "http-stream": ["http", "stream"], "shell-nostart": ["shell", "nostart"],
    "shell-background": ["shell", "background"], "http-dump": ["http", "dump"],
}
PARALLEL = ("shell-background",)   # mostly sleeping (4 s): run beside the other commands


HOW = {
    "http-stream": "jobsh http stream: ONE CurlJob over a real connection to a local server; first execution: the server sends the headers and one "
                   "event of a 200 response and keeps the body open (stalled: sends nothing more; trickle: one byte every 25 ms); second execution "
                   "under a different context (first_ctx says how the first one's context relates: background / own context still alive / sibling "
                   "child of one parent / cancelled right after the first execution): `plain` = the server answers 201 at once, Execute must return; "
                   "`hang-cancel` = the server holds the request, the context is cancelled once the request is in flight (or after 3 s), Execute "
                   "must return; verdict after the patience only, then the server ends the old stream so that the harness can clean up",
    "shell-background": "jobsh shell background: the shell prints, starts a background process that keeps the captured stdout / stderr pipe open for "
                        "0.5 / 1.5 / 4 s (and then writes `late`, or stays silent) and exits at once with 0 (or 3); all variants run in parallel, no "
                        "timing asserted; expected: the command's own outcome (status OK iff the shell exited 0, Execute returns nil then / the "
                        "*exec.ExitError otherwise) and everything written to the pipes (`earlylate`)",
    "http-dump": "jobsh http dump: ONE CurlJob per callback variant over real connections to a local server that answers 200 / 404 / 500 with bodies "
                 "of 1 B .. 64 KiB that name the execution; after every Execute the harness calls DumpResponse(true) twice and compares the body "
                 "with what the server sent (the callback reads JobStatus only)",
    "shell-nostart": "jobsh shell nostart: ONE ShellJob (command prints o<exit>.<step> / e<exit>.<step> and exits with the number in a file); "
                     "executions in which exec cannot start the shell (context already cancelled / deadline passed before Execute, PATH without "
                     "bash/sh, PATH with a bash/sh that is not executable) as first execution of a new job and between executions that run; "
                     "status, exit code, stdout, stderr, callback count read after each execution",
}


def run_cmd(binp, args, timeout=600):
    rc, out = vlib.run([binp] + args, timeout=timeout)
    recs = []
    for l in out.splitlines():
        if l.startswith("{"):
            try:
                recs.append(json.loads(l))
            except ValueError:
                pass
    return rc, recs, out


def collect(binp, name, args, failures, how):
    rc, recs, out = run_cmd(binp, args)
    for r in recs:
        r["_cmd"] = name
    if rc != 0 or not recs:
        race = "DATA RACE" in out
        failures.append({"case": {"cmd": name, "args": args},
                         "why": ["the race detector reported a data race on the job's state" if race else
                                 "harness exited with %d (panic, deadlock or time-out while driving the job)" % rc],
                         "detail": out[-2500:], "how": how})
    for r in recs:
        why = oracle(r)
        if why:
            failures.append({"case": r, "why": why, "how": how})
    return recs


# ---------------------------------------------------------------------------
# model comparison inside Coq
# ---------------------------------------------------------------------------

def zc(n):
    return "(%d)%%Z" % n


def model_mismatches(recs, scripts):
    curl = sorted({(r["code"], r["status"]) for r in recs if r.get("kind") == "curl"})
    shell = sorted({(r["exit"], r["status"], r["err_nil"]) for r in recs if r.get("kind") == "shell"})
    func = sorted({(r["fn_err"], r["status"], r["result_zero"], r["result_kept"]) for r in recs if r.get("kind") == "func" and r["variant"] == "pointer"})
    bl = lambda b: "true" if b else "false"
    ov = sorted({(r["order"] == "ABBA", r["variant"] in ("fails:A", "fails:both"), r["variant"] in ("fails:B", "fails:both"), r["status"], r["result"])
                 for r in recs if r.get("kind") == "overlap" and r["job"] == "func" and not r.get("skipped") and not r.get("error")})
    seqs = []
    for (cb, body, script, open_obs, code_obs, st_obs, cbn_obs) in scripts:
        seqs.append("(%s, %s, [%s], (%d%%nat, %s, %s, %d%%nat))" % (bl(cb), bl(body), "; ".join(zc(c) for c in script), open_obs, zc(code_obs), zc(st_obs), cbn_obs))
    v = """From Coq Require Import ZArith List Bool Arith.
Require Import QzJobs.Gen.Params QzJobs.JobsModel.
Import ListNotations.
Open Scope nat_scope.
Definition curl_cases : list (Z * Z) := [%s].
Definition shell_cases : list (Z * Z * bool) := [%s].
Definition func_cases : list (bool * Z * bool * bool) := [%s].
Definition seq_cases : list (bool * bool * list Z * (nat * Z * Z * nat)) := [%s].
Definition ov_cases : list (bool * bool * bool * Z * nat) := [%s].
Definition idx {A} (f : A -> bool) (l : list A) : list nat :=
  map fst (filter (fun p => negb (f (snd p))) (combine (seq 0 (length l)) l)).
Definition bad_curl := idx (fun c => Z.eqb (cu_status_of_code (fst c)) (snd c)) curl_cases.
Definition bad_shell := idx (fun c => let '(e, st, en) := c in Z.eqb (sh_status_of_exit e) st && Bool.eqb (sh_err_nil_of_exit e) en) shell_cases.
Definition bad_func := idx (fun c => let '(fe, st, rz, rk) := c in
   Z.eqb (fn_status_of (negb fe)) st && Bool.eqb (fn_result_kept (negb fe)) rk && Bool.eqb (negb (fn_result_kept (negb fe))) rz) func_cases.
Definition bad_seq := idx (fun c => let '(cb, body, script, (o, code, st, n)) := c in
   match cu_seq_model cb body script with
   | Some (o', code', st', n') => Nat.eqb o o' && Z.eqb code code' && Z.eqb st st' && Nat.eqb n n'
   | None => false end) seq_cases.
Definition bad_ov := idx (fun c => let '(abba, fa, fb, st, res) := c in
   match fn_overlap_model abba fa fb with Some (st', res') => Z.eqb st st' && Nat.eqb res res' | None => false end) ov_cases.
Definition MISMATCH := Eval vm_compute in (bad_curl, bad_shell, bad_func, bad_seq, bad_ov).
Print MISMATCH.
""" % ("; ".join("(%s, %s)" % (zc(a), zc(b)) for a, b in curl),
       "; ".join("(%s, %s, %s)" % (zc(a), zc(b), bl(c)) for a, b, c in shell),
       "; ".join("(%s, %s, %s, %s)" % (bl(a), zc(b), bl(c), bl(d)) for a, b, c, d in func),
       "; ".join(seqs),
       "; ".join("(%s, %s, %s, %s, %d%%nat)" % (bl(a), bl(b), bl(c), zc(d), max(e, 0)) for a, b, c, d, e in ov))
    rc, out = vlib.coq_eval(PROJ, "c16_cases", v, timeout=600)
    if rc != 0:
        return None, out, 0
    flat = out.replace("\n", " ")
    m = re.search(r"MISMATCH\s*=\s*\(\s*(\[[^\]]*\])\s*,\s*(\[[^\]]*\])\s*,\s*(\[[^\]]*\])\s*,\s*(\[[^\]]*\])\s*,\s*(\[[^\]]*\])\s*\)", flat)
    if not m:
        return None, out, 0

    def ints(s):
        s = s.strip("[]").strip()
        return [int(x.replace("%nat", "").strip()) for x in s.split(";") if x.strip()] if s else []
    mm = []
    for i in ints(m.group(1)):
        mm.append({"what": "Coq model's cu_status differs from the job's status", "code": curl[i][0], "status": curl[i][1]})
    for i in ints(m.group(2)):
        mm.append({"what": "Coq model's sh_status / run_err differs from the job", "exit": shell[i][0], "status": shell[i][1], "err_nil": shell[i][2]})
    for i in ints(m.group(3)):
        mm.append({"what": "Coq model's fn_commit differs from the job", "fn_err": func[i][0], "status": func[i][1], "result_zero": func[i][2]})
    for i in ints(m.group(4)):
        cb, body, script, o, code, st, n = scripts[i]
        mm.append({"what": "Coq transition system run on the same outcome script ends differently (open bodies, held code, status, callbacks)",
                   "callback": cb, "body": body, "observed": {"open_bodies": o, "code": code, "status": st, "callbacks": n}, "script_len": len(script)})
    for i in ints(m.group(5)):
        mm.append({"what": "Coq transition system run on the same overlapping executions shows a different (status, result)",
                   "B_completes_first": ov[i][0], "A_fails": ov[i][1], "B_fails": ov[i][2], "observed_status": ov[i][3], "observed_result": ov[i][4]})
    return mm, out, len(curl) + len(shell) + len(func) + len(scripts) + len(ov)


def synthetic_scripts(recs):
    """Per (body, callback) variant of the synthetic sweep: the script and what was observed at its end."""
    out = []
    for body in (False, True):
        for cb in (False, True):
            rs = [r for r in recs if r.get("kind") == "curl" and r["variant"] == "synthetic" and r["body"] == body and r["callback"] == cb]
            bd = [r for r in recs if r.get("kind") == "curl-bodies" and r["body"] == body and r["callback"] == cb]
            if not rs or not bd:
                continue
            # cut the script at the last delivered response so that held code / status are informative too
            for cut in (len(rs), len(rs) - 2):
                part = rs[:cut]
                script = [r["want"] for r in part]
                if cut == len(rs):
                    open_obs = bd[0]["handed_out"] - bd[0]["closed"]
                else:
                    # bodies still open after the prefix: the last response's body, if it has one
                    last = part[-1]
                    open_obs = 1 if (body and last["want"] >= 0) else 0
                out.append((cb, body, script, open_obs, part[-1]["code"], part[-1]["status"], sum(r["cb_calls"] for r in part)))
    return out


def run(ctx):
    res, broken = vlib.proof_step(ctx, PROJ, "C16", genparams)
    binp, out = vlib.go_build("jobsh")
    if binp is None:
        raise RuntimeError("cannot build jobsh: " + out[-3000:])
    racep, rout = vlib.go_build("jobsh", race=True)
    quick = ctx.tier == "quick"
    failures, mismatches = [], []
    recs = []
    side = {}

    def run_side(name):
        f = []
        side[name] = (collect(binp, name, SUBCMDS[name], f, HOW.get(name)), f)
    threads = [threading.Thread(target=run_side, args=(n,)) for n in PARALLEL]
    for t in threads:
        t.start()
    for name, args in SUBCMDS.items():
        if name in PARALLEL:
            continue
        recs += collect(binp, name, args, failures, HOW.get(name) or
                        "jobsh %s: one execution at a time on the real job, observed through the public getters" % " ".join(args))
    for t in threads:
        t.join()
    for name in PARALLEL:
        recs += side[name][0]
        failures += side[name][1]
    conc_recs = []
    cb = racep or binp
    for kind, rounds in (("func", 2500), ("curl", 1500), ("shell", 40)) if quick else (("func", 40000), ("curl", 20000), ("shell", 600)):
        conc_recs += collect(cb, "conc-" + kind, ["conc", kind, str(rounds)], failures,
                             "jobsh conc %s: 8 goroutines execute one job object at once%s; tuple read at quiescence" % (kind, " (race detector on)" if racep else ""))
    # without the race detector as well: different timing
    for kind, rounds in (("func", 6000), ("curl", 4000)) if quick else (("func", 100000), ("curl", 50000)):
        conc_recs += collect(binp, "conc-" + kind, ["conc", kind, str(rounds)], failures, "jobsh conc %s: 8 goroutines execute one job object at once" % kind)
    leak_recs = collect(binp, "leak", ["leak", "300" if quick else "2000"], failures,
                        "jobsh leak: goroutines, /proc/self/fd, server-side connections, children before/after N executions")
    scripts = synthetic_scripts(recs)
    n_model = 0
    if os.path.exists(os.path.join(vlib.coq_dir(PROJ), "theories", "JobsModel.vo")):
        mm, mout, n_model = model_mismatches(recs, scripts)
        if mm is None:
            mismatches.append({"what": "model evaluation failed", "detail": mout[-1500:]})
        else:
            mismatches += mm
    else:
        mismatches.append({"what": "JobsModel.vo missing: the model could not be evaluated"})
    if len(scripts) != 8:
        mismatches.append({"what": "synthetic sweep incomplete: %d scripts" % len(scripts)})

    def search():
        found = []
        for kind, rounds in (("func", 60000), ("curl", 30000), ("shell", 300)):
            f = []
            collect(binp, "conc-" + kind, ["conc", kind, str(rounds)], f, "jobsh conc %s (failing-input search)" % kind)
            if f:
                found.append(f[0])
        return found

    # dedupe failures a little: at most 3 per command
    seen, kept = {}, []
    for f in failures:
        k = (f["case"].get("_cmd") or f["case"].get("cmd"), f["case"].get("variant"))
        seen[k] = seen.get(k, 0) + 1
        if seen[k] <= 2:
            kept.append(f)
    vlib.decide(ctx, broken, kept, mismatches, search)
    per = {}
    for r in recs + conc_recs + leak_recs:
        per[r["_cmd"]] = per.get(r["_cmd"], 0) + 1
    execs = len([r for r in recs if r.get("kind") in ("curl", "shell", "func", "cancel")]) + sum(r.get("executions", 0) for r in conc_recs + leak_recs)
    distinct = len({(r["kind"], r.get("variant"), r.get("want"), r.get("body"), r.get("callback"), r.get("note"), r.get("fn_err")) for r in recs
                    if r.get("kind") in ("curl", "shell", "func")})
    cov = vlib.proof_coverage(res, PROJ, "C16")
    cov.update({
        "evaluations": execs,
        "distinct_nontrivial": distinct,
        "rule": "exhaustive where finite: HTTP codes 90..610 (+ boundary ping-pong, transport errors, 0, 999) through a scripted HTTPHandler on "
                "ONE job object per body x callback variant; codes 100..599 (101 skipped) over real connections to a local server "
                "(1xx are informational for net/http clients: the client surfaces the final 200, the oracle uses the surfaced code); "
                "refused / timeout / cancelled; exit codes 0..255, SIGKILL, a changing-outcome sequence on one object; output sizes "
                "0..1 MiB on stdout, stderr, both; function results/errors for int, string, pointer; cancellation of a function, a "
                "request in flight (request built plain / with its own value-only context) and `sleep 10`; channel-sequenced overlapping "
                "executions of one object (A starts, B starts, B completes, A completes => tuple is A's; and the mirror) for Function and Shell, "
                "the only feasible overlap for Curl (mutex spans Do); executions repeated on one CurlJob while the server keeps the previous "
                "response's body open (stalled / trickling) under 4 relations of the two execution contexts, the later one plain or held-and-"
                "cancelled; executions of one ShellJob that never start the shell (context cancelled / expired, shell missing / not executable) "
                "as first execution and between executions that run; commands whose shell exits while a background process keeps the "
                "pipes open for 0.5 / 1.5 / 4 s and writes late; 8 goroutines on one object with id-carrying outcomes (tuple read at quiescence "
                "only: getters lock separately); resource counts around 300 executions. non-trivial = distinct (job, input) cases. "
                "Model: every distinct observed (code,status), (exit,status,err), function case and the full outcome scripts are "
                "evaluated inside Coq (vm_compute) and compared.",
        "samples": [r for r in recs if r.get("kind") == "curl" and r["want"] in (199, 200, 399, 400)][:4] + leak_recs[:1],
        "exhaustive": True,
        "records_per_command": per,
        "model_cases_in_coq": n_model,
        "model_mismatches": len(mismatches),
        "oracle_failures": len(failures),
        "concurrency": conc_recs,
        "leaks": leak_recs,
        "race_detector": bool(racep),
        "partial_runtime": "process, socket, descriptor and goroutine lifetimes are observed by the harness, not proved; the proof of atomicity "
                           "assumes sync.Mutex gives mutual exclusion (the race detector run covers the memory-model side)",
    })
    vlib.write_evidence(ctx, cov, assumptions=[
        "sync.Mutex / RWMutex give mutual exclusion; getters read under the same mutex",
        "os/exec: Run returns nil iff the command started, ran and exited with status 0; ProcessState.ExitCode is the exit status or -1",
        "the HTTP client returns a nil response exactly when it returns a transport error (net/http's contract; the model covers all four combinations anyway)",
        "the user function, the command and the HTTP client may produce any outcome and take any time",
    ])
    return 1 if ctx.violations else 0


def replay(ctx, path):
    obj = json.load(open(path))
    c = obj.get("case", {})
    name = c.get("_cmd") or c.get("cmd")
    if not name:
        res, broken = vlib.proof_step(ctx, PROJ, "C16", genparams)
        print(json.dumps({"proof_ok": res.get("ok"), "broken": broken}, default=str))
        if broken:
            vlib.report_violation(ctx, obj, no_input=True)
            return 1
        return 0
    binp, out = vlib.go_build("jobsh")
    if name.startswith("conc-"):
        args = ["conc", name[5:], str(max(c.get("rounds", 2000), 2000))]
    elif name == "leak":
        args = ["leak", str(c.get("executions", 300))]
    else:
        args = c.get("args") or SUBCMDS[name]
    fails = []
    recs = collect(binp, name, args, fails, "replay")
    keys = ("kind", "variant", "want", "body", "callback", "note", "job", "step", "size")
    same = [f for f in fails if all(f["case"].get(k) == c.get(k) for k in keys)] or fails
    print(json.dumps(same[:2], default=str)[:3000])
    if same:
        vlib.report_violation(ctx, same[0])
        return 1
    return 0
