"""C09 -- Scheduler registry operations are atomic, keyed, and fail without side effects."""
import json
import os

import vlib
from checks import sched_common as sc

PROJ = "sched"

MANIFEST = dict(
    engine="sched",
    technique="Coq proof (refinement of a sequential registry specification by the code-shaped API model over any queue "
              "meeting a keyed-min-priority-queue contract) + step correspondence through the extracted model, "
              "lock-discipline recorder, linearizability search on concurrent histories under the race detector",
    text="Machine-checked Coq theorems over a code-shaped model of ScheduleJob / DeleteJob / PauseJob / ResumeJob / Clear / "
         "GetScheduledJob / GetJobKeys written over an arbitrary JobQueue that meets a stated contract (two executable "
         "instances proved to meet it): every call sequence refines a finite-map registry specification, an error result leaves "
         "the queue untouched (including ResumeJob with a failing trigger), each sentinel is returned exactly when its documented "
         "precondition fails, keys stay unique in every reachable state of the transition system. Constants, sentinels, operators "
         "and the locking / ordering skeleton of every body are regenerated from scheduler.go, queue.go, error.go on every run. "
         "The model is tied to the code by running all call sequences over a small alphabet exhaustively (depth 4) and random "
         "ones (depth 60) against never-started, started and stopped schedulers with the default queue, a copying queue and a "
         "queue shared by two schedulers, comparing every result and the whole registry with the extracted model and with the "
         "registry specification; a recording locker/queue checks that every queue call of the scheduler holds the locker; "
         "concurrent histories (8 clients, firing scheduler, race detector on) must have a sequential explanation.",
    design_ref="6 C09")

genparams = sc.genparams


def setup():
    """./check --setup: build the race-detector variant of the harness ahead of the first run."""
    sc.build_all(race=True)


def conc_phase(ctx, racebin, rounds_per_variant, seed):
    failures, stats = [], {"rounds": 0, "ops": 0, "linearizable": 0, "no_verdict": 0, "races": 0, "fired": 0, "lock_violations": 0}
    for vi, variant in enumerate(["sd", "sc", "sh"]):
        rounds, races, out = sc.run_conc(racebin, seed + vi, rounds_per_variant, variant)
        stats["races"] += races
        if races:
            i = out.find("WARNING: DATA RACE")
            failures.append({"case": {"kind": "conc", "variant": variant, "seed": seed + vi, "rounds": rounds_per_variant},
                             "why": ["the race detector reported %d data race(s) while 8 clients called the API of a firing scheduler" % races],
                             "race_report": out[i:i + 2500]})
        for r in rounds:
            stats["rounds"] += 1
            stats["ops"] += len(r["ops"])
            stats["fired"] += r["fired"]
            if r["lock_violations"]:
                stats["lock_violations"] += r["lock_violations"]
                failures.append({"case": {"kind": "conc", "variant": variant, "seed": seed + vi, "round": r["round"]},
                                 "why": ["queue.%s called without the queue locker held (%d such calls)" % (r["first_violation"], r["lock_violations"])]})
            v = sc.linearizable(r)
            if v is True:
                stats["linearizable"] += 1
            elif v is None:
                stats["no_verdict"] += 1
            else:
                failures.append({"case": {"kind": "conc", "variant": variant, "seed": seed + vi, "round": r["round"], "history": r},
                                 "why": ["no sequential order of the registry specification explains this concurrent history"]})
    return failures, stats


def run(ctx):
    res, broken = sc.proof_step(ctx, "C09", need_fetch=False)
    binp = sc.build_all()
    ml, mlout = sc.build_driver()
    quick = ctx.tier == "quick"
    st = sc.run_steps(ctx, binp, ml, "api-quick" if quick else "api-thorough", ctx.seed, timeout=3000)
    failures = [f for f in st["failures"] if "C09" in sc.tags_of(f)]
    mismatches = list(st["mismatches"])
    if ml is None:
        mismatches.append({"error": "the extracted model could not be built", "detail": mlout[-1500:]})
    if st["spec_disagreements"]:
        mismatches.append({"error": "Registry.spec_api (Coq) and the specification copy in checks/sched_common.py disagree on %d sequences" % st["spec_disagreements"]})
    s = st["stats"]
    if s["lock_violations"]:
        failures.append({"case": {"kind": "lock-discipline", "profile": "api", "seed": ctx.seed},
                         "why": ["queue.%s called by the scheduler without the queue locker held (%d of %d recorded queue calls)" % (
                             s["first_violation"], s["lock_violations"], s["queue_calls_checked"])]})
    if s["bad_illegal_state_wrapping"]:
        failures.append({"case": {"kind": "sentinel-wrapping", "seed": ctx.seed},
                         "why": ["%d state errors do not unwrap to ErrIllegalState" % s["bad_illegal_state_wrapping"]]})
    racebin = sc.build_all(race=True)
    cf, cstats = conc_phase(ctx, racebin, 25 if quick else 300, ctx.seed)
    failures += cf

    def search():
        found = []
        for k in range(1, 4):
            r = sc.run_steps(ctx, binp, None, "api-quick", ctx.seed + 1000 * k, timeout=3000)
            found += [f for f in r["failures"] if "C09" in sc.tags_of(f)]
            if r["stats"]["lock_violations"]:
                found.append({"case": {"kind": "lock-discipline", "seed": ctx.seed + 1000 * k},
                              "why": ["queue.%s called without the queue locker held" % r["stats"]["first_violation"]]})
            if found:
                return found[:3]
        f2, _ = conc_phase(ctx, racebin, 200, ctx.seed + 77)
        return f2[:3]

    vlib.decide(ctx, broken, failures, mismatches, search)
    cov = vlib.proof_coverage(res, PROJ, "C09")
    cov.update({
        "evaluations": st["api_calls"] + cstats["ops"],
        "distinct_nontrivial": st["lines"],
        "rule": "sequential: every call sequence over a reduced alphabet (2 keys x {plain, Replace, Suspended} x {simple, expired run-once} "
                "triggers, delete/pause/resume, clear, nil trigger) exhaustively to depth 4 on never-started/stopped schedulers and depth 3 on "
                "started ones, the full alphabet (4 keys x 4 option sets x 4 trigger kinds, nil/empty arguments, get, keys) to depth 2, scripted "
                "triggers returning math.MaxInt64 / MaxInt64-1 / MinInt64 / MaxInt64 then MaxInt64-1 with a nil error (2 keys x 3 option sets, "
                "delete/pause/resume/get, clear) to depth 3 (depth 2 on started schedulers, without MinInt64) and in the random sequences, random "
                "sequences of 60 calls; default, copying and two-scheduler shared queue; each result (errors.Is class), the trigger calls "
                "(prev, result) and the registry (GetJobKeys + GetScheduledJob per key: suspended, fire time, trigger) compared with the "
                "extracted Coq model and with the registry specification; non-trivial = a distinct call sequence. concurrent: rounds of 8 "
                "clients x 5-7 calls against a started scheduler with two firing jobs, built with -race; Wing-Gong linearizability search",
        "samples": [{"sequence": "see build/sched-C09/*.trace", "result_classes": st["result_classes"]}, cstats],
        "exhaustive": "depth 4 over the reduced alphabet (20 calls), depth 2 over the full alphabet (90 calls)",
        "sequences": s["sequences"],
        "result_classes": st["result_classes"],
        "model_mismatches": len(mismatches),
        "oracle_failures": len(failures),
        "lock_discipline": {"queue_calls_checked": s["queue_calls_checked"], "violations": s["lock_violations"]},
        "concurrent": cstats,
        "partial_runtime": "that sync.Mutex makes a locked body atomic and that the Go runtime interleaves goroutines only at the points the "
                           "labels allow is observed (recording locker, race detector, linearizability of recorded histories), not proved",
    })
    vlib.write_evidence(ctx, cov, assumptions=[
        "the JobQueue in use meets SchedModel.queue_contract (proved for two executable queues; the default heap queue is C11's subject and is "
        "compared with the model here on every call)",
        "each API body and each fetchAndReschedule is one atomic step: they run under sched.queueLocker (regenerated from the source as "
        "all_bodies_locked, observed by the recording locker on every harness run)",
        "a caller does not hand one *JobDetail to two ScheduleJob calls (entries are values in the model)",
    ])
    return 1 if ctx.violations else 0


def replay(ctx, path):
    obj = json.load(open(path))
    case = obj.get("case", {})
    if case.get("kind") == "conc":
        racebin = sc.build_all(race=True)
        if "history" in case:
            v = sc.linearizable(case["history"])
            print(json.dumps({"recorded_history_linearizable": v}))
        rounds, races, _ = sc.run_conc(racebin, case["seed"], case.get("round", case.get("rounds", 1)) + 1, case["variant"])
        bad = [r["round"] for r in rounds if sc.linearizable(r) is False or r["lock_violations"]]
        print(json.dumps({"rerun_bad_rounds": bad, "races": races}))
        if bad or races or ("history" in case and sc.linearizable(case["history"]) is False):
            vlib.report_violation(ctx, obj)
            return 1
        return 0
    r = sc.replay_steps(ctx, obj)
    if r is None:
        binp = sc.build_all()
        r = sc.run_steps(ctx, binp, None, "api-quick", case.get("seed", ctx.seed))
    print(json.dumps({"failures": r["failures"][:3], "lock_violations": r["stats"]["lock_violations"]}, default=str))
    if r["failures"] or r["stats"]["lock_violations"]:
        vlib.report_violation(ctx, obj)
        return 1
    return 0
