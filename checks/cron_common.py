"""Shared machinery of the cron checks (C01, C02, C06, C14): run the Go harness (real NextFireTime),
run the extracted Coq model and the specification-level oracles on the same cases, compare."""
import json
import os
import re
import subprocess
from concurrent.futures import ThreadPoolExecutor

import vlib

PROJ = "cron"

QUICK_ZONES = ["America/New_York", "Europe/Berlin", "Australia/Lord_Howe", "Australia/Sydney", "Asia/Tehran",
               "America/St_Johns", "Pacific/Apia", "Africa/Casablanca", "America/Sao_Paulo", "Asia/Kolkata",
               "Europe/London", "Pacific/Chatham"]


def genparams():
    binp, out = vlib.go_build("genparams")
    if binp is None:
        return False, out
    rc, out = vlib.run([binp, "-repo", vlib.REPO, "cron"])
    if rc != 0:
        return False, out
    vlib.write_if_changed(os.path.join(vlib.coq_dir(PROJ), "theories", "Gen", "Params.v"), out)
    return True, ""


def all_zones():
    root = "/usr/share/zoneinfo"
    names = []
    for d, _, files in os.walk(root):
        for f in files:
            p = os.path.join(d, f)
            rel = os.path.relpath(p, root)
            if rel.startswith(("posix/", "right/")) or "." in f or f in ("leapseconds", "tzdata.zi", "leap-seconds.list"):
                continue
            try:
                with open(p, "rb") as fh:
                    if fh.read(4) != b"TZif":
                        continue
            except OSError:
                continue
            names.append(rel)
    return sorted(names)


def build_tools():
    h, out = vlib.go_build("cronh")
    if h is None:
        raise RuntimeError("cannot build cronh: " + out[-3000:])
    d, out = vlib.ocaml_build("cron")
    if d is None:
        raise RuntimeError("cannot build the extracted cron model driver: " + out[-3000:])
    return h, d


def _run_shard(args):
    hbin, dbin, hargs = args
    p = subprocess.run([hbin] + hargs, stdout=subprocess.PIPE, stderr=subprocess.PIPE, text=True, timeout=3000, env=vlib.env())
    lines = p.stdout.splitlines()
    rec = {"rc": p.returncode, "stderr": p.stderr[-2000:], "cases": [], "zones": [], "other": [], "hang": None}
    dinput = []
    for ln in lines:
        t = ln.split("\t")
        if t[0] == "Z":
            rec["zones"].append(t[1])
            dinput.append(" ".join(t))
        elif t[0] == "C" and len(t) >= 10:
            c = {"id": t[1], "zone": t[2], "prev": int(t[3]), "go": t[4], "fields": t[5], "expr": t[6].replace("\\t", "\t"), "loc": t[7],
                 "class": t[8], "oracle": t[9]}
            rec["cases"].append(c)
            dinput.append("C %s %s %s %s %s" % (c["id"], c["zone"], c["prev"], c["go"] if c["go"][0] in "FE" else "E", c["fields"]))
        elif t[0] == "HANG":
            rec["hang"] = t[1:]
        elif t[0] in ("D", "N"):
            rec["other"].append(t)
            if t[0] == "D":
                dinput.append("D %s %s %s %s" % (t[1], t[2], t[3], t[4]))
            else:
                dinput.append("N %s %s %s %s" % (t[1], t[2], t[3], t[4]))
        else:
            rec["other"].append(t)
    q = subprocess.run([dbin], input="\n".join(dinput) + "\n", stdout=subprocess.PIPE, stderr=subprocess.PIPE, text=True, timeout=3000)
    rec["driver_rc"] = q.returncode
    rec["driver_err"] = q.stderr[-2000:]
    model = {}
    aux = {}
    zwf = {}
    for ln in q.stdout.splitlines():
        t = ln.split(" ")
        if t[0] == "C":
            model[t[1]] = {"model": t[2], "match": t[3], "ref": t[4], "wf": t[5]}
        elif t[0] in ("D", "N"):
            aux[(t[0], t[1])] = t[2:]
        elif t[0] == "Z":
            zwf[t[1]] = t[2]
    for c in rec["cases"]:
        c.update(model.get(c["id"], {"model": "?", "match": "?", "ref": "?", "wf": "?"}))
    rec["aux"] = aux
    rec["zwf"] = zwf
    return rec


def run_sharded(hbin, dbin, mode, seed, total, extra=None, shards=12):
    per = max(1, (total + shards - 1) // shards)
    jobs = []
    for k in range(shards):
        a, b = k * per, min(total, (k + 1) * per)
        if a >= b:
            break
        jobs.append((hbin, dbin, [mode, "-seed", str(seed), "-from", str(a), "-to", str(b)] + (extra or [])))
    with ThreadPoolExecutor(max_workers=len(jobs)) as ex:
        return list(ex.map(_run_shard, jobs))


def placement_hist(cases):
    h = {}
    for c in cases:
        h[c["class"]] = h.get(c["class"], 0) + 1
    return h


def day_kind(fields):
    t = fields.split(" ")
    dom, domn, dow, down = t[3], int(t[4]), t[6], int(t[7])
    if dow != "-":
        return "dow-set" if down == 0 else ("dL" if down < 0 else "d#k")
    if domn == 0:
        return "any-day" if dom == "-" else "dom-set"
    return {1: "L", 2: "dW", 3: "LW"}.get(domn, "L-k")


def kind_hist(cases):
    h = {}
    for c in cases:
        k = day_kind(c["fields"])
        h[k] = h.get(k, 0) + 1
    return h


def case_view(c):
    return {k: c[k] for k in ("expr", "loc", "prev", "go", "model", "ref", "match", "class", "fields", "oracle") if k in c}
