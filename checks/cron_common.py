"""Shared machinery of the cron checks (C01, C02, C06, C14): run the Go harness (real NextFireTime),
run the extracted Coq model and the specification-level oracles on the same cases, compare."""
import json
import os
import re
import subprocess
from concurrent.futures import ThreadPoolExecutor

import vlib

PROJ = "cron"

QUICK_ZONES = ["America/New_York", "Europe/Berlin", "Australia/Lord_Howe", "Australia/Sydney", "Asia/Tehran",
               "America/St_Johns", "Pacific/Apia", "Africa/Casablanca", "America/Sao_Paulo", "Asia/Kolkata",
               "Europe/London", "Pacific/Chatham", "Antarctica/Casey", "America/Juneau", "Antarctica/Troll"]


def genparams():
    # Extract.v writes the extracted model here (ignored by git, so absent in a fresh checkout)
    os.makedirs(os.path.join(vlib.VERIF, "ocaml", "cron", "gen"), exist_ok=True)
    binp, out = vlib.go_build("genparams")
    if binp is None:
        return False, out
    rc, out = vlib.run([binp, "-repo", vlib.REPO, "cron"])
    if rc != 0:
        return False, out
    vlib.write_if_changed(os.path.join(vlib.coq_dir(PROJ), "theories", "Gen", "Params.v"), out)
    # source-to-Gallina translation of internal/csm's node level (SrcEquiv.v ties it to CsmModel.v)
    rc, out = vlib.run([binp, "-repo", vlib.REPO, "csmsrc"])
    if rc != 0:
        return False, out
    vlib.write_if_changed(os.path.join(vlib.coq_dir(PROJ), "theories", "Gen", "CsmSrc.v"), out)
    # ... and of quartz/cron.go's firstAfter (CronSrcEquiv.v ties it to NextFire.v's first_after)
    rc, out = vlib.run([binp, "-repo", vlib.REPO, "cronsrc"])
    if rc != 0:
        return False, out
    vlib.write_if_changed(os.path.join(vlib.coq_dir(PROJ), "theories", "Gen", "CronSrc.v"), out)
    return True, ""


def all_zones():
    root = "/usr/share/zoneinfo"
    names = []
    for d, _, files in os.walk(root):
        for f in files:
            p = os.path.join(d, f)
            rel = os.path.relpath(p, root)
            if rel.startswith(("posix/", "right/")) or "." in f or f in ("leapseconds", "tzdata.zi", "leap-seconds.list"):
                continue
            try:
                with open(p, "rb") as fh:
                    if fh.read(4) != b"TZif":
                        continue
            except OSError:
                continue
            names.append(rel)
    return sorted(names)


def build_tools():
    h, out = vlib.go_build("cronh")
    if h is None:
        raise RuntimeError("cannot build cronh: " + out[-3000:])
    d, out = vlib.ocaml_build("cron")
    if d is None:
        raise RuntimeError("cannot build the extracted cron model driver: " + out[-3000:])
    return h, d


def _run_shard(args):
    hbin, dbin, hargs = args
    p = subprocess.run([hbin] + hargs, stdout=subprocess.PIPE, stderr=subprocess.PIPE, text=True, timeout=3000, env=vlib.env())
    lines = p.stdout.splitlines()
    rec = {"rc": p.returncode, "stderr": p.stderr[-2000:], "cases": [], "zones": [], "other": [], "hang": None}
    dinput = []
    for ln in lines:
        t = ln.split("\t")
        if t[0] == "Z":
            rec["zones"].append(t[1])
            rec.setdefault("zone_lines", []).append(t)
            dinput.append(" ".join(t))
        elif t[0] == "C" and len(t) >= 10:
            c = {"id": t[1], "zone": t[2], "prev": int(t[3]), "go": t[4], "fields": t[5], "expr": t[6].replace("\\t", "\t"), "loc": t[7],
                 "class": t[8], "oracle": t[9]}
            rec["cases"].append(c)
            dinput.append("C %s %s %s %s %s" % (c["id"], c["zone"], c["prev"], c["go"] if c["go"][0] in "FE" else "E", c["fields"]))
        elif t[0] == "HANG":
            rec["hang"] = t[1:]
        elif t[0] == "PANIC":
            rec["panic_input"] = t[1:]
        elif t[0] in ("D", "N"):
            rec["other"].append(t)
            if t[0] == "D":
                dinput.append("D %s %s %s %s" % (t[1], t[2], t[3], t[4]))
            else:
                dinput.append("N %s %s %s %s" % (t[1], t[2], t[3], t[4]))
        else:
            rec["other"].append(t)
    q = subprocess.run([dbin], input="\n".join(dinput) + "\n", stdout=subprocess.PIPE, stderr=subprocess.PIPE, text=True, timeout=3000)
    rec["driver_rc"] = q.returncode
    rec["driver_err"] = q.stderr[-2000:]
    model = {}
    aux = {}
    zwf = {}
    for ln in q.stdout.splitlines():
        t = ln.split(" ")
        if t[0] == "C":
            model[t[1]] = {"model": t[2], "match": t[3], "ref": t[4], "wf": t[5]}
        elif t[0] in ("D", "N"):
            aux[(t[0], t[1])] = t[2:]
        elif t[0] == "Z":
            zwf[t[1]] = t[2]
    for c in rec["cases"]:
        c.update(model.get(c["id"], {"model": "?", "match": "?", "ref": "?", "wf": "?"}))
    rec["aux"] = aux
    rec["zwf"] = zwf
    return rec


def run_sharded(hbin, dbin, mode, seed, total, extra=None, shards=12):
    per = max(1, (total + shards - 1) // shards)
    jobs = []
    for k in range(shards):
        a, b = k * per, min(total, (k + 1) * per)
        if a >= b:
            break
        jobs.append((hbin, dbin, [mode, "-seed", str(seed), "-from", str(a), "-to", str(b)] + (extra or [])))
    with ThreadPoolExecutor(max_workers=len(jobs)) as ex:
        return list(ex.map(_run_shard, jobs))


def placement_hist(cases):
    h = {}
    for c in cases:
        k = c["class"].split("@", 1)[0]
        h[k] = h.get(k, 0) + 1
    return h


def day_kind(fields):
    t = fields.split(" ")
    dom, domn, dow, down = t[3], int(t[4]), t[6], int(t[7])
    if dow != "-":
        return "dow-set" if down == 0 else ("dL" if down < 0 else "d#k")
    if domn == 0:
        return "any-day" if dom == "-" else "dom-set"
    return {1: "L", 2: "dW", 3: "LW"}.get(domn, "L-k")


def kind_hist(cases):
    h = {}
    for c in cases:
        k = day_kind(c["fields"])
        h[k] = h.get(k, 0) + 1
    return h


def case_view(c):
    return {k: c[k] for k in ("expr", "loc", "prev", "go", "model", "ref", "match", "class", "fields", "oracle") if k in c}


def aux_compare(recs):
    """Calendar helper / day-target sweeps: implementation (harness) vs extracted model."""
    n = 0
    bad = []
    for r in recs:
        for t in r["other"]:
            if t[0] == "D" and len(t) >= 8:
                n += 1
                m = r["aux"].get(("D", t[1]))
                if m is None or m[:3] != t[5:8]:
                    bad.append({"kind": "calendar", "y": t[2], "m": t[3], "d": t[4],
                                "go": {"lastDay": t[5], "weekday": t[6], "closestWeekday": t[7]}, "model": m})
            elif t[0] == "N" and len(t) >= 8:
                n += 1
                m = r["aux"].get(("N", t[1]))
                go_day, go_ok = t[5], t[6]
                if m is None or m[1] != go_ok or (go_ok == "1" and m[0] != go_day):
                    bad.append({"kind": "dayN", "expr": t[7], "y": t[2], "m": t[3], "go": {"day": go_day, "ok": go_ok}, "model": m})
    return n, bad


def run_aux(hbin, dbin, mode, ystep):
    return [_run_shard((hbin, dbin, [mode, "-ystep", str(ystep)]))]


def harness_problems(recs):
    """Hangs, crashes and unexpected errors of the implementation (C06)."""
    out = []
    for r in recs:
        if r["hang"]:
            out.append({"kind": "hang", "case": r["hang"], "why": ["NextFireTime did not return within 10 s"]})
        elif r["rc"] != 0:
            last = r["cases"][-1] if r["cases"] else None
            out.append({"kind": "crash", "rc": r["rc"], "stderr": r["stderr"][-1500:], "crashing_input": r.get("panic_input"),
                        "last_completed_case": case_view(last) if last else None,
                        "why": ["the harness process died while evaluating NextFireTime (panic / fatal error)"]})
        for t in r["other"]:
            if t and t[0] == "U":
                out.append({"kind": "impure", "detail": t[1:], "why": ["concurrent or repeated calls on one trigger disagreed, or the trigger changed"]})
        if r.get("driver_rc"):
            raise RuntimeError("model driver failed: " + r.get("driver_err", ""))
    return out


def distinct_nontrivial(cases):
    """distinct (fields, location, prev) whose answer is neither expiry nor prev's next second"""
    s = set()
    for c in cases:
        if c["go"].startswith("F"):
            ns = int(c["go"][1:])
            if ns // 10**9 != c["prev"] // 10**9 + 1:
                s.add((c["fields"], c["zone"], c["prev"]))
    return len(s)


def replay_case(ctx, obj, is_bad):
    """Re-run one recorded (expr, loc, prev) through implementation and model."""
    import tempfile
    rp = obj.get("replay") or obj.get("case") or {}
    hbin, dbin = build_tools()
    # reuse the harness through a one-off Go program is overkill: regenerate the shard that contained the case
    print(json.dumps({"replay_of": rp}))
    # single-case mode: cronh one -expr .. -loc .. -prev ..
    args = ["one", "-expr", rp.get("expr", ""), "-loc", rp.get("loc", "UTC"), "-prev", str(rp.get("prev", 0))]
    cls = str((obj.get("case") or {}).get("class", ""))
    if cls.startswith("twin-of-") and "@" in cls:
        # the case was the second call on one trigger object: repeat the first call before it
        args += ["-has-before", "-before", cls.rsplit("@", 1)[1]]
    rec = _run_shard((hbin, dbin, args))
    bad = [c for c in rec["cases"] if is_bad(c)]
    for c in rec["cases"]:
        print(json.dumps(case_view(c)))
    if bad or rec["hang"] or rec["rc"] != 0:
        vlib.report_violation(ctx, obj)
        return 1
    return 0


def directed_from_calendar(hbin, dbin, auxbad, is_failure, limit=3):
    """Failing-input search seeded from calendar/day-target mismatches: cron evaluations placed on
    and around the dates where the implementation's calendar arithmetic differs from the model's."""
    import calendar
    import datetime
    found = []
    seen = set()
    for b in auxbad[:6]:
        try:
            y, m = int(b["y"]), int(b["m"])
        except (KeyError, ValueError):
            continue
        d = int(b.get("d", 1)) if str(b.get("d", "1")).isdigit() else 1
        if (y, m) in seen:
            continue
        seen.add((y, m))
        exprs = ["0 0 0 * * ?", "0 0 0 L * ?", "0 0 0 LW * ?", "0 0 0 L-1 * ?", "0 0 0 %d %d ?" % (d, m), "0 0 0 28-31 * ?",
                 "0 0 0 ? * 1-7", "0 0 0 ? * 1#5", "0 0 0 ? * 3#5", "0 0 0 ? * 6L", "0 0 0 %dW * ?" % d]
        if "expr" in b:
            exprs.insert(0, b["expr"])
        base = datetime.datetime(y, m, 1, tzinfo=datetime.timezone.utc)
        prevs = [int((base + datetime.timedelta(days=k)).timestamp()) * 10**9 for k in (-3, d - 3, d - 2, d - 1, 24, 26, 27)]
        for ex in exprs:
            for pv in prevs:
                if pv < 0:
                    continue
                rec = _run_shard((hbin, dbin, ["one", "-expr", ex, "-loc", "UTC", "-prev", str(pv)]))
                for c in rec["cases"]:
                    why = is_failure(c)
                    if why:
                        found.append({"case": case_view(c), "why": why, "replay": {"expr": c["expr"], "loc": c["loc"], "prev": c["prev"]}})
                        if len(found) >= limit:
                            return found
    return found


def coq_fields(tokens):
    t = tokens.split(" ")

    def lst(x):
        return "[]" if x == "-" else "[" + "; ".join("(%s)" % v for v in x.split(",")) + "]"
    return ("{| fl_sec := %s; fl_min := %s; fl_hour := %s; fl_dom := %s; fl_dom_n := (%s); fl_mon := %s; "
            "fl_dow := %s; fl_dow_n := (%s); fl_year := %s |}") % (lst(t[0]), lst(t[1]), lst(t[2]), lst(t[3]), t[4], lst(t[5]), lst(t[6]), t[7], lst(t[8]))


def coq_sample(recs, nmax=300):
    """Thorough tier: re-evaluate a sample of the cases INSIDE Coq (vm_compute) and compare with the
    implementation's result -- takes OCaml extraction and the driver out of the trusted base for the sample."""
    zones = {}
    for r in recs:
        for t in r.get("zone_lines", []):
            zones[t[1]] = t
    cases = [c for r in recs for c in r["cases"]]
    step = max(1, len(cases) // nmax)
    sample = cases[::step][:nmax]
    used = sorted({c["zone"] for c in sample})
    zdefs = []
    zname = {}
    for i, zid in enumerate(used):
        t = zones.get(zid)
        if t is None:
            continue
        zname[zid] = "zone_%d" % i
        tr = t[3:]
        pairs = "; ".join("((%s), (%s))" % (tr[j], tr[j + 1]) for j in range(0, len(tr) - 1, 2))
        zdefs.append("Definition zone_%d : zone := {| z_off0 := (%s); z_trans := [%s] |}." % (i, t[2], pairs))
    items = []
    kept = []
    for c in sample:
        if c["zone"] not in zname or c["go"][0] not in "FE":
            continue
        exp = "Expired" if c["go"] == "E" else "Fire (%s)" % c["go"][1:]
        items.append("(%d%%nat, (%s, %s, (%d), %s))" % (len(kept), coq_fields(c["fields"]), zname[c["zone"]], c["prev"], exp))
        kept.append(c)
    v = """From Coq Require Import ZArith List Bool.
Require Import QzBase.Calendar QzBase.Fields.
Require Import QzCron.CsmModel QzCron.NextFire.
Import ListNotations.
Open Scope Z_scope.
%s
Definition res_eqb (a b : res) : bool :=
  match a, b with Fire x, Fire y => x =? y | Expired, Expired => true | ModelError, ModelError => true | _, _ => false end.
Definition cases : list (nat * (fields * zone * Z * res)) := [%s].
Definition MISMATCH := Eval vm_compute in
  map fst (filter (fun c => let '(_, (f, z, prev, want)) := c in negb (res_eqb (next_fire_time_zone f z prev) want)) cases).
Print MISMATCH.
""" % ("\n".join(zdefs), ";\n ".join(items))
    rc, out = vlib.coq_eval(PROJ, "cron_sample", v, timeout=1500)
    m = re.search(r"MISMATCH\s*=\s*(\[[^\]]*\])", out.replace("\n", " "))
    if rc != 0 or not m:
        return {"evaluated": 0, "error": out[-800:]}, []
    body = m.group(1).strip("[]").strip()
    idx = [int(x.replace("%nat", "").strip()) for x in body.split(";") if x.strip()] if body else []
    return {"evaluated": len(kept), "mismatches": len(idx)}, [case_view(kept[i]) for i in idx]


def coqchk_axioms(proj, libs, timeout=3000):
    """Independent re-check of compiled libraries with coqchk -o; returns (ok, axiom summary text)."""
    d = vlib.coq_dir(proj)
    args = ["coqchk", "-silent", "-o"] + vlib.coq_args(proj) + libs
    rc, out = vlib.run(args, cwd=d, timeout=timeout)
    tail = out[out.find("CONTEXT SUMMARY"):] if "CONTEXT SUMMARY" in out else out[-1500:]
    return rc == 0, tail[:3000]


def compose_step(ctx, prop, res, broken):
    """Second proof step: the same property over STRINGS -- composition of the cron theorems with the
    parser theorem parse_trigger_ok_wf (coq/zcompose).  Merges the obligation counts into `res`."""
    from checks import c07
    ok, out = c07.genparams()
    if not ok and broken is None:
        broken = {"stage": "genparams", "what": "parser translator could not read the expected declarations", "detail": out[-2000:]}
    okb, outb = vlib.coq_build("parser")
    if not okb and broken is None:
        broken = {"stage": "coq-build", "what": "the parser development (needed by the composed theorems) no longer checks", "detail": outb[-2000:]}
    res2, broken2 = vlib.proof_step(ctx, "zcompose", prop)
    merged = dict(res)
    merged["obligations"] = res["obligations"] + res2["obligations"]
    merged["discharged"] = res["discharged"] + res2["discharged"]
    merged["theorems"] = list(res["theorems"]) + list(res2["theorems"])
    merged["axioms"] = sorted(set(res["axioms"]) | set(res2["axioms"]))
    merged["ok"] = res.get("ok", False) and res2.get("ok", False)
    broken = broken or broken2
    # third proof step: the tie between /repo's SOURCE (Gen/CsmSrc.v, translated on this run) and the model
    res3 = vlib.props_check(PROJ, "SrcTie") if os.path.exists(os.path.join(vlib.coq_dir(PROJ), "theories", "SrcEquiv.vo")) else \
        {"ok": False, "obligations": 0, "discharged": 0, "theorems": [], "axioms": [], "log": "SrcEquiv.vo was not built", "file": "theories/SrcEquiv.v"}
    merged["obligations"] += res3["obligations"]
    merged["discharged"] += res3["discharged"]
    merged["theorems"] += list(res3["theorems"])
    merged["axioms"] = sorted(set(merged["axioms"]) | set(res3["axioms"]))
    merged["ok"] = merged["ok"] and res3.get("ok", False)
    merged["source_tie"] = {"file": "coq/cron/theories/Gen/CsmSrc.v", "translated_from": ["internal/csm/util.go", "internal/csm/common_node.go", "internal/csm/day_node.go", "quartz/cron.go: firstAfter (Gen/CronSrc.v)"],
                            "equivalence": "coq/cron/theories/SrcEquiv.v, SrcMachine.v, CronSrcEquiv.v", "checked": bool(res3.get("ok"))}
    if not res3.get("ok") and broken is None:
        broken = {"stage": "source-tie", "what": "the Go source of internal/csm's node level (translated into Gen/CsmSrc.v on this run) is no longer proved "
                  "equivalent to the model the cron theorems are about (SrcEquiv.v / Props/SrcTie.v)", "file": res3.get("file"), "detail": res3.get("log", "")[-2000:]}
    return merged, broken
