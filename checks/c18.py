"""C18 -- loggers filter by level and label every record with its own level."""
import json
import os

import vlib

PROJ = "logger"

MANIFEST = dict(
    engine="logger",
    technique="Coq proof (invariant by induction over all interleavings + level/shape lemmas) on a model regenerated in part "
              "from the source; in-Coq evaluation of the model against the real loggers",
    text="Machine-checked Coq theorems over the logger model: emitted iff level >= threshold for SimpleLogger and the slog adapter, "
         "LevelOff/NoOp silent, record shape (own prefix, message, all arguments in order), and for every interleaving of any number "
         "of goroutines each emitted line carries the label of the level it was logged at. Level constants, prefixes, the comparison "
         "operator, format strings, the slog level mapping and the lock discipline are regenerated from the Go source on every run; the "
         "model's emit functions are compared inside Coq with the real loggers on the full level x threshold x argument matrix, and a "
         "concurrent stress run checks every line's label (the Go runtime's interleaving itself is observed, not proved).",
    design_ref="6 C18")
LV = [-8, -4, 0, 4, 8]
NAMES = ["TRACE", "DEBUG", "INFO", "WARN", "ERROR"]


def genparams():
    binp, out = vlib.go_build("genparams")
    if binp is None:
        return False, out
    rc, out = vlib.run([binp, "-repo", vlib.REPO, "logger"])
    if rc != 0:
        return False, out
    vlib.write_if_changed(os.path.join(vlib.coq_dir(PROJ), "theories", "Gen", "Params.v"), out)
    return True, ""


def cq(s):
    return '"' + s.replace('"', '""') + '"'


def coq_list(items):
    return "[" + "; ".join(items) + "]"


def oracle(c):
    """Property-level oracle on what the implementation did (independent of the Coq model)."""
    want = LV[c["lvl"]] >= c["thr"]
    why = []
    if c.get("panic"):
        why.append("panic: " + c["panic"])
    if c["kind"] == "noop":
        return why
    if c["kind"] == "simple":
        line = c.get("simple")
        if (line is not None) != want:
            why.append("emitted=%s but level>=threshold is %s" % (line is not None, want))
        if line is not None:
            if not line.startswith(NAMES[c["lvl"]] + " "):
                why.append("label is not the record's level")
            pos = line.find(c["msg"])
            if pos < 0:
                why.append("message missing")
            alts = c.get("args_alt") or c["args"]
            for a, b in zip(c["args"], alts):
                # an argument in key position may be rendered with %s instead of %v (args_alt)
                cand = [(line.find(x, max(pos, 0)), x) for x in (a, b)]
                cand = [(p, x) for p, x in cand if p >= 0]
                if not cand:
                    why.append("argument %r missing or out of order" % a)
                    break
                pos2, x = min(cand)
                pos = pos2 + len(x)
    else:
        rec = c.get("slog")
        if (rec is not None) != want:
            why.append("handled=%s but level>=handler minimum is %s" % (rec is not None, want))
        if c.get("text_emitted") != want:
            why.append("slog.TextHandler emitted=%s, expected %s" % (c.get("text_emitted"), want))
        if rec is not None:
            if rec["level"] != LV[c["lvl"]]:
                why.append("record level %s is not the level logged at" % rec["level"])
            if rec["msg"] != c["msg"]:
                why.append("message differs")
            flat = [x for kv in rec["attrs"] for x in kv if x != "!BADKEY"]
            if flat != c["args"]:
                why.append("arguments differ or are out of order")
    return why + oracle_later(c, want)


def oracle_later(c, want):
    """hostile cases: the call must come back, and a LATER record through the same logger must still appear."""
    why = []
    if "after_returned" not in c:
        return why
    if not c["returned"]:
        why.append("the logging call did not return within the watchdog (%d ms)" % c["watchdog_ms"])
    later_want = LV[c["after_lvl"]] >= c["thr"]
    if not c["after_returned"]:
        why.append("a later %s record logged through the same logger never came back within the watchdog (%d ms): the logger is wedged%s" % (
            NAMES[c["after_lvl"]], c["watchdog_ms"], " (the first call panicked while holding the logger's lock?)" if c.get("panic") else ""))
    elif c["after_emitted"] != later_want:
        why.append("later %s record emitted=%s, expected %s" % (NAMES[c["after_lvl"]], c["after_emitted"], later_want))
    if c.get("after_panic"):
        why.append("the later call panicked: " + c["after_panic"])
    return why


def oracle_shared(sc):
    """Several SimpleLoggers over one shared *log.Logger, sequential emissions: every step emits iff its level passes the
    threshold of the logger it went through, and the emitted line carries exactly one level label: the step's own."""
    for k, st in enumerate(sc["steps"]):
        why = []
        if st.get("panic"):
            why.append("panic: " + st["panic"])
        if st["op"] == "log":
            want = LV[st.get("lvl", 0)] >= st["thr"]
            out = st.get("out") or []
            if len(out) != (1 if want else 0):
                why.append("%d lines written, expected %d (level>=threshold of this logger is %s)" % (len(out), 1 if want else 0, want))
            for line in out:
                p = line.find("msg=")
                if p < 0:
                    why.append("line without msg=: %r" % line)
                    continue
                labels = [t for t in line[:p].split() if t in NAMES]
                own = NAMES[st.get("lvl", 0)]
                if labels != [own]:
                    why.append("the line's header %r carries the labels %s; a record logged at %s must carry exactly the label %s" % (
                        line[:p], labels, own, own))
                pos = line.find(st["msg"], p)
                if pos < 0:
                    why.append("message missing")
                for a in st.get("args") or []:
                    pos2 = line.find(a, max(pos, 0))
                    if pos2 < 0:
                        why.append("argument %r missing or out of order" % a)
                        break
                    pos = pos2 + len(a)
        if why:
            return k, why
    return None, []


def model_mismatches(cases, shared=(), name="c18_cases"):
    """Evaluate the Coq model on the same cases inside Coq; return indexes that differ (cases), the raw output, and the
    indexes of the shared-logger scenarios whose per-step output differs from the model's sh_run."""
    simple, slog, noop, shr = [], [], [], []
    for i, sc in enumerate(shared):
        ops, obs = [], []
        for st in sc["steps"]:
            if st["op"] == "new":
                ops.append("ShNew (%d)%%Z" % st["thr"])
                obs.append("None")
            else:
                ops.append("ShLog %d%%nat (level_of_nat %d%%nat) %s %s" % (st["id"], st.get("lvl", 0), cq(st["msg"]),
                                                                       coq_list([cq(a) for a in st.get("args") or []])))
                out = st.get("out") or []
                obs.append("(Some %s)" % cq("\n".join(out)) if out else "None")
        shr.append("(%d%%nat, (%s, %s, %s))" % (i, cq(sc["initial_prefix"]), coq_list(ops), coq_list(obs)))
    for i, c in enumerate(cases):
        args = coq_list([cq(a) for a in c["args"]])
        if c["kind"] == "simple":
            obs = "None" if c.get("simple") is None else "(Some %s)" % cq(c["simple"])
            simple.append("(%d%%nat, ((%d)%%Z, %d%%nat, %s, %s, %s))" % (i, c["thr"], c["lvl"], cq(c["msg"]), args, obs))
        elif c["kind"] == "slog":
            r = c.get("slog")
            if r is None:
                obs = "None"
            else:
                attrs = coq_list(["(%s, %s)" % (cq(k), cq(v)) for k, v in r["attrs"]])
                obs = "(Some ((%d)%%Z, %s, %s))" % (r["level"], cq(r["msg"]), attrs)
            slog.append("(%d%%nat, ((%d)%%Z, %d%%nat, %s, %s, %s))" % (i, c["thr"], c["lvl"], cq(c["msg"]), args, obs))
        else:
            noop.append("(%d%%nat, %d%%nat)" % (i, c["lvl"]))
    v = """From Coq Require Import ZArith String List Bool.
Require Import QzLog.Gen.Params QzLog.Logger.
Import ListNotations.
Open Scope string_scope.
Definition cases_simple : list (nat * (Z * nat * string * list string * option string)) := %s.
Definition cases_slog : list (nat * (Z * nat * string * list string * option (Z * string * list (string * string)))) := %s.
Definition cases_noop : list (nat * nat) := %s.
Definition bad_simple := map fst (filter (fun c => let '(_, (thr, l, msg, args, obs)) := c in
  negb (opt_string_eqb (simple_emit thr (level_of_nat l) msg args) obs)) cases_simple).
Definition bad_slog := map fst (filter (fun c => let '(_, (thr, l, msg, args, obs)) := c in
  negb (slog_obs_eqb (slog_emit thr (level_of_nat l) msg args) obs)) cases_slog).
Definition bad_noop := map fst (filter (fun c => let '(_, l) := c in
  match noop_emit (level_of_nat l) "m" ["k"; "v"] with None => false | Some _ => true end) cases_noop).
Definition MISMATCH := Eval vm_compute in (bad_simple ++ bad_slog ++ bad_noop)%%list.
Print MISMATCH.
Definition cases_shared : list (nat * (string * list shop * list (option string))) := %s.
Definition SHAREDBAD := Eval vm_compute in map fst (filter (fun c => let '(_, (p0, ops, obs)) := c in
  negb (opt_strings_eqb (sh_run simple_ctor_captures_prefix (sh_init p0) ops) obs)) cases_shared).
Print SHAREDBAD.
""" % (coq_list(simple) if simple else "[]", coq_list(slog) if slog else "[]", coq_list(noop) if noop else "[]",
       coq_list(shr) if shr else "[]")
    rc, out = vlib.coq_eval(PROJ, name, v)
    if rc != 0:
        return None, out, None
    import re
    res = []
    for name in ("MISMATCH", "SHAREDBAD"):
        m = re.search(name + r"\s*=\s*(\[[^\]]*\])", out.replace("\n", " "))
        if not m:
            return None, out, None
        body = m.group(1).strip("[]").strip()
        res.append([int(x.replace("%nat", "").strip()) for x in body.split(";") if x.strip()] if body else [])
    return res[0], out, res[1]


def model_mismatches_parallel(cases, shared, parts=3):
    """The same comparison, the cases split over `parts` coqc processes (wall time; the cases are independent)."""
    import threading
    size = (len(cases) + parts - 1) // parts or 1
    res = [None] * parts

    def work(k):
        res[k] = model_mismatches(cases[k * size:(k + 1) * size], shared if k == 0 else (), name="c18_cases_%d" % k)
    ts = [threading.Thread(target=work, args=(k,)) for k in range(parts)]
    for t in ts:
        t.start()
    for t in ts:
        t.join()
    idx, sidx, outs = [], [], []
    for k, r in enumerate(res):
        if r is None or r[0] is None:
            return None, (r[1] if r else "model evaluation thread failed"), None
        idx += [k * size + i for i in r[0]]
        sidx += r[2]
        outs.append(r[1])
    return idx, "\n".join(outs), sidx


def run_matrix(binp):
    rc, out = vlib.run([binp, "matrix"], timeout=300)
    if rc != 0:
        raise RuntimeError("logh matrix failed: " + out[-2000:])
    return [json.loads(l) for l in out.splitlines() if l.startswith("{")]


def run_lines(binp, args):
    rc, out = vlib.run([binp] + args, timeout=300)
    if rc != 0:
        raise RuntimeError("logh %s failed: %s" % (" ".join(args), out[-2000:]))
    return [json.loads(l) for l in out.splitlines() if l.startswith("{")]


def shared_failure(sc, k, why):
    steps = sc["steps"][:k + 1]
    return {"case": {"kind": "shared", "scenario": sc["scenario"], "seed": sc["seed"], "initial_prefix": sc["initial_prefix"],
                     "failing_step": k, "steps": steps[-12:] if len(steps) > 12 else steps,
                     "steps_note": "the last steps up to the failing one (all of them when at most 12); `logh shared SEED` prints the whole scenario"},
            "why": why,
            "how": "logh shared: several SimpleLoggers created at different times over ONE *log.Logger, one call at a time; "
                   "the lines each call wrote to the shared log.Logger are recorded"}


WRITERS_HOW = ("logh writers: G goroutines log N records each (mixed levels, message and arguments carry goroutine and record number) through ONE "
               "logger into a writer that appends each Write call in CHUNK-byte pieces with a yield after each piece (memory-safe, but "
               "not atomic per call) and counts Write calls that start while another is in progress; afterwards every line must be "
               "exactly one logged record (own label, message, all key/value arguments in order) and every record must have its line")


def oracle_writers(w):
    why = []
    if w["torn"] or w["missing"] or w["lines"] != w["expected_lines"]:
        why.append("%d goroutines x %d records through one %s logger: %d of %d lines are not exactly one logged record (first: %r); %d records have "
                   "no line of their own (first: %r); the writer saw %d Write calls that overlapped another one (of %d)" % (
                       w["goroutines"], w["per_goroutine"], w["logger"], w["torn"], w["lines"], w.get("first_torn"), w["missing"],
                       w.get("first_missing"), w["overlapping_write_calls"], w["write_calls"]))
    return why


def run_stress(binp, g, n, seed):
    rc, out = vlib.run([binp, "stress", str(g), str(n), str(seed)], timeout=600)
    if rc != 0:
        raise RuntimeError("logh stress failed: " + out[-2000:])
    return json.loads([l for l in out.splitlines() if l.startswith("{")][-1])


def run(ctx):
    res, broken = vlib.proof_step(ctx, PROJ, "C18", genparams)
    binp, out = vlib.go_build("logh")
    if binp is None:
        raise RuntimeError("cannot build logh: " + out[-3000:])
    cases = run_matrix(binp)
    failures, mismatches = [], []
    for c in cases:
        why = oracle(c)
        if why:
            failures.append({"case": c, "why": why, "how": "logh matrix: one logger call, output captured"})
    # awkward argument values (typed-nil pointers, panicking Error()/String(), nil ...) + a later record under a watchdog
    hostile = run_lines(binp, ["hostile"])
    for c in hostile:
        why = oracle(c)
        if why:
            failures.append({"case": c, "why": why, "how": "logh hostile: one logger call with an awkward argument value (%s, in %s position), "
                             "then a later ERROR record through the same logger under a watchdog" % (c["value"], c["position"])})
    # several SimpleLoggers over one shared *log.Logger
    shared = run_lines(binp, ["shared", str(ctx.seed)])
    if len(shared) < 10:
        raise RuntimeError("logh shared printed %d scenarios" % len(shared))
    for sc in shared:
        k, why = oracle_shared(sc)
        if why:
            failures.append(shared_failure(sc, k, why))
    matrix_cases = len(cases)
    # model comparison: the matrix, the hostile cases inside the model's domain with every level enabled; the shared-logger
    # scenarios are run as a whole through the model's sh_run (state: the log.Logger's prefix and the wrapped loggers)
    cases = cases + [c for c in hostile if not c.get("no_model") and c["thr"] == -8]
    idx = None
    if res.get("ok") or os.path.exists(os.path.join(vlib.coq_dir(PROJ), "theories", "Logger.vo")):
        idx, mout, sidx = model_mismatches_parallel(cases, shared)
        if idx is None:
            mismatches.append({"error": "model evaluation failed", "detail": mout[-1500:]})
        else:
            mismatches += [{"case": cases[i], "what": "Coq model's emit differs from the implementation's output"} for i in idx]
            mismatches += [{"case": {"kind": "shared", "scenario": shared[i]["scenario"], "seed": shared[i]["seed"]},
                            "what": "Coq model of several SimpleLoggers over one log.Logger (sh_run) writes different lines than the implementation"}
                           for i in sidx]
    # concurrent labelling: every line's label must be the level it was logged at
    rounds = [(8, 4000), (16, 1500), (3, 6000)] if ctx.tier == "quick" else [(8, 40000), (16, 20000), (32, 10000), (2, 100000), (5, 50000)]
    stress = []
    for k, (g, n) in enumerate(rounds):
        s = run_stress(binp, g, n, ctx.seed + k)
        stress.append(s)
        if s["mislabelled"] or s["lines"] != s["expected_lines"]:
            failures.append({"case": {"kind": "stress", "goroutines": g, "per_goroutine": n, "seed": ctx.seed + k},
                             "why": ["%d of %d lines carry a label that is not the record's level (first: %r)" % (
                                 s["mislabelled"], s["lines"], s["first_bad"])],
                             "how": "logh stress: goroutines log records that embed their level through one SimpleLogger"})

    # concurrent records into a writer that is not atomic per Write call (it relies on package log / slog serialising Write)
    wrounds = [(8, 1500, 5), (16, 600, 16)] if ctx.tier == "quick" else [(8, 20000, 5), (16, 8000, 16), (32, 4000, 3), (2, 40000, 7)]
    writers = []
    for k, (g, n, chunk) in enumerate(wrounds):
        for w in run_lines(binp, ["writers", str(g), str(n), str(chunk), str(ctx.seed + 50 + k)]):
            writers.append(w)
            why = oracle_writers(w)
            if why:
                failures.append({"case": w, "why": why, "how": WRITERS_HOW})

    def search():
        found = []
        for k in range(6):
            s = run_stress(binp, 8 + 4 * k, 30000, ctx.seed + 100 + k)
            if s["mislabelled"]:
                found.append({"case": {"kind": "stress", "goroutines": 8 + 4 * k, "per_goroutine": 30000, "seed": ctx.seed + 100 + k},
                              "why": ["%d of %d lines mislabelled (first: %r)" % (s["mislabelled"], s["lines"], s["first_bad"])]})
                break
        return found

    vlib.decide(ctx, broken, failures, mismatches, search)
    emitted = [c for c in cases if c.get("simple") is not None or c.get("slog") is not None]
    distinct = len({json.dumps([c["kind"], c["thr"], c["lvl"], c["msg"], c["args"]]) for c in emitted if c["args"]})
    cov = vlib.proof_coverage(res, PROJ, "C18")
    cov.update({
        "evaluations": len(cases) + len(hostile) + sum(s["lines"] for s in stress) + sum(w["lines"] for w in writers),
        "writers_rounds": writers,
        "distinct_nontrivial": distinct,
        "rule": "matrix: 15 thresholds x 5 levels x 9 argument lists on SimpleLogger and SlogLogger (+NoOp), compared with the Coq model "
                "evaluated inside Coq (vm_compute) and with a property oracle; non-trivial = an emitted record with at least one argument. "
                "stress: G goroutines x N records at mixed levels through one SimpleLogger, every line's label checked. "
                "hostile: 3 thresholds x 5 levels x 9 awkward values (typed-nil pointers implementing error / Stringer, panicking "
                "Error()/String(), nil interface, nil slice/map, controls) x 5 positions (key, value, tail, both, middle) on both loggers, "
                "each followed by a later record through the same logger under a watchdog. shared: 12 scenarios (4 scripted, 8 random "
                "from the seed) of up to 6 SimpleLoggers created at different times over one *log.Logger, interleaved sequential "
                "emissions, every line must carry exactly its own level's label. matrix also: 16 thresholds at the extremes of the "
                "64-bit Level type and around the 32-bit limits (2 argument lists). writers: G goroutines x N records through one "
                "SimpleLogger / one SlogLogger(TextHandler) into a writer that is not atomic per Write call, every line must be exactly "
                "one logged record",
        "samples": cases[3:6] + [stress[0]],
        "exhaustive": False,
        "model_mismatches": len(mismatches),
        "oracle_failures": len(failures),
        "stress_rounds": stress,
        "matrix_cases": matrix_cases,
        "hostile_cases": len(hostile),
        "hostile_later_records_seen": sum(1 for c in hostile if c["after_emitted"]),
        "shared_scenarios": len(shared),
        "shared_log_steps": sum(1 for sc in shared for st in sc["steps"] if st["op"] == "log"),
        "model_cases_in_coq": len(cases) + sum(1 for sc in shared for st in sc["steps"]),
        "partial_runtime": "that the Go runtime interleaves SetPrefix/Output as the labelled transition system assumes is observed by the stress run, not proved",
    })
    vlib.write_evidence(ctx, cov, assumptions=[
        "log.Logger makes SetPrefix and Output individually atomic; sync.Mutex gives mutual exclusion",
        "slog handlers enable a record iff level >= their minimum (slog's documented rule; checked against slog.TextHandler on every case)",
        "arguments are compared after rendering with fmt %v (fmt itself is trusted)",
    ])
    return 1 if ctx.violations else 0


def replay(ctx, path):
    obj = json.load(open(path))
    binp, out = vlib.go_build("logh")
    c = obj.get("case", {})
    if c.get("kind") == "stress":
        s = run_stress(binp, c["goroutines"], c["per_goroutine"], c["seed"])
        print(json.dumps(s))
        if s["mislabelled"]:
            vlib.report_violation(ctx, obj)
            return 1
        return 0
    if c.get("kind") == "writers":
        bad = 0
        for w in run_lines(binp, ["writers", str(c["goroutines"]), str(c["per_goroutine"]), str(c["chunk"]), str(c["seed"])]):
            why = oracle_writers(w)
            print(json.dumps({"case": w, "why": why}))
            if why and not bad:
                vlib.report_violation(ctx, {"case": w, "why": why, "how": WRITERS_HOW})
                bad = 1
        return bad
    if c.get("kind") == "shared":
        for sc in run_lines(binp, ["shared", str(c["seed"])]):
            if sc["scenario"] == c["scenario"]:
                k, why = oracle_shared(sc)
                print(json.dumps({"scenario": sc["scenario"], "failing_step": k, "why": why}))
                if why:
                    vlib.report_violation(ctx, shared_failure(sc, k, why))
                    return 1
        return 0
    cases = run_lines(binp, ["hostile"]) if "after_returned" in c else run_matrix(binp)
    for d in cases:
        if all(d.get(k) == c.get(k) for k in ("kind", "thr", "lvl", "msg", "args", "value", "position")):
            why = oracle(d)
            print(json.dumps({"case": d, "why": why}))
            if why:
                vlib.report_violation(ctx, {"case": d, "why": why})
                return 1
    return 0
