"""C12 -- execution modes bound concurrency as configured and keep jobs independent."""
import json

import vlib
from checks import loop_common as lc

PROJ = lc.PROJ

MANIFEST = dict(
    engine="loop",
    technique="Coq proof (invariant by induction over all label sequences of a dispatch transition system with the three-way switch, the "
              "worker pool and job goroutines, for every WorkerLimit) on a model whose structure is regenerated from the source; instrumented "
              "jobs with an in-flight counter and barriers on the real scheduler",
    text="Machine-checked Coq theorems over a transition system of executeAndReschedule's dispatch switch, startWorkers' pool and job "
         "goroutines: in every reachable state the number of executions in flight is at most 1 with BlockingExecution and at most n with "
         "WorkerLimit n, for all n; for every n > 0 a run reaches n executions in flight (the pool has n independent takers); without either "
         "option no loop label's guard depends on running jobs, the loop is never in a blocking position and a due entry reaches ExecStart "
         "within three labels whatever is running. The switch (guards, order, actions), the pool loop bounds and wg.Add placement are "
         "regenerated from scheduler.go on every run. On the real scheduler n jobs meeting at a barrier of size n must pass it, n+1 must "
         "never all be inside, with every worker busy a waiting job must start as soon as ANY worker frees up, a long-running job whose "
         "Description() blocks while its Execute runs / is slow / panics must not delay a sibling or its own fire times, after p = 1..n executions that panicked n jobs must still meet at a barrier of n (compared with the model run "
         "panic_rounds ++ fill_pool n), the in-flight maximum (sampled at every Execute entry/exit) must respect the bound under mixed workloads, and "
         "in unbounded mode a never-returning job delays neither a sibling nor its own next fire times. True parallelism is observed, not proved.",
    design_ref="6 C12")


def oracle(r):
    why = []
    b = r["bound"]
    if b and r["max_inflight"] > b:
        why.append("%d executions in flight at once, the configured bound is %d" % (r["max_inflight"], b))
    if r["test"] == "barrier_n":
        if not r["barrier_reached"]:
            why.append("%d jobs due at once never ran in parallel within the deadline (%s, limit %d)" % (r["barrier"], r["mode"], r["limit"]))
    if r["test"] == "barrier_n1":
        if b and r["barrier_reached"]:
            why.append("%d jobs were inside Execute at once with bound %d" % (r["barrier"], b))
        if r["execs"] < r["jobs"]:
            why.append("only %d of %d due jobs were executed" % (r["execs"], r["jobs"]))
    if r["test"] == "independent" and (r["own_next_execs"] < 4 or r["sibling_execs"] < 4):
        why.append("a never-returning job delayed its sibling (%d runs) or its own next fire times (%d runs)" % (r["sibling_execs"], r["own_next_execs"]))
    if r["test"] == "ctxerr_then_barrier":
        if not r["barrier_reached"]:
            why.append("pool of %d: after jobs whose own error was context.DeadlineExceeded / wrapped context.Canceled, %d jobs due at once no longer ran "
                       "in parallel (workers were lost); %d of %d executions" % (r["limit"], r["barrier"], r["execs"], r["jobs"]))
    if r["test"] == "panic_then_barrier":
        if not r["barrier_reached"]:
            why.append("pool of %d: after %d execution(s) that panicked, %d jobs due at once no longer ran in parallel within 5 s (a panic cost the pool "
                       "a worker); %d of %d executions" % (r["limit"], r["panics"], r["barrier"], r["execs"], r["jobs"]))
        elif r["execs"] < r["jobs"]:
            why.append("pool of %d: only %d of %d due jobs were executed after %d panics" % (r["limit"], r["execs"], r["jobs"], r["panics"]))
    if r["test"].startswith("desc_") and r["mode"] == "unbounded":
        what = {"desc_mutex": "blocks while the job's own Execute is in progress (one mutex around both)", "desc_slow": "takes 300 ms",
                "desc_panic": "panics"}[r["test"]]
        if r["sibling_max_gap_ms"] > 450:
            why.append("unbounded mode: while a long-running job (fire time every 60 ms, Execute ends with the scheduler) whose Description() %s was "
                       "executing, a sibling ticker (every 10 ms) was not dispatched for %d ms" % (what, r["sibling_max_gap_ms"]))
        if r["own_next_execs"] < 4:
            why.append("unbounded mode: the long-running job's own next fire times were not dispatched (%d in 1.5 s, one every 60 ms); its "
                       "Description() %s" % (r["own_next_execs"], what))
    if r["test"] == "restart_busy_then_barrier" and (not r["barrier_reached"] or r["execs"] < r["jobs"]):
        why.append("pool of %d: Stop(); Start() while %d job(s) of the first run were still executing: %d jobs due at once in the new run did not run in "
                   "parallel within 5 s (%d executed) -- the new run has fewer than WorkerLimit workers" % (r["limit"], r["panics"], r["barrier"], r["execs"]))
    if r["test"] == "misfires_then_barrier" and (not r["barrier_reached"] or r["execs"] < r["jobs"]):
        why.append("pool of %d: after %d fetches that yielded nothing to execute (jobs an hour beyond OutdatedThreshold: misfires), %d jobs due at once did "
                   "not run in parallel within 5 s (%d executed)" % (r["limit"], r["panics"], r["barrier"], r["execs"]))
    if r["test"] == "handover_when_any_worker_frees":
        if not r["barrier_reached"]:
            why.append("pool of %d, every worker busy, one more job due: when the job that had started %s ended (the others still running), the "
                       "waiting job did not start within 3 s -- only %d of %d can run in parallel" % (
                           r["limit"], ["first", "second", "third"][r["barrier"]], r["limit"] - 1, r["limit"]))
    if r["test"] == "retrying_independent":
        if r["sibling_max_gap_ms"] > 450:
            why.append("unbounded mode: while a failing job was in its retry sequence a sibling ticker (every 10 ms) was not dispatched for %d ms" % r["sibling_max_gap_ms"])
        if r["own_next_execs"] < 8:
            why.append("unbounded mode: a job still retrying delayed its own next fire times (%d executions in 1.6 s, fire time every 100 ms)" % r["own_next_execs"])
    if not r["wait_returned"]:
        why.append("Wait did not return after Stop")
    return why


MODEL_V = """From Coq Require Import ZArith List Bool.
Require Import QzLoop.Gen.Params QzLoop.LoopModel QzLoop.Retry QzLoop.Dispatch.
Import ListNotations.
Open Scope Z_scope.
(* the model's bound for a configuration (0: none) and the in-flight count it reaches when n jobs are due *)
Definition bound (c : dcfg) : nat := match pick_mode exec_modes c with Some DInline => 1%%nat | Some DSendDispatch => pool_size c | _ => 0%%nat end.
Definition reach (c : dcfg) (n : nat) : nat :=
  match pick_mode exec_modes c with
  | Some DSendDispatch => match drun c (dinit c) (fill_pool n) with Some s => d_inflight s | None => 0%%nat end
  | Some DInline => match drun c (dinit c) [MakeDue n; DFetch; DDispatch] with Some s => d_inflight s | None => 0%%nat end
  | _ => n end.
(* ... after p executions that panicked, one after the other, in workers 0, 1, .. (mod n) *)
Definition reach_after (c : dcfg) (p n : nat) : nat :=
  match drun c (dinit c) (panic_rounds (map (fun i => Nat.modulo i n) (seq 0 p)) ++ fill_pool n) with Some s => d_inflight s | None => 0%%nat end.
Definition cases : list (nat * (dcfg * nat * nat * nat * nat)) := [
%s
].
(* (index, (config, declared bound, jobs at the barrier, observed maximum, panics before the barrier)) *)
Definition MISMATCH := Eval vm_compute in
  flat_map (fun x => let '(id, (c, b, n, obs, p)) := x in
    if Nat.eqb (bound c) b && (if Nat.eqb b 0 then true else Nat.leb obs (bound c)) &&
       (if Nat.eqb n 0 then true else Nat.eqb (if Nat.eqb p 0 then reach c n else reach_after c p n) obs)
    then [] else [id]) cases.
Print MISMATCH.
"""


def model_mismatches(rows):
    items = []
    for i, r in enumerate(rows):
        blocking = "true" if "blocking" in r["mode"] else "false"
        limit = r["limit"] if r["mode"] in ("pool", "blocking+limit", "limit+blocking") else 0
        n = r["barrier"] if (r["test"] in ("barrier_n", "panic_then_barrier", "restart_busy_then_barrier", "misfires_then_barrier") and r["barrier_reached"]) else 0
        p = r.get("panics", 0) if r["test"] == "panic_then_barrier" else 0
        items.append("(%d%%nat, (mkd %s %d, %d%%nat, %d%%nat, %d%%nat, %d%%nat))" % (i, blocking, limit, r["bound"], n, r["max_inflight"], p))
    ids, out = lc.coq_eval_list("c12_cases", MODEL_V % ";\n".join(items))
    if ids is None:
        return None, out
    return [{"case": {k: rows[i].get(k) for k in ("mode", "limit", "test", "jobs", "barrier", "seed", "panics")}, "observed_max_inflight": rows[i]["max_inflight"],
             "what": "the bound or the reachable parallelism of the Coq dispatch model differs from what the real scheduler showed"} for i in ids], out


CRASHES = []


def run_modes(binp, seed, tier):
    rc, rows, out = lc.run_json([binp, "modes", str(seed), tier], timeout=900)
    if rc != 0:
        if "panic:" in out or "fatal error:" in out:
            # the scheduler took the harness process down (a job panic that was not recovered): a finding
            m = out[out.find("panic:") if "panic:" in out else out.find("fatal error:"):]
            CRASHES.append({"case": {"kind": "modes-crash", "seed": seed, "tier": tier},
                            "why": ["the process running the execution-mode scenarios died: " + m[:700]],
                            "how": "looph modes %d %s" % (seed, tier)})
            return [r for r in rows if r.get("kind") == "modes"]
        raise RuntimeError("looph modes failed: " + out[-2000:])
    return [r for r in rows if r.get("kind") == "modes"]


KEY = ("mode", "limit", "test", "jobs", "restart", "panics")


def run_desc(binp, seed):
    """Jobs with a badly behaved Description(), hand-over to whichever worker frees up (looph descmodes)."""
    rows = []
    for which in ("nopanic", "panic"):
        rc, rws, out = lc.run_json([binp, "descmodes", str(seed), which], timeout=300)
        rows += [r for r in rws if r.get("kind") == "modes"]
        if rc != 0:
            if "panic:" in out or "fatal error:" in out:
                m = out[out.find("panic:") if "panic:" in out else out.find("fatal error:"):]
                if not any(c["case"].get("which") == which for c in CRASHES):
                    CRASHES.append({"case": {"kind": "descmodes-crash", "seed": seed, "which": which},
                                    "why": ["the scheduler process died while running jobs whose Description() %s (all three modes; Execute long-running): %s"
                                            % ("panics" if which == "panic" else "blocks / is slow", m[:700])],
                                    "how": "looph descmodes %d %s" % (seed, which)})
            else:
                raise RuntimeError("looph descmodes failed: " + out[-2000:])
    return rows


def desc_failures(binp, seed):
    rows = run_desc(binp, seed)
    bad = [r for r in rows if oracle(r)]
    out = []
    if bad:
        again = [x for x in run_desc(binp, seed + 1) if oracle(x)]
        for r in bad:
            if any(all(x.get(k) == r.get(k) for k in KEY + ("barrier",)) for x in again) and len(out) < 2 and r["test"] not in {o["case"]["test"] for o in out}:
                out.append({"case": {"kind": "descmodes", **{k: r.get(k) for k in ("mode", "limit", "test", "jobs", "barrier", "bound", "seed")}}, "why": oracle(r),
                            "observed": {k: r.get(k) for k in ("sibling_execs", "own_next_execs", "sibling_max_gap_ms", "max_inflight", "execs", "barrier_reached", "panics")},
                            "how": "looph descmodes: (desc_*) a ticker every 10 ms and a long-running job (every 60 ms) with the given Description(); "
                                   "(handover) WorkerLimit n, n jobs held, one more due, then the i-th started job ends"})
    return rows, out



def run(ctx):
    res, broken = vlib.proof_step(ctx, PROJ, "C12", lc.genparams)
    binp = lc.looph()
    rows = run_modes(binp, ctx.seed, ctx.tier)
    if ctx.tier == "thorough":
        for k in range(1, 4):
            rows += run_modes(binp, ctx.seed + k, "thorough")
    failures, mismatches = [], []
    desc_rows, df = desc_failures(binp, ctx.seed)
    rows += [r for r in desc_rows if not oracle(r)]   # the bound of the model is compared on these too
    failures += df
    failures += CRASHES[:2]
    for r in [x for x in rows if oracle(x)][:4]:
        if len(failures) >= 2:
            break
        why = oracle(r)
        if why:
            # a timing-dependent miss (barrier not reached under load) must show again
            again = [x for x in run_modes(binp, r["seed"] + 1, ctx.tier) if all(x.get(k) == r.get(k) for k in KEY)]
            if any(oracle(x) for x in again) or any("in flight" in w or "inside Execute" in w for w in why):
                failures.append({"case": {k: r.get(k) for k in ("mode", "limit", "test", "jobs", "barrier", "bound", "seed", "restart", "panics")}, "why": why,
                                 "how": "looph modes: instrumented jobs with an in-flight counter and a barrier"})
    stale_rows, sf = lc.stale_worker_failures(binp, ctx.seed, 12 if ctx.tier == "quick" else 100, bound_only=True)
    failures += sf
    if lc.model_available():
        bad, out = model_mismatches(rows)
        if bad is None:
            mismatches.append({"error": "model evaluation failed", "detail": out[-1500:]})
        else:
            mismatches += bad

    def search():
        found = []
        for k in range(1, 4):
            for r in run_modes(binp, ctx.seed + 50 * k, "thorough"):
                why = oracle(r)
                if why:
                    found.append({"case": {k2: r.get(k2) for k2 in ("mode", "limit", "test", "jobs", "barrier", "bound", "seed", "panics")}, "why": why})
            if found:
                break
        return found[:3]

    vlib.decide(ctx, broken, failures, mismatches, search)
    cov = vlib.proof_coverage(res, PROJ, "C12")
    cov.update({
        "evaluations": len(rows) + len(stale_rows), "restart_with_old_worker_busy_trials": len(stale_rows), "executions_observed": sum(r["execs"] for r in rows),
        "distinct_nontrivial": len({(r["mode"], r["limit"], r["test"], r["jobs"]) for r in rows if r["max_inflight"] >= 1}),
        "rule": "pool limits 1,2,3,8 (64 in the thorough tier) x {n jobs at a barrier of n, n+1 and 2n+1 jobs at a barrier of n+1, mixed workload}, "
                "n jobs at a barrier of n after p <= n panicking executions, "
                "blocking (with and without WorkerLimit), unbounded (24 at a barrier, mixed, never-returning job); non-trivial = at least one execution",
        "samples": rows[:3], "exhaustive": False,
        "model_mismatches": len(mismatches), "oracle_failures": len(failures),
        "partial_runtime": "that n workers genuinely overlap in time is observed through the barrier, not proved",
    })
    vlib.write_evidence(ctx, cov, assumptions=[
        "an unbuffered channel hands a value to exactly one receiver; a goroutine blocked in executeWithRetries takes nothing else",
        "jobs terminate or block only on their own account (the model lets an execution end at any time or never)",
    ])
    return 1 if ctx.violations else 0


def replay(ctx, path):
    obj = json.load(open(path))
    c = obj.get("case", {})
    binp = lc.looph()
    if c.get("kind") in ("descmodes", "descmodes-crash"):
        del CRASHES[:]
        rows, df = desc_failures(binp, c.get("seed", ctx.seed))
        for f in CRASHES[:1] + df:
            vlib.report_violation(ctx, f)
            return 1
        print("descmodes: %d scenarios, none failing" % len(rows))
        return 0
    if c.get("kind") == "modes-crash":
        del CRASHES[:]
        run_modes(binp, c.get("seed", ctx.seed), c.get("tier", "quick"))
        if CRASHES:
            vlib.report_violation(ctx, CRASHES[0])
            return 1
        print("the scenarios ran through without a crash")
        return 0
    if c.get("kind") == "staleworker":
        rows, sf = lc.stale_worker_failures(binp, c.get("seed", ctx.seed), c.get("n", 12), bound_only=True)
        print(json.dumps({"trials": len(rows), "failing": len([r for r in rows if lc.stale_worker_oracle(r, True)])}))
        if sf:
            vlib.report_violation(ctx, sf[0])
            return 1
        return 0
    rows = [r for r in run_modes(binp, c.get("seed", ctx.seed), "thorough" if c.get("limit") == 64 else "quick")
            if all(r.get(k) == c.get(k) for k in ("mode", "limit", "test", "jobs")) and r.get("panics", 0) == (c.get("panics") or 0)]
    for r in rows:
        why = oracle(r)
        print(json.dumps({"case": c, "why": why, "max_inflight": r["max_inflight"]}))
        if why:
            vlib.report_violation(ctx, {"case": c, "why": why})
            return 1
    return 0
