"""C06 -- NextFireTime always terminates, never crashes, and is a pure function."""
import json

import vlib
from checks import cron_common as cc

PROJ = cc.PROJ
genparams = cc.genparams

MANIFEST = dict(
    engine="cron",
    technique="Coq proof that the model's explicit step budgets are never exhausted (ranking function on months left; "
              "wall-clock measure for the outer loop) + watchdog, crash and race-detector harness on the real trigger"
              " + source-to-Gallina translation of internal/csm's node level proved equivalent to the model (SrcTie)",
    text="Machine-checked: for every well-formed expression, every zone table with offsets within +-26h and every prev in "
         "[MinInt64, MaxInt64] the model of NextFireTime returns a fire time strictly after prev or expiry, never its out-of-fuel value: "
         "the state machine search terminates (a ranking function counting the months left until the last admissible year decreases "
         "at every node step) and so does the DST candidate loop. Purity holds of the model by construction. The tie to the code: "
         "every harness evaluation runs under a watchdog (10 s per call) with crash detection, expressions that can never fire again "
         "are over-represented, the model must agree on every case, and one trigger is called from 16 goroutines under the race "
         "detector with a fields dump before and after. Real-time promptness is observed, not proved."
         " The node level of internal/csm (util.go, common_node.go, day_node.go: every function) is additionally translated from the Go SOURCE into Gallina on every run (Gen/CsmSrc.v) and proved equal to the model's node functions for all inputs (SrcEquiv.v, Props/SrcTie.v), so a change of these functions breaks a proof obligation even where no sampled input shows it.",
    design_ref="6 C06")


def setup():
    vlib.go_build("cronh", race=True)


def run(ctx):
    res, broken = vlib.proof_step(ctx, PROJ, "C06", genparams)
    res, broken = cc.compose_step(ctx, "C06", res, broken)
    hbin, dbin = cc.build_tools()
    rbin, out = vlib.go_build("cronh", race=True)
    if rbin is None:
        raise RuntimeError("cannot build cronh -race: " + out[-2000:])
    n = 2000 if ctx.tier == "quick" else 30000
    recs = cc.run_sharded(hbin, dbin, "fixed", ctx.seed + 3, n)
    zrecs = cc.run_sharded(hbin, dbin, "zone", ctx.seed + 4, 600 if ctx.tier == "quick" else 6000,
                           extra=["-zones", ",".join(cc.QUICK_ZONES)])
    npure = 150 if ctx.tier == "quick" else 1500
    prec = cc._run_shard((rbin, dbin, ["pure", "-seed", str(ctx.seed), "-n", str(npure)]))
    cases = [c for r in recs + zrecs for c in r["cases"]]
    failures = list(cc.harness_problems(recs + zrecs + [prec]))
    for c in cases:
        why = []
        if c["go"].startswith("X"):
            why.append("NextFireTime returned an error other than ErrTriggerExpired: " + c["go"][1:])
        if c["go"].startswith("F") and int(c["go"][1:]) <= c["prev"]:
            why.append("the returned value is not strictly greater than prev")
        if why:
            failures.append({"case": cc.case_view(c), "why": why, "replay": {"expr": c["expr"], "loc": c["loc"], "prev": c["prev"]}})
    race = "DATA RACE" in prec["stderr"]
    if race:
        failures.append({"kind": "race", "why": ["the race detector reported a data race inside concurrent NextFireTime calls"], "detail": prec["stderr"][-1500:]})
    mism = [{"case": cc.case_view(c), "what": "model and implementation return different results"} for c in cases if c["model"] != c["go"]]
    pure_summary = [t for t in prec["other"] if t and t[0] == "S"]

    def search():
        recs2 = cc.run_sharded(hbin, dbin, "fixed", ctx.seed + 9999, 30000)
        return list(cc.harness_problems(recs2))[:3]

    vlib.decide(ctx, broken, failures, mism, search)
    cov = vlib.proof_coverage(res, PROJ, "C06")
    never = sum(1 for c in cases if c["go"] == "E")
    cov.update({
        "evaluations": len(cases) + npure * 24 * 18,
        "distinct_nontrivial": cc.distinct_nontrivial(cases),
        "rule": "every call under a 10 s watchdog with crash detection; fixed-offset and DST locations; expressions that never fire again (bounded years, n#5, day 30/31, L-31) "
                "over-represented: %d expiry results; purity: %d triggers x 24 prevs called sequentially, from 16 goroutines under -race, and again sequentially" % (never, npure),
        "samples": [cc.case_view(c) for c in cases if c["go"] == "E"][:2] + [cc.case_view(c) for c in cases[:2]],
        "model_mismatches": len(mism), "oracle_failures": len(failures),
        "purity": pure_summary, "race_detector": "clean" if not race else "DATA RACE",
        "partial_runtime": "wall-clock promptness and the absence of crashes are observed by the watchdog, not proved; the proof is about the model's step budgets",
    })
    vlib.write_evidence(ctx, cov, assumptions=[
        "zone tables handed to the model satisfy wf_zone (checked on every table by the driver)",
        "the Go race detector and a 10 s per-call watchdog are the runtime observers",
    ])
    return 1 if ctx.violations else 0


def replay(ctx, path):
    obj = json.load(open(path))
    return cc.replay_case(ctx, obj, lambda c: c["model"] != c["go"] or c["go"].startswith("X"))
