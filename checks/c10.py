"""C10 -- lifecycle: start/stop/cancel/wait/restart behave and leak nothing."""
import json
from concurrent.futures import ThreadPoolExecutor

import vlib
from checks import loop_common as lc

PROJ = lc.PROJ

MANIFEST = dict(
    engine="loop",
    technique="Coq proof (invariants by induction over all label sequences of a lifecycle transition system: Start, Stop, context "
              "cancellation, one watcher per Start, loop/worker/job goroutine exits, WaitGroup) on a model whose structure is regenerated "
              "from the source; Start/Stop/cancel/Wait sequences on the real scheduler compared with the model and checked by oracles",
    text="Machine-checked Coq theorems over a transition system of Start/Stop/stopRun/stop/Wait, the per-run contexts and watcher goroutines "
         "and the WaitGroup: Start and Stop are idempotent; IsStarted equals `the last of {effective Start, Stop, cancellation of the running "
         "run's context} was a Start` whenever that run's watcher has no wake-up pending; after a (re)start only Stop or the cancellation of "
         "the new run's context can clear `started` or cancel that context (the pre-fix watcher that called Stop() is refuted by Start, Stop, "
         "Start, WatcherWake 1); cancel followed by the watcher equals Stop followed by the watcher; every context but the running run's is "
         "cancelled; WaitReturn enabled implies wg = 0 implies no loop, worker or job goroutine of any run is alive and no execution starts "
         "before the next Start. The run counter, the stopRun equality test, wg.Add-before-go and the stop() body are regenerated from "
         "scheduler.go on every run. The real scheduler is driven through sequences with spacing 0/yield/1ms/20ms including Stop immediately "
         "followed by Start in all three modes with idle/running/blocked jobs, and through cancellation of the Start context while the "
         "execution loop is held inside a blocking-mode job or a slow Size/Head/Pop of a custom queue (then Start before / after the loop is let go); IsStarted after quiescence is compared with the Coq model, and "
         "Wait, executions after Wait, job-side ctx.Done and the goroutine profile are checked. Goroutine exit itself is observed, not proved.",
    design_ref="6 C10")

OPS = {"start": "OStart", "stop": "OStop", "cancel": "OCancel", "stopstart": "OStopStart", "schedule": "OSched", "wait": "OSched"}
MODES = {"unbounded": "(mkd false 0)", "blocking": "(mkd true 0)", "pool": "(mkd false 2)", "blocking+limit": "(mkd true 2)"}


def oracle(r):
    why = []
    if r["observed_started"] != r["expected_started"] or not r["stable"]:
        why.append("IsStarted() is %s after quiescence (stable=%s) but the last of Start/Stop/cancel was %s" % (
            r["observed_started"], r["stable"], "a Start" if r["expected_started"] else "a Stop or cancellation"))
    if r["expected_started"] and r["observed_started"] and not r["fired_when_started"]:
        why.append("the (re)started scheduler executed no job within 4 s")
    if r.get("stop_hung"):
        why.append("Stop() did not return within 6 s (jobs: %s, mode %s)" % (r["jobs"], r["mode"]))
        return why
    if r.get("waits_returned_while_started"):
        why.append("Wait returned %d time(s) while the scheduler was started (a run was alive)" % r["waits_returned_while_started"])
    if r.get("waits_hanging_while_stopped"):
        why.append("Wait did not return within 6 s although the scheduler had been stopped (%d time(s))" % r["waits_hanging_while_stopped"])
    if not r["wait_returned"]:
        why.append("Wait did not return within 6 s after Stop")
    if r["execs_after_wait"]:
        why.append("%d job execution(s) started after Wait had returned" % r["execs_after_wait"])
    if r["leaked_goroutines"]:
        why.append("%d goroutine(s) with scheduler frames alive 2 s after Wait returned: %s" % (r["leaked_goroutines"], r.get("leak_sample", "")[:300]))
    if r["blocked_started"] != r["blocked_saw_done"]:
        why.append("%d execution(s) blocked on their context never saw it cancelled" % (r["blocked_started"] - r["blocked_saw_done"]))
    return why


def pool_oracle(r):
    why = []
    if r.get("kind") == "latejob":
        if r.get("panic"):
            return ["unbounded mode, Stop while the loop is fetching a due job: " + r["panic"]]
        if r.get("stop_hung"):
            return ["Stop() did not return within 3 s while the loop was inside a slow trigger call (Stop waits for the loop)"]
        if r["execs_begun_after_wait"]:
            why.append("unbounded mode: a job execution was in progress after Wait had returned (Stop came while the loop was fetching the job)")
        if not r["wait_returned"]:
            why.append("Wait did not return within 6 s after Stop")
        return why
    if not r["wait_returned"]:
        why.append("worker-pool mode (limit %d): with all workers busy and the loop blocked handing a job over, Wait did not return within 6 s after %s"
                   % (r["limit"], "Stop" if r["variant"] == "stop" else "cancellation"))
    if r["leaked_goroutines"]:
        why.append("%d goroutine(s) with scheduler frames alive 2 s after Wait: %s" % (r["leaked_goroutines"], r.get("leak_sample", "")[:300]))
    if r["saw_done"] < r["started"]:
        why.append("%d running job(s) did not see their context cancelled" % (r["started"] - r["saw_done"]))
    return why


def busy_oracle(r):
    """Cancellation of the context given to Start is equivalent to Stop, whatever the loop is doing."""
    where = "inside a blocking-mode job that returns late" if r["variant"] == "job" else "inside a slow %s() of a custom queue" % r["variant"]
    if r.get("error"):
        return ["busy-cancel scenario could not be driven (loop held %s): %s" % (where, r["error"])]
    why = []
    if r["started_after_cancel"]:
        why.append("the context given to Start was cancelled while the execution loop was held %s: IsStarted() still true 3 s later "
                   "(cancellation must be equivalent to Stop)" % where)
    if not r["started_after_start"]:
        why.append("Start after that cancellation%s: IsStarted() false right after it" % (" (old loop still held)" if r["restart"] else ""))
    if not r["started_after_release"] or not r["stable"]:
        why.append("Start was the last lifecycle call, yet IsStarted() is %s (stable=%s) once the loop of the cancelled run had been let go: "
                   "the old run's exit stopped the scheduler" % (r["started_after_release"], r["stable"]))
    if r["probe_execs"] != 1:
        why.append("a job scheduled after the restart, due at once, was executed %d times within 4 s" % r["probe_execs"])
    if r["probe_execs_with_cancelled_ctx"]:
        why.append("the job scheduled after the restart was entered with a cancelled context")
    if not r["wait_returned"]:
        why.append("Wait did not return within 6 s after Stop")
    return why


def run_busy(binp, seed, rounds):
    rc, rows, out = lc.run_json([binp, "busycancel", str(seed), str(rounds)], timeout=300)
    if rc != 0:
        if "panic:" in out or "fatal error:" in out:
            m = out[out.find("panic:") if "panic:" in out else out.find("fatal error:"):]
            return [{"kind": "busycancel", "variant": "job", "restart": True, "ops": [], "error": "the harness process died: " + m[:500]}]
        raise RuntimeError("looph busycancel failed: " + out[-2000:])
    return [r for r in rows if r.get("kind") == "busycancel"]


def busy_failures(binp, seed, rounds):
    rows = run_busy(binp, seed, rounds)
    bad = [r for r in rows if busy_oracle(r)]
    out = []
    if bad:
        again = [r for r in run_busy(binp, seed + 1, rounds) if busy_oracle(r)]
        same = [r for r in bad if (r["variant"], r["restart"]) in {(x["variant"], x["restart"]) for x in again}]
        if same:
            r = max(same, key=lambda x: len(busy_oracle(x)))
            out.append({"case": {"kind": "busycancel", "variant": r["variant"], "restart": r["restart"], "ops": r["ops"], "seed": seed, "rounds": rounds},
                        "why": busy_oracle(r), "observed": {k: r.get(k) for k in ("started_after_cancel", "started_after_start", "started_after_release", "stable", "probe_execs")},
                        "failing_trials": "%d of %d, then %d of %d" % (len(bad), len(rows), len(again), len(rows)),
                        "how": "looph busycancel: Start(ctx); the execution loop is held (variant: job = inside a blocking-mode job that ignores its "
                               "context, Size/Head/Pop = inside that call of a gated custom queue); cancel(ctx); IsStarted polled 3 s; "
                               "restart=true: Start, then the loop is let go / false: the loop is let go, then Start; IsStarted; a job due at once must run"})
    return rows, out


def run_life(binp, seed, n, only=None):
    def shard(i):
        cmd = [binp, "life", str(seed), str(n), str(only if only is not None else -1), str(i), "4"]
        rc, rows, out = lc.run_json(cmd, timeout=900)
        if rc != 0:
            if "panic:" in out or "fatal error:" in out:
                # the scheduler took the harness process down: that is a finding, not a machinery failure
                m = out[out.find("panic:") if "panic:" in out else out.find("fatal error:"):]
                last = rows[-1] if rows else {}
                CRASHES.append({"case": {"kind": "life-crash", "seed": seed, "n": n, "shard": i, "after_sequence_id": last.get("id")},
                                "why": ["the process running the lifecycle sequences died: " + m[:700]],
                                "how": "looph life %d %d -1 %d 4 : the sequence after id %s in that shard" % (seed, n, i, last.get("id"))})
                return rows
            raise RuntimeError("looph life failed: " + out[-2000:])
        return rows
    if only is not None:
        rc, rows, out = lc.run_json([binp, "life", str(seed), str(n), str(only)], timeout=300)
        return [r for r in rows if r.get("kind") == "life"]
    with ThreadPoolExecutor(4) as ex:
        parts = list(ex.map(shard, range(4)))
    return [r for p in parts for r in p if r.get("kind") == "life"]


def run_pool(binp, seed, rounds):
    rc, rows, out = lc.run_json([binp, "poolstop", str(seed), str(rounds)], timeout=600)
    if rc != 0:
        if "panic:" in out or "fatal error:" in out:
            m = out[out.find("panic:") if "panic:" in out else out.find("fatal error:"):]
            rows.append({"kind": "latejob", "round": -1, "panic": "the harness process died: " + m[:500]})
        else:
            raise RuntimeError("looph poolstop failed: " + out[-2000:])
    POOL[:] = [r for r in rows if r.get("kind") in ("poolstop", "latejob")]
    return list(POOL)


POOL = []
CRASHES = []


MODEL_V = """From Coq Require Import ZArith List Bool.
Require Import QzLoop.Gen.Params QzLoop.LoopModel QzLoop.Retry QzLoop.Dispatch QzLoop.Lifecycle.
Import ListNotations.
Inductive op := OStart | OStop | OCancel | OStopStart | OSched.
Definition try (c : lcfg) (s : lst) (l : llabel) : lst := match lstep c s l with Some s' => s' | None => s end.
Definition do_op (c : lcfg) (s : lst) (o : op) : lst :=
  match o with
  | OStart => try c s LStart
  | OStop => try c s LStop
  | OCancel => if l_started s then try c (try c s (CtxCancel (l_run s))) (WatcherWake (l_run s)) else s
  | OStopStart => try c (try c s LStop) LStart
  | OSched => s end.
Fixpoint wake_all (c : lcfg) (s : lst) (n : nat) : lst := match n with O => s | S m => wake_all c (try c s (WatcherWake (S m))) m end.
Definition final (d : dcfg) (ops : list op) : bool :=
  let c := code_lcfg d in let s := fold_left (do_op c) ops linit in l_started (wake_all c s (l_run s)).
Definition cases : list (nat * (dcfg * list op * bool)) := [
%s
].
Definition MISMATCH := Eval vm_compute in
  flat_map (fun x => let '(id, (d, ops, obs)) := x in if Bool.eqb (final d ops) obs then [] else [id]) cases.
Print MISMATCH.
"""


def model_mismatches(rows, busy=()):
    items = []
    byid = {}
    for r in rows:
        if not r["stable"]:
            continue
        byid[r["id"]] = r
        ops = "; ".join(OPS[o["op"]] for o in r["ops"])
        items.append("(%d%%nat, (%s, [%s], %s))" % (r["id"], MODES[r["mode"]], ops, "true" if r["observed_started"] else "false"))
    for r in busy:
        # the busy-cancel trials: start, cancel, start -- the model's answer does not depend on what the loop is doing
        if r.get("error") or not r.get("stable"):
            continue
        i = 100000 + r["trial"]
        byid[i] = {"mode": "blocking" if r["variant"] == "job" else "unbounded", "ops": r["ops"], "observed_started": r["started_after_release"], "busycancel": r["variant"]}
        items.append("(%d%%nat, (%s, [%s], %s))" % (i, MODES[byid[i]["mode"]], "; ".join(OPS[o] for o in r["ops"]), "true" if r["started_after_release"] else "false"))
    if not items:
        return [], ""
    ids, out = lc.coq_eval_list("c10_cases", MODEL_V % ";\n".join(items))
    if ids is None:
        return None, out
    return [{"case": {"id": i, "mode": byid[i]["mode"], "ops": byid[i]["ops"], **({"busycancel": byid[i]["busycancel"]} if "busycancel" in byid[i] else {})},
             "observed_started": byid[i]["observed_started"],
             "what": "IsStarted() after quiescence differs from the Coq lifecycle model run on the same operations"} for i in ids], out


def run(ctx):
    res, broken = vlib.proof_step(ctx, PROJ, "C10", lc.genparams)
    binp = lc.looph()
    n = 60 if ctx.tier == "quick" else 600
    rows = run_life(binp, ctx.seed, n)
    failures, mismatches = [], []
    failures += CRASHES[:2]
    suspects = [r for r in rows if oracle(r)]
    for r in suspects[:8]:
        if len(failures) >= 3:
            break
        why = oracle(r)
        again = [x for k in range(2) for x in run_life(binp, ctx.seed, n, only=r["id"])]
        if any(oracle(x) for x in again):
            failures.append({"case": {"seed": r["seed"], "id": r["id"], "mode": r["mode"], "jobs": r["jobs"], "ops": r["ops"], "n": n},
                             "why": why, "failing_sequences_in_this_run": len(suspects),
                             "how": "looph life: the listed operations on one scheduler, then quiescence, Stop, Wait, goroutine profile"})
    pool_rows = run_pool(binp, ctx.seed, 30 if ctx.tier == "quick" else 120)
    for r in [x for x in pool_rows if pool_oracle(x)][:1]:
        if any(pool_oracle(x) for x in run_pool(binp, ctx.seed + 5, 60)):
            failures.append({"case": {"kind": "poolstop", "variant": r.get("variant", r["kind"]), "limit": r.get("limit", 0), "seed": ctx.seed, "n": n}, "why": pool_oracle(r),
                             "how": "looph poolstop: WithWorkerLimit(n), n+2 jobs blocked on their context, then Stop or cancel, Wait, goroutine profile"})
    nres = 27 if ctx.tier == "quick" else 198
    restart_rows, rf = lc.restart_failures(binp, ctx.seed, nres)
    failures += rf
    stale_rows, sf = lc.stale_worker_failures(binp, ctx.seed, nres)
    failures += sf
    busy_rows, bf = busy_failures(binp, ctx.seed, 2 if ctx.tier == "quick" else 8)
    failures += bf
    if lc.model_available():
        bad, out = model_mismatches(rows, busy_rows)
        if bad is None:
            mismatches.append({"error": "model evaluation failed", "detail": out[-1500:]})
        else:
            mismatches += bad

    def search():
        found = []
        for k in range(1, 4):
            for r in run_life(binp, ctx.seed + 1000 * k, 150):
                why = oracle(r)
                if why:
                    found.append({"case": {"seed": r["seed"], "id": r["id"], "mode": r["mode"], "jobs": r["jobs"], "ops": r["ops"], "n": 150}, "why": why})
            if found:
                break
        return found[:3]

    vlib.decide(ctx, broken, failures, mismatches, search)
    cov = vlib.proof_coverage(res, PROJ, "C10")
    restarts = [r for r in rows if any(o["op"] == "stopstart" for o in r["ops"])]
    cov.update({
        "evaluations": len(rows),
        "distinct_nontrivial": len({json.dumps([r["mode"], r["jobs"], r["ops"]]) for r in rows if r["effective_starts"] >= 2}),
        "rule": "9 fixed sequences x 9 (mode x job kind) + random sequences of start/stop/cancel/stop-immediately-start/schedule with spacing "
                "0/yield/1ms/20ms; non-trivial = at least two effective Starts (a restart)",
        "samples": [{"mode": r["mode"], "jobs": r["jobs"], "ops": r["ops"], "observed_started": r["observed_started"]} for r in rows[:3]],
        "exhaustive": False,
        "pool_shutdown_rounds": len(pool_rows), "sequences_with_immediate_restart": len(restarts), "restart_with_old_loop_alive_trials": len(restart_rows), "restart_with_old_worker_busy_trials": len(stale_rows),
        "cancel_while_loop_busy_trials": len(busy_rows),
        "model_mismatches": len(mismatches), "oracle_failures": len(failures),
        "partial_runtime": "goroutine exit and the absence of executions after Wait are observed (goroutine profile filtered to go-quartz/quartz frames), not proved",
    })
    vlib.write_evidence(ctx, cov, assumptions=[
        "sync.RWMutex makes the bodies of Start, Stop, stopRun and IsStarted atomic; context cancellation is monotone",
        "sync.WaitGroup.Wait returns only when the counter is zero",
        "the contexts passed to Start are cancelled only by their owner or through the cancel function Start derives",
    ])
    return 1 if ctx.violations else 0


def replay(ctx, path):
    obj = json.load(open(path))
    c = obj.get("case", {})
    binp = lc.looph()
    if c.get("kind") == "life-crash":
        del CRASHES[:]
        for k in range(3):
            run_life(binp, c.get("seed", ctx.seed), c.get("n", 60))
            if CRASHES:
                vlib.report_violation(ctx, CRASHES[0])
                return 1
        print("no crash in three runs of the sequences")
        return 0
    if c.get("kind") == "poolstop":
        bad = [x for x in run_pool(binp, c.get("seed", ctx.seed), 60) if pool_oracle(x)]
        print(json.dumps({"rounds": len(POOL), "failing": len(bad)}))
        if bad:
            vlib.report_violation(ctx, {"case": c, "why": pool_oracle(bad[0])})
            return 1
        return 0
    if c.get("kind") == "busycancel":
        rows, bf = busy_failures(binp, c.get("seed", ctx.seed), c.get("rounds", 2))
        print(json.dumps({"trials": len(rows), "failing": len([r for r in rows if busy_oracle(r)])}))
        if bf:
            vlib.report_violation(ctx, bf[0])
            return 1
        return 0
    if c.get("kind") == "staleworker":
        rows, sf = lc.stale_worker_failures(binp, c.get("seed", ctx.seed), c.get("n", 24))
        print(json.dumps({"trials": len(rows), "failing": len([r for r in rows if lc.stale_worker_oracle(r)])}))
        if sf:
            vlib.report_violation(ctx, sf[0])
            return 1
        return 0
    if c.get("kind") == "restart":
        rows, rf = lc.restart_failures(binp, c.get("seed", ctx.seed), c.get("n", 24))
        print(json.dumps({"trials": len(rows), "failing": len([r for r in rows if lc.restart_oracle(r)])}))
        if rf:
            vlib.report_violation(ctx, rf[0])
            return 1
        return 0
    rows = run_life(binp, c.get("seed", ctx.seed), c.get("n", 60), only=c.get("id", 0))
    for r in rows:
        why = oracle(r)
        print(json.dumps({"id": r["id"], "ops": r["ops"], "why": why}))
        if why:
            vlib.report_violation(ctx, {"case": c, "why": why})
            return 1
    return 0
