"""C04 -- Every fire time is accounted for: run on time, or misfired and re-based."""
import vlib
from checks import sched_common as sc

PROJ = "sched"

MANIFEST = dict(
    engine="sched",
    technique="Coq proof (exact case analysis of fetchAndReschedule over any contract-abiding queue and any triggers; chain invariant over "
              "all label sequences) + step correspondence through the extracted model + trigger-log oracles on free-running schedulers "
              "+ quartz/trigger.go's SimpleTrigger / RunOnceTrigger translated from the source and proved equal to the model's instances",
    text="Machine-checked Coq theorems: the four outcomes of one fetchAndReschedule (suspended: parked at MaxInt64 without a trigger call; "
         "more than OutdatedThreshold late: not executed, offered to MisfiredChan, trigger asked with the clock; not due: requeued unchanged; "
         "otherwise executed and the trigger asked with the scheduled fire time), no drift along any run without re-scheduling (each on-time "
         "call's prev is the latest fire time returned for the job), every priority in the queue is a result of the job's own trigger or "
         "MaxInt64 while paused, a trigger error removes the job which is executed iff it was on time, the first priority is "
         "NextFireTime(clock at ScheduleJob); a job driven by a fresh RunOnceTrigger is dequeued as valid at most once over any run without foreign writers (counting invariant) and exactly then when it is on time. The branch table of validateJob with its "
         "operators, extractors and the non-blocking misfire offer is regenerated from the source on every run. Tie: single-step "
         "correspondence with margin-placed fire times and MisfiredChan nil/0/1/64, and free-running schedulers whose recording triggers "
         "must show chained prevs except after a misfire that was later than the threshold.",
    design_ref="6 C04")

genparams = sc.genparams

CONFIGS = ([(m, "-", None) for m in sc.MODES] + [(m, "slow", None) for m in sc.MODES] +
           [(m, "shared,slow", "asynctimerchan=0") for m in sc.MODES] + [("blockpool", "-", None)])


def run(ctx):
    return sc.dynamic_check(
        ctx, "C04", 4, CONFIGS,
        sc.STEP_RULE + "free runs: 9 configurations x 0.5 s (3 s thorough) incl. jobs slower than their intervals with a 15 ms threshold: each "
                       "trigger's calls must chain (prev = previous fire time) or be a clock reading justified by ScheduleJob/ResumeJob in "
                       "progress or by a pending fire time more than the threshold late; misfire deliveries must equal misfire re-bases",
        sc.COMMON_ASSUMPTIONS,
        "real-time lateness of the loop (how often the misfire branch is taken) is observed, not proved; delivery on MisfiredChan depends on "
        "the channel's capacity (the model records the non-blocking offer)")


def replay(ctx, path):
    return sc.dynamic_replay(ctx, "C04", path)
