"""C03 -- Scheduler never runs a job early, twice, or without a fire time."""
import vlib
from checks import sched_common as sc

PROJ = "sched"

MANIFEST = dict(
    engine="sched",
    technique="Coq proof (invariant over all label sequences of a transition system with n schedulers on one queue, fetches enabled at "
              "any time, deferred execution starts, clock advances and foreign queue changes) + step correspondence through the "
              "extracted model + event-log oracles on free-running schedulers in all dispatch modes and both timer-channel semantics",
    text="Machine-checked Coq theorems over a code-shaped model of validateJob / fetchAndReschedule / the dispatch of valid jobs: in "
         "every reachable state each execution start is matched (by dequeue id) to an earlier valid dequeue of the same job and fire "
         "time that was due at the clock of the dequeue, no two executions share a dequeue, and the dequeued fire time had been returned "
         "by the job's own trigger (or written by a foreign process). A fetch is enabled at any time, for any of n schedulers sharing "
         "queue and locker, so stale or spurious timer ticks and both timer-channel semantics are covered by construction; the not-due "
         "guard and its operators are regenerated from validateJob. Tie: single-step correspondence of the real fetchAndReschedule with "
         "margin-placed fire times, and free-running schedulers (blocking / worker pool / goroutine per job, two schedulers on one "
         "queue, a foreign writer, GODEBUG=asynctimerchan=1 and 0) whose recording triggers and jobs feed an oracle that demands an "
         "injection from executions to earlier due dequeues.",
    design_ref="6 C03")

genparams = sc.genparams

CONFIGS = ([(m, "shared,foreign", "asynctimerchan=1") for m in sc.MODES] +
           [(m, "shared,foreign,api", "asynctimerchan=0") for m in sc.MODES] +
           [("blocking", "slow", None), ("blocking", "shared,slowlock", None), ("unbounded", "shared,slowlock,foreign", "asynctimerchan=0"),
            ("pool", "api,pushfail", None)])


def run(ctx):
    return sc.dynamic_check(
        ctx, "C03", 3, CONFIGS,
        sc.STEP_RULE + "free runs: 7 configurations x 0.5 s (3 s thorough): 7 jobs with 2..21 ms intervals; every execution must be matched to "
                       "a distinct earlier on-time trigger call (prev = a fire time produced before) whose fire time is <= the execution's start",
        sc.COMMON_ASSUMPTIONS,
        "that the Go runtime delivers timer and channel events as the labels allow, and real-time behaviour of the loop, are observed in the "
        "free runs (both asynctimerchan settings), not proved; retries of one execution are inside one execution event")


def replay(ctx, path):
    return sc.dynamic_replay(ctx, "C03", path)
