"""C07 -- the cron parser accepts exactly the documented format, with its documented meaning."""
import json
import os
import random
import re

import vlib

PROJ = "parser"

MANIFEST = dict(
    engine="parser",
    technique="Coq proof (all byte strings / all documented expressions in all syntactic variants) on a code-shaped model of "
              "the parser with tables regenerated from the source; extracted model run against the real parser",
    text="Machine-checked Coq theorems over a byte-string model that mirrors quartz/cron.go and quartz/util.go function by function "
         "(boundaries, glossaries, macro table, rune constants, comparison operators and markers regenerated from the Go source on "
         "every run): every accepted string parses to well-formed fields (all values of lists, ranges and steps in range, L/W/# "
         "markers well formed and alone, at most one day field restricted); every expression of the documented grammar is accepted "
         "with its documented meaning in every syntactic variant (names or numbers, any letter case, any ASCII white space, missing "
         "year, macro or expansion); the enumerated ways of breaking the format are rejected; the model is total. The extracted "
         "model is compared with ValidateCronExpression, NewCronTrigger and the parsed fields of the real code on grammar-generated "
         "variants, single-edit mutations, an exhaustive boundary sweep of every field and syntactic position, and arbitrary byte "
         "strings; independent oracles (documented meaning, well-formedness of the returned fields, error class, no panic) judge "
         "what the implementation did.",
    design_ref="6 C07")

# ---------------------------------------------------------------------------
# The documented format (README "Cron expression format"), written independently of the Coq model.
# ---------------------------------------------------------------------------
SEC, MIN, HOUR, DOM, MON, DOW, YEAR = range(7)
FIELD = ["second", "minute", "hour", "day-of-month", "month", "day-of-week", "year"]
# README table; the upper bound of the year ("1970-") is the code's 2*1970
BOUNDS = [(0, 59), (0, 59), (0, 23), (1, 31), (1, 12), (1, 7), (1970, 3940)]
MONTHS = ["JAN", "FEB", "MAR", "APR", "MAY", "JUN", "JUL", "AUG", "SEP", "OCT", "NOV", "DEC"]
DAYS = ["SUN", "MON", "TUE", "WED", "THU", "FRI", "SAT"]
ALL = ("all",)
ANY = ("any",)


def val(n):
    return ("item", ("val", n))


MACROS = {   # name -> documented expansion (second minute hour day-of-month month day-of-week)
    "@yearly": [val(0), val(0), val(0), ("f", val(1)), val(1), ("f", ALL), ALL],
    "@monthly": [val(0), val(0), val(0), ("f", val(1)), ALL, ("f", ALL), ALL],
    "@weekly": [val(0), val(0), val(0), ("f", ALL), ALL, ("f", val(1)), ALL],   # Sunday
    "@daily": [val(0), val(0), val(0), ("f", ALL), ALL, ("f", ALL), ALL],
    "@hourly": [val(0), val(0), ALL, ("f", ALL), ALL, ("f", ALL), ALL],
}
GO_SPACE = set([0x09, 0x0a, 0x0b, 0x0c, 0x0d, 0x20, 0x85, 0xa0, 0x1680, 0x2028, 0x2029, 0x202f, 0x205f, 0x3000]
               + list(range(0x2000, 0x200b)))


def item_values(it, lo, hi):
    """Documented meaning of one item; None if it breaks the format."""
    k = it[0]
    if k == "val":
        return [it[1]] if lo <= it[1] <= hi else None
    if k == "range":
        a, b = it[1], it[2]
        return list(range(a, b + 1)) if lo <= a <= b <= hi else None
    if k == "stepfrom":
        a, s = it[1], it[2]
        return list(range(a, hi + 1, s)) if lo <= a <= hi and 1 <= s <= hi else None
    if k == "stepall":
        s = it[1]
        return list(range(lo, hi + 1, s)) if 1 <= s <= hi else None
    if k == "steprange":
        a, b, s = it[1], it[2], it[3]
        return list(range(a, b + 1, s)) if lo <= a <= b <= hi and 1 <= s <= hi else None
    raise ValueError(k)


def fexpr_values(f, lo, hi, allow_any):
    if f == ALL:
        return []
    if f == ANY:
        return [] if allow_any else None
    if f[0] == "item":
        return item_values(f[1], lo, hi)
    if f[0] == "list":
        out = []
        if len(f[1]) < 2:
            return None
        for it in f[1]:
            v = item_values(it, lo, hi)
            if v is None:
                return None
            out += v
        return sorted(out)
    raise ValueError(f)


def denote(fs):
    """fs = [sec, min, hour, dom, mon, dow, year] -> (values[7], dom_n, dow_n) or None if not a documented expression."""
    vals = [None] * 7
    for i in (SEC, MIN, HOUR, MON, YEAR):
        vals[i] = fexpr_values(fs[i], BOUNDS[i][0], BOUNDS[i][1], False)
    dom, dow = fs[DOM], fs[DOW]
    dom_n = dow_n = 0
    if dom[0] == "f":
        vals[DOM] = fexpr_values(dom[1], 1, 31, True)
    elif dom[0] == "L":
        vals[DOM], dom_n = [], 1
    elif dom[0] == "Ln":
        vals[DOM], dom_n = ([], -dom[1]) if 1 <= dom[1] <= 31 else (None, 0)
    elif dom[0] == "W":
        vals[DOM], dom_n = ([dom[1]], 2) if 1 <= dom[1] <= 31 else (None, 0)
    elif dom[0] == "LW":
        vals[DOM], dom_n = [0], 3
    if dow[0] == "f":
        v = fexpr_values(dow[1], 1, 7, True)
        vals[DOW] = None if v is None else [x - 1 for x in v]
    elif dow[0] == "L":
        vals[DOW], dow_n = [6], -1
    elif dow[0] == "dL":
        vals[DOW], dow_n = ([dow[1] - 1], -1) if 1 <= dow[1] <= 7 else (None, 0)
    elif dow[0] == "hash":
        vals[DOW], dow_n = ([dow[1] - 1], dow[2]) if 1 <= dow[1] <= 7 and 1 <= dow[2] <= 5 else (None, 0)
    if any(v is None for v in vals):
        return None
    dom_free = dom[0] == "f" and dom[1] in (ALL, ANY)
    dow_free = dow[0] == "f" and dow[1] in (ALL, ANY)
    if not (dom_free or dow_free):
        return None
    return vals, dom_n, dow_n


def canon(vals, dom_n, dow_n):
    return "|".join(",".join(str(x) for x in v) for v in vals) + "|%d|%d" % (dom_n, dow_n)


def expected_line(d):
    """Canonical harness line for a documented expression with denotation d."""
    vals, dom_n, dow_n = d
    tvals = list(vals)
    if all(len(v) == 0 for v in vals):
        tvals[0] = list(range(0, 60))     # full wildcard: the trigger fires every second
    return "O %s T %s" % (canon(vals, dom_n, dow_n), canon(tvals, dom_n, dow_n))


# ---- printing -------------------------------------------------------------

def random_namer(rng, record=None):
    """Print a month / week day as its number or as its name in random letter case.  The choice made for
    (field, member position, role) is written to record: None = number, else the lower-case mask."""
    def namer(fi, n, k=0, role=0):
        names = MONTHS if fi == MON else DAYS if fi == DOW else None
        if names and 1 <= n <= len(names) and rng.random() < 0.5:
            mask = [rng.random() < 0.5 for _ in names[n - 1]]
            if record is not None:
                record[(fi, k, role)] = mask
            return "".join(c.lower() if m else c for c, m in zip(names[n - 1], mask))
        return str(n)
    return namer


def render_item(it, fi, namer, pos=0):
    k = it[0]
    if k == "val":
        return namer(fi, it[1], pos, 0)
    if k == "range":
        return namer(fi, it[1], pos, 0) + "-" + namer(fi, it[2], pos, 1)
    if k == "stepfrom":
        return namer(fi, it[1], pos, 0) + "/" + str(it[2])
    if k == "stepall":
        return "*/" + str(it[1])
    if k == "steprange":
        return namer(fi, it[1], pos, 0) + "-" + namer(fi, it[2], pos, 1) + "/" + str(it[3])
    raise ValueError(k)


def render_fexpr(f, fi, namer):
    if f == ALL:
        return "*"
    if f == ANY:
        return "?"
    if f[0] == "item":
        return render_item(f[1], fi, namer, 0)
    return ",".join(render_item(it, fi, namer, pos) for pos, it in enumerate(f[1]))


def render_tokens(fs, namer):
    toks = []
    for i in (SEC, MIN, HOUR):
        toks.append(render_fexpr(fs[i], i, namer))
    dom, dow = fs[DOM], fs[DOW]
    toks.append({"f": lambda: render_fexpr(dom[1], DOM, namer), "L": lambda: "L", "Ln": lambda: "L-%d" % dom[1],
                 "W": lambda: "%dW" % dom[1], "LW": lambda: "LW"}[dom[0]]())
    toks.append(render_fexpr(fs[MON], MON, namer))
    toks.append({"f": lambda: render_fexpr(dow[1], DOW, namer), "L": lambda: "L", "dL": lambda: namer(DOW, dow[1]) + "L",
                 "hash": lambda: namer(DOW, dow[1]) + "#%d" % dow[2]}[dow[0]]())
    toks.append(render_fexpr(fs[YEAR], YEAR, namer))
    return toks


def render_simple(fs):
    toks = render_tokens(fs, lambda fi, n, k=0, role=0: str(n))
    return " ".join(toks)


RE_WS = " \t\n\f\r"
TRIM_WS = " \t\n\v\f\r"


def render_variant(fs, rng, macro=None, record=None):
    """A random syntactic variant of a documented expression; the choices made go to record (a dict)."""
    names = {}
    macro_name = omit_year = False
    if macro is not None and rng.random() < 0.5:
        toks = [macro]
        macro_name = True
    else:
        toks = render_tokens(fs, random_namer(rng, names))
        if fs[YEAR] == ALL and rng.random() < 0.5:
            toks = toks[:6]
            omit_year = True
    plain = rng.random() < 0.4

    def ws(alphabet, lo):
        if plain:
            return " " * lo
        return "".join(rng.choice(alphabet) for _ in range(rng.randint(lo, 3)))
    lead, trail, gaps = ws(TRIM_WS, 0), ws(TRIM_WS, 0), []
    s = lead
    for i, t in enumerate(toks):
        if i:
            gaps.append(ws(RE_WS, 1))
            s += gaps[-1]
        s += t
    if record is not None:
        record.update(lead=lead, trail=trail, gaps=gaps, names=names, omit_year=omit_year, macro_name=macro_name)
    return s + trail


# ---- random documented expressions -----------------------------------------

def gen_item(rng, lo, hi, edge):
    def v():
        if rng.random() < edge:
            return rng.choice([lo, hi, lo + 1, hi - 1])
        if hi > 1000 and rng.random() < 0.7:
            return rng.randint(lo, lo + 130)
        return rng.randint(lo, hi)
    k = rng.random()
    if k < 0.4:
        return ("val", v())
    if k < 0.6:
        a, b = sorted((v(), v()))
        return ("range", a, b)
    s = min(hi, rng.choice([1, 2, 3, 5, 7, 10, 15, hi, max(1, hi - 1), rng.randint(1, hi)]))
    if k < 0.75:
        return ("stepfrom", v(), s)
    if k < 0.87:
        return ("stepall", s)
    a, b = sorted((v(), v()))
    return ("steprange", a, b, s)


def gen_fexpr(rng, fi, free=0.25):
    lo, hi = BOUNDS[fi]
    k = rng.random()
    if k < free:
        return ALL
    if k < 0.7:
        return ("item", gen_item(rng, lo, hi, 0.3))
    return ("list", [gen_item(rng, lo, hi, 0.3) for _ in range(rng.randint(2, 5))])


def gen_fields(rng):
    fs = [gen_fexpr(rng, i) for i in range(7)]
    free = lambda: ("f", rng.choice([ALL, ANY]))
    mode = rng.random()
    if mode < 0.15:
        fs[DOM], fs[DOW] = free(), free()
    elif mode < 0.6:
        fs[DOW] = free()
        k = rng.random()
        if k < 0.5:
            f = gen_fexpr(rng, DOM, 0)
            fs[DOM] = ("f", f)
        elif k < 0.6:
            fs[DOM] = ("L",)
        elif k < 0.75:
            fs[DOM] = ("Ln", rng.choice([1, 2, 3, 30, 31, rng.randint(1, 31)]))
        elif k < 0.9:
            fs[DOM] = ("W", rng.choice([1, 15, 31, rng.randint(1, 31)]))
        else:
            fs[DOM] = ("LW",)
    else:
        fs[DOM] = free()
        k = rng.random()
        if k < 0.5:
            fs[DOW] = ("f", gen_fexpr(rng, DOW, 0))
        elif k < 0.6:
            fs[DOW] = ("L",)
        elif k < 0.8:
            fs[DOW] = ("dL", rng.randint(1, 7))
        else:
            fs[DOW] = ("hash", rng.randint(1, 7), rng.randint(1, 5))
    if rng.random() < 0.5:
        fs[YEAR] = ALL
    return fs


# ---- the well-formedness of parsed fields (Fields.v wf_fields, reimplemented) ------------------

def parse_line(line):
    """'O f T t' -> (fields, trigger fields) with fields = (vals[7], dom_n, dow_n)."""
    def one(txt):
        p = txt.split("|")
        vals = [[int(x) for x in q.split(",")] if q else [] for q in p[:7]]
        return vals, int(p[7]), int(p[8])
    parts = line.split(" ")
    return one(parts[1]), one(parts[3])


def wf_fields(f):
    vals, dom_n, dow_n = f
    why = []

    def sorted_in(v, lo, hi):
        return all(lo <= x <= hi for x in v) and all(v[i] <= v[i + 1] for i in range(len(v) - 1))
    for i, (lo, hi) in ((SEC, (0, 59)), (MIN, (0, 59)), (HOUR, (0, 23)), (MON, (1, 12)), (YEAR, (1970, 3940))):
        if not sorted_in(vals[i], lo, hi):
            why.append("%s values out of range or unsorted: %s" % (FIELD[i], vals[i][:8]))
    dom, dow = vals[DOM], vals[DOW]
    dom_ok = ((dom_n == 0 and sorted_in(dom, 1, 31)) or (dom_n == 1 and dom == []) or (-31 <= dom_n <= -1 and dom == [])
              or (dom_n == 3 and dom == [0]) or (dom_n == 2 and len(dom) == 1 and 1 <= dom[0] <= 31))
    dow_ok = ((dow_n == 0 and sorted_in(dow, 0, 6)) or ((dow_n == -1 or 1 <= dow_n <= 5) and len(dow) == 1 and 0 <= dow[0] <= 6))
    if not dow:
        if dow_n != 0 or not dom_ok:
            why.append("day-of-month field malformed: values %s marker %d (day-of-week marker %d)" % (dom[:8], dom_n, dow_n))
    else:
        if dom or dom_n != 0:
            why.append("both day fields restricted: day-of-month %s/%d day-of-week %s/%d" % (dom[:8], dom_n, dow[:8], dow_n))
        if not dow_ok:
            why.append("day-of-week field malformed: values %s marker %d" % (dow[:8], dow_n))
    return why


def go_trim_unicode(b):
    """strings.TrimSpace on the byte string b (Unicode white space, invalid bytes are not space)."""
    s = b.decode("utf-8", "surrogateescape")
    i, j = 0, len(s)
    while i < j and ord(s[i]) in GO_SPACE:
        i += 1
    while j > i and ord(s[j - 1]) in GO_SPACE:
        j -= 1
    return s[i:j].encode("utf-8", "surrogateescape")


def token_rule(b):
    """Independent of the model: an accepted ASCII string has 6 or 7 white-space separated tokens or is a macro."""
    s = b.decode("latin-1")
    s = re.sub(r"[\t\n\f\r ]+", " ", s).strip(TRIM_WS)
    return s in MACROS or len(s.split(" ")) in (6, 7)


# ---------------------------------------------------------------------------
# Case streams
# ---------------------------------------------------------------------------

class Cases:
    def __init__(self):
        self.inp = []       # bytes
        self.stream = []
        self.expect = []    # canonical line expected from the documentation, "E", or None (no documented verdict)

    def add(self, b, stream, expect=None):
        if isinstance(b, str):
            b = b.encode("latin-1")
        self.inp.append(b)
        self.stream.append(stream)
        self.expect.append(expect)


README_EXAMPLES = ["0 0 12 * * ?", "0 15 10 ? * *", "0 15 10 * * ?", "0 15 10 * * ? *", "0 * 14 * * ?", "0 0/5 14 * * ?",
                   "0 0/5 14,18 * * ?", "0 0-5 14 * * ?", "0 10,44 14 ? 3 WED", "0 15 10 ? * MON-FRI", "0 15 10 15 * ?",
                   "0 15 10 ? * 6L", "0 15 10 ? * 6#3", "0 15 10 L * ?", "0 15 10 L-2 * ?", "0 15 10 LW * ?", "0 15 10 15W * ?",
                   "@yearly", "@monthly", "@weekly", "@daily", "@hourly", "* * * * * *", "? ? ? ? ? ?", "0 0 0 ? * L",
                   "0 0 0 ? * friL", "0 0 0 ? * FRI#2", "+5 0 0 * * ?", "05 0 0 * * ?", "0 0 0 1,1 * ?"]


def stream_grammar(cs, rng, n, sample=None, sample_size=0):
    valid = []
    for k in range(n):
        rec = {}
        name = None
        if rng.random() < 0.06:
            name = rng.choice(sorted(MACROS))
            fs = MACROS[name]
            s = render_variant(fs, rng, macro=name, record=rec)
        else:
            fs = gen_fields(rng)
            s = render_variant(fs, rng, record=rec)
        d = denote(fs)
        if d is None:
            raise RuntimeError("generator produced an undocumented expression: %r" % (fs,))
        line = expected_line(d)
        cs.add(s, "grammar", line)
        valid.append(fs)
        if sample is not None and len(sample) < sample_size and len(line) < 500:
            sample.append((fs, name, rec, s, d))
    return valid


# ---- the same sample evaluated inside Coq (vm_compute): ties the check's reading of the documentation to
# ---- the Coq specification (render, denote, wf_doc) and takes extraction out of the loop for the sample

COQ_WS = {" ": "WsSpace", "\t": "WsTab", "\n": "WsNewline", "\f": "WsFormFeed", "\r": "WsReturn"}
COQ_MACRO = {"@yearly": "Yearly", "@monthly": "Monthly", "@weekly": "Weekly", "@daily": "Daily", "@hourly": "Hourly"}


def cz(n):
    return "(%d)" % n if n < 0 else str(n)


def coq_item(it):
    return "(%s %s)" % ({"val": "IVal", "range": "IRange", "stepfrom": "IStepFrom", "stepall": "IStepAll", "steprange": "IStepRange"}[it[0]],
                        " ".join(cz(x) for x in it[1:]))


def coq_fexpr(f):
    if f == ALL:
        return "FAll"
    if f == ANY:
        return "FAny"
    if f[0] == "item":
        return "(FItem %s)" % coq_item(f[1])
    its = [coq_item(i) for i in f[1]]
    return "(FList %s %s [%s])" % (its[0], its[1], "; ".join(its[2:]))


def coq_expr(fs, macro):
    if macro is not None:
        return "(DMacro %s)" % COQ_MACRO[macro]
    dom, dow = fs[DOM], fs[DOW]
    cdom = {"f": lambda: "(DomF %s)" % coq_fexpr(dom[1]), "L": lambda: "DomLast", "Ln": lambda: "(DomLastMinus %s)" % cz(dom[1]),
            "W": lambda: "(DomWeekday %s)" % cz(dom[1]), "LW": lambda: "DomLastWeekday"}[dom[0]]()
    cdow = {"f": lambda: "(DowF %s)" % coq_fexpr(dow[1]), "L": lambda: "DowLast", "dL": lambda: "(DowLastOf %s)" % cz(dow[1]),
            "hash": lambda: "(DowNth %s %s)" % (cz(dow[1]), cz(dow[2]))}[dow[0]]()
    return "(DFields {| d_sec := %s; d_min := %s; d_hour := %s; d_dom := %s; d_mon := %s; d_dow := %s; d_year := %s |})" % (
        coq_fexpr(fs[SEC]), coq_fexpr(fs[MIN]), coq_fexpr(fs[HOUR]), cdom, coq_fexpr(fs[MON]), cdow, coq_fexpr(fs[YEAR]))


def coq_variant(rec):
    edge = lambda c: "EdgeVTab" if c == "\v" else "(EdgeWs %s)" % COQ_WS[c]
    gaps = "; ".join("(%s, [%s])" % (COQ_WS[g[0]], "; ".join(COQ_WS[c] for c in g[1:])) for g in rec["gaps"])
    names = "; ".join("((%d%%nat, %d%%nat, %d%%nat), [%s])" % (fi, k, r, "; ".join("true" if b else "false" for b in mask))
                      for (fi, k, r), mask in sorted(rec["names"].items()))
    return "(mkv [%s] [%s] [%s] [%s] %s %s)" % ("; ".join(edge(c) for c in rec["lead"]), "; ".join(edge(c) for c in rec["trail"]),
                                                 gaps, names, "true" if rec["omit_year"] else "false", "true" if rec["macro_name"] else "false")


def coq_fields(vals, dom_n, dow_n):
    l = lambda v: "[" + "; ".join(cz(x) for x in v) + "]"
    return "(mkf %s %s %s %s %s %s %s %s %s)" % (l(vals[0]), l(vals[1]), l(vals[2]), l(vals[3]), cz(dom_n), l(vals[4]), l(vals[5]), cz(dow_n), l(vals[6]))


def coq_spec_check(sample):
    """-> (list of indexes on which Coq's render/denote/wf_doc/parse disagree with the check's, coqc output)"""
    rows = []
    for i, (fs, macro, rec, s, d) in enumerate(sample):
        vals, dom_n, dow_n = d
        tvals = list(vals)
        if all(len(v) == 0 for v in vals):
            tvals[0] = list(range(60))
        rows.append("(%d%%nat, (%s, %s, [%s], %s, %s))" % (i, coq_variant(rec), coq_expr(fs, macro),
                                                          "; ".join("%d%%nat" % ord(c) for c in s), coq_fields(vals, dom_n, dow_n),
                                                          coq_fields(tvals, dom_n, dow_n)))
    v = """From Coq Require Import ZArith List Bool Ascii String.
Require Import QzBase.Fields QzParser.Gen.Params QzParser.ParserModel QzParser.ParserSpec.
Import ListNotations.
Open Scope Z_scope.
Definition key_eqb (a : nat * nat * nat) (fi k r : nat) : bool :=
  Nat.eqb (fst (fst a)) fi && Nat.eqb (snd (fst a)) k && Nat.eqb (snd a) r.
Definition mkv lead trail gaps (names : list ((nat * nat * nat) * list bool)) omit mac : variant :=
  {| v_lead := lead; v_trail := trail; v_gap := fun k => nth k gaps (WsSpace, []);
     v_name := fun fi k r => match find (fun p => key_eqb (fst p) fi k r) names with Some p => Some (snd p) | None => None end;
     v_omit_year := omit; v_macro_name := mac |}.
Definition mkf a b c d dn e f fn g : fields :=
  {| fl_sec := a; fl_min := b; fl_hour := c; fl_dom := d; fl_dom_n := dn; fl_mon := e; fl_dow := f; fl_dow_n := fn; fl_year := g |}.
Definition ok (c : variant * doc_expr * list nat * fields * fields) : bool :=
  let '(v, e, s, f, t) := c in
  let str := map ascii_of_nat s in
  bytes_eqb (render v e) str && wf_doc e && fields_eqb (denote e) f && fields_eqb (denote_trigger e) t &&
  match parse str with Ok g => fields_eqb g f | ParseError => false end &&
  match parse_trigger str with Ok g => fields_eqb g t | ParseError => false end.
Definition cases : list (nat * (variant * doc_expr * list nat * fields * fields)) := [
%s].
Definition MISMATCH := Eval vm_compute in map fst (filter (fun c => negb (ok (snd c))) cases).
Print MISMATCH.
""" % ";\n".join(rows)
    rc, out = vlib.coq_eval(PROJ, "c07_spec_sample", v)
    if rc != 0:
        return None, out
    m = re.search(r"MISMATCH\s*=\s*(\[[^\]]*\])", out.replace("\n", " "))
    if not m:
        return None, out
    body = m.group(1).strip("[]").strip()
    return ([int(x.replace("%nat", "").strip()) for x in body.split(";") if x.strip()] if body else []), out


ALPHABET = "0123456789*?,-/LW#@ \t+_.lwJANFEBMROYSUTDjanmon:\v"


def field_of_offset(s, pos):
    """index of the space separated token that contains offset pos"""
    return s[:pos].count(" ")


def stream_mutation(cs, rng, valid, n):
    per = max(1, n // max(1, len(valid)))
    for fs in valid:
        namer = random_namer(rng) if rng.random() < 0.5 else (lambda fi, x, k=0, role=0: str(x))
        toks = render_tokens(fs, namer)
        if fs[YEAR] == ALL and rng.random() < 0.5:
            toks = toks[:6]
        base = " ".join(toks)
        for _ in range(per):
            k = rng.random()
            s = base
            if k < 0.2 and s:
                i = rng.randrange(len(s))
                s = s[:i] + s[i + 1:]
            elif k < 0.4:
                i = rng.randint(0, len(s))
                s = s[:i] + rng.choice(ALPHABET) + s[i:]
            elif k < 0.6 and s:
                i = rng.randrange(len(s))
                s = s[:i] + rng.choice(ALPHABET) + s[i + 1:]
            elif k < 0.68:
                t = list(toks)
                i, j = rng.sample(range(len(t)), 2)
                t[i], t[j] = t[j], t[i]
                s = " ".join(t)
            elif k < 0.74:
                t = list(toks)
                del t[rng.randrange(len(t))]
                s = " ".join(t)
            elif k < 0.8:
                t = list(toks)
                i = rng.randrange(len(t))
                t.insert(i, t[i])
                s = " ".join(t)
            else:
                runs = list(re.finditer(r"[0-9]+", s))
                if runs:
                    m = rng.choice(runs)
                    fi = min(field_of_offset(s, m.start()), 6)
                    lo, hi = BOUNDS[fi]
                    new = rng.choice([lo - 1, lo, lo + 1, hi - 1, hi, hi + 1, 0, 1, 5, 6, 7, 8, 31, 32, 60,
                                      "00" + m.group(0), "+" + m.group(0), "99999999999999999999", "9223372036854775807",
                                      "9223372036854775808", "1_0", "0x1", "",
                                      2 ** 64 + lo, 2 ** 64 + hi, 2 ** 64 + int(m.group(0)), 2 ** 32 + int(m.group(0)), "0" * 25 + m.group(0)])
                    s = s[:m.start()] + str(new) + s[m.end():]
            cs.add(s, "mutation")


def sweep_positions(fi):
    lo, hi = BOUNDS[fi]
    it = lambda *a: ("item", a)
    ls = lambda *items: ("list", list(items))
    v = lambda x: ("val", x)
    pos = {
        "single": lambda n: it("val", n),
        "list-first": lambda n: ls(v(n), v(lo)),
        "list-last": lambda n: ls(v(lo), v(n)),
        "list-middle": lambda n: ls(v(lo), v(n), v(hi)),
        "range-start": lambda n: it("range", n, hi),
        "range-end": lambda n: it("range", lo, n),
        "step-start": lambda n: it("stepfrom", n, 1),
        "step-size": lambda n: it("stepfrom", lo, n),
        "star-step-size": lambda n: it("stepall", n),
        "range-step-start": lambda n: it("steprange", n, hi, 1),
        "range-step-end": lambda n: it("steprange", lo, n, 1),
        "range-step-size": lambda n: it("steprange", lo, hi, n),
        "list-range-start": lambda n: ls(v(lo), ("range", n, hi)),
        "list-range-end": lambda n: ls(v(lo), ("range", lo, n)),
        "list-step-start": lambda n: ls(v(lo), ("stepfrom", n, 2)),
        "list-step-size": lambda n: ls(v(lo), ("stepfrom", lo, n)),
        "list-range-step-end": lambda n: ls(("steprange", lo, n, 3), v(hi)),
    }
    return pos


def stream_sweep(cs, rng, tier):
    """every field x every syntactic position x every integer in [-2, upper+2] (year: windows in the quick tier)"""
    count = 0
    for fi in range(7):
        lo, hi = BOUNDS[fi]
        ns = list(range(-2, hi + 3))
        if fi == YEAR and tier == "quick":
            ns = sorted(set(list(range(-2, 4)) + list(range(1962, 1982)) + list(range(3932, 3943))
                            + [rng.randint(4, 3931) for _ in range(25)]))
        # numerals that wrap around to an in-range value in 64-bit (and 32-bit) arithmetic: a hand-rolled digit
        # accumulator without an overflow check would accept them with the wrapped meaning
        ns = ns + [2 ** 64 + lo, 2 ** 64 + hi, 2 ** 64 + (lo + hi) // 2, 2 ** 32 + lo, 2 ** 63 + hi, 2 * 2 ** 64 + lo]
        base = [val(0), val(0), val(0), ("f", ANY), ALL, ("f", ANY), ALL]
        forms = []
        for name, mk in sorted(sweep_positions(fi).items()):
            if fi == DOM:
                forms.append((name, lambda n, mk=mk: ("f", mk(n))))
            elif fi == DOW:
                forms.append((name, lambda n, mk=mk: ("f", mk(n))))
            else:
                forms.append((name, mk))
        if fi == DOM:
            forms += [("L-n", lambda n: ("Ln", n)), ("nW", lambda n: ("W", n))]
        if fi == DOW:
            forms += [("dL", lambda n: ("dL", n)), ("d#k d", lambda n: ("hash", n, 1)), ("d#k k", lambda n: ("hash", lo, n))]
        for name, mk in forms:
            for n in ns:
                fs = list(base)
                fs[fi] = mk(n)
                d = denote(fs)
                cs.add(render_simple(fs), "sweep:%s:%s" % (FIELD[fi], name), expected_line(d) if d else "E")
                count += 1
    return count


def stream_bytes(cs, rng, n, valid):
    for k in range(n):
        m = rng.random()
        if m < 0.3:
            b = bytes(rng.randrange(256) for _ in range(rng.randint(0, 24)))
        elif m < 0.55:
            b = "".join(rng.choice(ALPHABET) for _ in range(rng.randint(0, 30))).encode("latin-1")
        elif m < 0.8:
            # six or seven short tokens over the alphabet
            toks = ["".join(rng.choice("0123456789*?,-/LW#") for _ in range(rng.randint(1, 4))) for _ in range(rng.choice([5, 6, 6, 7, 7, 8]))]
            b = " ".join(toks).encode("latin-1")
        else:
            s = render_simple(rng.choice(valid)).encode("latin-1")
            ins = rng.choice([b"\xc2\xa0", b"\xc2\x85", b"\xe2\x80\x83", b"\xe3\x80\x80", b"\x0b", b"\x00", b"\xff", b"\xc2", b"\xa0",
                              b"\xc5\xbf", b"\xc4\xb1", b"\xe2\x84\xaa", bytes([rng.randrange(128, 256)]), bytes([rng.randrange(0, 32)])])
            where = rng.choice(["lead", "trail", "in"])
            if where == "lead":
                b = ins + s
            elif where == "trail":
                b = s + ins
            else:
                i = rng.randint(0, len(s))
                b = s[:i] + ins + s[i:]
        cs.add(b, "bytes")
    for s in ["", " ", "\v", "\v0 0 0 * * ?\v", "0 0 0 * * ?\v*", "0\v0 0 * * ?", "\xc2\xa00 0 0 * * ?", "0 0 0 * * ?\xc2\x85",
              "0 0 0 ? * \xc5\xbfUN", "0 0 0 ? * \xc5\xbfun", "@Weekly", "@weekly *", "@", "@yearly @yearly", "0 0 0 * * * * *",
              "0 0 0 * *", "* * * * *", "L L L L L L", "W", "#", "1#", "#1", "L-", "-L", "LW-1", "1WL", "0 0 0 1W,2W * ?",
              "0 0 0 L,1 * ?", "0 0 0 ? * 1L,2", "0 0 0 ? * 1#2,3", "0 0 0 ? * 1#2#3", "0 0 0 1-2-3 * ?", "0 0 0 1/2/3 * ?",
              "0 0 0 */0 * ?", "0 0 0 1/0 * ?", "0 0 0 ,1 * ?", "0 0 0 1, * ?", "0 0 0 1,,2 * ?", "0 0 0 - * ?", "0 0 0 / * ?",
              "0 0 0 , * ?", "0 0 0 ?/2 * ?", "0 0 0 */* * ?", "0 0 0 1 1 1", "0 0 0 * JANUARY ?", "0 0 0 * JA ?", "0 0 0 * 0 ?",
              "0 0 0 ? * 0", "0 0 0 ? * SUN-SAT", "0 0 0 ? * SAT-SUN", "0 0 0 ? DEC-JAN *", "60 0 0 * * ?", "0 0 24 * * ?",
              "0 0 0 32 * ?", "0 0 0 0 * ?", "0 0 0 * 13 ?", "0 0 0 ? * 8", "0 0 0 * * ? 1969", "0 0 0 * * ? 3941", "0 0 0 ? * 1#6",
              "0 0 0 ? * 1#0", "0 0 0 L-32 * ?", "0 0 0 L-0 * ?", "0 0 0 0W * ?", "0 0 0 32W * ?", "0 0 0 ? * 8L", "0 0 0 ? * 0L"]:
        cs.add(s, "bytes")


# ---------------------------------------------------------------------------
# Running the two sides
# ---------------------------------------------------------------------------

def run_lines(binp, inputs, tag, timeout=900):
    d = os.path.join(vlib.BUILD, "cases", PROJ)
    os.makedirs(d, exist_ok=True)
    p = os.path.join(d, "%s-%d.hex" % (tag, os.getpid()))
    with open(p, "w") as f:
        for b in inputs:
            f.write(b.hex() + "\n")
    try:
        rc, out = vlib.run("%s < %s" % (binp, p), shell=True, timeout=timeout)
    finally:
        os.unlink(p)
    lines = out.split("\n")
    if lines and lines[-1] == "":
        lines.pop()
    if rc != 0 or len(lines) != len(inputs):
        raise RuntimeError("%s failed (rc=%s, %d lines for %d cases): %s" % (binp, rc, len(lines), len(inputs), out[-1500:]))
    return lines


def show(b):
    return b.decode("latin-1").encode("unicode_escape").decode("ascii")


def case_obj(b, stream, expect=None):
    o = {"hex": b.hex(), "text": show(b), "stream": stream}
    if expect is not None:
        o["documented"] = expect if len(expect) < 400 else expect[:400] + "..."
    return o


_MONTHS = {"JAN", "FEB", "MAR", "APR", "MAY", "JUN", "JUL", "AUG", "SEP", "OCT", "NOV", "DEC"}
_DAYS = {"SUN", "MON", "TUE", "WED", "THU", "FRI", "SAT"}
_MACROS = {"@yearly", "@monthly", "@weekly", "@daily", "@hourly"}


def doc_shape(b):
    """Coarse syntactic recogniser of the documented format plus the tolerated undocumented forms
    (leading + / zeros in numbers, ? in any field, names before L and #).  It ignores value ranges
    (those are wf_fields' business).  An ACCEPTED ASCII string outside this shape breaks the format."""
    import re as _re
    try:
        s = go_trim_unicode(b).decode("utf-8")      # Go's TrimSpace also removes Unicode white space at the ends
    except UnicodeDecodeError:
        return True
    s = _re.sub(r"[\t\n\f\r ]+", " ", s).strip(" \t\n\v\f\r")
    if s in _MACROS:
        return True
    toks = s.split(" ")
    if len(toks) not in (6, 7):
        return False

    def val(t, names, plus=True):
        if _re.fullmatch(r"\+?[0-9]+" if plus else r"[0-9]+", t):
            return True
        return "".join(c.upper() if "a" <= c <= "z" else c for c in t) in names     # ASCII case folding only

    def item(t, names):
        if "/" in t:
            parts = t.split("/")
            if len(parts) != 2 or not _re.fullmatch(r"\+?[0-9]+", parts[1]):
                return False
            head = parts[0]
            if head == "*":
                return True
            if "-" in head:
                r = head.split("-")
                return len(r) == 2 and val(r[0], names) and val(r[1], names)
            return val(head, names)
        if "-" in t:
            r = t.split("-")
            return len(r) == 2 and val(r[0], names) and val(r[1], names)
        return val(t, names)

    def plain(t, names):
        return t in ("*", "?") or all(item(x, names) for x in t.split(","))

    for i, t in enumerate(toks):
        names = _MONTHS if i == 4 else (_DAYS if i == 5 else set())
        if i == 3 and (_re.fullmatch(r"L(-[0-9]+)?", t) or _re.fullmatch(r"[0-9]+W", t) or t == "LW"):
            continue
        if i == 5:
            if t.endswith("L") and "," not in t and "-" not in t and "/" not in t and "#" not in t:
                pre = t[:-1]
                if pre == "" or val(pre, names, plus=False):
                    continue
                return False
            if "#" in t:
                h = t.split("#")
                if len(h) == 2 and val(h[0], names, plus=False) and _re.fullmatch(r"[0-9]+", h[1]):
                    continue
                return False
        if not plain(t, names):
            return False
    return True


def judge(b, stream, expect, go):
    """Property-level oracle on what the implementation did (independent of the Coq model) -> list of reasons."""
    why = []
    if go.startswith("X "):
        info = json.loads(go[2:])
        for api in ("parse", "validate", "trigger"):
            o = info[api]
            if o.get("panic"):
                why.append("%s panicked: %s" % (api, o["panic"]))
            elif not o["ok"] and not o["is_cron_parse"]:
                why.append("%s rejected with an error that does not match ErrCronParse: %s" % (api, o.get("err")))
        oks = {api: info[api]["ok"] for api in ("parse", "validate", "trigger")}
        if len(set(oks.values())) > 1 and not why:
            why.append("entry points disagree: %s" % oks)
        if info.get("nil_trigger"):
            why.append("NewCronTrigger returned nil without an error")
        if info.get("marker_in_plain_field"):
            why.append("a marker n is set in a field other than the two day fields")
        if not why:
            why.append("unclassified harness outcome: %s" % go[:300])
        return why
    if expect is not None and go != expect:
        if expect == "E":
            why.append("accepted although the string breaks the documented format (%s)" % stream)
        elif go == "E":
            why.append("a documented expression is rejected")
        else:
            why.append("accepted with a meaning different from the documented one")
    if go.startswith("O "):
        f, t = parse_line(go)
        why += ["parsed fields: " + w for w in wf_fields(f)]
        why += ["trigger fields: " + w for w in wf_fields(t)]
        if max(b, default=0) < 128 and not token_rule(b):
            why.append("accepted although it does not have 6 or 7 fields and is not a macro")
        elif not doc_shape(b):
            why.append("accepted although a field has none of the documented syntactic forms (value, name of that field, list, range, step; L, L-n, nW, LW; dL, d#k)")
        tv = list(f[0])
        if all(len(v) == 0 for v in tv):
            tv[0] = list(range(60))
        if (tv, f[1], f[2]) != t:
            why.append("NewCronTrigger acts on fields different from the parsed ones")
    return why


def compare(cs, go_lines, ml_lines, ml_bin):
    failures, mismatches = [], []
    stats = {"accepted": 0, "rejected": 0, "nonascii": 0, "unicode_trim_divergence": 0}
    retry = []
    for i, (b, stream, expect, go, ml) in enumerate(zip(cs.inp, cs.stream, cs.expect, go_lines, ml_lines)):
        why = judge(b, stream, expect, go)
        if why:
            failures.append({"case": case_obj(b, stream, expect), "why": why, "observed": go[:400],
                             "how": "parseh: ValidateCronExpression, NewCronTrigger and VerifParseFields on the string"})
        if go.startswith("O "):
            stats["accepted"] += 1
        elif go == "E":
            stats["rejected"] += 1
        mlc = ml[:-2] if ml.startswith("O ") else ml          # drop the extracted wf flag
        if ml.startswith("O ") and not ml.endswith(" W"):
            mismatches.append({"case": case_obj(b, stream), "what": "extracted wf_fields is false on the model's own result (theorem parse_ok_wf contradicted)"})
        if ml.startswith("O ") and go.startswith("O "):
            if wf_fields(parse_line(go)[0]) and ml.endswith(" W") and mlc == go:
                mismatches.append({"case": case_obj(b, stream), "what": "the check's wf_fields and the extracted wf_fields disagree"})
        ascii_only = max(b, default=0) < 128
        if not ascii_only:
            stats["nonascii"] += 1
        if go.startswith("X "):
            continue
        if mlc == go:
            continue
        if not ascii_only and mlc == "E" and go.startswith("O "):
            retry.append(i)
            continue
        mismatches.append({"case": case_obj(b, stream), "model": mlc[:300], "implementation": go[:300],
                           "what": "extracted Coq model and implementation differ on accept/reject or on the parsed fields"})
    if retry:
        # Go's TrimSpace also removes Unicode white space: the model must explain the acceptance on the trimmed string
        trimmed = [go_trim_unicode(cs.inp[i]) for i in retry]
        ml2 = run_lines(ml_bin, trimmed, "ml-retry")
        for i, m2 in zip(retry, ml2):
            if m2.startswith("O ") and m2[:-2] == go_lines[i]:
                stats["unicode_trim_divergence"] += 1
            else:
                mismatches.append({"case": case_obj(cs.inp[i], cs.stream[i]), "model": "E", "implementation": go_lines[i][:300],
                                   "what": "implementation accepts a non-ASCII string and Unicode TrimSpace does not explain it"})
    return failures, mismatches, stats


def genparams():
    binp, out = vlib.go_build("genparams")
    if binp is None:
        return False, out
    rc, out = vlib.run([binp, "-repo", vlib.REPO, "parser"])
    if rc != 0:
        return False, out
    vlib.write_if_changed(os.path.join(vlib.coq_dir(PROJ), "theories", "Gen", "Params.v"), out)
    return True, ""


def build_cases(ctx):
    rng = random.Random(ctx.seed)
    quick = ctx.tier == "quick"
    cs = Cases()
    for s in README_EXAMPLES:
        cs.add(s, "readme")
    n_grammar = 12000 if quick else 120000
    sample = []
    valid = stream_grammar(cs, rng, n_grammar, sample, 150 if quick else 1500)
    stream_mutation(cs, rng, valid[: (4000 if quick else 30000)], 20000 if quick else 240000)
    n_sweep = stream_sweep(cs, rng, ctx.tier)
    stream_bytes(cs, rng, 12000 if quick else 150000, valid)
    return cs, n_sweep, sample


def run(ctx):
    res, broken = vlib.proof_step(ctx, PROJ, "C07", genparams)
    binp, out = vlib.go_build("parseh")
    if binp is None:
        raise RuntimeError("cannot build parseh: " + out[-3000:])
    ml, out = vlib.ocaml_build(PROJ)
    if ml is None:
        raise RuntimeError("cannot build the extracted model: " + out[-3000:])
    cs, n_sweep, sample = build_cases(ctx)
    go_lines = run_lines(binp, cs.inp, "go")
    ml_lines = run_lines(ml, cs.inp, "ml")
    failures, mismatches, stats = compare(cs, go_lines, ml_lines, ml)
    # shortest inputs first: the reported cases are the simplest ones
    failures.sort(key=lambda f: len(f["case"]["hex"]))
    mismatches.sort(key=lambda m: len(m.get("case", {}).get("hex", "")))
    in_coq = None
    if os.path.exists(os.path.join(vlib.coq_dir(PROJ), "theories", "ParserSpec.vo")):
        bad, cout = coq_spec_check(sample)
        if bad is None:
            mismatches.append({"error": "in-Coq evaluation of the specification sample failed", "detail": cout[-1500:]})
        else:
            in_coq = {"cases": len(sample), "disagreements": len(bad)}
            for i in bad:
                mismatches.append({"case": case_obj(sample[i][3].encode("latin-1"), "grammar"),
                                   "what": "Coq's render/denote/wf_doc/parse evaluated by vm_compute disagree with the check's documented-format oracle"})

    def search():
        """oracle-only run on the single-edit neighbourhood of the mismatching strings"""
        seeds = [bytes.fromhex(m["case"]["hex"]) for m in mismatches if "case" in m][:12]
        rng = random.Random(ctx.seed + 1)
        c2 = Cases()
        for b in seeds:
            s = b.decode("latin-1")
            c2.add(b, "search")
            for i in range(len(s) + 1):
                for ch in "0123456789*?,-/LW# ":
                    c2.add(s[:i] + ch + s[i:], "search")
                    if i < len(s):
                        c2.add(s[:i] + ch + s[i + 1:], "search")
                if i < len(s):
                    c2.add(s[:i] + s[i + 1:], "search")
        stream_sweep(c2, rng, "quick")
        valid = stream_grammar(c2, rng, 20000)
        stream_mutation(c2, rng, valid[:5000], 20000)
        gl = run_lines(binp, c2.inp, "go-search")
        found = []
        for b, stream, expect, go in zip(c2.inp, c2.stream, c2.expect, gl):
            why = judge(b, stream, expect, go)
            if why:
                found.append({"case": case_obj(b, stream, expect), "why": why, "observed": go[:400]})
                if len(found) >= 3:
                    break
        return found

    vlib.decide(ctx, broken, failures, mismatches, search)
    per_stream = {}
    for s in cs.stream:
        k = s.split(":")[0]
        per_stream[k] = per_stream.get(k, 0) + 1
    distinct = len({b for b, g in zip(cs.inp, go_lines) if g.startswith("O ") and g.count("||||||") == 0})
    cov = vlib.proof_coverage(res, PROJ, "C07")
    cov.update({
        "evaluations": len(cs.inp),
        "distinct_nontrivial": distinct,
        "rule": "each case is one string given to ValidateCronExpression, NewCronTrigger and the parse hook of the real code and to the "
                "extracted Coq model; streams: README examples, grammar-generated documented expressions in random syntactic variants "
                "(oracle: documented meaning), single-edit mutations, exhaustive boundary sweep (field x syntactic position x integer in "
                "[-2, upper+2]; year windows in the quick tier; oracle: accepted iff documented), arbitrary bytes incl. non-ASCII. "
                "non-trivial = distinct accepted strings that restrict at least two fields",
        "samples": [case_obj(cs.inp[i], cs.stream[i]) for i in (31, 40, len(cs.inp) // 2, len(cs.inp) - 80)],
        "exhaustive": False,
        "per_stream": per_stream,
        "boundary_sweep_cases": n_sweep,
        "in_coq_spec_sample": in_coq,
        "accepted": stats["accepted"], "rejected": stats["rejected"], "nonascii_inputs": stats["nonascii"],
        "unicode_trimspace_divergences_explained": stats["unicode_trim_divergence"],
        "model_mismatches": len(mismatches),
        "oracle_failures": len(failures),
        "accepted_but_undocumented_forms": ["'?' in any field", "leading '+' and leading zeros in numbers (strconv.Atoi)",
                                            "duplicate list members are kept (\"1,1\" -> [1,1])", "names before L and # (friL, FRI#2)",
                                            "L-31, 31W on short months parse (never fire)"],
    })
    vlib.write_evidence(ctx, cov, assumptions=[
        "strconv.Atoi, strings.Split/TrimSpace/ContainsRune/TrimSuffix, regexp and sort.Ints behave as modelled (documented behaviour; "
        "exercised by every case of the correspondence run)",
        "strings.TrimSpace is modelled for ASCII white space; for non-ASCII input the check requires: no panic, model accepts => code accepts "
        "with the same fields, and code accepts => the model accepts the Unicode-trimmed string with the same fields",
        "the documented format is the README table and special-character list; limits the README leaves open (step <= upper bound, "
        "range start <= end, year <= 3940, L-n with 1 <= n <= 31) are taken from the code and listed in notes/parser.md",
    ])
    return 1 if ctx.violations else 0


def replay(ctx, path):
    obj = json.load(open(path))
    c = obj.get("case") or (obj.get("first_mismatches") or [{}])[0].get("case")
    if not c:
        print("replay file names no input (broken proof / translator): re-run ./check C07")
        return run(ctx)
    b = bytes.fromhex(c["hex"])
    binp, out = vlib.go_build("parseh")
    ml, out = vlib.ocaml_build(PROJ)
    go = run_lines(binp, [b], "go-replay")[0]
    m = run_lines(ml, [b], "ml-replay")[0]
    expect = c.get("documented")
    if expect and expect.endswith("..."):
        expect = None
    why = judge(b, c.get("stream", "replay"), expect, go)
    print(json.dumps({"input": show(b), "implementation": go[:400], "model": m[:400], "why": why}))
    if why:
        vlib.report_violation(ctx, {"case": c, "why": why, "observed": go[:400]})
        return 1
    mc = m[:-2] if m.startswith("O ") else m
    if not go.startswith("X ") and mc != go and max(b, default=0) < 128:
        # recorded as a broken correspondence: still broken
        vlib.report_violation(ctx, {"correspondence": "model and implementation differ on a projected observable",
                                    "first_mismatches": [{"case": c, "model": mc[:300], "implementation": go[:300]}], "mismatch_count": 1},
                              no_input=True)
        return 1
    return 0
