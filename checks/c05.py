"""C05 -- a due job is dispatched promptly after any queue change (no lost wake-up)."""
import json

import vlib
from checks import loop_common as lc

PROJ = lc.PROJ

MANIFEST = dict(
    engine="loop",
    technique="Coq proof (invariant by induction over all interleavings of a labelled transition system of the execution loop, "
              "the timer, the interrupt token and API calls split into mutation + token) on a model whose structure is regenerated "
              "from the source; the real loop is single-stepped through a gated JobQueue and every observed run is replayed in the model",
    text="Machine-checked Coq theorems over a labelled transition system of startExecutionLoop / calculateNextTick / Reset and the API "
         "calls (queue mutation, then token; the loop reads Size and Head without the queue locker): in every reachable state in which the "
         "loop is blocked in select with no token, no tick and no API call half-way, the timer is armed with a deadline no later than the "
         "earliest fire time (no lost wake-up), for both timer-channel semantics, any stored jobs and any left-over token; a due minimum "
         "enables the timer and leads to the fetch of a minimum-priority entry within two loop steps. The switch arms, timer durations, "
         "channel capacity, Reset's non-blocking send and the select arms are regenerated from scheduler.go on every run. The real loop is "
         "single-stepped through a gated JobQueue with schedule/replace/resume (and delete/pause/clear of other jobs) placed before Size, "
         "between Size and Head, between Head and select, parked on an empty queue / far head / paused head / mid-dispatch; every observed "
         "gate sequence is replayed in the Coq model and the due job must execute exactly once within a generous deadline; free-running "
         "runs with a queue that sleeps inside Size/Head look for lost wake-ups; a MisfiredChan of capacity 0/1/2 whose listener never drains or "
         "drains slowly meets more misfires in a row than it has room for, and OutdatedThreshold / RetryInterval are set to the ends of their "
         "range (MaxInt64, MaxInt64/2, 1 ns): a job due shortly is dispatched and the API calls return. Promptness in real time is observed, not proved.",
    design_ref="6 C05")

DEADLINE_MS = 5000


def gate_oracle(r):
    why = []
    if r.get("error"):
        why.append("scenario could not be driven: " + r["error"])
    if r["due_execs"] == 0:
        why.append("the job made due by %s was not executed within the deadline (lost wake-up)" % r["scen"]["call"])
    elif r["due_execs"] > 1:
        why.append("the due job was executed %d times for one fire time" % r["due_execs"])
    elif r["delay_ms"] > DEADLINE_MS:
        why.append("the due job was executed %d ms after the API call" % r["delay_ms"])
    return why


def obs_to_coq(r):
    """The observation list of one gate scenario as Gallina terms; returns (q0, tok0, [obs])."""
    obs = r["obs"]
    start = next(i for i, o in enumerate(obs) if o["k"] == "start")
    q0, tok0 = obs[start]["q"], obs[start]["tok"]
    out = []
    pending = []   # a gated call takes effect when its gate is released, i.e. just before the next arrival

    def flush():
        out.extend(pending)
        del pending[:]
    for o in obs[start + 1:]:
        k = o["k"]
        at = "OAt %s" % lc.z(o["t"])
        if k == "gate":
            flush()
            out.append(at)
            if o["g"] == "Size":
                pending.append("OSize")
            elif o["g"] == "Head":
                pending.append("OHead")
        elif k == "pop":
            flush()
            out.append(at)
            if not o.get("pop_ok", False):
                pending.append("OPopEmpty")
            else:
                rs = o.get("resched")
                pending.append("OPop %s %s %s" % (lc.z(o["prio"]), "true" if o.get("due") else "false",
                                                  "None" if rs is None else "(Some %s)" % lc.z(rs)))
        elif k == "api":
            out.append(at)
            if o["call"] == "reset":
                out.append("OReset")
            elif not o["err"]:
                out.append("OApi %s" % lc.zlist(o["q"]))
        elif k == "parked":
            flush()
            out.append(at)
            out.append("OParked %s %s" % (lc.zlist(o["q"]), "true" if o.get("tok") else "false"))
        elif k == "jobstart":
            flush()
            out.append(at)
            out.append("OBusy")
    flush()
    return q0, tok0, out


REPLAY_V = """From Coq Require Import ZArith List Bool.
Require Import QzLoop.Gen.Params QzLoop.LoopModel.
Import ListNotations.
Open Scope Z_scope.
Open Scope list_scope.
Inductive obs := OAt (t : Z) | OSize | OHead | OPop (prio : Z) (valid : bool) (resched : option Z) | OPopEmpty
  | OApi (q' : list Z) | OReset | OParked (q : list Z) (tk : bool) | OBusy.
Fixpoint ins (x : Z) (l : list Z) : list Z := match l with [] => [x] | y :: t => if x <=? y then x :: l else y :: ins x t end.
Definition sort (l : list Z) : list Z := fold_right ins [] l.
Fixpoint leq (a b : list Z) : bool := match a, b with [], [] => true | x :: a', y :: b' => (x =? y) && leq a' b' | _, _ => false end.
Section Acceptor.
Variable cfg0 : cfg.
Definition bind (o : option st) (f : st -> option st) : option st := match o with Some s => f s | None => None end.
(* bring the loop to the top of its for body: finish a dispatch, consume a token *)
Definition to_size (s : st) : option st :=
  match lpc s with
  | PSize => Some s
  | PDispatch => step cfg0 s LoopDispatched
  | PSelect => step cfg0 s SelTok
  | _ => None end.
Definition take_tick (s : st) : option st :=
  match lpc s with
  | PSelect => if chan s then step cfg0 s SelTick else bind (step cfg0 s TimerFire) (fun s1 => step cfg0 s1 SelTick)
  | _ => None end.
(* a send on the interrupt channel while the loop is blocked in the select is handed to it at once *)
Definition handoff (s : st) : option st :=
  match lpc s with PSelect => if tok s then step cfg0 s SelTok else Some s | _ => Some s end.
Definition ostep (s : st) (o : obs) : option st :=
  match o with
  | OAt t => if now s <? t then step cfg0 s (Adv (t - now s)) else Some s
  | OSize => bind (to_size s) (fun s1 => step cfg0 s1 (LoopSize Ok))
  | OHead => step cfg0 s (LoopTick Ok)
  | OPop p v r => bind (take_tick s) (fun s1 => if is_nil (q s1) then None else if minp (q s1) =? p then step cfg0 s1 (LoopFetch Ok v r Ok) else None)
  | OPopEmpty => bind (take_tick s) (fun s1 => if is_nil (q s1) then step cfg0 s1 (LoopFetch Ok false None Ok) else None)
  | OApi q' => bind (bind (step cfg0 s (ApiMutate q')) (fun s1 => step cfg0 s1 ApiToken)) handoff
  | OReset => bind (bind (step cfg0 s (ApiMutate (q s))) (fun s1 => step cfg0 s1 ApiToken)) handoff
  | OParked qs tk =>
      match lpc s with
      | PSelect => if negb (tok s) && negb tk && negb (chan s) && Nat.eqb (pend s) 0 && negb (armed s && (dl s <=? now s)) && leq (sort (q s)) qs
                   then Some s else None
      | _ => None end
  | OBusy => match lpc s with PDispatch => Some s | _ => None end
  end.
(* The runtime may deliver the tick of an armed, due timer at any moment the harness cannot see (for
   instance while the loop is inside a fetch): the acceptor keeps every model state that is possible,
   with and without such a TimerFire before each observation. *)
Definition with_fire (s : st) : list st := match step cfg0 s TimerFire with Some s' => [s; s'] | None => [s] end.
Definition ostep_all (ss : list st) (o : obs) : list st :=
  firstn 64 (flat_map (fun s => flat_map (fun s0 => match ostep s0 o with Some s1 => [s1] | None => [] end) (with_fire s)) ss).
Fixpoint replay (ss : list st) (l : list obs) (i : nat) : option nat :=
  match l with [] => None | o :: t => match ostep_all ss o with [] => Some i | ss' => replay ss' t (S i) end end.
End Acceptor.
Definition cases : list (nat * (list Z * bool * list obs)) := [
%s
].
(* a run is accepted if the model accepts it under either timer-channel semantics *)
Definition rejected (q0 : list Z) (tok0 : bool) (l : list obs) : option nat :=
  match replay (code_cfg false 100) [init q0 tok0] l 0 with
  | None => None
  | Some i => match replay (code_cfg true 100) [init q0 tok0] l 0 with None => None | Some j => Some (Nat.max i j) end
  end.
Definition MISMATCH := Eval vm_compute in
  flat_map (fun c => let '(id, (q0, tok0, l)) := c in match rejected q0 tok0 l with Some i => [(id, i)] | None => [] end) cases.
Print MISMATCH.
"""


def replay_in_model(results):
    """Returns list of (result, obs index) that the Coq model does not accept, or None + log on machinery failure."""
    rows = []
    kept = {}
    for r in results:
        if r.get("error"):
            continue
        q0, tok0, obs = obs_to_coq(r)
        kept[r["scen"]["id"]] = (r, obs)
        rows.append("(%d%%nat, (%s, %s, [%s]))" % (r["scen"]["id"], lc.zlist(q0), "true" if tok0 else "false", "; ".join(obs)))
    if not rows:
        return [], ""
    items, out = lc.coq_eval_list("c05_replay", REPLAY_V % ";\n".join(rows))
    if items is None:
        return None, out
    bad = []
    for sid, idx in items:
        r, obs = kept[sid]
        bad.append({"scenario": r["scen"], "first_rejected_observation": obs[idx] if idx < len(obs) else None,
                    "observations": obs, "what": "the Coq loop model does not accept the gate sequence observed on the real loop"})
    return bad, out


def run_gate(binp, seed, only=None, limit=0):
    cmd = [binp, "gate", str(seed), str(limit)] + ([str(only)] if only is not None else [])
    rc, rows, out = lc.run_json(cmd, timeout=900)
    if rc != 0:
        raise RuntimeError("looph gate failed: " + out[-2000:])
    return [r for r in rows if r.get("kind") == "gate"]


def confirm_gate(binp, seed, r, pred):
    """Re-run one scenario (at most twice); the finding stands as soon as it shows again."""
    for k in range(2):
        rr = run_gate(binp, seed + 1 + k, only=r["scen"]["id"])
        if rr and pred(rr[0]):
            return True
    return False


def opts_oracle(r):
    why = []
    thr, ri = r["outdated_threshold_ns"], r["retry_interval_ns"]
    if r["test"] == "misfire":
        cfg = ("MisfiredChan of capacity %d whose listener %s, OutdatedThreshold 2 s, %d jobs scheduled 10 s in the past (misfires in a row), %s mode"
               % (r["misfired_chan_cap"], "never drains" if r["listener"] == "never" else "takes 150 ms per event", r["misfires_in_a_row"], r["mode"]))
    else:
        cfg = ("OutdatedThreshold %s, RetryInterval %s, %s mode" % ("default" if thr == 0 else "%d ns" % thr, "default" if ri == 0 else "%d ns" % ri, r["mode"]))
        if r.get("overdue_head_fire_time"):
            cfg += ", the head of the queue is a job whose trigger returned the fire time %d (hopelessly overdue)" % r["overdue_head_fire_time"]
    if "+" in r["mode"]:
        cfg += " (options given in this order: %s)" % " then ".join({"blocking": "WithBlockingExecution()", "limit": "WithWorkerLimit(2)"}[x] for x in r["mode"].split("+"))
    if True:
        pass
    if r.get("api_call_hung"):
        why.append("%s: %s did not return within 5 s (the loop holds the queue lock)" % (cfg, r["api_call_hung"]))
    if r["due_execs"] != 1:
        why.append("%s: a job scheduled to be due 10-15 ms later was executed %d times within the deadline%s" % (
            cfg, r["due_execs"], "" if r["must_execute"] else " and was not reported on MisfiredChan either"))
    if r["test"] == "threshold":
        if r["due_now_execs"] != 1:
            why.append("%s: a job due at Start was executed %d times%s (reported as misfired: %d)" % (
                cfg, r["due_now_execs"], "" if r["must_execute"] else " and not reported", r["reported_misfired"]))
        if r["far_future_job_execs"]:
            why.append("%s: a job whose fire time is math.MaxInt64-1000 was executed" % cfg)
    if r["stop_hung"] or not r["wait_returned"]:
        why.append("%s: Stop / Wait did not return within 6 s" % cfg)
    return why


OPTS_KEY = ("test", "mode", "misfired_chan_cap", "listener", "misfires_in_a_row", "outdated_threshold_ns", "retry_interval_ns", "overdue_head_fire_time")


def run_opts(binp):
    rc, rows, out = lc.run_json([binp, "opts"], timeout=300)
    if rc != 0:
        raise RuntimeError("looph opts failed: " + out[-2000:])
    return [r for r in rows if r.get("kind") == "opts"]


def opts_failures(binp):
    rows = run_opts(binp)
    bad = [r for r in rows if opts_oracle(r)]
    out = []
    if bad:
        again = {tuple(r[k] for k in OPTS_KEY) for r in run_opts(binp) if opts_oracle(r)}
        for r in [x for x in bad if tuple(x[k] for k in OPTS_KEY) in again][:2]:
            out.append({"case": {"kind": "opts", **{k: r[k] for k in OPTS_KEY}}, "why": opts_oracle(r), "observed": r,
                        "failing_configurations_in_this_run": len(bad),
                        "how": "looph opts: (misfire) WithMisfiredChan(make(chan, cap)) + WithOutdatedThreshold(2 s), k jobs whose first fire time is 10 s "
                               "in the past, Start, then ScheduleJob of a job due 10 ms later, DeleteJob, GetJobKeys under a 5 s watchdog; (threshold) the "
                               "given WithOutdatedThreshold / WithRetryInterval, a job due at Start, one due 15 ms later, one at MaxInt64-1000"})
    return rows, out


def run_free(binp, seed, n):
    rc, rows, out = lc.run_json([binp, "free", str(seed), str(n)], timeout=1200)
    if rc != 0:
        raise RuntimeError("looph free failed: " + out[-2000:])
    return [r for r in rows if r.get("kind") == "free"]


def run(ctx):
    res, broken = vlib.proof_step(ctx, PROJ, "C05", lc.genparams)
    binp = lc.looph()
    gate = run_gate(binp, ctx.seed)
    failures, mismatches = [], []
    suspects = [r for r in gate if gate_oracle(r)]
    for r in suspects[:6]:
        if len(failures) >= 3:
            break
        why = gate_oracle(r)
        if confirm_gate(binp, ctx.seed, r, lambda x: bool(gate_oracle(x))):
            failures.append({"case": {"kind": "gate", "scenario": r["scen"]}, "why": why, "observations": r["obs"], "execs": r["execs"],
                             "failing_scenarios_in_this_run": len(suspects),
                             "how": "looph gate: the real loop single-stepped through a gated JobQueue; API calls placed at the given position"})
    if lc.model_available():
        bad, out = replay_in_model(gate)
        if bad is None:
            mismatches.append({"error": "model evaluation failed", "detail": out[-1500:]})
        else:
            for b in bad[:6]:
                if len(mismatches) >= 3:
                    break
                rr = run_gate(binp, ctx.seed + 7, only=b["scenario"]["id"])
                bad2, _ = replay_in_model(rr)
                if bad2:
                    b["mismatching_scenarios_in_this_run"] = len(bad)
                    mismatches.append(b)
    restart_rows, rf = lc.restart_failures(binp, ctx.seed, 27 if ctx.tier == "quick" else 198)
    failures += rf
    opts_rows, of = opts_failures(binp)
    failures += of
    nfree = 240 if ctx.tier == "quick" else 3000
    if len(failures) >= 3:
        nfree = 24   # the gate scenarios already show the violation
    free = run_free(binp, ctx.seed, nfree)
    lost = [r for r in free if r["delay_us"] < 0]
    for r in lost[:3]:
        failures.append({"case": {"kind": "free", "seed": r["seed"], "iter": r["iter"], "call": r["call"], "mode": r["mode"]},
                         "why": ["a job made due by %s was not executed within 4 s on a free-running scheduler (lost wake-up)" % r["call"]],
                         "how": "looph free: queue wrapper sleeping inside Size/Head, far head, then a head-moving API call"})
    if ctx.tier == "thorough":
        for k in range(1, 4):
            for r in [x for x in run_gate(binp, ctx.seed + 100 * k) if gate_oracle(x)][:3]:
                if len(failures) < 3 and confirm_gate(binp, ctx.seed, r, lambda x: bool(gate_oracle(x))):
                    failures.append({"case": {"kind": "gate", "scenario": r["scen"]}, "why": gate_oracle(r), "observations": r["obs"]})

    def search():
        found = []
        for r in run_free(binp, ctx.seed + 17, 2500):
            if r["delay_us"] < 0:
                found.append({"case": {"kind": "free", "seed": r["seed"], "iter": r["iter"], "call": r["call"], "mode": r["mode"]},
                              "why": ["a job made due by %s was never executed (lost wake-up)" % r["call"]]})
                if len(found) >= 2:
                    break
        if not found:
            for k in range(3):
                for r in run_gate(binp, ctx.seed + 31 * (k + 1)):
                    why = gate_oracle(r)
                    if why:
                        found.append({"case": {"kind": "gate", "scenario": r["scen"]}, "why": why, "observations": r["obs"]})
                if found:
                    break
        return found[:3]

    vlib.decide(ctx, broken, failures, mismatches, search)
    delays = sorted(r["delay_us"] for r in free if r["delay_us"] >= 0)
    cov = vlib.proof_coverage(res, PROJ, "C05")
    cov.update({
        "evaluations": len(gate) + len(free),
        "distinct_nontrivial": len({json.dumps(r["scen"], sort_keys=True) for r in gate if not r.get("error")}),
        "rule": "gate: situation {empty, far head, paused head, mid-dispatch} x position {parked, before Size, between Size and Head, "
                "between Head and select} x call {schedule, replace, resume} x other {none, delete, pause, clear}; each run replayed in the "
                "Coq model (vm_compute) and checked by the oracle `the due job executes exactly once within 5 s`; non-trivial = scenario driven "
                "to its end. free: far head, random poke, head-moving call, queue sleeping inside Size/Head",
        "samples": [{"scenario": gate[0]["scen"], "obs": gate[0]["obs"][:8]}] if gate else [],
        "exhaustive": False,
        "restart_trials": len(restart_rows), "option_extreme_and_misfire_listener_trials": len(opts_rows), "gate_scenarios": len(gate), "gate_max_delay_ms": max([r["delay_ms"] for r in gate] or [0]),
        "free_runs": len(free), "free_lost": len(lost),
        "free_delay_us_p50_p99_max": [delays[len(delays) // 2], delays[int(len(delays) * 0.99)], delays[-1]] if delays else [],
        "model_mismatches": len(mismatches), "oracle_failures": len(failures),
        "partial_runtime": "promptness in seconds and the Go runtime's scheduling of the loop goroutine are observed, not proved; "
                           "Head(), NowNano() and timer.Reset inside one iteration are one atomic label of the model",
    })
    vlib.write_evidence(ctx, cov, assumptions=[
        "a contract-abiding JobQueue: Size/Head/Pop are individually atomic and Pop returns a minimum-priority entry",
        "the clock is non-decreasing; time.Timer fires no earlier than its deadline and Reset(d<=0) fires immediately",
        "the queue read, the clock read and timer.Reset of one loop iteration happen at one instant of the model's clock",
        "restart theorems: the loop of the stopped run has not already passed its ctx.Err() test on the way to a fetch when the new run starts",
    ])
    return 1 if ctx.violations else 0


def replay(ctx, path):
    obj = json.load(open(path))
    binp = lc.looph()
    c = obj.get("case", {})
    if c.get("kind") == "gate":
        rr = run_gate(binp, ctx.seed, only=c["scenario"]["id"])
        for r in rr:
            why = gate_oracle(r)
            print(json.dumps({"scenario": r["scen"], "why": why, "delay_ms": r["delay_ms"], "due_execs": r["due_execs"]}))
            if why:
                vlib.report_violation(ctx, {"case": c, "why": why, "observations": r["obs"]})
                return 1
        return 0
    if c.get("kind") == "restart":
        rows, rf = lc.restart_failures(binp, c.get("seed", ctx.seed), c.get("n", 24))
        print(json.dumps({"trials": len(rows), "failing": len([r for r in rows if lc.restart_oracle(r)])}))
        if rf:
            vlib.report_violation(ctx, rf[0])
            return 1
        return 0
    if c.get("kind") == "opts":
        bad = [r for r in run_opts(binp) if all(r[k] == c.get(k) for k in OPTS_KEY) and opts_oracle(r)]
        print(json.dumps(bad))
        if bad:
            vlib.report_violation(ctx, {"case": c, "why": opts_oracle(bad[0])})
            return 1
        return 0
    if c.get("kind") == "free":
        rows = run_free(binp, c["seed"], c["iter"] + 1)
        r = [x for x in rows if x["iter"] == c["iter"]]
        print(json.dumps(r))
        if r and r[0]["delay_us"] < 0:
            vlib.report_violation(ctx, {"case": c, "why": ["not executed within 4 s"]})
            return 1
        return 0
    print("nothing to replay in", path)
    return 0
