"""C11 -- the default job queue is a keyed min-priority queue with exact matcher filtering."""
import collections
import json
import os
import re

import vlib

PROJ = "queue"
INT64_MAX = 9223372036854775807

MANIFEST = dict(
    engine="queue",
    technique="Coq proof (refinement of a keyed-map specification by a code-shaped model of container/heap + jobQueue, invariants by "
              "induction over all call sequences) on a model regenerated in part from the source; extracted model and an independent "
              "specification oracle run against the real queue on the same call sequences",
    text="Machine-checked Coq theorems over an executable model of quartz/queue.go on top of container/heap (up/down/Push/Pop/Remove "
         "written from the Go source, the slice as a list): for every sequence of Push/Pop/Head/Get/Remove/ScheduledJobs/Size/Clear "
         "calls with arbitrary keys and integer priorities the array stays heap ordered with distinct keys and the calls with their "
         "results form a run of a key->entry map specification (Head/Pop: an entry of minimum priority; duplicate Push rejected with "
         "ErrJobAlreadyExists and no change, with Replace exactly that entry replaced; heap.Remove at any index removes exactly that "
         "element; empty reads ErrQueueEmpty, absent keys ErrJobNotFound; ScheduledJobs/GetJobKeys = filter by the conjunction of the "
         "matchers; string operators meet their prefix/suffix/infix/equality specifications; iterated Pop is sorted). The comparison "
         "operator of Less, the heap.Interface method shapes, the lock discipline of every jobQueue method, the sentinel errors, "
         "JobKey.Equals, the operator table and the matcher predicates are regenerated from the Go source on every run. The extracted "
         "model is compared call by call (array order included) with quartz.NewJobQueue() on random, exhaustive and matcher-matrix call "
         "sequences, an independent oracle checks the implementation against the specification relation, and 16 concurrent callers run "
         "under the race detector with conservation and per-key sequential-consistency checks (the Go runtime's interleavings are "
         "observed, not proved).",
    design_ref="6 C11")

CASEDIR = os.path.join(vlib.BUILD, "cases", PROJ)


def genparams():
    os.makedirs(os.path.join(vlib.VERIF, "ocaml", PROJ, "gen"), exist_ok=True)  # target of Extract.v
    binp, out = vlib.go_build("genparams")
    if binp is None:
        return False, out
    rc, out = vlib.run([binp, "-repo", vlib.REPO, "queue"])
    if rc != 0:
        return False, out
    vlib.write_if_changed(os.path.join(vlib.coq_dir(PROJ), "theories", "Gen", "Params.v"), out)
    return True, ""


# ---------------------------------------------------------------------------
# specification oracle (independent of the Coq model): a dict from key to entry
# ---------------------------------------------------------------------------

def unhex(tok):
    return bytes.fromhex(tok[:-1])


def str_op(op, s, p):
    if op == 0:
        return s == p
    if op == 1:
        return s[:len(p)] == p
    if op == 2:
        return len(s) >= len(p) and s[len(s) - len(p):] == p
    return any(s[i:i + len(p)] == p for i in range(len(s) - len(p) + 1))


class Oracle:
    """Checks one recorded sequence against the keyed-map specification."""

    def __init__(self, keys, pats, stats):
        self.keys, self.pats, self.stats = keys, pats, stats

    def matches(self, m, ent):
        if m[0] == "T":
            return ent["susp"] == (m[1] == "1")
        o, p = m[1:].split(".")
        field = self.keys[ent["key"]][1 if m[0] == "N" else 0]
        return str_op(int(o), field, self.pats[int(p)])

    def ident(self, tok, minted):
        """id token -> entry, or a reason why it is unacceptable"""
        if tok.endswith("!"):
            return None, "returned object's key/NextRunTime/Suspended differ from the entry that was pushed"
        if not tok.isdigit() or int(tok) not in minted:
            return None, "returned an entry that was never pushed"
        return minted[int(tok)], None

    def check(self, items):
        """items: list of (call, result). Returns None or (index, why)."""
        st = self.stats
        m = {}        # key index -> entry
        minted = {}
        prev_snapshot = None
        for idx, (call, res) in enumerate(items):
            t = call.split(" ")
            kind = t[0][0]
            st["calls"][kind] += 1
            if res == "PANIC":
                return idx, "the call panicked"
            if res == "Eother":
                return idx, "unexpected error class"
            if kind == "P":
                ent = dict(id=int(t[5]), key=int(t[1]), prio=int(t[2]), susp=t[3] == "1", repl=t[4] == "1")
                if ent["id"] in minted:
                    # the same entry object pushed once more (same id, same fields)
                    st["push"]["same object again"] = st["push"].get("same object again", 0) + 1
                    ent = minted[ent["id"]]
                minted[ent["id"]] = ent
                if ent["key"] in m and not ent["repl"]:
                    st["push"]["duplicate rejected"] += 1
                    if res != "Eexists":
                        return idx, "Push of an existing key without Replace returned %s, want ErrJobAlreadyExists" % res
                else:
                    st["push"]["replace" if ent["key"] in m else "new"] += 1
                    if res != "ok":
                        return idx, "Push returned %s, want nil" % res
                    m[ent["key"]] = ent
                    st["max_size"] = max(st["max_size"], len(m))
            elif kind in "OH":
                if not m:
                    st["empty_reads"] += 1
                    if res != "Eempty":
                        return idx, "%s on an empty queue returned %s, want ErrQueueEmpty" % ("Pop" if kind == "O" else "Head", res)
                else:
                    if not res.startswith("#"):
                        return idx, "returned %s although the queue holds %d entries" % (res, len(m))
                    ent, why = self.ident(res[1:], minted)
                    if why:
                        return idx, why
                    if m.get(ent["key"]) is not ent:
                        return idx, "returned entry %d which is not in the queue" % ent["id"]
                    lo = min(e["prio"] for e in m.values())
                    if ent["prio"] != lo:
                        return idx, "returned priority %d but the minimum is %d" % (ent["prio"], lo)
                    if sum(1 for e in m.values() if e["prio"] == lo) > 1:
                        st["min_ties"] += 1
                    if kind == "O":
                        del m[ent["key"]]
            elif kind in "GR":
                k = int(t[1])
                if k not in m:
                    st["absent_key_reads"] += 1
                    if res != "Enotfound":
                        return idx, "%s of an absent key returned %s, want ErrJobNotFound" % ("Get" if kind == "G" else "Remove", res)
                else:
                    if res != "#%d" % m[k]["id"]:
                        return idx, "%s(key %d) returned %s, want entry %d" % ("Get" if kind == "G" else "Remove", k, res, m[k]["id"])
                    if kind == "R":
                        if prev_snapshot is not None and m[k]["id"] in prev_snapshot:
                            pos, n = prev_snapshot.index(m[k]["id"]), len(prev_snapshot)
                            where = "root" if pos == 0 else ("last leaf" if pos == n - 1 else
                                                             ("inner node" if 2 * pos + 1 < n - 1 else "other leaf"))
                            st["remove_position"][where] += 1
                        del m[k]
            elif kind == "Z":
                if res != "=%d" % len(m):
                    return idx, "Size returned %s with %d entries queued" % (res, len(m))
            elif kind == "C":
                if res != "ok":
                    return idx, "Clear returned %s" % res
                m.clear()
            elif kind in "AL":
                ms = [] if kind == "A" else t[1].split(",")
                if not (res.startswith("[") and res.endswith("]")):
                    return idx, "ScheduledJobs returned %s" % res
                toks = [x for x in res[1:-1].split(",") if x]
                got = []
                for tok in toks:
                    ent, why = self.ident(tok, minted)
                    if why:
                        return idx, why
                    got.append(ent["id"])
                want = sorted(e["id"] for e in m.values() if all(self.matches(x, e) for x in ms))
                if sorted(got) != want:
                    return idx, "ScheduledJobs(%s) returned entries %s, the entries satisfying all matchers are %s" % (
                        ",".join(ms) or "nil", sorted(got), want)
                if kind == "A":
                    prev_snapshot = got
                else:
                    st["matcher_queries"]["empty result" if not want else ("all entries" if len(want) == len(m) else "proper subset")] += 1
                    st["matcher_lists"][len(ms)] += 1
            elif kind == "J":
                ms = [] if t[1] == "-" else t[1].split(",")
                if not (res.startswith("{") and res.endswith("}")):
                    return idx, "GetJobKeys returned %s" % res
                got = sorted(x for x in res[1:-1].split(",") if x)
                want = sorted(str(e["key"]) for e in m.values() if all(self.matches(x, e) for x in ms))
                if got != want:
                    return idx, "GetJobKeys(%s) returned keys %s, want %s" % (",".join(ms) or "", got, want)
                st["getjobkeys"] += 1
            else:
                return idx, "unknown call " + call
        return None


OPNAMES = ["Equals", "StartsWith", "EndsWith", "Contains"]


def describe(call, keys, pats):
    """human-readable form of a recorded call"""
    def kstr(i):
        g, n = keys[int(i)]
        return "(group %r, name %r)" % (g.decode("utf-8", "replace"), n.decode("utf-8", "replace"))

    def mstr(m):
        if m[0] == "T":
            return "JobPaused()" if m[1] == "1" else "JobActive()"
        o, p_ = m[1:].split(".")
        return "Job%s%s(%r)" % ("Name" if m[0] == "N" else "Group", OPNAMES[int(o)], pats[int(p_)].decode("utf-8", "replace"))
    t = call.split(" ")
    k = t[0][0]
    if k == "P":
        return "Push(entry #%s: key %s, priority %s, Suspended=%s, Replace=%s)%s" % (
            t[5], kstr(t[1]), t[2], t[3] == "1", t[4] == "1",
            " via ScheduleJob on a never-started scheduler" if t[0][1:] == "s" else " minted with VerifNewScheduledJob")
    if k in "GR":
        return "%s(key %s)" % ("Get" if k == "G" else "Remove", kstr(t[1]))
    if k in "LJ":
        ms = [] if t[1] == "-" else t[1].split(",")
        return "%s(%s)" % ("ScheduledJobs" if k == "L" else "GetJobKeys", ", ".join(mstr(m) for m in ms))
    return {"O": "Pop()", "H": "Head()", "Z": "Size()", "C": "Clear()", "A": "ScheduledJobs(nil)"}[k]


def new_stats():
    return dict(calls=collections.Counter(), push=collections.Counter(), remove_position=collections.Counter(),
                matcher_queries=collections.Counter(), matcher_lists=collections.Counter(), min_ties=0, empty_reads=0,
                absent_key_reads=0, max_size=0, getjobkeys=0, sequences=0)


def parse_file(path):
    keys, pats, seqs = [], [], []
    with open(path) as f:
        for line in f:
            line = line.rstrip("\n")
            if line.startswith("T K "):
                _, _, g, n = line.split(" ")
                keys.append((unhex(g), unhex(n)))
            elif line.startswith("T X "):
                pats.append(unhex(line.split(" ")[2]))
            elif line.startswith("Q "):
                sp = line.index(" ", 2)
                seqs.append((line[2:sp], line[sp + 1:]))
    return keys, pats, seqs


def oracle_file(path, stats, source):
    keys, pats, seqs = parse_file(path)
    orc = Oracle(keys, pats, stats)
    failures = []
    for sid, body in seqs:
        stats["sequences"] += 1
        items = [tuple(x.strip().split(" > ")) for x in body.split(" ; ")]
        bad = orc.check(items)
        if bad is not None:
            idx, why = bad
            # the replayable case: the calls up to and including the failing one (results dropped)
            calls = [c for c, _ in items[:idx] if c != "A"] + [items[idx][0]]
            failures.append({"case": {"sequence": sid, "calls": calls, "from": source},
                             "calls_decoded": [describe(c, keys, pats) for c in calls], "failing_call": items[idx][0],
                             "implementation_returned": items[idx][1], "why": [why],
                             "how": "queueh: the calls are made on quartz.NewJobQueue() in this order; results compared with a key->entry map"})
    return failures


def model_file(drv, path, source):
    rc, out = vlib.run([drv, path], timeout=1200)
    m = re.search(r"^DONE (\d+) (\d+) (\d+)$", out, flags=re.M)
    if rc != 0 or not m:
        return [{"error": "model driver failed on " + source, "detail": out[-1500:]}], 0, 0
    mism = []
    for line in out.splitlines():
        if line.startswith("M "):
            mm = re.match(r"M (\S+) (\d+) (.*) got (.*) model (.*)$", line)
            mism.append({"sequence": mm.group(1), "call_index": int(mm.group(2)), "call": mm.group(3),
                         "implementation": mm.group(4), "coq_model": mm.group(5), "from": source,
                         "what": "extracted Coq model's result differs from the implementation's"})
    return mism, int(m.group(1)), int(m.group(2))


def coq_sample(path, max_seqs, max_line=20000):
    """Evaluate the model inside Coq (vm_compute) on a sample of the recorded sequences: checks the extracted
    OCaml model's verdicts against Coq's own evaluation for that sample. Returns (bad sequence ids | None, n, log)."""
    keys, pats, seqs = parse_file(path)
    seqs = [(sid, body) for sid, body in seqs if len(body) < max_line][:max_seqs]

    def bl(b):
        return "(s_of [%s]%%nat)" % "; ".join(str(x) for x in b)

    def mt(m):
        if m[0] == "T":
            return "(MStatus %s)" % ("true" if m[1] == "1" else "false")
        o, p_ = m[1:].split(".")
        return "(%s %s (pt %s))" % ("MName" if m[0] == "N" else "MGroup", "String" + OPNAMES[int(o)], p_)
    errs = {"Eempty": "ErrQueueEmpty", "Enotfound": "ErrJobNotFound", "Eexists": "ErrJobAlreadyExists", "Eother": "ErrOther"}
    rows = []
    for n, (sid, body) in enumerate(seqs):
        minted, ops, exp = {}, [], []
        ok = True
        for item in body.split(" ; "):
            call, res = item.strip().split(" > ")
            t = call.split(" ")
            k = t[0][0]
            if k == "J":
                continue
            if k == "P":
                minted[t[5]] = "(E %s (%s) %s %s %s)" % (t[1], t[2], "true" if t[3] == "1" else "false", "true" if t[4] == "1" else "false", t[5])
                ops.append("OPush " + minted[t[5]])
            elif k in "GR":
                ops.append("%s (ky %s)" % ("OGet" if k == "G" else "ORemove", t[1]))
            elif k in "AL":
                ops.append("OScheduled [%s]" % ("" if k == "A" else "; ".join(mt(m) for m in t[1].split(","))))
            else:
                ops.append({"O": "OPop", "H": "OHead", "Z": "OSize", "C": "OClear"}[k])
            try:
                if res == "ok":
                    exp.append("ROk")
                elif res in errs:
                    exp.append("RErr " + errs[res])
                elif res.startswith("#"):
                    exp.append("REntry " + minted[res[1:]])
                elif res.startswith("="):
                    exp.append("RSize %s" % res[1:])
                elif res.startswith("["):
                    exp.append("RList [%s]" % "; ".join(minted[x] for x in res[1:-1].split(",") if x))
                else:
                    ok = False
            except KeyError:
                ok = False
        if ok:
            rows.append("(%d%%nat, ([%s], [%s]))" % (n, "; ".join(ops), "; ".join(exp)))
    v = """From Coq Require Import ZArith String Ascii List Bool.
Require Import QzQueue.Gen.Params QzQueue.Entry QzQueue.Matcher QzQueue.HeapModel.
Import ListNotations.
Open Scope Z_scope.
Definition s_of (l : list nat) : string := fold_right (fun n s => String (ascii_of_nat n) s) EmptyString l.
Definition keytab : list key := [%s].
Definition pattab : list string := [%s].
Definition ky (n : nat) : key := nth n keytab (EmptyString, EmptyString).
Definition pt (n : nat) : string := nth n pattab EmptyString.
Definition E (k : nat) (p : Z) (s r : bool) (id : Z) : entry := mkEntry (ky k) p s r id.
Definition cases : list (nat * (list op * list result)) := [%s].
Definition MISMATCH := Eval vm_compute in
  map fst (filter (fun c => negb (list_eqb result_eqb (snd (q_run [] (fst (snd c)))) (snd (snd c)))) cases).
Print MISMATCH.
""" % ("; ".join("(%s, %s)" % (bl(g), bl(nm)) for g, nm in keys), "; ".join(bl(x) for x in pats), ";\n ".join(rows))
    rc, out = vlib.coq_eval(PROJ, "c11_sample", v, timeout=900)
    if rc != 0:
        return None, len(rows), out
    m = re.search(r"MISMATCH\s*=\s*(\[[^\]]*\])", out.replace("\n", " "))
    if not m:
        return None, len(rows), out
    body = m.group(1).strip("[]").strip()
    idx = [int(x.replace("%nat", "").strip()) for x in body.split(";") if x.strip()] if body else []
    return [seqs[i][0] for i in idx], len(rows), out


def harness_files(binp, tier, seed, tag=""):
    """Run the sequential harness modes; returns [(source description, path)]."""
    os.makedirs(CASEDIR, exist_ok=True)
    plan = []
    if tier == "quick":
        plan = [("random", [str(seed), "1500", "200"]), ("matrix", []), ("exhaust", ["3", "3"]), ("exhaust", ["4", "2"])]
    elif tier == "thorough":
        plan = [("random", [str(seed), "12000", "200"]), ("random", [str(seed + 1), "2000", "1000"]), ("matrix", []),
                ("exhaust", ["4", "3"]), ("exhaust", ["3", "4"])]
    elif tier == "search":
        plan = [("random", [str(seed + 7), "6000", "200"]), ("matrix", []), ("exhaust", ["3", "3"])]
    out = []
    for i, (mode, args) in enumerate(plan):
        path = os.path.join(CASEDIR, "c11%s-%s-%d.txt" % (tag, mode, i))
        rc, o = vlib.run([binp, mode] + args + [path], timeout=1200)
        if rc != 0:
            raise RuntimeError("queueh %s failed: %s" % (mode, o[-2000:]))
        out.append(("queueh %s %s" % (mode, " ".join(args)), path))
    return out


def run_conc(binr, seed, rounds):
    rc, out = vlib.run([binr, "conc", str(seed), str(rounds)], timeout=1200, env_extra={"GORACE": "halt_on_error=0 exitcode=66"})
    res = None
    for l in out.splitlines():
        if l.startswith("{"):
            try:
                res = json.loads(l)
            except ValueError:
                pass
    races = out.count("WARNING: DATA RACE")
    why = []
    if races or rc == 66:
        m = re.search(r"WARNING: DATA RACE\n(.*?)\n\n", out, flags=re.S)
        why.append("the race detector reported %d data race(s) between concurrent jobQueue calls: %s" % (
            races, (m.group(1)[:600] if m else "")))
    elif rc != 0:
        why.append("concurrent run crashed (exit %d): %s" % (rc, out[-800:]))
    if res and res["violations"]:
        why += res["violations"][:8]
    return res, why


def run(ctx):
    res, broken = vlib.proof_step(ctx, PROJ, "C11", genparams)
    binp, out = vlib.go_build("queueh")
    if binp is None:
        raise RuntimeError("cannot build queueh: " + out[-3000:])
    drv = None
    if os.path.exists(os.path.join(vlib.VERIF, "ocaml", PROJ, "gen", "qmodel.ml")):
        drv, dout = vlib.ocaml_build(PROJ)
    failures, mismatches = [], []
    stats = new_stats()
    files = harness_files(binp, ctx.tier, ctx.seed)
    compared_seqs = compared_calls = 0
    for source, path in files:
        failures += oracle_file(path, stats, source)
    if drv is None:
        mismatches.append({"error": "extracted model could not be built", "detail": (dout if 'dout' in dir() else "gen/qmodel.ml missing")[-1500:]})
    else:
        for source, path in files:
            mm, ns, nc = model_file(drv, path, source)
            mismatches += mm
            compared_seqs += ns
            compared_calls += nc

    # a sample re-evaluated inside Coq (takes the OCaml extraction out of the trusted base for that sample)
    in_coq = {"sequences": 0, "disagreeing_with_implementation": None}
    if res.get("ok") or os.path.exists(os.path.join(vlib.coq_dir(PROJ), "theories", "HeapModel.vo")):
        nsample = 40 if ctx.tier == "quick" else 400
        bad_ids, n_in_coq, clog = coq_sample(files[0][1], nsample)
        bad2, n2, clog2 = coq_sample(files[1][1], 2, max_line=10 ** 7) if ctx.tier != "quick" else ([], 0, "")
        in_coq["sequences"] = n_in_coq + n2
        if bad_ids is None or bad2 is None:
            mismatches.append({"error": "in-Coq evaluation of the sample failed", "detail": (clog if bad_ids is None else clog2)[-1500:]})
        else:
            in_coq["disagreeing_with_implementation"] = len(bad_ids) + len(bad2)
            ocaml_bad = {m_["sequence"] for m_ in mismatches if "sequence" in m_}
            for sid in bad_ids + bad2:
                if sid not in ocaml_bad:
                    mismatches.append({"sequence": sid, "what": "Coq's own evaluation (vm_compute) of the model differs from the implementation "
                                                               "on this sequence although the extracted OCaml model agreed"})

    # thread safety: 16 concurrent callers under the race detector
    binr, out = vlib.go_build("queueh", race=True)
    if binr is None:
        raise RuntimeError("cannot build queueh -race: " + out[-3000:])
    rounds = 6 if ctx.tier == "quick" else 60
    conc, why = run_conc(binr, ctx.seed, rounds)
    if why:
        failures.append({"case": {"kind": "conc", "seed": ctx.seed, "rounds": rounds}, "why": why,
                         "how": "queueh conc (built with -race): 16 goroutines call one quartz.NewJobQueue() concurrently"})

    def search():
        found = []
        for source, path in harness_files(binp, "search", ctx.seed, tag="-search"):
            found += oracle_file(path, new_stats(), source)
            if found:
                break
        if not found:
            c2, why2 = run_conc(binr, ctx.seed + 1, 40)
            if why2:
                found.append({"case": {"kind": "conc", "seed": ctx.seed + 1, "rounds": 40}, "why": why2})
        return found[:3]

    n_fail, n_mis = len(failures), len(mismatches)
    failures.sort(key=lambda f: len(f.get("case", {}).get("calls", [])) or 10 ** 6)   # shortest sequences first
    vlib.decide(ctx, broken, failures, mismatches, search)

    cov = vlib.proof_coverage(res, PROJ, "C11")
    total_calls = sum(stats["calls"].values())
    cov.update({
        "evaluations": total_calls + (conc["calls"] if conc else 0),
        "distinct_nontrivial": stats["sequences"],
        "rule": "sequential: every recorded call sequence on quartz.NewJobQueue() is (a) checked by an independent key->entry map oracle "
                "(Head/Pop: any minimum-priority entry; results of Get/Remove/Size/ScheduledJobs/GetJobKeys exact as sets) and (b) replayed "
                "through the extracted Coq model, comparing every result and, after every call, the array order seen through "
                "ScheduledJobs(nil). Sources: random sequences (20 keys in 4 groups incl. an empty name and a non-ASCII name, priorities "
                "{1,2,2,3,3,0,-5,MaxInt64,MaxInt64-1,MinInt64,2^40}, Replace and Suspended on/off, entries minted by the verif hook and "
                "through ScheduleJob on a never-started scheduler); all call sequences of a fixed length over 2-3 keys x {1,2,MaxInt64} x "
                "Replace on/off; a matcher matrix (all 130 single matchers, all 16900 pairs, 260 triples on a 9-entry queue). "
                "non-trivial = one call sequence. concurrent: 16 goroutines, three round types, race detector on",
        "samples": [open(files[0][1]).readlines()[40][:400]],
        "exhaustive": False,
        "oracle_failures": n_fail,
        "model_mismatches": n_mis,
        "concrete_model_agreement": {"sequences_compared": compared_seqs, "calls_compared": compared_calls,
                                     "mismatching_sequences": len([m for m in mismatches if "sequence" in m])},
        "sample_evaluated_inside_coq": in_coq,
        "sources": [s for s, _ in files],
        "distribution": {
            "calls_by_kind": {{"P": "Push", "O": "Pop", "H": "Head", "G": "Get", "R": "Remove", "Z": "Size", "C": "Clear",
                               "A": "ScheduledJobs(nil) snapshot", "L": "ScheduledJobs(matchers)", "J": "GetJobKeys"}[k]: v
                              for k, v in stats["calls"].items()},
            "push_outcomes": dict(stats["push"]),
            "removed_entry_position_in_heap": dict(stats["remove_position"]),
            "head_or_pop_with_tied_minimum": stats["min_ties"],
            "reads_of_empty_queue": stats["empty_reads"],
            "reads_of_absent_key": stats["absent_key_reads"],
            "largest_queue": stats["max_size"],
            "matcher_query_results": dict(stats["matcher_queries"]),
            "matcher_list_lengths": {str(k): v for k, v in stats["matcher_lists"].items()},
            "getjobkeys_calls": stats["getjobkeys"],
        },
        "concurrent": conc,
        "partial_runtime": "mutual exclusion of the jobQueue methods is read from the source (Params.locked_methods) and assumed of sync.Mutex; "
                           "that the Go runtime's interleavings behave like a sequence of atomic calls is observed (race detector, conservation "
                           "and per-key sequential consistency under 16 callers), not proved",
    })
    if not ctx.violations:
        for _, path in files:      # recorded sequences are only kept when something has to be looked at
            try:
                os.remove(path)
            except OSError:
                pass
    vlib.write_evidence(ctx, cov, assumptions=[
        "container/heap is the Go 1.23 source modelled in HeapModel.v (up, down, Push, Pop, Remove); slices behave as lists; lengths fit in int",
        "sync.Mutex gives mutual exclusion, so a jobQueue method whose body is bracketed by Lock/defer Unlock is one atomic step",
        "strings.HasPrefix/HasSuffix/Contains behave as documented (modelled in Matcher.v, exercised by the matcher matrix)",
        "entries reach the default queue as *scheduledJob (foreign ScheduledJob implementations panic in priorityQueue.Push by design)",
    ])
    return 1 if ctx.violations else 0


def setup():
    """./check --setup: pre-build the race-enabled harness and the extracted model's driver."""
    vlib.go_build("queueh", race=True)
    if os.path.exists(os.path.join(vlib.VERIF, "ocaml", PROJ, "gen", "qmodel.ml")):
        vlib.ocaml_build(PROJ)


def replay(ctx, path):
    obj = json.load(open(path))
    c = obj.get("case", {})
    if c.get("kind") == "conc":
        binr, out = vlib.go_build("queueh", race=True)
        conc, why = run_conc(binr, c["seed"], c["rounds"])
        print(json.dumps({"result": conc, "why": why}))
        if why:
            vlib.report_violation(ctx, {"case": c, "why": why})
            return 1
        return 0
    if "calls" not in c:
        print("nothing to replay in %s (no failing input was recorded)" % path)
        return 0
    binp, out = vlib.go_build("queueh")
    os.makedirs(CASEDIR, exist_ok=True)
    inp = os.path.join(CASEDIR, "c11-replay-in.txt")
    outp = os.path.join(CASEDIR, "c11-replay-out.txt")
    with open(inp, "w") as f:
        # a sequence id ending in x: entry objects are shared with a second queue after every call
        f.write("Q replay%s " % ("x" if str(c.get("sequence", "")).endswith("x") else "") + " ; ".join(c["calls"]) + "\n")
    rc, o = vlib.run([binp, "replay", inp, outp], timeout=300)
    if rc != 0:
        raise RuntimeError("queueh replay failed: " + o[-2000:])
    fails = oracle_file(outp, new_stats(), "replay of " + os.path.basename(path))
    print(open(outp).read().splitlines()[-1])
    print(json.dumps(fails))
    if fails:
        vlib.report_violation(ctx, fails[0])
        return 1
    return 0
