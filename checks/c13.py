"""C13 -- failed jobs are retried exactly as configured; panics are contained."""
import json

import vlib
from checks import loop_common as lc

PROJ = lc.PROJ

MANIFEST = dict(
    engine="loop",
    technique="Coq proof about a code-shaped model of executeWithRetries (a function of the scripted attempt outcomes, MaxRetries, the "
              "winner of every retry wait) plus the dispatch transition system, with the loop header, the deferred recover and the select "
              "arms regenerated from the source; scripted jobs on the real scheduler (in child processes) and direct calls compared with the model",
    text="Machine-checked Coq theorems over executeWithRetries as a function of the scripted outcome stream (Ok/Fail/Panic), MaxRetries (any "
         "integer; negative behaves like 0), the retry interval and the winner of each retry wait (timer or ctx.Done): without cancellation and "
         "panic the number of attempts is 1 + min(max 0 MaxRetries, failures before the first success); with cancellation it is never more and "
         "no attempt starts after a wait observed ctx.Done; consecutive attempts are separated by a completed RetryInterval wait; for every "
         "outcome stream the call returns, a panicking attempt is the last event and is recovered; in the dispatch transition system a "
         "panicking execution ends exactly like a returning one for the loop goroutine, worker i and a job goroutine (worker back in its "
         "select, wg decremented, queue untouched). The loop bounds `i := 1; i <= MaxRetries`, the deferred recover, the timer/ctx.Done select "
         "and the break-on-success are regenerated from scheduler.go on every run. Scripted jobs (fail k times then succeed, always fail, panic "
         "on attempt j) x MaxRetries {-1,0,1,2,3,7, math.MaxInt, MaxInt-1, math.MinInt, MinInt+1} x intervals {0,1,20 ms} x three modes x cancellation before / during the wait / during an "
         "attempt run on the real scheduler in child processes (an unrecovered panic is itself detected), jobs whose Description() panics as well (explicitly or by a nil dereference shared with Execute) "
         "while Execute panics, fails until the retries are used up or succeeds, plus direct calls through "
         "VerifExecuteWithRetries; attempt counts are compared with the Coq model and spacing, sibling progress, the job's next fire time "
         "and Wait are checked. Real-time spacing is observed, not proved.",
    design_ref="6 C13")


def fails_before(script):
    n = 0
    for x in script:
        if x not in ("fail", "deadline", "wrapcancel"):
            break
        n += 1
    return n


def oracle(o):
    sp = o["spec"]
    sc = sp["script"]
    budget = max(0, sp["maxr"])
    n = len(o["attempts"])
    why = []
    if o["crashed"]:
        if sp.get("desc"):
            return ["the scheduler process died while it was running a job whose Description() panics (%s) and whose Execute follows the script %s: "
                    "user code called by the scheduler on behalf of a job was not contained: %s"
                    % (sp["desc"], "always fail" if fails_before(sc) == len(sc) else sc, o.get("detail", "")[:400] or "no output")]
        return ["a panic inside the job was not contained: %s" % (o.get("detail", "")[:300] or "the scheduler process died")]
    full = 1 + (budget if sp.get("forever") else min(budget, fails_before(sc)))
    if o["cancel"] == "none":
        if n != full:
            why.append("%d attempts were made, 1 + min(MaxRetries=%d, %d failures before the first non-failure) = %d" % (n, sp["maxr"], fails_before(sc), full))
    elif o["cancel"] == "zero_interval":
        if o.get("attempts_after_stop"):
            why.append("RetryInterval 0: %d attempt(s) were started more than 50 ms after Stop() although the job's context was cancelled" % o["attempts_after_stop"])
    elif o["cancel"] == "precancelled":
        if n != 1:
            why.append("%d attempts although the context was cancelled before the call" % n)
    else:
        if n > full or n < 1:
            why.append("%d attempts with cancellation, more than the %d allowed" % (n, full))
        if o["cancel"] == "during_wait" and n != 1:
            why.append("%d attempts although the scheduler was stopped during the first retry wait" % n)
        if o["cancel"] == "during_attempt" and n != 2:
            why.append("%d attempts although the scheduler was stopped during the second attempt" % n)
        if o["cancel"] == "before_wait" and sp["interval_ms"] >= 20 and n != 1:
            why.append("%d attempts although the scheduler was stopped before the first retry wait" % n)
    for a, b in zip(o["attempts"], o["attempts"][1:]):
        if a["e"] >= 0 and b["s"] - a["e"] < sp["interval_ms"] * 1000 - 300:
            why.append("attempts separated by %d us, RetryInterval is %d ms" % (b["s"] - a["e"], sp["interval_ms"]))
            break
    if o["via"] == "scheduler" and o["cancel"] == "none":
        n2 = len(o.get("attempts2") or [])
        if n2 != full:
            why.append("the job's second fire time got %d attempts, the first %d, configured 1 + min(MaxRetries, failures) = %d" % (n2, n, full))
        a2 = o.get("attempts2") or []
        for a, b in zip(a2, a2[1:]):
            if a["e"] >= 0 and b["s"] - a["e"] < sp["interval_ms"] * 1000 - 300:
                why.append("second fire: attempts separated by %d us, RetryInterval is %d ms" % (b["s"] - a["e"], sp["interval_ms"]))
                break
    if o["via"] == "scheduler":
        if not o["wait_returned"]:
            why.append("Wait did not return after Stop")
        if o["cancel"] == "none":
            if o["later_fires"] < 1:
                why.append("the job's next fire time was not executed")
            if o["sibling_after"] < 3:
                why.append("a sibling job stopped running")
    elif not o.get("returned") and not o["crashed"]:
        why.append("the direct call did not return")
    return why


MODEL_V = """From Coq Require Import ZArith List Bool.
Require Import QzLoop.Gen.Params QzLoop.LoopModel QzLoop.Retry.
Import ListNotations.
Open Scope Z_scope.
Definition outs (l : list outc) (k : nat) : outc := nth k l AOk.
Definition ws (cancel_at : option nat) (k : nat) : wsel :=
  match cancel_at with Some n => if Nat.eqb k n then WDone 0 else WTimer 0 | None => WTimer 0 end.
Definition kind (f : rfinal) : nat := match f with RReturned false => 0 | RReturned true => 1 | RRecovered => 2 | RCrashed => 3 | RFuelOut => 4 end%%nat.
(* evaluated with a recursion fuel of the script's length: by C13_fuel_irrelevant this IS execute_with_retries unless
   the result is RFuelOut (kind 4, reported as a mismatch); retry_fuel itself is a unary number of the size of MaxRetries *)
Definition model (l : list outc) (maxr ri : Z) (c : option nat) : nat * nat :=
  let r := execute_with_retries_fuel (outs l) (fun _ => 0) (ws c) maxr ri (length l + 3) 0 in (r_att (fst r), kind (snd r)).
Definition cases : list (nat * (list outc * Z * Z * option nat * nat * bool)) := [
%s
].
(* (index, (script, MaxRetries, interval, wait that sees Done, observed attempts, observed panic in the last attempt)) *)
Definition MISMATCH := Eval vm_compute in
  flat_map (fun x => let '(id, (l, m, ri, c, n, p)) := x in
    let '(a, k) := model l m ri c in
    if Nat.eqb a n && Bool.eqb (Nat.eqb k 2) p && negb (Nat.leb 3 k) then [] else [id]) cases.
Print MISMATCH.
"""

OUTC = {"ok": "AOk", "fail": "AFail", "panic": "APanic", "deadline": "AFail", "wrapcancel": "AFail"}


def model_mismatches(rows):
    items, idx = [], []
    for i, o in enumerate(rows):
        if o["crashed"]:
            continue
        sp = o["spec"]
        c = {"none": "None", "precancelled": "(Some 0%nat)", "during_wait": "(Some 0%nat)", "during_attempt": "(Some 1%nat)"}.get(o["cancel"])
        if o["cancel"] == "before_wait":
            c = "(Some 0%nat)" if sp["interval_ms"] >= 20 else None
        if c is None:
            continue
        n = len(o["attempts"])
        panicked = n >= 1 and n <= len(sp["script"]) and sp["script"][n - 1] == "panic"
        items.append("(%d%%nat, ([%s], %s, %s, %s, %d%%nat, %s))" % (
            i, "; ".join(OUTC[x] for x in sp["script"]), lc.z(sp["maxr"]), lc.z(sp["interval_ms"]), c, n, "true" if panicked else "false"))
        idx.append(i)
    ids, out = lc.coq_eval_list("c13_cases", MODEL_V % ";\n".join(items))
    if ids is None:
        return None, out
    return [{"case": {"via": rows[i]["via"], "mode": rows[i]["mode"], "cancel": rows[i]["cancel"], "spec": rows[i]["spec"]},
             "observed_attempts": len(rows[i]["attempts"]),
             "what": "the number of attempts (or whether the last one panicked) differs from the Coq model of executeWithRetries"} for i in ids], out


def run_retry(binp, seed, tier, only=None):
    cmd = [binp, "retry", str(seed), tier] + ([only] if only else [])
    rc, rows, out = lc.run_json(cmd, timeout=1200)
    if rc != 0:
        raise RuntimeError("looph retry failed: " + out[-2000:])
    return norm([r for r in rows if r.get("kind") == "retry"])


def norm(rows):
    for r in rows:
        if r.get("attempts") is None:
            r["attempts"] = []
    return rows


def run_direct(binp, seed):
    rc, rows, out = lc.run_json([binp, "direct", str(seed)], timeout=600)
    rows = norm([r for r in rows if r.get("kind") == "retry"])
    if rc != 0:
        # the harness process died inside a direct call: that is an uncontained panic
        rows.append({"kind": "retry", "via": "direct", "mode": "direct", "cancel": "none", "crashed": True, "attempts": [], "wait_returned": True,
                     "spec": {"name": "direct", "script": ["panic"], "maxr": 0, "interval_ms": 0}, "detail": out[-600:]})
    return rows


def run(ctx):
    res, broken = vlib.proof_step(ctx, PROJ, "C13", lc.genparams)
    binp = lc.looph()
    rows = run_direct(binp, ctx.seed) + run_retry(binp, ctx.seed, ctx.tier)
    failures, mismatches = [], []
    suspects = [o for o in rows if oracle(o)]
    tried = 0
    for o in suspects:
        why = oracle(o)
        if len(failures) >= 4 or tried >= 8:
            break   # enough evidence: every further confirmation costs a child process run
        tried += 1
        confirmed = o["via"] == "direct"
        if not confirmed:
            again = run_retry(binp, ctx.seed + 1, "thorough", only=o["spec"]["name"])
            again = [x for x in again if x["mode"] == o["mode"] and x["cancel"] == o["cancel"]]
            confirmed = any(oracle(x) for x in again) or not again
        if confirmed:
            failures.append({"case": {"via": o["via"], "mode": o["mode"], "cancel": o["cancel"], "spec": o["spec"]}, "why": why,
                             "failing_cases_in_this_run": len(suspects), "attempts_us": o["attempts"], "how": "looph retry/direct: a scripted job whose k-th attempt has the listed outcome"})
    if lc.model_available():
        bad, out = model_mismatches(rows)
        if bad is None:
            mismatches.append({"error": "model evaluation failed", "detail": out[-1500:]})
        else:
            mismatches += bad

    def search():
        found = []
        for o in run_direct(binp, ctx.seed + 1) + run_retry(binp, ctx.seed + 1, "thorough"):
            why = oracle(o)
            if why:
                found.append({"case": {"via": o["via"], "mode": o["mode"], "cancel": o["cancel"], "spec": o["spec"]}, "why": why, "attempts_us": o["attempts"]})
        return found[:3]

    vlib.decide(ctx, broken, failures, mismatches, search, max_lines=3)
    cov = vlib.proof_coverage(res, PROJ, "C13")
    cov.update({
        "evaluations": len(rows), "attempts_observed": sum(len(o["attempts"]) for o in rows),
        "distinct_nontrivial": len({json.dumps([o["via"], o["mode"], o["cancel"], o["spec"]["script"], o["spec"]["maxr"], o["spec"]["interval_ms"]])
                                    for o in rows if len(o["attempts"]) >= 2}),
        "rule": "scripts {fail^k ok (k=0,1,2,3,5,8), always fail, failures that are or wrap context.DeadlineExceeded / context.Canceled, fail^j panic (j=0,1,2,4)} x MaxRetries {-1,0,1,2,3,7} and {MaxInt, MaxInt-1, MinInt, MinInt+1} x interval {0,1,20 ms} x "
                "{unbounded, pool, blocking} in child processes + jobs whose Description() panics / dereferences nil (Execute panics, exhausts its retries, succeeds) + cancellation before/during wait/during attempt + direct calls; "
                "non-trivial = at least one retry happened",
        "samples": [{"spec": o["spec"], "mode": o["mode"], "attempts": len(o["attempts"])} for o in rows[5:8]],
        "exhaustive": False, "model_mismatches": len(mismatches), "oracle_failures": len(failures),
        "partial_runtime": "the real-time distance between attempts and the survival of the process after a panic are observed, not proved",
    })
    vlib.write_evidence(ctx, cov, assumptions=[
        "a deferred function that calls recover() stops a panic raised by job.Execute in the same goroutine",
        "time.Timer does not fire before its duration has elapsed; when the timer and ctx.Done are both ready either arm may be taken",
        "the job's Execute returns (or panics) in finite time",
    ])
    return 1 if ctx.violations else 0


def replay(ctx, path):
    obj = json.load(open(path))
    c = obj.get("case", {})
    binp = lc.looph()
    if c.get("via") == "direct":
        rows = [o for o in run_direct(binp, ctx.seed) if o["spec"] == c["spec"] and o["cancel"] == c["cancel"]] or run_direct(binp, ctx.seed)[-1:]
    else:
        rows = [o for o in run_retry(binp, ctx.seed, "thorough", only=c["spec"]["name"]) if o["mode"] == c["mode"] and o["cancel"] == c["cancel"]]
    for o in rows:
        why = oracle(o)
        print(json.dumps({"spec": o["spec"], "attempts": len(o["attempts"]), "why": why}))
        if why:
            vlib.report_violation(ctx, {"case": c, "why": why})
            return 1
    return 0
