"""C01 -- cron fire times always satisfy the expression (soundness)."""
import json

import vlib
from checks import cron_common as cc

PROJ = cc.PROJ
genparams = cc.genparams

MANIFEST = dict(
    engine="cron",
    technique="Coq proof: the state machine of internal/csm computes the least all-valid state above the start "
              "(generic invariant proof + node lemmas + calendar lemmas), lifted to NextFireTime; extracted model "
              "and declarative `matches` oracle run against the real trigger"
              " + source-to-Gallina translation of internal/csm's node level proved equivalent to the model (SrcTie)",
    text="Machine-checked: for every well-formed parsed expression, every fixed offset within +-26h (and every zone table), "
         "every prev in [MinInt64, MaxInt64] (instants before 1970 included), a value returned by the model of NextFireTime is a whole second strictly after prev whose "
         "civil reading in the location satisfies every field of the expression, including L, L-n, nW, LW, nL, n#k, and is a real "
         "calendar date (no rollover of impossible dates). The code-shaped model (node bounds regenerated from quartz/csm.go) is "
         "extracted to OCaml and compared with the real CronTrigger on grammar-generated expressions with prev placed at month "
         "ends, leap days, year ends, midnight, around fire times and along chains, in UTC and fixed offsets; independently the "
         "declarative `matches` is evaluated on every value the implementation returns; calendar helpers and L/W/# day targets "
         "are swept over every month."
         " The node level of internal/csm (util.go, common_node.go, day_node.go: every function) is additionally translated from the Go SOURCE into Gallina on every run (Gen/CsmSrc.v) and proved equal to the model's node functions for all inputs (SrcEquiv.v, Props/SrcTie.v), so a change of these functions breaks a proof obligation even where no sampled input shows it.",
    design_ref="6 C01")


def run(ctx):
    res, broken = vlib.proof_step(ctx, PROJ, "C01", genparams)
    res, broken = cc.compose_step(ctx, "C01", res, broken)
    hbin, dbin = cc.build_tools()
    n = 2500 if ctx.tier == "quick" else 40000
    recs = cc.run_sharded(hbin, dbin, "fixed", ctx.seed, n)
    cases = [c for r in recs for c in r["cases"]]
    failures = [{"case": cc.case_view(c), "why": ["the returned instant's reading in the location does not satisfy the expression, "
                                                  "is not a whole second, or is not after prev (declarative `matches`)"],
                 "replay": {"expr": c["expr"], "loc": c["loc"], "prev": c["prev"]}}
                for c in cases if c["match"] == "0"]
    failures += [dict(p, case=p.get("case")) for p in cc.harness_problems(recs) if p["kind"] in ("hang", "crash")]
    # the expression AS WRITTEN (the value sets the generator rendered into text), independent of the parser's output
    failures += [{"case": {"expr": t[2].replace("\\t", "\t"), "loc": t[3], "prev": int(t[4]), "go": t[5], "reading": t[6]},
                  "why": ["the returned instant (%s local) does not satisfy the expression as written: the parser gave the text another meaning "
                          "than the documented one, or the trigger fired on a non-matching date" % t[6]],
                  "replay": {"expr": t[2].replace("\\t", "\t"), "loc": t[3], "prev": int(t[4])}}
                 for r in recs for t in r["other"] if t and t[0] == "G" and len(t) >= 7][:3]
    mism = [{"case": cc.case_view(c), "what": "model and implementation return different results"} for c in cases if c["model"] != c["go"]]
    mism += [{"case": cc.case_view(c), "what": "the parser accepted an expression whose parsed fields are not well-formed (wf_fields, the hypothesis of the theorems, fails)"}
             for c in cases if c.get("wf") != "wf=1"]
    ystep = 9 if ctx.tier == "quick" else 1
    aux = cc.run_aux(hbin, dbin, "cal", ystep) + cc.run_aux(hbin, dbin, "dayn", ystep)
    naux, auxbad = cc.aux_compare(aux)
    mism += [{"case": b, "what": "calendar helper / day target differs between model and implementation"} for b in auxbad]

    def is_failure(c):
        return ["declarative `matches` rejects the implementation's result (or it is not a whole second after prev)"] if c["match"] == "0" else []

    def search():
        found = cc.directed_from_calendar(hbin, dbin, auxbad, is_failure)
        if found:
            return found
        recs2 = cc.run_sharded(hbin, dbin, "fixed", ctx.seed + 7777, 30000)
        return [{"case": cc.case_view(c), "why": is_failure(c), "replay": {"expr": c["expr"], "loc": c["loc"], "prev": c["prev"]}}
                for r in recs2 for c in r["cases"] if c["match"] == "0"][:3]

    extra = {}
    if ctx.tier == "thorough":
        info, bad = cc.coq_sample(recs)
        extra["in_coq_reevaluation"] = info
        mism += [{"case": b, "what": "in-Coq (vm_compute) evaluation of the model differs from the implementation"} for b in bad]
    vlib.decide(ctx, broken, failures, mism, search)
    cov = vlib.proof_coverage(res, PROJ, "C01")
    cov.update(extra)
    cov.update({
        "evaluations": len(cases) + naux,
        "distinct_nontrivial": cc.distinct_nontrivial(cases),
        "rule": "expressions generated from the grammar (sets rendered as lists/ranges/steps/names, all nine day-rule kinds, year absent/*/restricted/beyond 2262); "
                "prev placed at month ends, leap days, year ends, midnight, uniformly, around fire times (-1ns, -1s, +sub-second) and along chains, UTC and 15 fixed offsets; "
                "non-trivial = result is a fire time other than prev's next second; calendar helpers for every day and L/W/# targets for every month of the swept years",
        "samples": [cc.case_view(c) for c in cases[:3]],
        "placement_histogram": cc.placement_hist(cases),
        "day_rule_histogram": cc.kind_hist(cases),
        "exhaustive_sweeps": {"calendar_and_day_targets": naux, "year_step": ystep},
        "model_mismatches": len(mism), "oracle_failures": len(failures),
        "results": {"fire": sum(1 for c in cases if c["go"].startswith("F")), "expired": sum(1 for c in cases if c["go"] == "E")},
    })
    vlib.write_evidence(ctx, cov, assumptions=[
        "the parser's output is what NextFireTime acts on (fields read through the verif hook; parser itself is C07)",
        "Go's time package (Date, Unix, In, Weekday, AddDate) is the reference for civil arithmetic; the model's calendar is compared with it on every swept day",
        "theorems assume wf_fields (proved of every accepted expression in C07) and |offset| <= 26h",
    ])
    return 1 if ctx.violations else 0


def replay(ctx, path):
    obj = json.load(open(path))
    return cc.replay_case(ctx, obj, lambda c: c["match"] == "0" or c["model"] != c["go"])
