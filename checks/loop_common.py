"""Shared helpers of the loop engine's checks (C05, C10, C12, C13, C15)."""
import json
import os
import re

import vlib

PROJ = "loop"
FAR = 9223372036854775807


def genparams():
    binp, out = vlib.go_build("genparams")
    if binp is None:
        return False, out
    rc, out = vlib.run([binp, "-repo", vlib.REPO, "loop"])
    if rc != 0:
        return False, out
    vlib.write_if_changed(os.path.join(vlib.coq_dir(PROJ), "theories", "Gen", "Params.v"), out)
    return True, ""


def looph():
    binp, out = vlib.go_build("looph")
    if binp is None:
        raise RuntimeError("cannot build looph: " + out[-3000:])
    return binp


def run_json(cmd, timeout=600, env_extra=None):
    rc, out = vlib.run(cmd, timeout=timeout, env_extra=env_extra)
    rows = []
    for l in out.splitlines():
        if l.startswith("{"):
            try:
                rows.append(json.loads(l))
            except ValueError:
                pass
    return rc, rows, out


def z(v):
    v = int(v)
    return "(%d)" % v if v < 0 else "%d" % v


def zlist(vs):
    return "[" + "; ".join(z(v) for v in vs) + "]"


def model_available():
    return os.path.exists(os.path.join(vlib.coq_dir(PROJ), "theories", "LoopModel.vo"))


def coq_eval_list(name, source, var="MISMATCH"):
    """Compile `source` inside the loop project and parse `var = [ ... ]` (a list of nat or of pairs of nat)."""
    rc, out = vlib.coq_eval(PROJ, name, source)
    if rc != 0:
        return None, out
    flat = out.replace("\n", " ")
    m = re.search(var + r"\s*=\s*(\[.*?\])\s*:\s*list", flat)
    if not m:
        return None, out
    body = m.group(1).strip()[1:-1].strip()
    if not body:
        return [], out
    items = []
    for part in re.split(r";\s*(?![^()]*\))", body):
        nums = [int(x) for x in re.findall(r"-?\d+", part.replace("%nat", "").replace("%Z", ""))]
        items.append(tuple(nums) if len(nums) > 1 else nums[0])
    return items, out
