"""Shared helpers of the loop engine's checks (C05, C10, C12, C13, C15)."""
import json
import os
import re

import vlib

PROJ = "loop"
FAR = 9223372036854775807


def genparams():
    binp, out = vlib.go_build("genparams")
    if binp is None:
        return False, out
    rc, out = vlib.run([binp, "-repo", vlib.REPO, "loop"])
    if rc != 0:
        return False, out
    vlib.write_if_changed(os.path.join(vlib.coq_dir(PROJ), "theories", "Gen", "Params.v"), out)
    return True, ""


def looph():
    binp, out = vlib.go_build("looph")
    if binp is None:
        raise RuntimeError("cannot build looph: " + out[-3000:])
    return binp


def run_json(cmd, timeout=600, env_extra=None):
    rc, out = vlib.run(cmd, timeout=timeout, env_extra=env_extra)
    rows = []
    for l in out.splitlines():
        if l.startswith("{"):
            try:
                rows.append(json.loads(l))
            except ValueError:
                pass
    return rc, rows, out


def z(v):
    v = int(v)
    return "(%d)" % v if v < 0 else "%d" % v


def zlist(vs):
    return "[" + "; ".join(z(v) for v in vs) + "]"


def model_available():
    return os.path.exists(os.path.join(vlib.coq_dir(PROJ), "theories", "LoopModel.vo"))


def coq_eval_list(name, source, var="MISMATCH"):
    """Compile `source` inside the loop project and parse `var = [ ... ]` (a list of nat or of pairs of nat)."""
    rc, out = vlib.coq_eval(PROJ, name, source)
    if rc != 0:
        return None, out
    flat = out.replace("\n", " ")
    m = re.search(var + r"\s*=\s*(\[.*?\])\s*:\s*list", flat)
    if not m:
        return None, out
    body = m.group(1).strip()[1:-1].strip()
    if not body:
        return [], out
    items = []
    for part in re.split(r";\s*(?![^()]*\))", body):
        nums = [int(x) for x in re.findall(r"-?\d+", part.replace("%nat", "").replace("%Z", ""))]
        items.append(tuple(nums) if len(nums) > 1 else nums[0])
    return items, out


def restart_oracle(r):
    why = []
    if r.get("error"):
        why.append("restart scenario could not be driven: " + r["error"])
    elif r["executed"] == 0 and r["variant"].startswith("slowpush"):
        why.append("ResumeJob of a due job on a queue whose Push is slow (%s): the loop was woken before the change was in the queue and the "
                   "resumed job was not executed within 5 s after ResumeJob had returned" % r["variant"])
    elif r["executed"] == 0 and r["variant"] == "popfault":
        why.append("after one transient Pop failure the loop sat in its RetryInterval wait (8 s); a job scheduled meanwhile, due at once, was not "
                   "executed within 5 s: the wake-up did not make the loop recompute its timer")
    elif r["executed"] == 0 and r["variant"] == "replacegap":
        why.append("ScheduleJob(Replace) of the job being dispatched (the loop was between Pop and its re-Push, inside a slow trigger): the "
                   "replacement, due at once, was not executed within 5 s")
    elif r["executed"] == 0 and r["variant"] == "startoverlap":
        why.append("a ScheduleJob whose slow Push overlapped Start: the loop was parked on the empty queue when the job landed and the job, due at "
                   "once, was not executed within 5 s (no wake-up)")
    elif r["executed"] == 0:
        why.append("after Stop(); Start() with the loop of the stopped run still alive (%s), a due job scheduled for the new run was not executed "
                   "within 5 s: its wake-up was consumed by the stopped run's loop" % r["variant"])
    elif r["by_stopped_run"]:
        why.append("the loop of the stopped run dequeued and executed a job of the new run (cancelled context)")
    elif r["executed"] > 1:
        why.append("the due job was executed %d times" % r["executed"])
    return why


STALE = {}


def run_restart(binp, seed, n):
    rc, rows, out = run_json([binp, "restart", str(seed), str(n)], timeout=600)
    if rc != 0:
        raise RuntimeError("looph restart failed: " + out[-2000:])
    STALE[(seed, n)] = [r for r in rows if r.get("kind") == "staleworker"]
    return [r for r in rows if r.get("kind") == "restart"]


def stale_worker_oracle(r, bound_only=False):
    why = []
    if r.get("error"):
        return ["stale-worker scenario could not be driven: " + r["error"]]
    if r["entered_with_cancelled_ctx"] and not bound_only:
        why.append("after Stop(); Start() with WorkerLimit %d and a worker of the stopped run still busy, %d job(s) scheduled in the new run were "
                   "entered with a cancelled context (taken by a worker of the stopped run)" % (r["limit"], r["entered_with_cancelled_ctx"]))
    if r["max_inflight_new_run"] > r["limit"]:
        why.append("%d jobs of the new run were executing at once, WorkerLimit is %d (a worker of the stopped run took a hand-over of the new run)"
                   % (r["max_inflight_new_run"], r["limit"]))
    if not bound_only:
        if r["new_run_execs"] < 2 * r["limit"]:
            why.append("only %d of %d jobs of the new run were executed" % (r["new_run_execs"], 2 * r["limit"]))
        if not r["wait_returned"]:
            why.append("Wait did not return after Stop")
    return why


def stale_worker_failures(binp, seed, n, bound_only=False):
    if (seed, n) not in STALE:
        run_restart(binp, seed, n)
    rows = STALE[(seed, n)]
    bad = [r for r in rows if stale_worker_oracle(r, bound_only)]
    out = []
    if bad:
        run_restart(binp, seed + 1, n)
        again = [r for r in STALE[(seed + 1, n)] if stale_worker_oracle(r, bound_only)]
        if again:
            r = bad[0]
            out.append({"case": {"kind": "staleworker", "limit": r["limit"], "seed": seed, "n": n}, "why": stale_worker_oracle(r, bound_only),
                        "failing_trials": "%d of %d, then %d of %d" % (len(bad), len(rows), len(again), len(STALE[(seed + 1, n)])),
                        "how": "looph restart (staleworker): WorkerLimit(n); n jobs of run 1 still executing; Stop(); Start(); n jobs occupy the new "
                               "workers, n more are due (the new loop is handing over); then the old jobs return"})
    return rows, out


def restart_failures(binp, seed, n):
    """Trials of the restart scenario that fail the oracle, confirmed by a second batch."""
    rows = run_restart(binp, seed, n)
    bad = [r for r in rows if restart_oracle(r)]
    out = []
    if bad:
        again = [r for r in run_restart(binp, seed + 1, n) if restart_oracle(r)]
        if again:
            r = ([x for x in bad if x["variant"] in {y["variant"] for y in again}] or bad)[0]
            out.append({"case": {"kind": "restart", "variant": r["variant"], "seed": seed, "n": n}, "why": restart_oracle(r), "trace": r["trace"],
                        "failing_trials": "%d of %d, then %d of %d" % (len(bad), len(rows), len(again), n),
                        "how": "looph restart: (job/queue) Stop(); Start() while the old loop is inside a blocking job / a slow Size(); the new loop "
                               "held between Head() and select; ScheduleJob of a due job; then the old loop continues.  (slowpush-*) ResumeJob of a "
                               "due job with its Push held back while the loop is parked"})
    return rows, out
