"""C02 -- cron never skips a matching instant; expiry is reported exactly."""
import json

import vlib
from checks import cron_common as cc

PROJ = cc.PROJ
genparams = cc.genparams

MANIFEST = dict(
    engine="cron",
    technique="Coq proof of leastness and expiry-iff for the state machine model (same development as C01); extracted model, "
              "extracted declarative reference search and an independent Go day-by-day oracle run against the real trigger"
              " + source-to-Gallina translation of internal/csm's node level proved equivalent to the model (SrcTie)",
    text="Machine-checked for every well-formed expression, fixed offset within +-26h and prev in [MinInt64, MaxInt64] (instants before 1970 included): no whole-second "
         "instant strictly between prev and the returned value satisfies the expression; Expired is returned iff no satisfying "
         "instant exists up to the int64-nanosecond limit (year field exhausted, day rule never matching again, result beyond "
         "2262); iterating enumerates every scheduled instant once and in order. The correspondence run compares the real "
         "CronTrigger with the extracted model and with a specification-level reference search (least matching civil tuple by "
         "walking months and days) on the same placement grid as C01, with expiry-focused expressions (bounded year sets, day "
         "30/31 of short months, L-31, n#5); the thorough tier adds an independent brute-force oracle written in Go."
         " The node level of internal/csm (util.go, common_node.go, day_node.go: every function) is additionally translated from the Go SOURCE into Gallina on every run (Gen/CsmSrc.v) and proved equal to the model's node functions for all inputs (SrcEquiv.v, Props/SrcTie.v), so a change of these functions breaks a proof obligation even where no sampled input shows it.",
    design_ref="6 C02")


def run(ctx):
    res, broken = vlib.proof_step(ctx, PROJ, "C02", genparams)
    res, broken = cc.compose_step(ctx, "C02", res, broken)
    hbin, dbin = cc.build_tools()
    n = 2500 if ctx.tier == "quick" else 40000
    brute_n = 400 if ctx.tier == "quick" else 8000
    recs = cc.run_sharded(hbin, dbin, "fixed", ctx.seed + 1, n)
    recs_b = cc.run_sharded(hbin, dbin, "fixed", ctx.seed + 2, brute_n, extra=["-brute"])
    cases = [c for r in recs + recs_b for c in r["cases"]]
    failures = []
    for c in cases:
        why = []
        if c["ref"] not in ("-", "M") and c["ref"] != c["go"]:
            why.append("the declarative reference search finds %s, the implementation returned %s" % (c["ref"], c["go"]))
        if c["oracle"] not in ("-",) and c["oracle"] != c["go"]:
            why.append("the independent day-by-day oracle finds %s, the implementation returned %s" % (c["oracle"], c["go"]))
        if why:
            failures.append({"case": cc.case_view(c), "why": why, "replay": {"expr": c["expr"], "loc": c["loc"], "prev": c["prev"]}})
    failures += [p for p in cc.harness_problems(recs + recs_b) if p["kind"] in ("hang", "crash")]
    mism = [{"case": cc.case_view(c), "what": "model and implementation return different results"} for c in cases if c["model"] != c["go"]]
    # locations with transitions: "earliest" is then "no FRESH matching instant (one that is not the later occurrence of a
    # local time repeated by a fall-back) lies between prev and the result" (the exact statement is C14's); a small batch
    # around real transitions, judged by the per-second wall clock oracle and compared with the model on Go's zone tables
    zn = 500 if ctx.tier == "quick" else 6000
    zrecs = cc.run_sharded(hbin, dbin, "zone", ctx.seed + 3, zn, extra=["-zones", ",".join(cc.QUICK_ZONES)], shards=6)
    zcases = [c for r in zrecs for c in r["cases"]]
    failures += [{"case": cc.case_view(c), "why": ["in a location with transitions a matching instant that is not a repeat was passed over: " + c["oracle"]],
                  "replay": {"expr": c["expr"], "loc": c["loc"], "prev": c["prev"]}}
                 for c in zcases if c["oracle"].startswith("skipped-non-repeated")]
    mism += [{"case": cc.case_view(c), "what": "model (on Go's zone table) and implementation return different results"} for c in zcases if c["model"] != c["go"]]
    # calendar helpers and L/W/# day targets: every leap year and every 9th year (thorough: every year) of 1969..2263
    ystep = 9 if ctx.tier == "quick" else 1
    naux, auxbad = cc.aux_compare(cc.run_aux(hbin, dbin, "cal", ystep) + cc.run_aux(hbin, dbin, "dayn", ystep))
    mism += [{"case": b, "what": "calendar helper / day target differs between model and implementation"} for b in auxbad]

    def is_failure(c):
        why = []
        if c["ref"] not in ("-", "M") and c["ref"] != c["go"]:
            why.append("the declarative reference search finds %s, the implementation returned %s" % (c["ref"], c["go"]))
        if c["oracle"] not in ("-",) and c["oracle"] != c["go"]:
            why.append("the independent day-by-day oracle finds %s, the implementation returned %s" % (c["oracle"], c["go"]))
        return why

    def search():
        found = cc.directed_from_calendar(hbin, dbin, auxbad, is_failure)
        if found:
            return found
        recs2 = cc.run_sharded(hbin, dbin, "fixed", ctx.seed + 8888, 20000, extra=["-brute"])
        out = []
        for r in recs2:
            for c in r["cases"]:
                why = is_failure(c)
                if why:
                    out.append({"case": cc.case_view(c), "why": why, "replay": {"expr": c["expr"], "loc": c["loc"], "prev": c["prev"]}})
        return out[:3]

    vlib.decide(ctx, broken, failures, mism, search)
    cov = vlib.proof_coverage(res, PROJ, "C02")
    cov.update({
        "evaluations": len(cases) + naux,
        "calendar_sweep": naux,
        "distinct_nontrivial": cc.distinct_nontrivial(cases),
        "rule": "same generator as C01 (all nine day-rule kinds, year sets ending before/at/after prev, days 29-31, L-k, n#5); every result compared with the extracted "
                "reference search; %d expressions additionally with the Go brute-force oracle; non-trivial = a fire time other than prev's next second" % brute_n,
        "samples": [cc.case_view(c) for c in cases[:2]] + [cc.case_view(c) for c in cases if c["go"] == "E"][:2],
        "placement_histogram": cc.placement_hist(cases),
        "day_rule_histogram": cc.kind_hist(cases),
        "model_mismatches": len(mism), "oracle_failures": len(failures),
        "results": {"fire": sum(1 for c in cases if c["go"].startswith("F")), "expired": sum(1 for c in cases if c["go"] == "E")},
        "brute_oracle_cases": sum(len(r["cases"]) for r in recs_b),
        "zone_cases": len(zcases),
    })
    vlib.write_evidence(ctx, cov, assumptions=[
        "theorems are for fixed-offset locations (UTC included); locations with transitions are C14",
        "the reference search is the declarative specification made executable (months and days walked in order); the Go oracle shares nothing with it but Go's time package",
    ])
    return 1 if ctx.violations else 0


def replay(ctx, path):
    obj = json.load(open(path))
    return cc.replay_case(ctx, obj, lambda c: c["model"] != c["go"] or (c["ref"] not in ("-", "M") and c["ref"] != c["go"]) or str(c.get("oracle", "")).startswith("skipped-non-repeated"))
