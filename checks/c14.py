"""C14 -- cron triggers stay correct and alive across daylight-saving transitions."""
import json

import vlib
from checks import cron_common as cc

PROJ = cc.PROJ
genparams = cc.genparams

MANIFEST = dict(
    engine="cron",
    technique="Coq proof over ALL zone tables with bounded offsets and spaced transitions (soundness on the local wall clock, "
              "termination, and completeness up to repeated local times: exactness of firstAfter + loop invariant); extracted "
              "model fed Go's own transition tables and a per-second wall-clock oracle on real IANA zones"
              " + source-to-Gallina translation of internal/csm's node level proved equivalent to the model (SrcTie)",
    text="Machine-checked for every zone table with offsets within +-26h and transitions more than 52h apart, every well-formed "
         "expression and every prev: a returned instant is strictly after prev and its LOCAL wall clock reading satisfies the "
         "expression (nothing fired early or on a non-matching reading); the call always terminates; a matching instant after prev "
         "that is not the later occurrence of a local time repeated by a fall-back is never passed over, hence only such repeats are "
         "skipped and expiry is never reported while another matching local time remains (gap times have no instant and are not "
         "fired); a table without transitions reduces to the fixed-offset theorems of C02. The tie to the code: the extracted model is "
         "fed the transition tables Go reports through ZoneBounds (each must satisfy wf_zone) and must agree with the real trigger on "
         "expressions and prevs placed before/inside/after gaps and both passes of repeated hours of real IANA locations (30/45-minute "
         "shifts, Lord Howe, Apia's skipped day, Casablanca); independently a per-second wall-clock scan checks every result."
         " The node level of internal/csm (util.go, common_node.go, day_node.go: every function) is additionally translated from the Go SOURCE into Gallina on every run (Gen/CsmSrc.v) and proved equal to the model's node functions for all inputs (SrcEquiv.v, Props/SrcTie.v), so a change of these functions breaks a proof obligation even where no sampled input shows it.",
    design_ref="6 C14")


def run(ctx):
    res, broken = vlib.proof_step(ctx, PROJ, "C14", genparams)
    res, broken = cc.compose_step(ctx, "C14", res, broken)
    hbin, dbin = cc.build_tools()
    if ctx.tier == "quick":
        zones, n = cc.QUICK_ZONES, 1800
    else:
        zones, n = cc.all_zones(), 30000
    recs = cc.run_sharded(hbin, dbin, "zone", ctx.seed + 5, n, extra=["-zones", ",".join(zones)])
    cases = [c for r in recs for c in r["cases"]]
    failures = []
    for c in cases:
        why = []
        if not c["oracle"].startswith("ok"):
            why.append("per-second wall clock oracle: " + c["oracle"])
        if c["match"] == "0":
            why.append("declarative `matches` rejects the local reading of the returned instant")
        if why:
            failures.append({"case": cc.case_view(c), "why": why, "replay": {"expr": c["expr"], "loc": c["loc"], "prev": c["prev"]}})
    failures += [p for p in cc.harness_problems(recs) if p["kind"] in ("hang", "crash")]
    mism = [{"case": cc.case_view(c), "what": "model (on Go's zone table) and implementation return different results"}
            for c in cases if c["model"] != c["go"]]
    zwf = {}
    for r in recs:
        zwf.update(r["zwf"])
    not_wf = sorted(z for z, v in zwf.items() if v != "wf=1")

    def search():
        recs2 = cc.run_sharded(hbin, dbin, "zone", ctx.seed + 5555, 12000, extra=["-zones", ",".join(zones)])
        return [{"case": cc.case_view(c), "why": ["per-second wall clock oracle: " + c["oracle"]],
                 "replay": {"expr": c["expr"], "loc": c["loc"], "prev": c["prev"]}}
                for r in recs2 for c in r["cases"] if not c["oracle"].startswith("ok")][:3]

    extra = {}
    if ctx.tier == "thorough":
        info, bad = cc.coq_sample(recs)
        extra["in_coq_reevaluation"] = info
        mism += [{"case": b, "what": "in-Coq (vm_compute) evaluation of the model differs from the implementation"} for b in bad]
        if "C14" == "C01":
            ok, summary = cc.coqchk_axioms(PROJ, ["QzCron.Props.C01", "QzCron.Props.C02", "QzCron.Props.C06", "QzCron.Props.C14"])
            extra["coqchk"] = {"ok": ok, "summary": summary}
    vlib.decide(ctx, broken, failures, mism, search)
    cov = vlib.proof_coverage(res, PROJ, "C14")
    cov.update(extra)
    near = [c for c in cases if c["class"] not in ("far", "chain")]
    cov.update({
        "evaluations": len(cases),
        "distinct_nontrivial": len({(c["fields"], c["zone"], c["prev"]) for c in near}),
        "rule": "sub-daily expressions x %d IANA locations; prev placed within a day of a transition, just before/after it, before and after gaps, inside the first and the second "
                "pass of repeated hours, hours around, far away; chains of 4; non-trivial = prev placed relative to a transition; oracle = per-second scan of local readings up to 3 days" % len(zones),
        "samples": [cc.case_view(c) for c in near[:3]],
        "placement_histogram": cc.placement_hist(cases),
        "zones": len(zones), "zones_outside_wf_zone": not_wf,
        "model_mismatches": len(mism), "oracle_failures": len(failures),
    })
    vlib.write_evidence(ctx, cov, assumptions=[
        "zone tables are read from Go (ZoneBounds) at run time and satisfy wf_zone (checked by the driver; exceptions listed in zones_outside_wf_zone are compared with the oracle only)",
        "IANA tz database contents are data, not verified",
    ])
    return 1 if ctx.violations else 0


def replay(ctx, path):
    obj = json.load(open(path))
    return cc.replay_case(ctx, obj, lambda c: c["model"] != c["go"] or c["match"] == "0" or not (c["oracle"].startswith("ok") or c["oracle"] == "-"))
