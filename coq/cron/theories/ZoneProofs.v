(* Facts about zone tables (NextFire.v): period structure of lookup, the two-period lemma for windows of
   width <= 187200, exactness of first_after, and the "repeated reading" lemma. *)
From Coq Require Import ZArith Lia Bool List ZifyBool.
Require Import QzBase.Calendar QzBase.Fields.
Require Import QzCron.Gen.Params QzCron.CsmModel QzCron.NextFire.
Import ListNotations.
Open Scope Z_scope.

(* ---------- period bounds ---------- *)

Definition st_le (st : option Z) (x : Z) : Prop := match st with Some s => s <= x | None => True end.
Definition en_gt (en : option Z) (x : Z) : Prop := match en with Some e => x < e | None => True end.

Lemma st_le_mono : forall st x y, st_le st x -> x <= y -> st_le st y.
Proof. intros [s|] x y H Hxy; cbn [st_le] in *; [lia | exact I]. Qed.

Lemma en_gt_mono : forall en x y, en_gt en y -> x <= y -> en_gt en x.
Proof. intros [e|] x y H Hxy; cbn [en_gt] in *; [lia | exact I]. Qed.

Lemma wf_trans_cons : forall start off w o l,
  wf_trans start off ((w, o) :: l) = true ->
  st_le start (w - 187201) /\ -93600 < o < 93600 /\ wf_trans (Some w) o l = true.
Proof.
  intros start off w o l H. cbn [wf_trans] in H.
  apply andb_true_iff in H. destruct H as [H H4].
  apply andb_true_iff in H. destruct H as [H H3].
  apply andb_true_iff in H. destruct H as [H1 H2].
  split; [|split; [lia| exact H4]].
  destruct start as [s|]; cbn [st_le]; [lia | exact I].
Qed.

(* ---------- period view of lookup_from ---------- *)

Lemma lookup_from_spec : forall l off start t off' st en,
  wf_trans start off l = true -> -93600 < off < 93600 -> st_le start t ->
  lookup_from off start l t = (off', st, en) ->
  -93600 < off' < 93600 /\ st_le st t /\ en_gt en t /\
  (forall s e, st = Some s -> en = Some e -> s + 187200 < e) /\
  (forall x, st_le st x -> st_le start x) /\
  (forall x, st_le st x -> en_gt en x -> lookup_from off start l x = (off', st, en)).
Proof.
  induction l as [|[w o] l IH]; intros off start t off' st en Hwf Hoff Hst Hl.
  - cbn [lookup_from] in Hl. inversion Hl; subst off' st en.
    repeat split; try lia; auto.
    intros s e _ He; discriminate He.
  - cbn [lookup_from] in Hl.
    destruct (wf_trans_cons _ _ _ _ _ Hwf) as (Hsw & Ho & Hwf').
    destruct (t <? w) eqn:Htw.
    + inversion Hl; subst off' st en.
      split; [lia|]. split; [exact Hst|]. split; [cbn [en_gt]; lia|].
      split.
      { intros s e Hs He. inversion He; subst e. rewrite Hs in Hsw. cbn [st_le] in Hsw. lia. }
      split; [auto|].
      intros x Hx Hx'. cbn [en_gt] in Hx'. cbn [lookup_from].
      assert (Hxw : (x <? w) = true) by lia. rewrite Hxw. reflexivity.
    + assert (Hwt : st_le (Some w) t) by (cbn [st_le]; lia).
      destruct (IH o (Some w) t off' st en Hwf' Ho Hwt Hl) as (H1 & H2 & H3 & H4 & H5 & H6).
      split; [exact H1|]. split; [exact H2|]. split; [exact H3|]. split; [exact H4|].
      split.
      { intros x Hx. apply H5 in Hx. cbn [st_le] in Hx.
        apply (st_le_mono start (w - 187201) x Hsw). lia. }
      intros x Hx Hx'. pose proof (H5 x Hx) as Hwx. cbn [st_le] in Hwx.
      cbn [lookup_from].
      assert (Hxw : (x <? w) = false) by lia. rewrite Hxw.
      exact (H6 x Hx Hx').
Qed.

Lemma lookup_from_prev : forall l off start t off' s en,
  wf_trans start off l = true ->
  lookup_from off start l t = (off', Some s, en) ->
  start = Some s \/
  (st_le start (s - 1) /\ exists off'' st'', lookup_from off start l (s - 1) = (off'', st'', Some s)).
Proof.
  induction l as [|[w o] l IH]; intros off start t off' s en Hwf Hl.
  - cbn [lookup_from] in Hl. inversion Hl. left; reflexivity.
  - cbn [lookup_from] in Hl.
    destruct (wf_trans_cons _ _ _ _ _ Hwf) as (Hsw & Ho & Hwf').
    destruct (t <? w) eqn:Htw.
    + inversion Hl. left; reflexivity.
    + destruct (IH o (Some w) t off' s en Hwf' Hl) as [Heq | (Hle & off'' & st'' & Hlk)].
      * inversion Heq; subst s. right. split.
        { apply (st_le_mono start (w - 187201) (w - 1) Hsw). lia. }
        exists off, start. cbn [lookup_from].
        assert (Hxw : (w - 1 <? w) = true) by lia. rewrite Hxw. reflexivity.
      * cbn [st_le] in Hle. right. split.
        { apply (st_le_mono start (w - 187201) (s - 1) Hsw). lia. }
        exists off'', st''. cbn [lookup_from].
        assert (Hxw : (s - 1 <? w) = false) by lia. rewrite Hxw. exact Hlk.
Qed.

Lemma lookup_from_en_gt : forall l off start t off' st en,
  lookup_from off start l t = (off', st, en) -> en_gt en t.
Proof.
  induction l as [|[w o] l IH]; intros off start t off' st en Hl.
  - cbn [lookup_from] in Hl. inversion Hl. exact I.
  - cbn [lookup_from] in Hl. destruct (t <? w) eqn:Htw.
    + inversion Hl. cbn [en_gt]. lia.
    + exact (IH _ _ _ _ _ _ Hl).
Qed.

Lemma lookup_from_at_start : forall l o w,
  wf_trans (Some w) o l = true -> exists en, lookup_from o (Some w) l w = (o, Some w, en).
Proof.
  intros [|[w' o'] l] o w Hwf.
  - exists None. reflexivity.
  - destruct (wf_trans_cons _ _ _ _ _ Hwf) as (Hsw & _ & _). cbn [st_le] in Hsw.
    exists (Some w'). cbn [lookup_from].
    assert (Hxw : (w <? w') = true) by lia. rewrite Hxw. reflexivity.
Qed.

Lemma lookup_from_next : forall l off start t off' st e,
  wf_trans start off l = true ->
  lookup_from off start l t = (off', st, Some e) ->
  exists off'' en'', lookup_from off start l e = (off'', Some e, en'').
Proof.
  induction l as [|[w o] l IH]; intros off start t off' st e Hwf Hl.
  - cbn [lookup_from] in Hl. inversion Hl.
  - destruct (wf_trans_cons _ _ _ _ _ Hwf) as (Hsw & Ho & Hwf').
    cbn [lookup_from] in Hl. destruct (t <? w) eqn:Htw.
    + inversion Hl; subst off' st e.
      destruct (lookup_from_at_start l o w Hwf') as (en'' & Hlk).
      exists o, en''. cbn [lookup_from].
      assert (Hxw : (w <? w) = false) by lia. rewrite Hxw. exact Hlk.
    + pose proof (lookup_from_en_gt _ _ _ _ _ _ _ Hl) as Hte. cbn [en_gt] in Hte.
      destruct (IH o (Some w) t off' st e Hwf' Hl) as (off'' & en'' & Hlk).
      exists off'', en''. cbn [lookup_from].
      assert (Hxw : (e <? w) = false) by lia. rewrite Hxw. exact Hlk.
Qed.

(* ---------- period view of lookup ---------- *)

Lemma wf_zone_parts : forall z, wf_zone z = true ->
  -93600 < z_off0 z < 93600 /\ wf_trans None (z_off0 z) (z_trans z) = true.
Proof.
  intros z H. unfold wf_zone in H.
  apply andb_true_iff in H. destruct H as [H H3].
  apply andb_true_iff in H. destruct H as [H1 H2].
  split; [lia | exact H3].
Qed.

Lemma lookup_spec : forall z t off st en, wf_zone z = true -> lookup z t = (off, st, en) ->
  -93600 < off < 93600 /\ st_le st t /\ en_gt en t /\
  (forall s e, st = Some s -> en = Some e -> s + 187200 < e) /\
  (forall x, st_le st x -> en_gt en x -> lookup z x = (off, st, en)).
Proof.
  intros z t off st en Hwf Hl. destruct (wf_zone_parts z Hwf) as (Hoff & Hwt).
  unfold lookup in *.
  destruct (lookup_from_spec _ _ _ _ _ _ _ Hwt Hoff I Hl) as (H1 & H2 & H3 & H4 & _ & H6).
  repeat split; auto; lia.
Qed.

Lemma lookup_prev : forall z t off s en, wf_zone z = true -> lookup z t = (off, Some s, en) ->
  exists off' st', lookup z (s - 1) = (off', st', Some s).
Proof.
  intros z t off s en Hwf Hl. destruct (wf_zone_parts z Hwf) as (Hoff & Hwt).
  unfold lookup in *.
  destruct (lookup_from_prev _ _ _ _ _ _ _ Hwt Hl) as [Heq | (_ & H)].
  - discriminate Heq.
  - exact H.
Qed.

Lemma lookup_next : forall z t off st e, wf_zone z = true -> lookup z t = (off, st, Some e) ->
  exists off' en', lookup z e = (off', Some e, en').
Proof.
  intros z t off st e Hwf Hl. destruct (wf_zone_parts z Hwf) as (Hoff & Hwt).
  unfold lookup in *.
  exact (lookup_from_next _ _ _ _ _ _ _ Hwt Hl).
Qed.

Lemma offset_at_bound : forall z t, wf_zone z = true -> -93600 < offset_at z t < 93600.
Proof.
  intros z t Hwf. unfold offset_at.
  destruct (lookup z t) as [[off st] en] eqn:Hl. cbn [fst].
  destruct (lookup_spec z t off st en Hwf Hl) as (H & _). exact H.
Qed.

Lemma offset_at_lookup : forall z t off st en, lookup z t = (off, st, en) -> offset_at z t = off.
Proof. intros z t off st en H. unfold offset_at. rewrite H. reflexivity. Qed.

(* ---------- two-period lemma ---------- *)

(* a window of width <= 187200 lies in one period, or meets exactly two adjacent periods, whose constancy
   extends 187200 to either side of the transition *)
Lemma window_lookup : forall z lo hi, wf_zone z = true -> lo <= hi -> hi - lo <= 187200 ->
  (exists a st en, -93600 < a < 93600 /\ st_le st lo /\ en_gt en hi /\
     forall x, st_le st x -> en_gt en x -> lookup z x = (a, st, en))
  \/
  (exists tau a b st en, lo < tau <= hi /\ -93600 < a < 93600 /\ -93600 < b < 93600 /\
     st_le st (tau - 187201) /\ en_gt en (tau + 187200) /\
     (forall x, st_le st x -> x < tau -> lookup z x = (a, st, Some tau)) /\
     (forall x, tau <= x -> en_gt en x -> lookup z x = (b, Some tau, en))).
Proof.
  intros z lo hi Hwf Hle Hwd.
  destruct (lookup z lo) as [[a st] en] eqn:Hl.
  destruct (lookup_spec z lo a st en Hwf Hl) as (Ha & Hst & Hen & Hsp & Hc).
  destruct en as [e|].
  - destruct (hi <? e) eqn:Hhe.
    + left. exists a, st, (Some e). repeat split; try lia; auto. cbn [en_gt]. lia.
    + right. cbn [en_gt] in Hen.
      destruct (lookup_next z lo a st e Hwf Hl) as (b & en' & Hl').
      destruct (lookup_spec z e b (Some e) en' Hwf Hl') as (Hb & _ & Hen' & Hsp' & Hc').
      exists e, a, b, st, en'.
      split; [lia|]. split; [exact Ha|]. split; [exact Hb|].
      split.
      { destruct st as [s|]; cbn [st_le]; [|exact I].
        pose proof (Hsp s e eq_refl eq_refl). lia. }
      split.
      { destruct en' as [e'|]; cbn [en_gt]; [|exact I].
        pose proof (Hsp' e e' eq_refl eq_refl). lia. }
      split.
      { intros x Hx Hxe. apply Hc; [exact Hx | cbn [en_gt]; lia]. }
      intros x Hx Hxe. apply Hc'; [cbn [st_le]; lia | exact Hxe].
  - left. exists a, st, None. repeat split; try lia; auto.
Qed.

(* offset-level reading of the two-period lemma *)
Lemma two_period_offsets : forall z a b, wf_zone z = true -> a <= b -> b - a <= 187200 ->
  (forall x, a <= x <= b -> offset_at z x = offset_at z a)
  \/
  (exists tau oa ob, a < tau <= b /\ -93600 < oa < 93600 /\ -93600 < ob < 93600 /\
     (forall x, tau - 187200 <= x < tau -> offset_at z x = oa) /\
     (forall x, tau <= x <= tau + 187200 -> offset_at z x = ob)).
Proof.
  intros z a b Hwf Hle Hwd.
  destruct (window_lookup z a b Hwf Hle Hwd)
    as [(o & st & en & Ho & Hst & Hen & HA) | (tau & oa & ob & st & en & Htau & Ha & Hb & Hst & Hen & HA & HB)].
  - left. intros x Hx.
    rewrite (offset_at_lookup z x o st en).
    + rewrite (offset_at_lookup z a o st en); [reflexivity|].
      apply HA; [exact Hst | apply (en_gt_mono en a b Hen); lia].
    + apply HA; [apply (st_le_mono st a x Hst); lia | apply (en_gt_mono en x b Hen); lia].
  - right. exists tau, oa, ob.
    split; [exact Htau|]. split; [exact Ha|]. split; [exact Hb|]. split.
    + intros x Hx. apply (offset_at_lookup z x oa st (Some tau)).
      apply HA; [apply (st_le_mono st (tau - 187201) x Hst); lia | lia].
    + intros x Hx. apply (offset_at_lookup z x ob (Some tau) en).
      apply HB; [lia | apply (en_gt_mono en x (tau + 187200) Hen); lia].
Qed.

(* ---------- repeat_of_earlier ---------- *)

Theorem repeat_of_earlier : forall z t1 t2, wf_zone z = true -> t1 < t2 ->
  wall_secs z t2 <= wall_secs z t1 ->
  let x := wall_secs z t2 - offset_at z t1 in
  x <= t1 /\ wall_secs z x = wall_secs z t2 /\
  forall y, x <= y <= t1 -> offset_at z y = offset_at z t1.
Proof.
  intros z t1 t2 Hwf Hlt Hw x. subst x. unfold wall_secs in *.
  pose proof (offset_at_bound z t1 Hwf) as B1.
  pose proof (offset_at_bound z t2 Hwf) as B2.
  assert (Hle : t1 <= t2) by lia.
  assert (Hwd : t2 - t1 <= 187200) by lia.
  destruct (two_period_offsets z t1 t2 Hwf Hle Hwd)
    as [Hc | (tau & oa & ob & Htau & Ha & Hb & HA & HB)].
  - pose proof (Hc t2 ltac:(lia)) as E. lia.
  - pose proof (HA t1 ltac:(lia)) as E1.
    pose proof (HB t2 ltac:(lia)) as E2.
    rewrite E1, E2 in *.
    assert (Ex : offset_at z (t2 + ob - oa) = oa) by (apply HA; lia).
    split; [lia|]. split.
    + rewrite Ex. lia.
    + intros y Hy. apply HA. lia.
Qed.

(* ---------- fold of fa_pick ---------- *)

Lemma fold_pick_spec : forall z u p cands best,
  match best with Some b => p < b /\ wall_secs z b = u | None => True end ->
  match fold_left (fa_pick z u p) cands best with
  | Some t => p < t /\ wall_secs z t = u /\
              (forall c, In c cands -> p < c -> wall_secs z c = u -> t <= c) /\
              (forall b, best = Some b -> t <= b)
  | None => best = None /\ forall c, In c cands -> p < c -> wall_secs z c <> u
  end.
Proof.
  intros z u p cands. induction cands as [|c cands IH]; intros best Hbest.
  - cbn [fold_left]. destruct best as [b|].
    + destruct Hbest as (Hb1 & Hb2). repeat split; auto.
      * intros c [].
      * intros b' E. inversion E. lia.
    + split; [reflexivity|]. intros c [].
  - cbn [fold_left].
    assert (Hnew : match fa_pick z u p best c with
                   | Some b => p < b /\ wall_secs z b = u | None => True end).
    { unfold fa_pick. destruct ((wall_secs z c =? u) && (p <? c)) eqn:Ht.
      - assert (Hc : p < c /\ wall_secs z c = u) by lia.
        destruct best as [b|]; [|exact Hc].
        destruct (c <? b); [exact Hc | exact Hbest].
      - exact Hbest. }
    specialize (IH (fa_pick z u p best c) Hnew).
    destruct (fold_left (fa_pick z u p) cands (fa_pick z u p best c)) as [t|].
    + destruct IH as (H1 & H2 & H3 & H4).
      split; [exact H1|]. split; [exact H2|].
      unfold fa_pick in H4.
      split.
      * intros c' [Ec | Hin] Hp Hwc.
        { subst c'. assert (Ht : (wall_secs z c =? u) && (p <? c) = true) by lia.
          rewrite Ht in H4. destruct best as [b|].
          - destruct (c <? b) eqn:Hcb.
            + apply H4. reflexivity.
            + pose proof (H4 b eq_refl). lia.
          - apply H4. reflexivity. }
        { exact (H3 c' Hin Hp Hwc). }
      * intros b Eb. subst best.
        destruct ((wall_secs z c =? u) && (p <? c)).
        { destruct (c <? b) eqn:Hcb.
          - pose proof (H4 c eq_refl). lia.
          - exact (H4 b eq_refl). }
        { exact (H4 b eq_refl). }
    + destruct IH as (H1 & H2).
      unfold fa_pick in H1.
      destruct ((wall_secs z c =? u) && (p <? c)) eqn:Ht.
      * destruct best as [b|]; [destruct (c <? b)|]; discriminate H1.
      * split; [exact H1|].
        intros c' [Ec | Hin] Hp.
        { subst c'. lia. }
        { exact (H2 c' Hin Hp). }
Qed.

(* ---------- date_in_zone and the candidates of first_after ---------- *)

Section TwoPeriods.
  Variables (z : zone) (Hwf : wf_zone z = true) (tau a b : Z) (st en : option Z).
  Hypothesis Ha : -93600 < a < 93600.
  Hypothesis Hb : -93600 < b < 93600.
  Hypothesis Hst : st_le st (tau - 187201).
  Hypothesis Hen : en_gt en (tau + 187200).
  Hypothesis HA : forall x, st_le st x -> x < tau -> lookup z x = (a, st, Some tau).
  Hypothesis HB : forall x, tau <= x -> en_gt en x -> lookup z x = (b, Some tau, en).

  Lemma tp_before : forall x, tau - 187200 <= x < tau -> lookup z x = (a, st, Some tau).
  Proof.
    intros x Hx. apply HA; [|lia]. apply (st_le_mono st (tau - 187201) x Hst). lia.
  Qed.

  Lemma tp_after : forall x, tau <= x <= tau + 187200 -> lookup z x = (b, Some tau, en).
  Proof.
    intros x Hx. apply HB; [lia|]. apply (en_gt_mono en x (tau + 187200) Hen). lia.
  Qed.

  Lemma tp_diz : forall u, tau - 93600 <= u < tau + 93600 ->
    date_in_zone z u =
      if u <? tau then (if u - a <? tau then u - a else u - b)
      else (if tau <=? u - b then u - b else u - a).
  Proof.
    intros u Hu. unfold date_in_zone. destruct (u <? tau) eqn:Hut.
    - rewrite (tp_before u) by lia. cbv beta iota.
      destruct (a =? 0) eqn:Ha0.
      + assert (E : (u - a <? tau) = true) by lia. rewrite E. lia.
      + assert (E1 : match st with Some s => u - a <? s | None => false end = false).
        { destruct st as [s|]; [|reflexivity]. cbn [st_le] in Hst. lia. }
        rewrite E1. cbn [orb].
        destruct (u - a <? tau) eqn:Hua.
        * assert (E2 : (tau <=? u - a) = false) by lia. rewrite E2. reflexivity.
        * assert (E2 : (tau <=? u - a) = true) by lia. rewrite E2.
          rewrite (offset_at_lookup z (u - a) b (Some tau) en); [reflexivity|].
          apply tp_after. lia.
    - rewrite (tp_after u) by lia. cbv beta iota.
      destruct (b =? 0) eqn:Hb0.
      + assert (E : (tau <=? u - b) = true) by lia. rewrite E. lia.
      + assert (E1 : match en with Some e => e <=? u - b | None => false end = false).
        { destruct en as [e|]; [|reflexivity]. cbn [en_gt] in Hen. lia. }
        rewrite E1. rewrite orb_false_r.
        destruct (tau <=? u - b) eqn:Hub.
        * assert (E2 : (u - b <? tau) = false) by lia. rewrite E2. reflexivity.
        * assert (E2 : (u - b <? tau) = true) by lia. rewrite E2.
          rewrite (offset_at_lookup z (u - b) a st (Some tau)); [reflexivity|].
          apply tp_before. lia.
  Qed.

  (* every instant reading u is among the candidates of first_after *)
  Lemma tp_cands : forall u t' off st' en',
    tau - 93600 <= u < tau + 93600 ->
    lookup z (date_in_zone z u) = (off, st', en') ->
    wall_secs z t' = u ->
    In t' ([date_in_zone z u]
           ++ (match st' with Some s => [date_in_zone z u + (off - offset_at z (s - 1))] | None => [] end)
           ++ (match en' with Some e => [date_in_zone z u + (off - offset_at z e)] | None => [] end)).
  Proof.
    intros u t' off st' en' Hu Hl Hw.
    pose proof (offset_at_bound z t' Hwf) as Bt.
    unfold wall_secs in Hw.
    assert (Etm : offset_at z (tau - 1) = a).
    { apply (offset_at_lookup z (tau - 1) a st (Some tau)). apply tp_before. lia. }
    assert (Et : offset_at z tau = b).
    { apply (offset_at_lookup z tau b (Some tau) en). apply tp_after. lia. }
    assert (Hsol : (t' < tau /\ t' = u - a) \/ (tau <= t' /\ t' = u - b)).
    { destruct (t' <? tau) eqn:Ht'.
      - left. split; [lia|].
        assert (E : offset_at z t' = a).
        { apply (offset_at_lookup z t' a st (Some tau)). apply tp_before. lia. }
        lia.
      - right. split; [lia|].
        assert (E : offset_at z t' = b).
        { apply (offset_at_lookup z t' b (Some tau) en). apply tp_after. lia. }
        lia. }
    rewrite (tp_diz u Hu) in *.
    destruct (u <? tau) eqn:Hut.
    - destruct (u - a <? tau) eqn:Hua.
      + rewrite (tp_before (u - a)) in Hl by lia.
        inversion Hl; subst off st' en'. rewrite Et.
        destruct Hsol as [(_ & E) | (_ & E)].
        * left. lia.
        * apply in_or_app; right. apply in_or_app; right. left. lia.
      + left. lia.
    - destruct (tau <=? u - b) eqn:Hub.
      + rewrite (tp_after (u - b)) in Hl by lia.
        inversion Hl; subst off st' en'. rewrite Etm.
        destruct Hsol as [(_ & E) | (_ & E)].
        * apply in_or_app; right. apply in_or_app; left. left. lia.
        * left. lia.
      + left. lia.
  Qed.
End TwoPeriods.

Lemma cands_complete : forall z u t' off st en, wf_zone z = true ->
  lookup z (date_in_zone z u) = (off, st, en) ->
  wall_secs z t' = u ->
  In t' ([date_in_zone z u]
         ++ (match st with Some s => [date_in_zone z u + (off - offset_at z (s - 1))] | None => [] end)
         ++ (match en with Some e => [date_in_zone z u + (off - offset_at z e)] | None => [] end)).
Proof.
  intros z u t' off st en Hwf Hl Hw.
  destruct (window_lookup z (u - 93600) (u + 93600) Hwf ltac:(lia) ltac:(lia))
    as [(a & st0 & en0 & Ha & Hst & Hen & HA)
       | (tau & a & b & st0 & en0 & Htau & Ha & Hb & Hst & Hen & HA & HB)].
  - assert (Hwin : forall x, u - 93600 <= x <= u + 93600 -> lookup z x = (a, st0, en0)).
    { intros x Hx. apply HA.
      - apply (st_le_mono st0 (u - 93600) x Hst). lia.
      - apply (en_gt_mono en0 x (u + 93600) Hen). lia. }
    assert (Ed : date_in_zone z u = u - a).
    { unfold date_in_zone. rewrite (Hwin u) by lia. cbv beta iota.
      destruct (a =? 0) eqn:Ha0; [lia|].
      assert (E1 : match st0 with Some s => u - a <? s | None => false end = false).
      { destruct st0 as [s|]; [|reflexivity]. cbn [st_le] in Hst. lia. }
      assert (E2 : match en0 with Some e => e <=? u - a | None => false end = false).
      { destruct en0 as [e|]; [|reflexivity]. cbn [en_gt] in Hen. lia. }
      rewrite E1, E2. reflexivity. }
    pose proof (offset_at_bound z t' Hwf) as Bt.
    unfold wall_secs in Hw.
    assert (E : offset_at z t' = a).
    { apply (offset_at_lookup z t' a st0 en0). apply Hwin. lia. }
    left. lia.
  - apply (tp_cands z Hwf tau a b st0 en0 Ha Hb Hst Hen HA HB u t' off st en); [lia | exact Hl | exact Hw].
Qed.

(* ---------- first_after is exact ---------- *)

Theorem first_after_complete : forall z u p, wf_zone z = true ->
  match first_after z u p with
  | Some t => p < t /\ wall_secs z t = u /\ forall t', p < t' -> wall_secs z t' = u -> t <= t'
  | None => forall t', p < t' -> wall_secs z t' <> u
  end.
Proof.
  intros z u p Hwf. unfold first_after.
  destruct (lookup z (date_in_zone z u)) as [[off st] en] eqn:Hl.
  pose proof (fun t' => cands_complete z u t' off st en Hwf Hl) as Hin.
  set (cands := [date_in_zone z u]
         ++ (match st with Some s => [date_in_zone z u + (off - offset_at z (s - 1))] | None => [] end)
         ++ (match en with Some e => [date_in_zone z u + (off - offset_at z e)] | None => [] end)) in *.
  pose proof (fold_pick_spec z u p cands None I) as Hf.
  destruct (fold_left (fa_pick z u p) cands None) as [t|].
  - destruct Hf as (H1 & H2 & H3 & _).
    split; [exact H1|]. split; [exact H2|].
    intros t' Hp Hw. exact (H3 t' (Hin t' Hw) Hp Hw).
  - destruct Hf as (_ & H2).
    intros t' Hp Hw. exact (H2 t' (Hin t' Hw) Hp Hw).
Qed.

Print Assumptions first_after_complete.
Print Assumptions repeat_of_earlier.
