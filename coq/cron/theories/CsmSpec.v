(* Declarative meaning of a parsed cron expression: which civil date-times it matches.
   This is the specification the state machine is proved against; it does not mention the machine. *)
From Coq Require Import ZArith List Bool.
Require Import QzBase.Calendar QzBase.Fields.
Import ListNotations.
Open Scope Z_scope.

(* the documented field ranges (README "Cron expression format"); deliberately NOT taken from the
   generated Doc.v: the model uses the source's bounds, the specification the documented ones,
   and the proofs need them to agree *)
Module Doc.
  Definition sec_lo := 0. Definition sec_hi := 59.
  Definition min_lo := 0. Definition min_hi := 59.
  Definition hour_lo := 0. Definition hour_hi := 23.
  Definition mon_lo := 1. Definition mon_hi := 12.
  Definition year_lo := 0. Definition year_hi := 2262.   (* last year with instants representable as int64 nanoseconds *)
End Doc.

Definition mem (v : Z) (l : list Z) : bool := existsb (Z.eqb v) l.
(* an empty value list means "every value of the field's range" *)
Definition field_match (lo hi : Z) (vals : list Z) (v : Z) : bool :=
  (lo <=? v) && (v <=? hi) && (match vals with [] => true | _ => mem v vals end).

Definition is_weekday_b (w : Z) : bool := negb (w =? 0) && negb (w =? 6).   (* Monday..Friday *)

(* t is the weekday (Mon-Fri) of month (y,m) nearest to day d, inside the month *)
Definition nearest_weekday_b (y m d t : Z) : bool :=
  let len := month_len y m in
  let wd := weekday_of y m d in
  if is_weekday_b wd then t =? d
  else if wd =? 6 then (if 1 <=? d - 1 then t =? d - 1 else t =? d + 2)      (* Saturday: Friday, or Monday if the 1st *)
  else (if d + 1 <=? len then t =? d + 1 else t =? d - 2).                    (* Sunday: Monday, or Friday if the last *)

(* does day d of month (y,m) satisfy the day rule of f ? *)
Definition day_match (f : fields) (y m d : Z) : bool :=
  let len := month_len y m in
  (1 <=? d) && (d <=? len) &&
  match fl_dow f with
  | [] =>
      let n := fl_dom_n f in
      if n =? 0 then (match fl_dom f with [] => true | _ => mem d (fl_dom f) end)    (* any day / listed days *)
      else if n =? 1 then d =? len                                                   (* L : last day *)
      else if n <? 0 then d =? len + n                                               (* L-k : k days before the last *)
      else if n =? 3 then nearest_weekday_b y m len d                                (* LW : last weekday *)
      else nearest_weekday_b y m (Z.min (hd 0 (fl_dom f)) len) d                     (* dW : weekday nearest to day d (capped at the month's end) *)
  | w0 :: _ =>
      let n := fl_dow_n f in
      let wd := weekday_of y m d in
      if n =? 0 then mem wd (fl_dow f)                                               (* listed weekdays *)
      else if 0 <? n then (wd =? w0) && ((d - 1) / 7 =? n - 1)                       (* w#k : k-th such weekday *)
      else (wd =? w0) && (len <? d + 7)                                              (* wL : last such weekday *)
  end.

Definition matches (f : fields) (c : civil) : bool :=
  let '(y, m, d, h, mi, s) := c in
  field_match Doc.sec_lo Doc.sec_hi (fl_sec f) s &&
  field_match Doc.min_lo Doc.min_hi (fl_min f) mi &&
  field_match Doc.hour_lo Doc.hour_hi (fl_hour f) h &&
  field_match Doc.mon_lo Doc.mon_hi (fl_mon f) m &&
  field_match Doc.year_lo Doc.year_hi (fl_year f) y &&
  day_match f y m d.

(* ---- executable reference search (specification-level oracle for the correspondence check):
   the least matching civil tuple strictly after c, found by walking months and days in order.
   Obviously correct by construction; used only to cross-check model and implementation. ---- *)
Definition first_in (lo hi : Z) (vals : list Z) (from : Z) : option Z :=
  match vals with
  | [] => if from <=? hi then Some (Z.max from lo) else None
  | _ => find (fun v => (from <=? v) && (lo <=? v) && (v <=? hi)) vals
  end.

(* least (h, mi, s) >= (h0, mi0, s0) matching the time-of-day fields *)
Definition ref_time_from (f : fields) (h0 mi0 s0 : Z) : option (Z * Z * Z) :=
  let fs := first_in Doc.sec_lo Doc.sec_hi (fl_sec f) in
  let fm := first_in Doc.min_lo Doc.min_hi (fl_min f) in
  let fh := first_in Doc.hour_lo Doc.hour_hi (fl_hour f) in
  let low_h h := match fm 0, fs 0 with Some mi, Some s => Some (h, mi, s) | _, _ => None end in
  let try_hour_after := match fh (h0 + 1) with Some h => low_h h | None => None end in
  if field_match Doc.hour_lo Doc.hour_hi (fl_hour f) h0 then
    let try_min_after := match fm (mi0 + 1), fs 0 with Some mi, Some s => Some (h0, mi, s) | _, _ => try_hour_after end in
    if field_match Doc.min_lo Doc.min_hi (fl_min f) mi0 then
      match fs s0 with Some s => Some (h0, mi0, s) | None => try_min_after end
    else try_min_after
  else try_hour_after.

Fixpoint ref_day_from (f : fields) (y m : Z) (d : Z) (n : nat) : option Z :=
  match n with
  | O => None
  | S n' => if day_match f y m d then Some d else ref_day_from f y m (d + 1) n'
  end.

(* walk (y, m) pairs forward; months counted in fuel (at most 12 * (year_hi - y + 1)) *)
Fixpoint ref_month_walk (f : fields) (y m : Z) (fuel : nat) : option (Z * Z * Z) :=
  match fuel with
  | O => None
  | S fuel' =>
      if Doc.year_hi <? y then None
      else
        let ok := field_match Doc.year_lo Doc.year_hi (fl_year f) y && field_match Doc.mon_lo Doc.mon_hi (fl_mon f) m in
        match (if ok then ref_day_from f y m 1 31 else None) with
        | Some d => Some (y, m, d)
        | None => if m <? 12 then ref_month_walk f y (m + 1) fuel' else ref_month_walk f (y + 1) 1 fuel'
        end
  end.

Definition ref_next (f : fields) (c : civil) : option civil :=
  let '(y, m, d, h, mi, s) := c in
  let t0 := ref_time_from f 0 0 0 in
  let same_day := if field_match Doc.year_lo Doc.year_hi (fl_year f) y && field_match Doc.mon_lo Doc.mon_hi (fl_mon f) m && day_match f y m d
                  then ref_time_from f h mi (s + 1) else None in
  match same_day with
  | Some (h', mi', s') => Some (y, m, d, h', mi', s')
  | None =>
      match t0 with
      | None => None
      | Some (h', mi', s') =>
          let ok := field_match Doc.year_lo Doc.year_hi (fl_year f) y && field_match Doc.mon_lo Doc.mon_hi (fl_mon f) m in
          let later_this_month := if ok then ref_day_from f y m (d + 1) 31 else None in
          match later_this_month with
          | Some d' => Some (y, m, d', h', mi', s')
          | None =>
              match (if m <? 12 then ref_month_walk f y (m + 1) 4000 else ref_month_walk f (y + 1) 1 4000) with
              | Some (y', m', d') => Some (y', m', d', h', mi', s')
              | None => None
              end
          end
      end
  end.
