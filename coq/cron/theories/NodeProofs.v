(* The node tables built by mk_csm from well-formed fields meet the hypotheses of MachineProofs;
   "every node valid" is the declarative `matches`; the machine's order is the civil order. *)
From Coq Require Import ZArith Lia Bool List ZifyBool.
Require Import QzBase.Calendar QzBase.Fields.
Require Import QzCron.Gen.Params QzCron.CsmModel QzCron.CsmSpec QzCron.CommonProofs QzCron.DayProofs QzCron.MachineProofs.
Import ListNotations.
Open Scope Z_scope.

Ltac pnorm :=
  change Params.sec_lo with 0 in *; change Params.sec_hi with 59 in *;
  change Params.min_lo with 0 in *; change Params.min_hi with 59 in *;
  change Params.hour_lo with 0 in *; change Params.hour_hi with 23 in *;
  change Params.day_lo with 1 in *; change Params.day_hi with 31 in *;
  change Params.mon_lo with 1 in *; change Params.mon_hi with 12 in *;
  change Params.year_lo with 0 in *; change Params.year_hi with 2262 in *.

Definition lo6 (k : nat) : Z := match k with 3%nat => 1 | 4%nat => 1 | _ => 0 end.

Lemma Gt_from_0_civil : forall s t, Gt_from 0 s t <-> civil_lt (civil_of_st s) (civil_of_st t).
Proof.
  intros s t. unfold civil_lt, civil_of_st. split.
  - intros (j & Hj & Hlt & He).
    assert (H5 : (S j <= 5)%nat -> s_year s = s_year t) by (intros H; apply (He 5%nat); lia).
    assert (H4 : (S j <= 4)%nat -> s_mon s = s_mon t) by (intros H; apply (He 4%nat); lia).
    assert (H3 : (S j <= 3)%nat -> s_day s = s_day t) by (intros H; apply (He 3%nat); lia).
    assert (H2 : (S j <= 2)%nat -> s_hour s = s_hour t) by (intros H; apply (He 2%nat); lia).
    assert (H1 : (S j <= 1)%nat -> s_min s = s_min t) by (intros H; apply (He 1%nat); lia).
    do 6 (destruct j as [|j]; [cbn [get] in Hlt; lia|]). lia.
  - intros H.
    assert (Heq : forall j, (j <= 5)%nat ->
      (forall i, (j < i <= 5)%nat -> get i s = get i t) -> Eq_from (S j) s t).
    { intros j _ Hi i Hr. apply Hi. lia. }
    destruct H as [H|[E5 H]].
    { exists 5%nat. split; [lia|]. split; [exact H|]. intros i Hi. lia. }
    destruct H as [H|[E4 H]].
    { exists 4%nat. split; [lia|]. split; [exact H|]. intros i Hi. assert (i = 5)%nat as -> by lia. exact E5. }
    destruct H as [H|[E3 H]].
    { exists 3%nat. split; [lia|]. split; [exact H|]. intros i Hi.
      assert (i = 5 \/ i = 4)%nat as [-> | ->] by lia; assumption. }
    destruct H as [H|[E2 H]].
    { exists 2%nat. split; [lia|]. split; [exact H|]. intros i Hi.
      assert (i = 5 \/ i = 4 \/ i = 3)%nat as [-> | [-> | ->]] by lia; assumption. }
    destruct H as [H|[E1 H]].
    { exists 1%nat. split; [lia|]. split; [exact H|]. intros i Hi.
      assert (i = 5 \/ i = 4 \/ i = 3 \/ i = 2)%nat as [-> | [-> | [-> | ->]]] by lia; assumption. }
    exists 0%nat. split; [lia|]. split; [exact H|]. intros i Hi.
    assert (i = 5 \/ i = 4 \/ i = 3 \/ i = 2 \/ i = 1)%nat as [-> | [-> | [-> | [-> | ->]]]] by lia; assumption.
Qed.

Lemma Eq_from_0_eq : forall s t, Eq_from 0 s t -> s = t.
Proof.
  intros s t H.
  pose proof (H 0%nat ltac:(lia)) as H0. pose proof (H 1%nat ltac:(lia)) as H1. pose proof (H 2%nat ltac:(lia)) as H2.
  pose proof (H 3%nat ltac:(lia)) as H3. pose proof (H 4%nat ltac:(lia)) as H4. pose proof (H 5%nat ltac:(lia)) as H5.
  cbn [get] in *. destruct s, t. cbn in *. congruence.
Qed.

Lemma Ge_from_0_civil : forall s t, Ge_from 0 s t -> civil_le (civil_of_st s) (civil_of_st t).
Proof.
  intros s t [H|H]; [left; rewrite (Eq_from_0_eq s t H); reflexivity | right; apply Gt_from_0_civil; exact H].
Qed.

(* ---------- the effective node tables ----------
   With a restricted year field the year node never consults its upper bound in Next
   (nextInRange), so a listed year above 2262 is stepped to like any other; NextFireTime
   then reports expiry through the int64 limit.  For the proof the year node's range is
   therefore taken to be the parser's 0..3940 whenever the year field is restricted. *)
Definition year_hi_eff (f : fields) : Z := match fl_year f with [] => Params.year_hi | _ => 3940 end.
Definition csm_eff (f : fields) : csm :=
  let c := mk_csm f in
  {| f_sec := f_sec c; f_min := f_min c; f_hour := f_hour c; f_day := f_day c; f_mon := f_mon c;
     f_year := {| cn_lo := cn_lo (f_year c); cn_hi := year_hi_eff f; cn_vals := cn_vals (f_year c) |} |}.

Ltac cnorm H := unfold csm_eff, mk_csm, year_hi_eff in H;
  cbn [f_sec f_min f_hour f_mon f_year f_day cn_lo cn_hi cn_vals] in H; pnorm.

Lemma cn_next_hi_irrelevant : forall lo hi1 hi2 vals v, vals <> [] ->
  cn_next {| cn_lo := lo; cn_hi := hi1; cn_vals := vals |} v = cn_next {| cn_lo := lo; cn_hi := hi2; cn_vals := vals |} v.
Proof. intros lo hi1 hi2 vals v H. unfold cn_next, cn_has_range. cbn [cn_vals cn_lo cn_hi]. destruct vals; [contradiction|reflexivity]. Qed.

Lemma val_next_eff : forall f k s, val_next (csm_eff f) k s = val_next (mk_csm f) k s.
Proof.
  intros f k s. do 5 (destruct k as [|k]; [reflexivity|]).
  cbn [val_next csm_eff f_year]. unfold year_hi_eff.
  destruct (fl_year f) as [|a l] eqn:E.
  - unfold mk_csm. cbn [f_year cn_lo cn_hi cn_vals]. rewrite E. reflexivity.
  - unfold mk_csm. cbn [f_year cn_lo cn_hi cn_vals]. apply cn_next_hi_irrelevant. rewrite E. discriminate.
Qed.

Lemma val_reset_eff : forall f k s, (k <= 4)%nat -> val_reset (csm_eff f) k s = val_reset (mk_csm f) k s.
Proof. intros f k s Hk. do 5 (destruct k as [|k]; [reflexivity|]). lia. Qed.

Definition phase_ok (x : phase * st) : Prop := match fst x with Reset k => (k <= 4)%nat | Over _ => True end.

Lemma step_eff : forall f x, phase_ok x -> step (csm_eff f) x = step (mk_csm f) x.
Proof.
  intros f [[k|k] s] H; cbn [phase_ok fst] in H; unfold step.
  - rewrite val_next_eff. reflexivity.
  - rewrite val_reset_eff by exact H. reflexivity.
Qed.

Lemma step_phase_ok : forall c x x', phase_ok x -> step c x = inl x' -> phase_ok x'.
Proof.
  intros c [[k|k] s] x' H Hs; cbn [phase_ok fst] in H; unfold step in Hs.
  - destruct (5 <? k)%nat eqn:E; [discriminate|]. apply Nat.ltb_ge in E.
    destruct (val_next c k s) as [v o]. unfold after_node in Hs. destruct o.
    + injection Hs as <-. exact I.
    + destruct k as [|k']; [discriminate|]. injection Hs as <-. cbn [phase_ok fst]. lia.
  - destruct (val_reset c k s) as [v o]. unfold after_node in Hs. destruct o.
    + injection Hs as <-. exact I.
    + destruct k as [|k']; [discriminate|]. injection Hs as <-. cbn [phase_ok fst]. lia.
Qed.

Lemma loop_pos_ext : forall (A B : Type) (b1 b2 : A -> A + B) (I : A -> Prop),
  (forall a, I a -> b1 a = b2 a) -> (forall a a', I a -> b2 a = inl a' -> I a') ->
  forall p a, I a -> loop_pos p b1 a = loop_pos p b2 a.
Proof.
  intros A B b1 b2 I Heq Hpres.
  assert (Hinv : forall p a, I a -> match loop_pos p b2 a with inl a' => I a' | inr _ => True end).
  { intros p a Ha. apply (loop_pos_inv A B b2 I (fun _ => True)); [exact Hpres | intros; exact Logic.I | exact Ha]. }
  induction p as [p IH|p IH|]; intros a Ha; cbn [loop_pos].
  - rewrite (Heq a Ha). destruct (b2 a) as [a1|b] eqn:E1; [|reflexivity].
    assert (H1 : I a1) by (eapply Hpres; eassumption).
    rewrite (IH a1 H1). pose proof (Hinv p a1 H1) as H2.
    destruct (loop_pos p b2 a1) as [a2|b]; [apply IH; exact H2 | reflexivity].
  - rewrite (IH a Ha). pose proof (Hinv p a Ha) as H2.
    destruct (loop_pos p b2 a) as [a2|b]; [apply IH; exact H2 | reflexivity].
  - apply Heq; exact Ha.
Qed.

Lemma run_eff : forall f ph s, phase_ok (ph, s) -> run (csm_eff f) ph s = run (mk_csm f) ph s.
Proof.
  intros f ph s H. unfold run.
  rewrite (loop_pos_ext _ _ (step (csm_eff f)) (step (mk_csm f)) phase_ok
             (fun a Ha => step_eff f a Ha) (fun a a' Ha Hs => step_phase_ok _ a a' Ha Hs) run_fuel (ph, s) H).
  reflexivity.
Qed.

Lemma node_is_valid_eff : forall f k s, s_year s <= Params.year_hi ->
  node_is_valid (csm_eff f) k s = node_is_valid (mk_csm f) k s.
Proof.
  intros f k s Hy. do 5 (destruct k as [|k]; [reflexivity|]).
  unfold node_is_valid. cbn [val_valid get csm_eff f_year]. unfold cn_is_valid, cn_has_range. cbn [cn_lo cn_hi cn_vals].
  unfold year_hi_eff. destruct (fl_year f) as [|a l] eqn:E.
  - unfold mk_csm. cbn [f_year cn_lo cn_hi cn_vals]. reflexivity.
  - unfold mk_csm. cbn [f_year cn_lo cn_hi cn_vals].
    replace (s_year s <=? 3940) with true by (change Params.year_hi with 2262 in Hy; lia).
    replace (s_year s <=? Params.year_hi) with true by lia. reflexivity.
Qed.

Lemma find_forward_eff : forall f s, s_year s <= Params.year_hi ->
  find_forward (csm_eff f) s = find_forward (mk_csm f) s.
Proof.
  intros f s Hy. unfold find_forward.
  assert (E : first_invalid (csm_eff f) s [5; 4; 3; 2; 1; 0]%nat = first_invalid (mk_csm f) s [5; 4; 3; 2; 1; 0]%nat).
  { cbn [first_invalid]. rewrite !node_is_valid_eff by exact Hy. reflexivity. }
  rewrite E. destruct (first_invalid (mk_csm f) s [5; 4; 3; 2; 1; 0]%nat); apply run_eff; exact I.
Qed.

Section Inst.
  Variable f : fields.
  Hypothesis Hwf : wf_fields f = true.

  Lemma wf_parts :
    sorted_in 0 59 (fl_sec f) = true /\ sorted_in 0 59 (fl_min f) = true /\ sorted_in 0 23 (fl_hour f) = true /\
    sorted_in 1 12 (fl_mon f) = true /\ sorted_in 1970 3940 (fl_year f) = true /\ wf_day f = true.
  Proof. unfold wf_fields in Hwf. rewrite !andb_true_iff in Hwf. tauto. Qed.

  Lemma year_wf_eff : sorted_in 0 (year_hi_eff f) (fl_year f) = true.
  Proof.
    destruct wf_parts as (_ & _ & _ & _ & Hy & _). unfold sorted_in in *. apply andb_true_iff in Hy.
    destruct Hy as [Hr Hs]. apply andb_true_iff. split; [|exact Hs].
    unfold year_hi_eff. destruct (fl_year f) as [|a l] eqn:E; [reflexivity|].
    unfold in_range in *. rewrite forallb_forall in *. intros x Hx. specialize (Hr x Hx). lia.
  Qed.

  Let c := csm_eff f.
  Ltac cnorm_all := subst c; unfold csm_eff, mk_csm, year_hi_eff in *;
    cbn [f_sec f_min f_hour f_mon f_year f_day cn_lo cn_hi cn_vals get] in *; pnorm.
  Ltac side := subst c; unfold csm_eff, mk_csm, year_hi_eff;
    cbn [f_sec f_min f_hour f_mon f_year f_day cn_lo cn_hi cn_vals get] in *; pnorm; lia.

  Lemma sec_wf : sorted_in (cn_lo (f_sec c)) (cn_hi (f_sec c)) (cn_vals (f_sec c)) = true.
  Proof. apply wf_parts. Qed.
  Lemma min_wf : sorted_in (cn_lo (f_min c)) (cn_hi (f_min c)) (cn_vals (f_min c)) = true.
  Proof. apply wf_parts. Qed.
  Lemma hour_wf : sorted_in (cn_lo (f_hour c)) (cn_hi (f_hour c)) (cn_vals (f_hour c)) = true.
  Proof. apply wf_parts. Qed.
  Lemma mon_wf : sorted_in (cn_lo (f_mon c)) (cn_hi (f_mon c)) (cn_vals (f_mon c)) = true.
  Proof. apply wf_parts. Qed.
  Lemma year_wf : sorted_in (cn_lo (f_year c)) (cn_hi (f_year c)) (cn_vals (f_year c)) = true.
  Proof. exact year_wf_eff. Qed.
  Lemma year_lohi : cn_lo (f_year c) <= cn_hi (f_year c).
  Proof.
    unfold c, csm_eff, mk_csm, year_hi_eff. cbn [f_year cn_lo cn_hi].
    change Params.year_lo with 0. change Params.year_hi with 2262. destruct (fl_year f); lia.
  Qed.

  Lemma sec_lohi : cn_lo (f_sec c) <= cn_hi (f_sec c). Proof. side. Qed.
  Lemma min_lohi : cn_lo (f_min c) <= cn_hi (f_min c). Proof. side. Qed.
  Lemma hour_lohi : cn_lo (f_hour c) <= cn_hi (f_hour c). Proof. side. Qed.
  Lemma mon_lohi : cn_lo (f_mon c) <= cn_hi (f_mon c). Proof. side. Qed.

  Lemma f_day_eff : f_day c = f_day (mk_csm f).
  Proof. reflexivity. Qed.

  Lemma inst_valid_ext : forall k s s' v, (k <= 5)%nat -> Eq_from (S k) s s' -> val_valid c k s v = val_valid c k s' v.
  Proof.
    intros k s s' v Hk He. do 3 (destruct k as [|k]; [reflexivity|]).
    destruct k as [|k].
    - cbn [val_valid]. pose proof (He 5%nat ltac:(lia)) as H5. pose proof (He 4%nat ltac:(lia)) as H4.
      cbn [get] in H5, H4. rewrite H5, H4. reflexivity.
    - do 2 (destruct k as [|k]; [reflexivity|]). lia.
  Qed.

  Lemma inst_valid_lo : forall k s v, (k <= 5)%nat -> val_valid c k s v = true -> lo6 k <= v.
  Proof.
    intros k s v Hk H. destruct k as [|[|[|[|[|[|k]]]]]]; cbn [val_valid lo6] in *; try lia.
    - apply (cn_valid_iff _ sec_wf) in H. cnorm_all; lia.
    - apply (cn_valid_iff _ min_wf) in H. cnorm_all; lia.
    - apply (cn_valid_iff _ hour_wf) in H. cnorm_all; lia.
    - rewrite f_day_eff in H. apply (dn_valid_in_month f _ _ _ Hwf) in H. lia.
    - apply (cn_valid_iff _ mon_wf) in H. cnorm_all; lia.
    - apply (cn_valid_iff _ year_wf) in H. cnorm_all; lia.
  Qed.

  Lemma inst_next_spec : forall k s v o, (k <= 5)%nat -> lo6 k - 1 <= get k s -> val_next c k s = (v, o) ->
    (o = false -> val_valid c k s v = true /\ get k s < v /\
                  forall w, val_valid c k s w = true -> get k s < w -> v <= w) /\
    (o = true -> forall w, val_valid c k s w = true -> w <= get k s) /\
    lo6 k - 1 <= v.
  Proof.
    intros k s v o Hk Hlo H. destruct k as [|[|[|[|[|[|k]]]]]]; cbn [val_valid val_next lo6 get] in *; try lia.
    - assert (Hs : cn_lo (f_sec c) - 1 <= s_sec s) by side. destruct (cn_next_spec _ sec_wf (s_sec s) v o Hs H) as (A & B & C). repeat split; try tauto. cnorm_all; lia.
    - assert (Hs : cn_lo (f_min c) - 1 <= s_min s) by side. destruct (cn_next_spec _ min_wf (s_min s) v o Hs H) as (A & B & C). repeat split; try tauto. cnorm_all; lia.
    - assert (Hs : cn_lo (f_hour c) - 1 <= s_hour s) by side. destruct (cn_next_spec _ hour_wf (s_hour s) v o Hs H) as (A & B & C). repeat split; try tauto. cnorm_all; lia.
    - rewrite f_day_eff in *. assert (Hs : 0 <= s_day s) by lia. destruct (dn_next_spec f (s_year s) (s_mon s) (s_day s) v o Hwf Hs H) as (A & B & C). repeat split; try tauto; try lia.
    - assert (Hs : cn_lo (f_mon c) - 1 <= s_mon s) by side. destruct (cn_next_spec _ mon_wf (s_mon s) v o Hs H) as (A & B & C). repeat split; try tauto. cnorm_all; lia.
    - assert (Hs : cn_lo (f_year c) - 1 <= s_year s) by side. destruct (cn_next_spec _ year_wf (s_year s) v o Hs H) as (A & B & C). repeat split; try tauto. cnorm_all; lia.
  Qed.

  Lemma inst_reset_spec : forall k s v o, (k <= 5)%nat -> val_reset c k s = (v, o) ->
    (o = false -> val_valid c k s v = true /\ forall w, val_valid c k s w = true -> v <= w) /\
    (o = true -> forall w, val_valid c k s w = false) /\
    lo6 k - 1 <= v.
  Proof.
    intros k s v o Hk H. destruct k as [|[|[|[|[|[|k]]]]]]; cbn [val_valid val_reset lo6] in *; try lia.
    - injection H as <- <-. destruct (cn_reset_spec _ sec_wf sec_lohi) as [A B]. repeat split; try tauto; try discriminate.
      apply (cn_valid_iff _ sec_wf) in A. cnorm_all; lia.
    - injection H as <- <-. destruct (cn_reset_spec _ min_wf min_lohi) as [A B]. repeat split; try tauto; try discriminate.
      apply (cn_valid_iff _ min_wf) in A. cnorm_all; lia.
    - injection H as <- <-. destruct (cn_reset_spec _ hour_wf hour_lohi) as [A B]. repeat split; try tauto; try discriminate.
      apply (cn_valid_iff _ hour_wf) in A. cnorm_all; lia.
    - rewrite f_day_eff in *. destruct (dn_reset_spec f _ _ _ _ Hwf H) as (A & B & C). repeat split; try tauto; try lia.
    - injection H as <- <-. destruct (cn_reset_spec _ mon_wf mon_lohi) as [A B]. repeat split; try tauto; try discriminate.
      apply (cn_valid_iff _ mon_wf) in A. cnorm_all; lia.
    - injection H as <- <-. destruct (cn_reset_spec _ year_wf year_lohi) as [A B]. repeat split; try tauto; try discriminate.
      apply (cn_valid_iff _ year_wf) in A. cnorm_all; lia.
  Qed.

  (* the state machine on the effective tables *)
  Theorem find_forward_eff_correct : forall s, low_ok lo6 s ->
    match find_forward c s with
    | Found s' => all_valid c s' /\ Gt_from 0 s s' /\
                  forall t, all_valid c t -> Gt_from 0 s t -> Ge_from 0 s' t
    | NoMore => forall t, all_valid c t -> ~ Gt_from 0 s t
    | OutOfFuel => True
    end.
  Proof.
    exact (find_forward_correct c lo6 inst_valid_ext inst_valid_lo inst_next_spec inst_reset_spec).
  Qed.

  (* "every node valid" on the effective tables, for a year inside the documented range, is `matches` *)
  Lemma all_valid_matches : forall s, s_year s <= 2262 ->
    (all_valid c s <-> matches f (civil_of_st s) = true).
  Proof.
    intros s Hy. unfold matches, civil_of_st, all_valid. rewrite !andb_true_iff.
    assert (Ysame : cn_is_valid (f_year c) (s_year s) = field_match Doc.year_lo Doc.year_hi (fl_year f) (s_year s)).
    { unfold cn_is_valid, field_match, cn_has_range, mem. cbn [f_year c csm_eff cn_lo cn_hi cn_vals].
      unfold year_hi_eff, Doc.year_lo, Doc.year_hi. unfold mk_csm. cbn [f_year cn_lo cn_vals].
      change Params.year_lo with 0. change Params.year_hi with 2262.
      destruct (fl_year f) as [|a l]; [reflexivity|].
      replace (s_year s <=? 3940) with true by lia. replace (s_year s <=? 2262) with true by lia. reflexivity. }
    split.
    - intros H.
      pose proof (H 0%nat ltac:(lia)) as H0. pose proof (H 1%nat ltac:(lia)) as H1. pose proof (H 2%nat ltac:(lia)) as H2.
      pose proof (H 3%nat ltac:(lia)) as H3. pose proof (H 4%nat ltac:(lia)) as H4. pose proof (H 5%nat ltac:(lia)) as H5.
      unfold node_is_valid in *. cbn [val_valid get] in *.
      rewrite (cn_valid_field_match (f_sec c) sec_wf) in H0. rewrite (cn_valid_field_match (f_min c) min_wf) in H1.
      rewrite (cn_valid_field_match (f_hour c) hour_wf) in H2. rewrite (cn_valid_field_match (f_mon c) mon_wf) in H4.
      rewrite Ysame in H5. rewrite f_day_eff, (dn_valid_iff_day_match f _ _ _ Hwf) in H3.
      repeat split; assumption.
    - intros (((((H0 & H1) & H2) & H4) & H5) & H3) k Hk.
      unfold node_is_valid. destruct k as [|[|[|[|[|[|k]]]]]]; cbn [val_valid get]; [| | | | | rewrite Ysame; exact H5 | lia].
      + rewrite (cn_valid_field_match (f_sec c) sec_wf). exact H0.
      + rewrite (cn_valid_field_match (f_min c) min_wf). exact H1.
      + rewrite (cn_valid_field_match (f_hour c) hour_wf). exact H2.
      + rewrite f_day_eff, (dn_valid_iff_day_match f _ _ _ Hwf). exact H3.
      + rewrite (cn_valid_field_match (f_mon c) mon_wf). exact H4.
  Qed.

  (* all_valid on the effective tables implies a real calendar date and time *)
  Lemma all_valid_valid_civil : forall s, all_valid c s -> valid_civil (civil_of_st s) = true.
  Proof.
    intros s H.
    pose proof (inst_valid_lo 0%nat s _ ltac:(lia) (H 0%nat ltac:(lia))) as L0.
    pose proof (H 0%nat ltac:(lia)) as H0. pose proof (H 1%nat ltac:(lia)) as H1. pose proof (H 2%nat ltac:(lia)) as H2.
    pose proof (H 3%nat ltac:(lia)) as H3. pose proof (H 4%nat ltac:(lia)) as H4.
    unfold node_is_valid in *. cbn [val_valid get] in *.
    apply (cn_valid_iff _ sec_wf) in H0. apply (cn_valid_iff _ min_wf) in H1. apply (cn_valid_iff _ hour_wf) in H2.
    apply (cn_valid_iff _ mon_wf) in H4. rewrite f_day_eff in H3. apply (dn_valid_in_month f _ _ _ Hwf) in H3.
    cbn in H0, H1, H2, H4. unfold valid_civil, civil_of_st, valid_date.
    change Params.sec_lo with 0 in *. change Params.sec_hi with 59 in *. change Params.min_lo with 0 in *.
    change Params.min_hi with 59 in *. change Params.hour_lo with 0 in *. change Params.hour_hi with 23 in *.
    change Params.mon_lo with 1 in *. change Params.mon_hi with 12 in *.
    rewrite !andb_true_iff. repeat split; lia.
  Qed.
End Inst.
