(* What quartz/cron.go's NextFireTime calls outside its own file: the state machine of internal/csm
   (newCSMFromFields + NextTriggerTime) is the model's wall_next -- whose node level is itself tied to the
   source (SrcEquiv.v, SrcMachine.v) -- and the unbounded `for { }` runs under the model's iteration budget. *)
From Coq Require Import ZArith List Bool.
Require Import QzBase.Calendar QzBase.Fields.
Require Import QzCron.CsmModel QzCron.NextFire QzCron.GoTimeLoc.
Import ListNotations.
Open Scope Z_scope.

(* a state machine positioned on a wall clock reading *)
Definition csmh : Type := (gtime * fields)%type.
Definition ext_newCSMFromFields (w : gtime) (f : fields) : csmh := (w, f).
(* csm.NextTriggerTime(loc): the next reading as a Time in loc, and whether there is one.  The model's
   out-of-fuel value WError has no counterpart in the code (C06 proves it is never returned). *)
Definition ext_NextTriggerTime (h : csmh) (loc : zone) : gtime * bool :=
  match wall_next (snd h) (time_civilL (fst h)) with
  | WNext (y, m, d, hh, mi, s) => (time_DateL y m d hh mi s loc, true)
  | WExpired => (time_zeroTime, false)
  | WError => (time_zeroTime, false)
  end.
(* for { body }: None when the iteration budget of the model (NextFire.zone_fuel) is exhausted *)
Definition go_loop {A B : Type} (body : A -> A + B) (a : A) : option B :=
  match loop_pos zone_fuel body a with
  | inl _ => None
  | inr r => Some r
  end.
