(* NextFireTime (NextFire.v) against the declarative specification: soundness for every zone table
   with bounded offsets, and exactness (least matching instant, expiry iff none) and totality for
   fixed-offset locations. *)
From Coq Require Import ZArith Lia Bool List ZifyBool.
Require Import QzBase.UnixRange QzBase.Calendar QzBase.Fields QzBase.CalendarProofs.
Require Import QzCron.Gen.Params QzCron.CsmModel QzCron.CsmSpec QzCron.NextFire QzCron.CommonProofs
               QzCron.DayProofs QzCron.MachineProofs QzCron.NodeProofs QzCron.TotalProofs.
Import ListNotations.
Open Scope Z_scope.

Definition year_of (c : civil) : Z := let '(y, _, _, _, _, _) := c in y.

Lemma civil_of_st_of_civil : forall c, civil_of_st (st_of_civil c) = c.
Proof. intros [[[[[y m] d] h] mi] s]. reflexivity. Qed.
Lemma st_of_civil_of_st : forall s, st_of_civil (civil_of_st s) = s.
Proof. intros []. reflexivity. Qed.
Lemma s_year_st_of_civil : forall c, s_year (st_of_civil c) = year_of c.
Proof. intros [[[[[y m] d] h] mi] s]. reflexivity. Qed.

Lemma low_ok_valid_civil : forall c, valid_civil c = true -> 0 <= year_of c -> low_ok lo6 (st_of_civil c).
Proof.
  intros [[[[[y m] d] h] mi] s] H Hy. unfold valid_civil, valid_date in H. cbn [year_of] in Hy.
  rewrite !andb_true_iff in H. intros k Hk.
  destruct k as [|[|[|[|[|[|k]]]]]]; cbn [lo6 get st_of_civil s_sec s_min s_hour s_day s_mon s_year]; lia.
Qed.

Section WallNext.
  Variable f : fields.
  Hypothesis Hwf : wf_fields f = true.
  Definition all_valid_c (w : civil) : Prop := all_valid (csm_eff f) (st_of_civil w).

  Lemma all_valid_c_valid : forall w, all_valid_c w -> valid_civil w = true.
  Proof.
    intros w H. pose proof (all_valid_valid_civil f Hwf _ H) as V. rewrite civil_of_st_of_civil in V. exact V.
  Qed.

  Lemma all_valid_c_year : forall w, all_valid_c w -> 0 <= year_of w <= 3940.
  Proof.
    intros w H. pose proof (H 5%nat ltac:(lia)) as H5. unfold node_is_valid in H5.
    apply (year_valid_range f Hwf) in H5. cbn [get] in H5. rewrite s_year_st_of_civil in H5. exact H5.
  Qed.

  Lemma all_valid_c_low_ok : forall w, all_valid_c w -> low_ok lo6 (st_of_civil w).
  Proof.
    intros w H. apply low_ok_valid_civil; [apply all_valid_c_valid; exact H | apply all_valid_c_year; exact H].
  Qed.

  Lemma all_valid_c_matches : forall w, year_of w <= 2262 -> (all_valid_c w <-> matches f w = true).
  Proof.
    intros w Hy. unfold all_valid_c.
    rewrite (all_valid_matches f Hwf (st_of_civil w)) by (rewrite s_year_st_of_civil; exact Hy).
    rewrite civil_of_st_of_civil. reflexivity.
  Qed.

  Lemma civil_lt_of_Gt : forall a b, Gt_from 0 (st_of_civil a) (st_of_civil b) <-> civil_lt a b.
  Proof. intros a b. rewrite Gt_from_0_civil, !civil_of_st_of_civil. reflexivity. Qed.

  (* one run of the state machine from a real wall clock reading in the documented year range *)
  Lemma wall_next_low : forall w, valid_civil w = true -> 0 <= year_of w <= 2262 ->
    match wall_next f w with
    | WNext w' => all_valid_c w' /\ civil_lt w w' /\
                  forall t, all_valid_c t -> civil_lt w t -> civil_le w' t
    | WExpired => forall t, all_valid_c t -> ~ civil_lt w t
    | WError => False
    end.
  Proof.
    intros w Hv Hy. unfold wall_next.
    assert (Hlo : low_ok lo6 (st_of_civil w)) by (apply low_ok_valid_civil; [exact Hv | lia]).
    assert (Hy' : s_year (st_of_civil w) <= Params.year_hi) by (rewrite s_year_st_of_civil; change Params.year_hi with 2262; lia).
    rewrite <- (find_forward_eff f _ Hy').
    pose proof (find_forward_eff_correct f Hwf (st_of_civil w) Hlo) as C.
    assert (Hm : s_mon (st_of_civil w) <= 12).
    { destruct w as [[[[[y m] d] h] mi] s]. unfold valid_civil, valid_date in Hv. rewrite !andb_true_iff in Hv. cbn. lia. }
    pose proof (find_forward_total f Hwf (st_of_civil w) Hlo ltac:(rewrite s_year_st_of_civil; lia) Hm) as T.
    destruct (find_forward (csm_eff f) (st_of_civil w)) as [s'| |]; [| |contradiction T; reflexivity].
    - destruct C as (Ha & Hg & Hl). unfold all_valid_c. rewrite st_of_civil_of_st. split; [exact Ha|]. split.
      + apply Gt_from_0_civil in Hg. rewrite civil_of_st_of_civil in Hg. exact Hg.
      + intros t Ht Hlt. pose proof (Hl _ Ht (proj2 (civil_lt_of_Gt w t) Hlt)) as G.
        apply Ge_from_0_civil in G. rewrite civil_of_st_of_civil in G. exact G.
    - intros t Ht Hlt. apply (C _ Ht). apply civil_lt_of_Gt. exact Hlt.
  Qed.

  (* ... and from a state beyond the documented years (only reachable through a listed year > 2262) *)
  Lemma wall_next_high : forall w, all_valid_c w -> 2262 < year_of w ->
    match wall_next f w with
    | WNext w' => all_valid_c w' /\ civil_lt w w'
    | WExpired => True
    | WError => False
    end.
  Proof.
    intros w Ha Hy. unfold wall_next, find_forward.
    set (s := st_of_civil w).
    assert (Hlo : low_ok lo6 s) by (apply all_valid_c_low_ok; exact Ha).
    pose proof (all_valid_c_year w Ha) as Hyr.
    assert (E5 : node_is_valid (mk_csm f) 5 s = false).
    { unfold node_is_valid. cbn [val_valid get]. unfold cn_is_valid, mk_csm. cbn [f_year cn_lo cn_hi cn_vals].
      subst s. rewrite s_year_st_of_civil. change Params.year_hi with 2262.
      replace (year_of w <=? 2262) with false by lia. rewrite andb_false_r. reflexivity. }
    cbn [first_invalid]. rewrite E5.
    rewrite <- (run_eff f (Over 5) s I).
    pose proof (run_correct (csm_eff f) lo6 (inst_valid_ext f) (inst_valid_lo f Hwf) (inst_next_spec f Hwf)
                  (inst_reset_spec f Hwf) (Over 5) s) as C.
    specialize (C ltac:(split; [exact Hlo | intros j Hj; lia])).
    pose proof (run_total f Hwf (Over 5) s) as T.
    specialize (T ltac:(split; [exact Hlo | cbn [fst snd]; split; [intros _; subst s; rewrite s_year_st_of_civil; exact Hyr | intros Hk; lia]])).
    destruct (run (csm_eff f) (Over 5) s) as [s'| |]; [|exact I|contradiction T; reflexivity].
    destruct C as [[Hav Hg] _]. cbn [fst snd] in Hg. unfold all_valid_c. rewrite st_of_civil_of_st. split; [exact Hav|].
    destruct Hg as (j & Hj & Hlt & He).
    assert (G0 : Gt_from 0 s s') by (exists j; repeat split; try assumption; lia).
    apply Gt_from_0_civil in G0. subst s. rewrite civil_of_st_of_civil in G0. exact G0.
  Qed.
End WallNext.

(* ---------- locations ---------- *)
Definition zone_off_ok (z : zone) : Prop := forall t, -93600 <= offset_at z t <= 93600.

Lemma fixed_zone_off_ok : forall off, -93600 <= off <= 93600 -> zone_off_ok (fixed_zone off).
Proof. intros off H t. unfold offset_at, lookup, fixed_zone. cbn. exact H. Qed.

Lemma lookup_from_off_ok : forall l off st t, -93600 <= off <= 93600 ->
  (forall w o, In (w, o) l -> -93600 <= o <= 93600) ->
  -93600 <= fst (fst (lookup_from off st l t)) <= 93600.
Proof.
  induction l as [|[w o] l IH]; intros off st t Hoff Hl; cbn [lookup_from].
  - cbn. exact Hoff.
  - destruct (t <? w); [cbn; exact Hoff|]. apply IH.
    + apply (Hl w o). left. reflexivity.
    + intros w' o' Hin. apply (Hl w' o'). right. exact Hin.
Qed.

Lemma wf_trans_offsets : forall l pt po, wf_trans pt po l = true -> forall w o, In (w, o) l -> -93600 <= o <= 93600.
Proof.
  induction l as [|[w o] l IH]; intros pt po H w' o' Hin; [destruct Hin|].
  cbn [wf_trans] in H. rewrite !andb_true_iff in H. destruct H as (((_ & H1) & H2) & H3).
  destruct Hin as [E|Hin]; [injection E as <- <-; lia | eapply IH; eassumption].
Qed.

Lemma wf_zone_off_ok : forall z, wf_zone z = true -> zone_off_ok z.
Proof.
  intros z H t. unfold wf_zone in H. rewrite !andb_true_iff in H. destruct H as ((H1 & H2) & H3).
  unfold offset_at, lookup. apply lookup_from_off_ok; [lia | eapply wf_trans_offsets; exact H3].
Qed.

Lemma fa_fold_inv : forall z u p cands best,
  match best with Some b => wall_secs z b = u /\ p < b | None => True end ->
  match fold_left (fa_pick z u p) cands best with Some b => wall_secs z b = u /\ p < b | None => True end.
Proof.
  intros z u p. induction cands as [|c cands IH]; intros best Hb; cbn [fold_left]; [exact Hb|].
  apply IH. unfold fa_pick. destruct ((wall_secs z c =? u) && (p <? c)) eqn:E; [|exact Hb].
  apply andb_true_iff in E. destruct E as [E1 E2].
  destruct best as [b|]; [destruct (c <? b); [split; lia | exact Hb] | split; lia].
Qed.

Lemma first_after_some : forall z u p t, first_after z u p = Some t -> wall_secs z t = u /\ p < t.
Proof.
  intros z u p t H. unfold first_after in H.
  destruct (lookup z (date_in_zone z u)) as [[off st] en].
  match type of H with fold_left _ ?cands None = _ => pose proof (fa_fold_inv z u p cands None I) as F end.
  rewrite H in F. exact F.
Qed.


Section Sound.
  Variable f : fields.
  Hypothesis Hwf : wf_fields f = true.
  Variable z : zone.
  Hypothesis Hz : zone_off_ok z.

  Definition fire_ok (prev ns : Z) : Prop :=
    ns mod nanos = 0 /\ prev < ns <= max_nanos /\
    exists c, civil_from_unix (offset_at z (ns / nanos)) (ns / nanos) = Some c /\ matches f c = true.

  Definition good (w : civil) : Prop := (valid_civil w = true /\ 0 <= year_of w <= 2262) \/ all_valid_c f w.

  Lemma good_next : forall w, good w ->
    match wall_next f w with
    | WNext w' => all_valid_c f w' /\ civil_lt w w'
    | WExpired => True
    | WError => False
    end.
  Proof.
    intros w [[Hv Hy]|Ha].
    - pose proof (wall_next_low f Hwf w Hv Hy) as L. destruct (wall_next f w); [tauto | exact I | exact L].
    - destruct (Z_le_gt_dec (year_of w) 2262) as [Hy|Hy].
      + pose proof (all_valid_c_year f Hwf w Ha) as Hyr.
        pose proof (wall_next_low f Hwf w (all_valid_c_valid f Hwf w Ha) ltac:(lia)) as L.
        destruct (wall_next f w); [tauto | exact I | exact L].
      + apply (wall_next_high f Hwf w Ha). lia.
  Qed.

  Lemma body_fire : forall prev w ns, min_nanos <= prev <= max_nanos -> good w ->
    nft_body f z (prev / nanos) w = inr (Fire ns) -> fire_ok prev ns.
  Proof.
    intros prev w ns Hp Hg Hb. unfold nft_body in Hb. pose proof (good_next w Hg) as N.
    destruct (wall_next f w) as [w'| |]; [|discriminate|discriminate].
    destruct N as [Ha Hlt].
    destruct (first_after z (civil_to_unix w') (prev / nanos)) as [t|] eqn:Ef; [|discriminate].
    destruct (max_nanos <? t * nanos) eqn:Em; [discriminate|]. injection Hb as <-.
    apply first_after_some in Ef. destruct Ef as [Ew Hpt]. unfold wall_secs in Ew.
    unfold max_nanos, min_nanos in *. change Params.max_int64 with 9223372036854775807 in *. unfold nanos in *.
    assert (Ht : -9223372037 <= t <= 9223372036) by lia.
    unfold fire_ok, nanos, max_nanos. change Params.max_int64 with 9223372036854775807. rewrite Z.mod_mul by lia. rewrite Z.div_mul by lia. split; [reflexivity|]. split; [lia|].
    exists w'. pose proof (Hz t) as Ho.
    assert (Ec : civil_from_unix (offset_at z t) t = Some w').
    { replace t with (civil_to_unix w' - offset_at z t) at 2 by lia.
      apply civil_from_unix_to_unix_wide; apply (all_valid_c_valid f Hwf); exact Ha. }
    split; [exact Ec|].
    destruct w' as [[[[[y m] d] h] mi] s] eqn:Ew'.
    pose proof (civil_from_unix_year_range_wide _ _ _ _ _ _ _ _ Ho Ht Ec) as Hyr.
    apply (all_valid_c_matches f Hwf); [cbn [year_of]; lia | exact Ha].
  Qed.

  Lemma body_good : forall p w w', good w -> nft_body f z p w = inl w' -> good w'.
  Proof.
    intros p w w' Hg Hb. unfold nft_body in Hb. pose proof (good_next w Hg) as N.
    destruct (wall_next f w) as [w1| |]; [|discriminate|discriminate].
    destruct (first_after z (civil_to_unix w1) p); [discriminate|]. injection Hb as <-. right. tauto.
  Qed.

  (* C01 / C14: every value returned satisfies the expression on the local wall clock *)
  Theorem nft_zone_sound : forall prev ns, min_nanos <= prev <= max_nanos ->
    next_fire_time_zone f z prev = Fire ns -> fire_ok prev ns.
  Proof.
    intros prev ns Hp H. unfold next_fire_time_zone in H.
    unfold max_nanos, min_nanos in Hp. change Params.max_int64 with 9223372036854775807 in Hp.
    assert (Hps : -9223372037 <= prev / nanos <= 9223372036) by (unfold nanos; lia).
    destruct (civil_from_unix (offset_at z (prev / nanos)) (prev / nanos)) as [w0|] eqn:E0; [|discriminate].
    pose proof (civil_from_unix_sound _ _ _ E0) as [Hv0 _].
    assert (G0 : good w0).
    { left. split; [exact Hv0|]. destruct w0 as [[[[[y m] d] h] mi] s].
      pose proof (civil_from_unix_year_range_wide _ _ _ _ _ _ _ _ (Hz _) Hps E0). cbn [year_of]. lia. }
    pose proof (loop_pos_inv _ _ (nft_body f z (prev / nanos)) good
                  (fun r => match r with Fire ns' => fire_ok prev ns' | _ => True end)
                  (fun a a' Ha Hb => body_good _ a a' Ha Hb)) as L.
    specialize (L ltac:(intros a [ns'| |] Ha Hb; [eapply body_fire; [unfold max_nanos, min_nanos; change Params.max_int64 with 9223372036854775807; lia | exact Ha | exact Hb] | exact I | exact I])).
    specialize (L zone_fuel w0 G0).
    destruct (loop_pos zone_fuel (nft_body f z (prev / nanos)) w0) as [w|r]; [discriminate|].
    subst r. exact L.
  Qed.
End Sound.

(* ---------- totality for every location with bounded offsets (C06, C14) ---------- *)
Definition far_bound : Z := civil_to_unix (3941, 1, 1, 0, 0, 0).

Lemma to_unix_below_far : forall w, valid_civil w = true -> year_of w <= 3940 -> civil_to_unix w < far_bound.
Proof.
  intros w Hv Hy. unfold far_bound. apply civil_to_unix_lt; [exact Hv | vm_compute; reflexivity|].
  destruct w as [[[[[y m] d] h] mi] s]. cbn [year_of] in Hy. cbn. lia.
Qed.

Lemma to_unix_above_1677 : forall w, valid_civil w = true -> 1677 <= year_of w -> -9246096000 <= civil_to_unix w.
Proof.
  intros w Hv Hy. change (-9246096000) with (civil_to_unix (1677, 1, 1, 0, 0, 0)).
  destruct (civil_lt_trichotomy (1677, 1, 1, 0, 0, 0) w) as [H|[H|H]].
  - assert (V0 : valid_civil (1677, 1, 1, 0, 0, 0) = true) by reflexivity.
    pose proof (civil_to_unix_lt _ _ V0 Hv H). lia.
  - subst w. lia.
  - exfalso. destruct w as [[[[[y m] d] h] mi] s]. cbn [year_of] in Hy.
    unfold valid_civil, valid_date in Hv. rewrite !andb_true_iff in Hv. cbn in H. lia.
Qed.

Section Total.
  Variable f : fields.
  Hypothesis Hwf : wf_fields f = true.
  Variable z : zone.
  Hypothesis Hz : zone_off_ok z.

  Lemma good_valid : forall w, good f w -> valid_civil w = true /\ year_of w <= 3940.
  Proof.
    intros w [[Hv Hy]|Ha]; [split; [exact Hv | lia]|].
    split; [apply (all_valid_c_valid f Hwf); exact Ha | apply (all_valid_c_year f Hwf); exact Ha].
  Qed.

  Lemma body_decreases : forall p w w', good f w -> nft_body f z p w = inl w' ->
    good f w' /\ 0 <= far_bound - civil_to_unix w' /\ (far_bound - civil_to_unix w') + 1 <= far_bound - civil_to_unix w.
  Proof.
    intros p w w' Hg Hb. pose proof (body_good f Hwf z p w w' Hg Hb) as Hg'. split; [exact Hg'|].
    unfold nft_body in Hb. pose proof (good_next f Hwf w Hg) as N.
    destruct (wall_next f w) as [w1| |]; [|discriminate|discriminate].
    destruct (first_after z (civil_to_unix w1) p); [discriminate|]. injection Hb as <-.
    destruct N as [Ha Hlt]. destruct (good_valid w Hg) as [Hv _]. destruct (good_valid w1 Hg') as [Hv1 Hy1].
    pose proof (civil_to_unix_lt _ _ Hv Hv1 Hlt). pose proof (to_unix_below_far w1 Hv1 Hy1). lia.
  Qed.

  Lemma body_no_error : forall p w, good f w -> nft_body f z p w <> inr ModelError.
  Proof.
    intros p w Hg Hb. unfold nft_body in Hb. pose proof (good_next f Hwf w Hg) as N.
    destruct (wall_next f w) as [w1| |]; [|discriminate|contradiction].
    destruct (first_after z (civil_to_unix w1) p); [|discriminate].
    destruct (max_nanos <? z0 * nanos); discriminate.
  Qed.

  Theorem nft_zone_total : forall prev, min_nanos <= prev <= max_nanos -> next_fire_time_zone f z prev <> ModelError.
  Proof.
    intros prev Hp H. unfold next_fire_time_zone in H.
    unfold max_nanos, min_nanos in Hp. change Params.max_int64 with 9223372036854775807 in Hp.
    assert (Hps : -9223372037 <= prev / nanos <= 9223372036) by (unfold nanos; lia).
    destruct (civil_from_unix_total_wide (offset_at z (prev / nanos)) (prev / nanos)) as [w0 E0]. rewrite E0 in H.
    pose proof (civil_from_unix_sound _ _ _ E0) as [Hv0 _].
    assert (Hy0 : 1677 <= year_of w0 <= 2262).
    { destruct w0 as [[[[[y m] d] h] mi] s]. exact (civil_from_unix_year_range_wide _ _ _ _ _ _ _ _ (Hz _) Hps E0). }
    assert (G0 : good f w0) by (left; split; [exact Hv0 | lia]).
    pose proof (loop_pos_decreasing _ _ (nft_body f z (prev / nanos)) (fun w => far_bound - civil_to_unix w) (good f)
                  (fun a a' Ha Hb => body_decreases _ a a' Ha Hb) zone_fuel w0 G0) as D.
    pose proof (loop_pos_inv _ _ (nft_body f z (prev / nanos)) (good f) (fun r => r <> ModelError)
                  (fun a a' Ha Hb => body_good f Hwf z _ a a' Ha Hb)
                  (fun a b Ha Hb Hr => body_no_error _ a Ha (eq_trans Hb (f_equal inr Hr))) zone_fuel w0 G0) as L.
    destruct (loop_pos zone_fuel (nft_body f z (prev / nanos)) w0) as [w|r].
    - destruct D as (_ & Hpos & Hd). pose proof (to_unix_above_1677 w0 Hv0 ltac:(lia)).
      change (Z.pos zone_fuel) with 137438953472 in Hd. unfold far_bound in *.
      change (civil_to_unix (3941, 1, 1, 0, 0, 0)) with 62198755200 in *. lia.
    - apply L. exact H.
  Qed.
End Total.

(* ---------- fixed-offset locations: exactness (C02) ---------- *)
Lemma loop_pos_inr : forall (A B : Type) (body : A -> A + B) p a b, body a = inr b -> loop_pos p body a = inr b.
Proof.
  intros A B body. induction p as [p IH|p IH|]; intros a b H; cbn [loop_pos].
  - rewrite H. reflexivity.
  - rewrite (IH a b H). reflexivity.
  - exact H.
Qed.

Lemma first_after_fixed : forall off u p,
  first_after (fixed_zone off) u p = if p <? u - off then Some (u - off) else None.
Proof.
  intros off u p. unfold first_after.
  assert (Ed : date_in_zone (fixed_zone off) u = u - off).
  { unfold date_in_zone, lookup, fixed_zone. cbn [z_off0 z_trans lookup_from]. destruct (off =? 0) eqn:E; [lia|].
    cbn [orb]. reflexivity. }
  rewrite Ed. unfold lookup, fixed_zone. cbn [z_off0 z_trans lookup_from app fold_left].
  unfold fa_pick, wall_secs, offset_at, lookup. cbn [z_off0 z_trans lookup_from fst].
  replace (u - off + off =? u) with true by lia. cbn [andb]. reflexivity.
Qed.

Definition matches_at (f : fields) (z : zone) (t : Z) : Prop :=
  exists c, civil_from_unix (offset_at z (t / nanos)) (t / nanos) = Some c /\ matches f c = true.

Section Fixed.
  Variable f : fields.
  Hypothesis Hwf : wf_fields f = true.
  Variable off : Z.
  Hypothesis Hoff : -93600 <= off <= 93600.

  Let z := fixed_zone off.

  Lemma offset_fixed : forall t, offset_at z t = off.
  Proof. reflexivity. Qed.

  (* what the model computes for a fixed-offset location, in one step *)
  Lemma nft_fixed_unfold : forall prev w0, min_nanos <= prev <= max_nanos ->
    civil_from_unix off (prev / nanos) = Some w0 ->
    next_fire_time f off prev =
      match wall_next f w0 with
      | WExpired => Expired
      | WError => ModelError
      | WNext w' => let t := civil_to_unix w' - off in
                    if max_nanos <? t * nanos then Expired else Fire (t * nanos)
      end.
  Proof.
    intros prev w0 Hp E0. unfold next_fire_time, next_fire_time_zone.
    change (offset_at (fixed_zone off) (prev / nanos)) with off. rewrite E0.
    unfold max_nanos, min_nanos in Hp. change Params.max_int64 with 9223372036854775807 in Hp.
    assert (Hps : -9223372037 <= prev / nanos <= 9223372036) by (unfold nanos; lia).
    pose proof (civil_from_unix_sound _ _ _ E0) as [Hv0 Hu0].
    assert (Hy0 : 0 <= year_of w0 <= 2262).
    { destruct w0 as [[[[[y m] d] h] mi] s]. pose proof (civil_from_unix_year_range_wide _ _ _ _ _ _ _ _ Hoff Hps E0). cbn [year_of]. lia. }
    pose proof (wall_next_low f Hwf w0 Hv0 Hy0) as N.
    assert (Eb : nft_body f (fixed_zone off) (prev / nanos) w0 =
                 inr (match wall_next f w0 with
                      | WExpired => Expired
                      | WError => ModelError
                      | WNext w' => let t := civil_to_unix w' - off in
                                    if max_nanos <? t * nanos then Expired else Fire (t * nanos)
                      end)).
    { unfold nft_body. destruct (wall_next f w0) as [w'| |]; [|reflexivity|reflexivity].
      destruct N as (Ha & Hlt & _). rewrite first_after_fixed.
      pose proof (civil_to_unix_lt _ _ Hv0 (all_valid_c_valid f Hwf w' Ha) Hlt).
      replace (prev / nanos <? civil_to_unix w' - off) with true by lia. reflexivity. }
    rewrite (loop_pos_inr _ _ _ zone_fuel _ _ Eb). reflexivity.
  Qed.

  Lemma whole_second : forall t', t' mod nanos = 0 -> t' = (t' / nanos) * nanos.
  Proof. intros t' H. unfold nanos in *. lia. Qed.

  (* the instant k (seconds) reads a civil tuple that is all-valid iff it matches *)
  Lemma instant_civil : forall k, -9223372037 <= k <= 9223372036 ->
    exists c, civil_from_unix off k = Some c /\ valid_civil c = true /\ civil_to_unix c = k + off /\ year_of c <= 2262.
  Proof.
    intros k Hk. destruct (civil_from_unix_total_wide off k) as [c E]. exists c. split; [exact E|].
    destruct (civil_from_unix_sound _ _ _ E) as [Hv Hu]. split; [exact Hv|]. split; [exact Hu|].
    destruct c as [[[[[y m] d] h] mi] s]. pose proof (civil_from_unix_year_range_wide _ _ _ _ _ _ _ _ Hoff Hk E). cbn [year_of]. lia.
  Qed.

  Theorem nft_fixed_total : forall prev, min_nanos <= prev <= max_nanos -> next_fire_time f off prev <> ModelError.
  Proof. intros prev Hp. apply (nft_zone_total f Hwf (fixed_zone off) (fixed_zone_off_ok off Hoff) prev Hp). Qed.

  Theorem nft_fixed_sound : forall prev ns, min_nanos <= prev <= max_nanos -> next_fire_time f off prev = Fire ns ->
    fire_ok f (fixed_zone off) prev ns.
  Proof. intros prev ns Hp H. apply (nft_zone_sound f Hwf (fixed_zone off) (fixed_zone_off_ok off Hoff) prev ns Hp H). Qed.

  (* C02: nothing matching lies strictly between prev and the result *)
  Theorem nft_fixed_least : forall prev ns, min_nanos <= prev <= max_nanos -> next_fire_time f off prev = Fire ns ->
    forall t', prev < t' < ns -> t' mod nanos = 0 -> ~ matches_at f (fixed_zone off) t'.
  Proof.
    intros prev ns Hp H t' Ht' Hmod [c [Ec Hm]].
    unfold max_nanos, min_nanos in Hp. change Params.max_int64 with 9223372036854775807 in Hp.
    assert (Hps : -9223372037 <= prev / nanos <= 9223372036) by (unfold nanos; lia).
    destruct (instant_civil (prev / nanos) Hps) as (w0 & E0 & Hv0 & Hu0 & Hy0).
    rewrite (nft_fixed_unfold prev w0 ltac:(unfold max_nanos, min_nanos; change Params.max_int64 with 9223372036854775807; lia) E0) in H.
    assert (Hy0' : 0 <= year_of w0 <= 2262).
    { destruct w0 as [[[[[y m] d] h] mi] s]. pose proof (civil_from_unix_year_range_wide _ _ _ _ _ _ _ _ Hoff Hps E0). cbn [year_of]. lia. }
    pose proof (wall_next_low f Hwf w0 Hv0 Hy0') as N.
    destruct (wall_next f w0) as [w'| |]; [|discriminate|discriminate].
    destruct N as (Ha & Hlt & Hleast). cbn zeta in H.
    destruct (max_nanos <? (civil_to_unix w' - off) * nanos) eqn:Em; [discriminate|]. injection H as <-.
    change (offset_at (fixed_zone off) (t' / nanos)) with off in Ec.
    set (k := t' / nanos) in *. pose proof (whole_second t' Hmod) as Hk. fold k in Hk.
    unfold max_nanos in Em. change Params.max_int64 with 9223372036854775807 in Em. unfold nanos in *.
    assert (Hkr : -9223372037 <= k <= 9223372036) by lia.
    destruct (civil_from_unix_sound _ _ _ Ec) as [Hvc Huc].
    assert (Hyc : year_of c <= 2262).
    { destruct c as [[[[[y m] d] h] mi] s]. pose proof (civil_from_unix_year_range_wide _ _ _ _ _ _ _ _ Hoff Hkr Ec). cbn [year_of]. lia. }
    assert (Hac : all_valid_c f c) by (apply (all_valid_c_matches f Hwf c Hyc); exact Hm).
    assert (Hltc : civil_lt w0 c) by (apply civil_to_unix_lt_inv; [exact Hv0 | exact Hvc | lia]).
    destruct (Hleast c Hac Hltc) as [->|Hlt'].
    - lia.
    - pose proof (civil_to_unix_lt _ _ (all_valid_c_valid f Hwf w' Ha) Hvc Hlt'). lia.
  Qed.

  (* C02: expiry is reported exactly when no matching instant is left in the representable range *)
  Theorem nft_fixed_expired_iff : forall prev, min_nanos <= prev <= max_nanos ->
    (next_fire_time f off prev = Expired <->
     forall t', prev < t' <= max_nanos -> t' mod nanos = 0 -> ~ matches_at f (fixed_zone off) t').
  Proof.
    intros prev Hp. split.
    - intros H t' Ht' Hmod [c [Ec Hm]].
      unfold max_nanos, min_nanos in Hp, Ht'. change Params.max_int64 with 9223372036854775807 in Hp, Ht'.
      assert (Hps : -9223372037 <= prev / nanos <= 9223372036) by (unfold nanos; lia).
      destruct (instant_civil (prev / nanos) Hps) as (w0 & E0 & Hv0 & Hu0 & Hy0).
      rewrite (nft_fixed_unfold prev w0 ltac:(unfold max_nanos, min_nanos; change Params.max_int64 with 9223372036854775807; lia) E0) in H.
      assert (Hy0' : 0 <= year_of w0 <= 2262).
      { destruct w0 as [[[[[y m] d] h] mi] s]. pose proof (civil_from_unix_year_range_wide _ _ _ _ _ _ _ _ Hoff Hps E0). cbn [year_of]. lia. }
      pose proof (wall_next_low f Hwf w0 Hv0 Hy0') as N.
      change (offset_at (fixed_zone off) (t' / nanos)) with off in Ec.
      set (k := t' / nanos) in *. pose proof (whole_second t' Hmod) as Hk. fold k in Hk. unfold nanos in *.
      assert (Hkr : -9223372037 <= k <= 9223372036) by lia.
      destruct (civil_from_unix_sound _ _ _ Ec) as [Hvc Huc].
      assert (Hyc : year_of c <= 2262).
      { destruct c as [[[[[y m] d] h] mi] s]. pose proof (civil_from_unix_year_range_wide _ _ _ _ _ _ _ _ Hoff Hkr Ec). cbn [year_of]. lia. }
      assert (Hac : all_valid_c f c) by (apply (all_valid_c_matches f Hwf c Hyc); exact Hm).
      assert (Hltc : civil_lt w0 c) by (apply civil_to_unix_lt_inv; [exact Hv0 | exact Hvc | lia]).
      destruct (wall_next f w0) as [w'| |]; [| exact (N c Hac Hltc) | discriminate].
      destruct N as (Ha & Hlt & Hleast). cbn zeta in H.
      destruct (max_nanos <? (civil_to_unix w' - off) * 1000000000) eqn:Em; [|discriminate].
      unfold max_nanos in Em. change Params.max_int64 with 9223372036854775807 in Em.
      destruct (Hleast c Hac Hltc) as [->|Hlt'].
      + lia.
      + pose proof (civil_to_unix_lt _ _ (all_valid_c_valid f Hwf w' Ha) Hvc Hlt'). lia.
    - intros Hnone. destruct (next_fire_time f off prev) as [ns| |] eqn:E; [|reflexivity|].
      + exfalso. pose proof (nft_fixed_sound prev ns Hp E) as (Hmod & Hr & c & Ec & Hm).
        apply (Hnone ns Hr Hmod). exists c. split; assumption.
      + exfalso. apply (nft_fixed_total prev Hp). exact E.
  Qed.
End Fixed.

(* ---------- corollaries used by the property files ---------- *)
Lemma matches_year : forall f c, matches f c = true -> 0 <= year_of c <= 2262.
Proof.
  intros f [[[[[y m] d] h] mi] s] H. unfold matches in H. rewrite !andb_true_iff in H.
  destruct H as [[[[[_ _] _] _] Hy] _]. unfold field_match, Doc.year_lo, Doc.year_hi in Hy.
  rewrite !andb_true_iff in Hy. cbn [year_of]. lia.
Qed.

(* a matching tuple is a real calendar date and time of day: no 31 June, no 30 February, no hour 24 *)
Theorem matches_valid_civil : forall f c, wf_fields f = true -> matches f c = true -> valid_civil c = true.
Proof.
  intros f c Hwf H. apply (all_valid_c_valid f Hwf). apply (all_valid_c_matches f Hwf c); [apply (matches_year f c H) | exact H].
Qed.

Theorem nft_fixed_sound' : forall f off prev ns, wf_fields f = true -> -93600 <= off <= 93600 ->
  min_nanos <= prev <= max_nanos -> next_fire_time f off prev = Fire ns ->
  ns mod nanos = 0 /\ prev < ns <= max_nanos /\
  exists c, civil_from_unix off (ns / nanos) = Some c /\ matches f c = true /\ valid_civil c = true.
Proof.
  intros f off prev ns Hwf Hoff Hp H. destruct (nft_fixed_sound f Hwf off Hoff prev ns Hp H) as (A & B & c & Ec & Hm).
  split; [exact A|]. split; [exact B|]. exists c. split; [exact Ec|]. split; [exact Hm | eapply matches_valid_civil; eassumption].
Qed.

(* iterating NextFireTime enumerates every scheduled instant once and in order *)
Theorem nft_fixed_chain : forall f off prev n1 n2, wf_fields f = true -> -93600 <= off <= 93600 ->
  min_nanos <= prev <= max_nanos -> next_fire_time f off prev = Fire n1 -> next_fire_time f off n1 = Fire n2 ->
  prev < n1 < n2 /\
  forall t', prev < t' < n2 -> t' mod nanos = 0 -> matches_at f (fixed_zone off) t' -> t' = n1.
Proof.
  intros f off prev n1 n2 Hwf Hoff Hp H1 H2.
  destruct (nft_fixed_sound f Hwf off Hoff prev n1 Hp H1) as (A1 & B1 & _).
  assert (Hp1 : min_nanos <= n1 <= max_nanos) by lia.
  destruct (nft_fixed_sound f Hwf off Hoff n1 n2 Hp1 H2) as (A2 & B2 & _).
  split; [lia|]. intros t' Ht' Hmod Hm.
  destruct (Z.lt_trichotomy t' n1) as [Hlt|[Heq|Hgt]]; [|exact Heq|].
  - exfalso. apply (nft_fixed_least f Hwf off Hoff prev n1 Hp H1 t' ltac:(lia) Hmod Hm).
  - exfalso. apply (nft_fixed_least f Hwf off Hoff n1 n2 Hp1 H2 t' ltac:(lia) Hmod Hm).
Qed.

Theorem nft_zone_sound_wf : forall f z prev ns, wf_fields f = true -> wf_zone z = true ->
  min_nanos <= prev <= max_nanos -> next_fire_time_zone f z prev = Fire ns ->
  ns mod nanos = 0 /\ prev < ns <= max_nanos /\
  exists c, civil_from_unix (offset_at z (ns / nanos)) (ns / nanos) = Some c /\ matches f c = true /\ valid_civil c = true.
Proof.
  intros f z prev ns Hwf Hz Hp H.
  destruct (nft_zone_sound f Hwf z (wf_zone_off_ok z Hz) prev ns Hp H) as (A & B & c & Ec & Hm).
  split; [exact A|]. split; [exact B|]. exists c. split; [exact Ec|]. split; [exact Hm | eapply matches_valid_civil; eassumption].
Qed.

Theorem nft_zone_total_wf : forall f z prev, wf_fields f = true -> wf_zone z = true ->
  min_nanos <= prev <= max_nanos -> next_fire_time_zone f z prev <> ModelError.
Proof. intros f z prev Hwf Hz Hp. apply (nft_zone_total f Hwf z (wf_zone_off_ok z Hz) prev Hp). Qed.

(* a location without transitions is a fixed-offset location: there the result is exact *)
Theorem nft_zone_no_transitions : forall f z prev, z_trans z = [] ->
  next_fire_time_zone f z prev = next_fire_time f (z_off0 z) prev.
Proof. intros f [o l] prev H. cbn in H. subst l. reflexivity. Qed.

(* ---------- non-vacuity: concrete expressions and instants ---------- *)
Definition ex_fields_third_friday : fields :=   (* "0 15 10 ? * 6#3" *)
  {| fl_sec := [0]; fl_min := [15]; fl_hour := [10]; fl_dom := []; fl_dom_n := 0; fl_mon := [];
     fl_dow := [5]; fl_dow_n := 3; fl_year := [] |}.
Example ex_third_friday_wf : wf_fields ex_fields_third_friday = true.
Proof. reflexivity. Qed.
(* prev = 2024-03-15T10:15:00Z (a third Friday, exactly on the fire time): next is 2024-04-19T10:15:00Z *)
Example ex_third_friday_fire :
  next_fire_time ex_fields_third_friday 0 1710497700000000000 = Fire 1713521700000000000.
Proof. vm_compute. reflexivity. Qed.
Definition ex_fields_feb30 : fields :=   (* "0 0 0 30 2 ?" never fires *)
  {| fl_sec := [0]; fl_min := [0]; fl_hour := [0]; fl_dom := [30]; fl_dom_n := 0; fl_mon := [2];
     fl_dow := []; fl_dow_n := 0; fl_year := [] |}.
Example ex_feb30_expired : next_fire_time ex_fields_feb30 3600 1710497700000000000 = Expired.
Proof. vm_compute. reflexivity. Qed.
Definition ex_zone_ny_2019 : zone :=   (* America/New_York around the 2019 fall-back *)
  {| z_off0 := -18000; z_trans := [(1552201200, -14400); (1572760800, -18000); (1583650800, -14400)] |}.
Example ex_zone_wf : wf_zone ex_zone_ny_2019 = true.
Proof. reflexivity. Qed.
Definition ex_fields_6_39_55 : fields :=   (* "6,39 55 * * * ?" *)
  {| fl_sec := [6; 39]; fl_min := [55]; fl_hour := []; fl_dom := []; fl_dom_n := 0; fl_mon := [];
     fl_dow := []; fl_dow_n := 0; fl_year := [] |}.
(* prev = 2019-11-03 01:23:32 EST (inside the repeated hour): fires 01:55:06 EST, not expired *)
Example ex_repeated_hour_alive :
  next_fire_time_zone ex_fields_6_39_55 ex_zone_ny_2019 1572762212000000000 = Fire 1572764106000000000.
Proof. vm_compute. reflexivity. Qed.
