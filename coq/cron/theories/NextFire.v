(* CronTrigger.NextFireTime of quartz/cron.go: wall clock of prev in the trigger location,
   state machine on the wall clock, mapping back to the first instant after prev that shows the
   reading (firstAfter), int64 limit.  Locations are zone tables; a fixed-offset location (and UTC)
   is a table without transitions.  Definitions only. *)
From Coq Require Import ZArith List Bool.
Require Import QzBase.Calendar QzBase.Fields.
Require Import QzCron.Gen.Params QzCron.CsmModel.
Import ListNotations.
Open Scope Z_scope.

(* a location: offset before the first transition, then (instant, offset from then on) in increasing order *)
Record zone := { z_off0 : Z; z_trans : list (Z * Z) }.
Definition fixed_zone (off : Z) : zone := {| z_off0 := off; z_trans := [] |}.

(* Location.lookup(sec): offset in force, start and end of that period (None = unbounded) *)
Fixpoint lookup_from (off : Z) (start : option Z) (l : list (Z * Z)) (t : Z) : Z * option Z * option Z :=
  match l with
  | [] => (off, start, None)
  | (w, o) :: l' => if t <? w then (off, start, Some w) else lookup_from o (Some w) l' t
  end.
Definition lookup (z : zone) (t : Z) : Z * option Z * option Z := lookup_from (z_off0 z) None (z_trans z) t.
Definition offset_at (z : zone) (t : Z) : Z := fst (fst (lookup z t)).
(* the wall clock reading of instant t, as seconds of a UTC-arithmetic clock *)
Definition wall_secs (z : zone) (t : Z) : Z := t + offset_at z t.

(* time.Date(y, m, d, h, mi, s, 0, loc) where u is the reading taken as UTC seconds *)
Definition date_in_zone (z : zone) (u : Z) : Z :=
  let '(off, st, en) := lookup z u in
  if off =? 0 then u
  else
    let utc := u - off in
    let outside := (match st with Some s => utc <? s | None => false end)
                   || (match en with Some e => e <=? utc | None => false end) in
    if outside then u - offset_at z utc else u - off.

(* firstAfter(wallClock, loc, prev): the first instant after prev_s that reads wall clock u *)
Definition fa_pick (z : zone) (u prev_s : Z) (best : option Z) (c : Z) : option Z :=
  if (wall_secs z c =? u) && (prev_s <? c)
  then match best with Some b => if c <? b then Some c else best | None => Some c end
  else best.
Definition first_after (z : zone) (u prev_s : Z) : option Z :=
  let t := date_in_zone z u in
  let '(off, st, en) := lookup z t in
  let cands := [t]
    ++ (match st with Some s => [t + (off - offset_at z (s - 1))] | None => [] end)
    ++ (match en with Some e => [t + (off - offset_at z e)] | None => [] end) in
  fold_left (fa_pick z u prev_s) cands None.

Inductive res := Fire (ns : Z) | Expired | ModelError.

Definition max_nanos : Z := Params.max_int64.
Definition min_nanos : Z := - Params.max_int64 - 1.   (* math.MinInt64 *)
Definition nanos : Z := 1000000000.
Definition zone_fuel : positive := 137438953472.   (* 2^37 > seconds between 1970 and 3941 *)

(* one iteration of NextFireTime's loop on wall clock reading w *)
Definition nft_body (f : fields) (z : zone) (prev_s : Z) (w : civil) : civil + res :=
  match wall_next f w with
  | WExpired => inr Expired
  | WError => inr ModelError
  | WNext w' =>
      match first_after z (civil_to_unix w') prev_s with
      | None => inl w'                      (* skipped or repeated by a transition: continue *)
      | Some t => inr (if max_nanos <? t * nanos then Expired else Fire (t * nanos))
      end
  end.

Definition next_fire_time_zone (f : fields) (z : zone) (prev : Z) : res :=
  let prev_s := prev / nanos in             (* the whole second at or before prev: floor, also for prev < 0 (fix D10) *)
  match civil_from_unix (offset_at z prev_s) prev_s with
  | None => ModelError
  | Some w0 =>
      match loop_pos zone_fuel (nft_body f z prev_s) w0 with
      | inl _ => ModelError
      | inr r => r
      end
  end.

Definition next_fire_time (f : fields) (offset prev : Z) : res := next_fire_time_zone f (fixed_zone offset) prev.

(* well-formed zone table: transitions strictly increasing, offsets within +-26h, consecutive transitions
   further apart than the sum of the adjacent offset changes *)
Fixpoint wf_trans (prev_t : option Z) (prev_off : Z) (l : list (Z * Z)) : bool :=
  match l with
  | [] => true
  | (w, o) :: l' =>
      (match prev_t with Some p => p + 2 * 93600 <? w | None => true end)
      && (-93600 <? o) && (o <? 93600) && wf_trans (Some w) o l'
  end.
Definition wf_zone (z : zone) : bool := (-93600 <? z_off0 z) && (z_off0 z <? 93600) && wf_trans None (z_off0 z) (z_trans z).
