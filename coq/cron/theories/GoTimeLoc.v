(* Go's time.Time with a location, as quartz/cron.go's firstAfter uses it (whole seconds only).
   A value is an instant (seconds since the epoch), the location it is shown in (a zone table of
   NextFire.v) and whether it is the zero Time.  Definitions only. *)
From Coq Require Import ZArith List Bool.
Require Import QzBase.Calendar.
Require Import QzCron.NextFire.
Import ListNotations.
Open Scope Z_scope.

Record gtime := { gt_sec : Z; gt_loc : zone; gt_zero : bool }.
Definition utc_zone : zone := fixed_zone 0.
Definition time_zeroTime : gtime := {| gt_sec := 0; gt_loc := utc_zone; gt_zero := true |}.
Definition mk_time (loc : zone) (s : Z) : gtime := {| gt_sec := s; gt_loc := loc; gt_zero := false |}.

(* the civil reading of t in its own location *)
Definition time_civilL (t : gtime) : civil :=
  match civil_from_unix (offset_at (gt_loc t) (gt_sec t)) (gt_sec t) with
  | Some c => c
  | None => (0, 0, 0, 0, 0, 0)
  end.
(* t.Date() and t.Clock() *)
Definition time_DateOf (t : gtime) : Z * Z * Z := let '(y, m, d, _, _, _) := time_civilL t in (y, m, d).
Definition time_ClockOf (t : gtime) : Z * Z * Z := let '(_, _, _, h, mi, s) := time_civilL t in (h, mi, s).
(* time.Date(y, m, d, h, mi, s, 0, loc): Go's two-lookup rule is date_in_zone of NextFire.v *)
Definition time_DateL (y m d h mi s : Z) (loc : zone) : gtime := mk_time loc (date_in_zone loc (civil_to_unix (y, m, d, h, mi, s))).
(* t.Zone(): (abbreviation, offset); the abbreviation is never used *)
Definition time_Zone (t : gtime) : unit * Z := (tt, offset_at (gt_loc t) (gt_sec t)).
(* t.ZoneBounds(): start and end of the period in force at t; the zero Time where unbounded *)
Definition time_ZoneBounds (t : gtime) : gtime * gtime :=
  let '(_, st, en) := lookup (gt_loc t) (gt_sec t) in
  ((match st with Some s => mk_time (gt_loc t) s | None => time_zeroTime end),
   (match en with Some e => mk_time (gt_loc t) e | None => time_zeroTime end)).
Definition time_IsZero (t : gtime) : bool := gt_zero t.
(* t.Add(k * time.Second) *)
Definition time_AddSec (t : gtime) (k : Z) : gtime := {| gt_sec := gt_sec t + k; gt_loc := gt_loc t; gt_zero := gt_zero t |}.
Definition time_After (a b : gtime) : bool := gt_sec b <? gt_sec a.
Definition time_Before (a b : gtime) : bool := gt_sec a <? gt_sec b.

(* time.Unix(s, 0) and t.In(loc) *)
Definition time_Unix (s : Z) : gtime := mk_time utc_zone s.
Definition time_In (t : gtime) (loc : zone) : gtime := {| gt_sec := gt_sec t; gt_loc := loc; gt_zero := gt_zero t |}.
(* t.UnixNano() of a whole-second instant *)
Definition time_UnixNano (t : gtime) : Z := gt_sec t * 1000000000.
(* maxTime = time.Unix(0, 1<<63-1) = 9223372036.854775807 s: a whole-second instant is after it iff its
   second count exceeds 9223372036 (the translator checks the declaration of maxTime) *)
Definition time_maxTime : gtime := mk_time utc_zone 9223372036.
