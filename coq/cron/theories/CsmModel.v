(* M1 -- the cron next-fire-time state machine (definitions only).
   Code-shaped model of internal/csm (common_node.go, day_node.go, util.go, fn_find_forward.go,
   fn_next.go, cron_state_machine.go) and quartz/csm.go as they are in /repo now.
   Node bounds come from Gen/Params.v (regenerated from quartz/csm.go on every run). *)
From Coq Require Import ZArith List Bool.
Require Import QzBase.Calendar QzBase.Fields.
Require Import QzCron.Gen.Params.
Import ListNotations.
Open Scope Z_scope.

(* ---------- CommonNode (common_node.go) ---------- *)
Record cnode := { cn_lo : Z; cn_hi : Z; cn_vals : list Z }.
Definition cn_has_range (n : cnode) : bool := match cn_vals n with [] => false | _ => true end.
(* isValid *)
Definition cn_is_valid (n : cnode) (v : Z) : bool :=
  (cn_lo n <=? v) && (v <=? cn_hi n) &&
  (if cn_has_range n then existsb (Z.eqb v) (cn_vals n) else true).
(* Next = nextInRange | next : new value and "overflowed" *)
Definition cn_next (n : cnode) (v : Z) : Z * bool :=
  if cn_has_range n then
    match find (fun x => v <? x) (cn_vals n) with
    | Some x => (x, false)
    | None => (hd 0 (cn_vals n), true)
    end
  else if cn_hi n <? v + 1 then (cn_lo n, true) else (v + 1, false).
(* Reset: value := max; Next() *)
Definition cn_reset (n : cnode) : Z := fst (cn_next n (cn_hi n)).

(* ---------- DayNode (day_node.go, util.go) ---------- *)
Record dnode := { dn_c : cnode; dn_w : list Z; dn_n : Z }.
Definition dn_is_weekday (n : dnode) : bool := match dn_w n with [] => false | _ => true end.
Definition is_wk (w : Z) : bool := negb (w =? 6) && negb (w =? 0).   (* isWeekday: not Saturday, not Sunday *)

(* closestWeekday(t) for t = y-m-d: search distance 1..7, previous day first, inside the month *)
Definition closest_weekday (y m d : Z) : Z :=
  if is_wk (weekday_of y m d) then d else
  let len := month_len y m in
  let fix go (is : list Z) : Z :=
    match is with
    | [] => d
    | i :: is' =>
        if (1 <=? d - i) && is_wk (weekday_of y m (d - i)) then d - i
        else if (d + i <=? len) && is_wk (weekday_of y m (d + i)) then d + i
        else go is'
    end in
  go [1;2;3;4;5;6;7].

Definition bit_weekday (n : Z) : bool := negb (Z.land n Params.n_weekday =? 0).            (* n & NWeekday != 0 *)
Definition bit_last (n : Z) : bool := negb (Z.land n Params.n_last_day_of_month =? 0).    (* n & NLastDayOfMonth != 0 *)

(* dayN: the only day of month (y,m) selected by the L / W / # rule, and whether it exists *)
Definition dn_dayN (n : dnode) (y m : Z) : Z * bool :=
  let last := month_len y m in
  if dn_is_weekday n && (0 <? dn_n n) then                  (* n-th weekday of the month *)
    let day := 1 + ((hd 0 (dn_w n) - weekday_of y m 1 + 7) mod 7) + 7 * (dn_n n - 1) in
    (day, day <=? last)
  else if dn_is_weekday n then                              (* last weekday of the month *)
    (last - ((weekday_of y m last - hd 0 (dn_w n) + 7) mod 7), true)
  else if bit_weekday (dn_n n) && (0 <? dn_n n) then         (* closest weekday (nW, LW) *)
    let date0 := hd 0 (cn_vals (dn_c n)) in
    let date := if (last <? date0) || bit_last (dn_n n) then last else date0 in
    (closest_weekday y m date, true)
  else if dn_n n =? Params.n_last_day_of_month then (last, true)   (* L *)
  else (last + dn_n n, 1 <=? last + dn_n n).                 (* L-n, n stored negated *)

(* nextDayN *)
Definition dn_next_dayN (n : dnode) (y m v : Z) : Z * bool :=
  let '(day, ok) := dn_dayN n y m in
  if negb ok || (day <=? v) then (v, true) else (day, false).

(* nextWeekday *)
Definition dn_next_weekday (n : dnode) (y m v : Z) : Z * bool :=
  let wd := weekday_of y m v in
  let offset := match find (fun x => wd <? x) (dn_w n) with
                | Some x => x - wd
                | None => 7 + hd 0 (dn_w n) - wd
                end in
  if month_len y m <? v + offset then (v, true) else (v + offset, false).

(* nextDay: c.Next() || c.value > max() *)
Definition dn_next_day (n : dnode) (y m v : Z) : Z * bool :=
  let '(v', ov) := cn_next (dn_c n) v in (v', ov || (month_len y m <? v')).

(* Next *)
Definition dn_next (n : dnode) (y m v : Z) : Z * bool :=
  if negb (dn_n n =? 0) then dn_next_dayN n y m v
  else if dn_is_weekday n then dn_next_weekday n y m v
  else dn_next_day n y m v.

(* Reset: value := min - 1; Next() *)
Definition dn_reset (n : dnode) (y m : Z) : Z * bool := dn_next n y m (cn_lo (dn_c n) - 1).

(* isValid *)
Definition dn_is_valid (n : dnode) (y m v : Z) : bool :=
  if negb (dn_n n =? 0) then
    let '(day, ok) := dn_dayN n y m in ok && (v =? day)
  else
    cn_is_valid (dn_c n) v && (v <=? month_len y m) &&
    (if dn_is_weekday n then existsb (Z.eqb (weekday_of y m v)) (dn_w n) else true).

(* ---------- CronStateMachine ---------- *)
Record csm := { f_sec : cnode; f_min : cnode; f_hour : cnode; f_day : dnode; f_mon : cnode; f_year : cnode }.
Record st := { s_sec : Z; s_min : Z; s_hour : Z; s_day : Z; s_mon : Z; s_year : Z }.

(* NodeID: 0 seconds, 1 minutes, 2 hours, 3 days, 4 months, 5 years (selectNode) *)
Definition get (k : nat) (s : st) : Z :=
  match k with
  | 0 => s_sec s | 1 => s_min s | 2 => s_hour s | 3 => s_day s | 4 => s_mon s | _ => s_year s
  end%nat.
Definition set (k : nat) (v : Z) (s : st) : st :=
  match k with
  | 0 => {| s_sec := v; s_min := s_min s; s_hour := s_hour s; s_day := s_day s; s_mon := s_mon s; s_year := s_year s |}
  | 1 => {| s_sec := s_sec s; s_min := v; s_hour := s_hour s; s_day := s_day s; s_mon := s_mon s; s_year := s_year s |}
  | 2 => {| s_sec := s_sec s; s_min := s_min s; s_hour := v; s_day := s_day s; s_mon := s_mon s; s_year := s_year s |}
  | 3 => {| s_sec := s_sec s; s_min := s_min s; s_hour := s_hour s; s_day := v; s_mon := s_mon s; s_year := s_year s |}
  | 4 => {| s_sec := s_sec s; s_min := s_min s; s_hour := s_hour s; s_day := s_day s; s_mon := v; s_year := s_year s |}
  | _ => {| s_sec := s_sec s; s_min := s_min s; s_hour := s_hour s; s_day := s_day s; s_mon := s_mon s; s_year := v |}
  end%nat.

(* node.Next(): the node's new value and whether it overflowed *)
Definition val_next (c : csm) (k : nat) (s : st) : Z * bool :=
  match k with
  | 0 => cn_next (f_sec c) (s_sec s)
  | 1 => cn_next (f_min c) (s_min s)
  | 2 => cn_next (f_hour c) (s_hour s)
  | 3 => dn_next (f_day c) (s_year s) (s_mon s) (s_day s)
  | 4 => cn_next (f_mon c) (s_mon s)
  | _ => cn_next (f_year c) (s_year s)
  end%nat.
(* node.Reset() *)
Definition val_reset (c : csm) (k : nat) (s : st) : Z * bool :=
  match k with
  | 0 => (cn_reset (f_sec c), false)
  | 1 => (cn_reset (f_min c), false)
  | 2 => (cn_reset (f_hour c), false)
  | 3 => dn_reset (f_day c) (s_year s) (s_mon s)
  | 4 => (cn_reset (f_mon c), false)
  | _ => (cn_reset (f_year c), false)
  end%nat.
(* would value v be valid for node k, given the more significant nodes of s *)
Definition val_valid (c : csm) (k : nat) (s : st) (v : Z) : bool :=
  match k with
  | 0 => cn_is_valid (f_sec c) v
  | 1 => cn_is_valid (f_min c) v
  | 2 => cn_is_valid (f_hour c) v
  | 3 => dn_is_valid (f_day c) (s_year s) (s_mon s) v
  | 4 => cn_is_valid (f_mon c) v
  | _ => cn_is_valid (f_year c) v
  end%nat.
Definition node_is_valid (c : csm) (k : nat) (s : st) : bool := val_valid c k s (get k s).

(* resetFrom / overflowFrom (fn_find_forward.go): the two mutually recursive loops, flattened
   into one step function over a phase. *)
Inductive phase := Over (k : nat) | Reset (k : nat).
Definition after_node (k : nat) (o : bool) (s' : st) : (phase * st) + option st :=
  if o then inl (Over (S k), s')
  else match k with O => inr (Some s') | S k' => inl (Reset k', s') end.
Definition step (c : csm) (x : phase * st) : (phase * st) + option st :=
  let '(ph, s) := x in
  match ph with
  | Over k =>
      if (5 <? k)%nat then inr None                       (* no valid year is left: expired *)
      else let '(v, o) := val_next c k s in after_node k o (set k v s)
  | Reset k =>
      let '(v, o) := val_reset c k s in after_node k o (set k v s)
  end.

(* run `body` at most p times (binary fuel: structural on positive, cheap to build) *)
Fixpoint loop_pos {A B : Type} (p : positive) (body : A -> A + B) (a : A) : A + B :=
  match p with
  | xH => body a
  | xO p' => match loop_pos p' body a with inl a' => loop_pos p' body a' | inr b => inr b end
  | xI p' => match body a with
             | inl a1 => match loop_pos p' body a1 with inl a2 => loop_pos p' body a2 | inr b => inr b end
             | inr b => inr b
             end
  end.

Inductive outcome := Found (s : st) | NoMore | OutOfFuel.
Definition run_fuel : positive := 1048576.   (* 2^20 node steps; nft_total proves it is never exhausted *)
Definition run (c : csm) (ph : phase) (s : st) : outcome :=
  match loop_pos run_fuel (step c) (ph, s) with
  | inl _ => OutOfFuel
  | inr (Some s') => Found s'
  | inr None => NoMore
  end.

(* findForward: scan years..seconds for the first node that is not valid *)
Fixpoint first_invalid (c : csm) (s : st) (ids : list nat) : option nat :=
  match ids with
  | [] => None
  | k :: ids' => if node_is_valid c k s then first_invalid c s ids' else Some k
  end.
Definition find_forward (c : csm) (s : st) : outcome :=
  match first_invalid c s [5; 4; 3; 2; 1; 0]%nat with
  | Some k => run c (Over k) s        (* node.findForward(): Next(); advanced -> resetFrom(k-1), overflowed -> overflowFrom(k+1) *)
  | None => run c (Over 0%nat) s      (* csm.next() = overflowFrom(seconds) *)
  end.

(* newCSMFromFields (quartz/csm.go) *)
Definition mk_csm (f : fields) : csm :=
  {| f_sec := {| cn_lo := Params.sec_lo; cn_hi := Params.sec_hi; cn_vals := fl_sec f |};
     f_min := {| cn_lo := Params.min_lo; cn_hi := Params.min_hi; cn_vals := fl_min f |};
     f_hour := {| cn_lo := Params.hour_lo; cn_hi := Params.hour_hi; cn_vals := fl_hour f |};
     f_day := match fl_dow f with
              | [] => {| dn_c := {| cn_lo := Params.day_lo; cn_hi := Params.day_hi; cn_vals := fl_dom f |}; dn_w := []; dn_n := fl_dom_n f |}
              | _ => {| dn_c := {| cn_lo := Params.day_lo; cn_hi := Params.day_hi; cn_vals := [] |}; dn_w := fl_dow f; dn_n := fl_dow_n f |}
              end;
     f_mon := {| cn_lo := Params.mon_lo; cn_hi := Params.mon_hi; cn_vals := fl_mon f |};
     f_year := {| cn_lo := Params.year_lo; cn_hi := Params.year_hi; cn_vals := fl_year f |} |}.

Definition st_of_civil (c : civil) : st :=
  let '(y, m, d, h, mi, s) := c in {| s_sec := s; s_min := mi; s_hour := h; s_day := d; s_mon := m; s_year := y |}.
Definition civil_of_st (s : st) : civil := (s_year s, s_mon s, s_day s, s_hour s, s_min s, s_sec s).

(* csm.NextTriggerTime on a wall clock reading: the next reading, None = expired *)
Inductive wall_res := WNext (c : civil) | WExpired | WError.
Definition wall_next (f : fields) (c : civil) : wall_res :=
  match find_forward (mk_csm f) (st_of_civil c) with
  | Found s => WNext (civil_of_st s)
  | NoMore => WExpired
  | OutOfFuel => WError
  end.
