(* (CronTrigger).NextFireTime of quartz/cron.go, translated from the source on every run (Gen/CronSrc.v),
   returns what the model next_fire_time_zone (NextFire.v) returns: the theorem the whole cron engine's
   properties are stated about.  The state machine of internal/csm is the external function wall_next
   here (CronExt.v); its node level is tied to the source by SrcEquiv.v / SrcMachine.v. *)
From Coq Require Import ZArith List Bool Lia ZifyBool.
Require Import QzBase.Calendar QzBase.CalendarProofs QzBase.UnixRange QzBase.Fields.
Require Import QzCron.Gen.Params QzCron.CsmModel QzCron.CsmSpec QzCron.NextFire QzCron.GoTimeLoc QzCron.CronExt
               QzCron.Gen.CronSrc QzCron.CronSrcEquiv QzCron.MachineProofs QzCron.NftProofs.
Import ListNotations.
Open Scope Z_scope.

(* error codes: 0 = nil, c_ErrTriggerExpired = 1; None = iteration budget exhausted *)
Definition encode (r : res) : option (Z * Z) :=
  match r with
  | Fire ns => Some (ns, 0)
  | Expired => Some (0, c_ErrTriggerExpired)
  | ModelError => None
  end.

(* prev / int64(time.Second), decremented when the remainder is negative, is the floor *)
Lemma floor_by_quot : forall prev,
  (if Z.rem prev 1000000000 <? 0 then Z.quot prev 1000000000 - 1 else Z.quot prev 1000000000) = prev / 1000000000.
Proof.
  intros prev. pose proof (Z.quot_rem' prev 1000000000) as Hq.
  pose proof (Z.rem_bound_pos_pos prev 1000000000 ltac:(lia)) as Hp.
  pose proof (Z.rem_bound_pos_neg prev 1000000000 ltac:(lia)) as Hn.
  assert (-1000000000 < Z.rem prev 1000000000 < 1000000000) as Hb.
  { destruct (Z_lt_ge_dec prev 0) as [H|H]; [specialize (Hn ltac:(lia)) | specialize (Hp ltac:(lia))]; lia. }
  destruct (Z.rem prev 1000000000 <? 0) eqn:E.
  - apply (Z.div_unique prev 1000000000 (Z.quot prev 1000000000 - 1) (Z.rem prev 1000000000 + 1000000000)); lia.
  - apply (Z.div_unique prev 1000000000 (Z.quot prev 1000000000) (Z.rem prev 1000000000)); lia.
Qed.

Lemma date_in_utc : forall u, date_in_zone utc_zone u = u.
Proof. reflexivity. Qed.

Lemma civil_of_utc_time : forall w, valid_civil w = true -> time_civilL (mk_time utc_zone (civil_to_unix w)) = w.
Proof.
  intros w Hv. unfold time_civilL. cbn [gt_sec gt_loc mk_time]. rewrite offset_at_utc.
  replace (civil_to_unix w) with (civil_to_unix w - 0) by lia.
  rewrite (civil_from_unix_to_unix_wide 0 w Hv). reflexivity.
Qed.

(* two loops that run in lockstep *)
Lemma loop_pos_sim : forall (A A' B B' : Type) (R : A -> A' -> Prop) (Q : B -> B' -> Prop)
  (body : A -> A + B) (body' : A' -> A' + B'),
  (forall a a', R a a' -> match body a, body' a' with
                          | inl x, inl x' => R x x'
                          | inr y, inr y' => Q y y'
                          | _, _ => False
                          end) ->
  forall p a a', R a a' -> match loop_pos p body a, loop_pos p body' a' with
                           | inl x, inl x' => R x x'
                           | inr y, inr y' => Q y y'
                           | _, _ => False
                           end.
Proof.
  intros A A' B B' R Q body body' Hstep.
  induction p as [p IH|p IH|]; intros a a' Ha; cbn [loop_pos].
  - pose proof (Hstep a a' Ha) as H1.
    destruct (body a) as [a1|b1], (body' a') as [a1'|b1']; try contradiction; [|exact H1].
    pose proof (IH a1 a1' H1) as H2.
    destruct (loop_pos p body a1) as [a2|b2], (loop_pos p body' a1') as [a2'|b2']; try contradiction; [|exact H2].
    exact (IH a2 a2' H2).
  - pose proof (IH a a' Ha) as H2.
    destruct (loop_pos p body a) as [a2|b2], (loop_pos p body' a') as [a2'|b2']; try contradiction; [|exact H2].
    exact (IH a2 a2' H2).
  - exact (Hstep a a' Ha).
Qed.

Section Src.
  Variable f : fields.
  Hypothesis Hwf : wf_fields f = true.
  Variable z : zone.
  Hypothesis Hz : zone_off_ok z.

  Definition Rw (w : civil) (W : gtime) : Prop := good f w /\ W = mk_time utc_zone (civil_to_unix w).
  Definition Qr (r : res) (r' : Z * Z) : Prop := encode r = Some r'.

  Lemma body_sim : forall ps w W, Rw w W ->
    match nft_body f z ps w,
          (let csm := ext_newCSMFromFields W f in
           let '(wallClock, ok) := ext_NextTriggerTime csm utc_zone in
           if negb ok then inr (0, c_ErrTriggerExpired)
           else let '(nextDateTime, ok0) := g_firstAfter wallClock z (mk_time z ps) in
                if negb ok0 then inl wallClock
                else if time_After nextDateTime time_maxTime then inr (0, c_ErrTriggerExpired)
                     else inr (time_UnixNano nextDateTime, 0)) with
    | inl x, inl x' => Rw x x'
    | inr y, inr y' => Qr y y'
    | _, _ => False
    end.
  Proof.
    intros ps w W [Hg ->].
    pose proof (good_next f Hwf w Hg) as N.
    pose proof (body_good f Hwf z ps w) as BG.
    unfold nft_body in *. unfold ext_newCSMFromFields, ext_NextTriggerTime. cbn [fst snd].
    assert (Hv : valid_civil w = true) by (destruct (good_valid f Hwf w Hg) as [H _]; exact H).
    rewrite (civil_of_utc_time w Hv).
    destruct (wall_next f w) as [w1| |]; [| reflexivity | contradiction].
    destruct w1 as [[[[[y m] d] hh] mi] s].
    unfold time_DateL. rewrite date_in_utc. cbn [negb].
    rewrite src_first_after.
    destruct (first_after z (civil_to_unix (y, m, d, hh, mi, s)) ps) as [t|] eqn:Ef.
    - cbn [negb]. unfold time_After, time_maxTime, time_UnixNano. cbn [gt_sec mk_time].
      unfold max_nanos, nanos. change Params.max_int64 with 9223372036854775807.
      destruct (9223372036 <? t) eqn:E1; destruct (9223372036854775807 <? t * 1000000000) eqn:E2; try lia; reflexivity.
    - cbn [negb]. split; [|reflexivity]. apply (BG (y, m, d, hh, mi, s) Hg). reflexivity.
  Qed.

  Lemma go_loop_encode : forall (body : civil -> civil + res) (body' : gtime -> gtime + (Z * Z)) w W,
    (forall a a', Rw a a' -> match body a, body' a' with
                             | inl x, inl x' => Rw x x'
                             | inr y, inr y' => Qr y y'
                             | _, _ => False
                             end) ->
    Rw w W ->
    go_loop body' W = encode (match loop_pos zone_fuel body w with inl _ => ModelError | inr r => r end).
  Proof.
    intros body body' w W Hstep HR. unfold go_loop.
    pose proof (loop_pos_sim _ _ _ _ Rw Qr body body' Hstep zone_fuel w W HR) as S.
    destruct (loop_pos zone_fuel body w) as [w1|r], (loop_pos zone_fuel body' W) as [W1|r']; try contradiction.
    - reflexivity.
    - unfold Qr in S. symmetry. exact S.
  Qed.

  Theorem src_next_fire_time : forall prev, min_nanos <= prev <= max_nanos ->
    g_NextFireTime {| CronTrigger_fields := f; CronTrigger_location := z |} prev = encode (next_fire_time_zone f z prev).
  Proof.
    intros prev Hp. unfold g_NextFireTime, next_fire_time_zone. cbn [CronTrigger_fields CronTrigger_location].
    unfold nanos.
    set (ps := prev / 1000000000).
    assert (Hps : (if Z.rem prev 1000000000 <? 0 then Z.quot prev 1000000000 - 1 else Z.quot prev 1000000000) = ps)
      by apply floor_by_quot.
    assert (Hrange : -9223372037 <= ps <= 9223372036).
    { unfold ps, max_nanos, min_nanos in *. change Params.max_int64 with 9223372036854775807 in Hp. lia. }
    (* both branches of the remainder test continue with the same text, on prevSec resp. prevSec - 1 *)
    assert (Hmain : forall psv, psv = ps ->
      (let prevTime := time_In (time_Unix psv) z in
       let '(year, month, day) := time_DateOf prevTime in
       let '(hour, minute, second) := time_ClockOf prevTime in
       let wallClock := time_DateL year month day hour minute second utc_zone in
       go_loop (fun wallClock0 : gtime =>
         let csm := ext_newCSMFromFields wallClock0 f in
         let ok := false in
         let '(wallClock1, ok0) := ext_NextTriggerTime csm utc_zone in
         if negb ok0 then inr (0, c_ErrTriggerExpired)
         else let '(nextDateTime, ok1) := g_firstAfter wallClock1 z prevTime in
              if negb ok1 then inl wallClock1
              else if time_After nextDateTime time_maxTime then inr (0, c_ErrTriggerExpired)
                   else inr (time_UnixNano nextDateTime, 0)) wallClock) =
      encode (match civil_from_unix (offset_at z ps) ps with
              | Some w0 => match loop_pos zone_fuel (nft_body f z ps) w0 with inl _ => ModelError | inr r => r end
              | None => ModelError
              end)).
    { intros psv ->. cbv zeta.
      change (time_In (time_Unix ps) z) with (mk_time z ps).
      destruct (civil_from_unix_total_wide (offset_at z ps) ps) as [w0 E0].
      destruct (civil_from_unix_sound _ _ _ E0) as [Hv0 _].
      assert (Hd : time_civilL (mk_time z ps) = w0).
      { unfold time_civilL. cbn [gt_sec gt_loc mk_time]. rewrite E0. reflexivity. }
      unfold time_DateOf, time_ClockOf. rewrite Hd, E0.
      destruct w0 as [[[[[y m] d] hh] mi] s].
      unfold time_DateL. rewrite date_in_utc.
      assert (G0 : good f (y, m, d, hh, mi, s)).
      { left. split; [exact Hv0|]. pose proof (civil_from_unix_year_range_wide _ _ _ _ _ _ _ _ (Hz ps) Hrange E0). cbn [year_of]. lia. }
      exact (go_loop_encode (nft_body f z ps) _ (y, m, d, hh, mi, s) _ (body_sim ps) (conj G0 eq_refl)). }
    destruct (Z.rem prev 1000000000 <? 0); apply Hmain; exact Hps.
  Qed.
End Src.
