(* Extraction of the executable cron model and the specification-level oracles to OCaml.
   ExtrOcamlBasic only: bool, option, unit, list, prod, sumbool map to OCaml's; Z, positive, nat stay
   the extracted inductive types (64-bit values never meet OCaml's 63-bit int); no Extract Constant. *)
From Coq Require Import ZArith List Extraction ExtrOcamlBasic.
Require Import QzBase.Calendar QzBase.Fields.
Require Import QzCron.Gen.Params QzCron.CsmModel QzCron.NextFire QzCron.CsmSpec.

(* decimal I/O helpers are written in the driver with these extracted Z operations *)
Definition z_of_digit (d : nat) : Z := Z.of_nat d.

Cd "../../ocaml/cron/gen".
Extraction "cronm.ml" next_fire_time_zone next_fire_time wall_next ref_next matches wf_fields wf_zone
  civil_from_unix civil_to_unix wall_secs first_after date_in_zone offset_at
  closest_weekday dn_dayN mk_csm month_len weekday_of
  Z.add Z.mul Z.sub Z.div Z.modulo Z.opp Z.compare Z.eqb Z.ltb Z.leb Z.of_nat Z.to_nat z_of_digit.
Cd "../../../coq/cron".
