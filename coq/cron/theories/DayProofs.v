(* The day node of the cron state machine (CsmModel.dnode as built by mk_csm from well-formed
   fields) against the declarative day rule CsmSpec.day_match:
   validity = day_match, Next = least valid day after v (or overflow), Reset = least valid day. *)
From Coq Require Import ZArith Lia Bool List ZifyBool.
Require Import QzBase.Calendar QzBase.Fields.
Require Import QzCron.Gen.Params QzCron.CsmModel QzCron.CsmSpec.
Import ListNotations.
Open Scope Z_scope.
Ltac Zify.zify_post_hook ::= Z.div_mod_to_equations.

(* ---------- local calendar facts ---------- *)
Lemma dp_month_len_bounds : forall y m, 28 <= month_len y m <= 31.
Proof.
  intros y m. unfold month_len.
  destruct (m =? 2); [destruct (is_leap y) | destruct ((m =? 4) || (m =? 6) || (m =? 9) || (m =? 11))]; lia.
Qed.

Definition dp_mbase (y m : Z) : Z := days_before_year y + days_before_month y m.

Lemma dp_weekday_of_eq : forall y m d, weekday_of y m d = (dp_mbase y m + d + 3) mod 7.
Proof.
  intros y m d. unfold weekday_of, weekday_of_days, days_from_civil, dp_mbase.
  f_equal. lia.
Qed.

Lemma dp_weekday_of_add : forall y m d k, weekday_of y m (d + k) = (weekday_of y m d + k) mod 7.
Proof.
  intros y m d k. rewrite !dp_weekday_of_eq. generalize (dp_mbase y m). intros b. lia.
Qed.

Lemma dp_weekday_of_sub : forall y m d k, weekday_of y m (d - k) = (weekday_of y m d - k) mod 7.
Proof.
  intros y m d k. rewrite !dp_weekday_of_eq. generalize (dp_mbase y m). intros b. lia.
Qed.

Lemma dp_weekday_of_range : forall y m d, 0 <= weekday_of y m d <= 6.
Proof. intros y m d. rewrite dp_weekday_of_eq. lia. Qed.

(* ---------- lists ---------- *)
Lemma dp_existsb_In : forall v l, existsb (Z.eqb v) l = true <-> In v l.
Proof.
  intros v l. rewrite existsb_exists. split.
  - intros [x [Hin Hx]]. apply Z.eqb_eq in Hx. subst x. exact Hin.
  - intros Hin. exists v. split; [exact Hin | apply Z.eqb_refl].
Qed.

Lemma dp_sortedb_cons : forall l x, sortedb (x :: l) = true ->
  sortedb l = true /\ forall w, In w l -> x <= w.
Proof.
  induction l as [|a l IH]; intros x Hs.
  - split; [reflexivity | intros w []].
  - change (sortedb (x :: a :: l)) with ((x <=? a) && sortedb (a :: l)) in Hs.
    apply andb_true_iff in Hs. destruct Hs as [Hxa Hs].
    split; [exact Hs|].
    destruct (IH a Hs) as [_ Hle].
    intros w [Hw | Hw].
    + subst w. lia.
    + specialize (Hle w Hw). lia.
Qed.

Lemma dp_find_gt_sorted : forall v l, sortedb l = true ->
  match find (fun x => v <? x) l with
  | Some x => In x l /\ v < x /\ forall w, In w l -> v < w -> x <= w
  | None => forall w, In w l -> w <= v
  end.
Proof.
  intros v. induction l as [|a l IH]; intros Hs.
  - cbn [find]. intros w [].
  - destruct (dp_sortedb_cons l a Hs) as [Hs' Hle].
    specialize (IH Hs'). cbn [find].
    destruct (v <? a) eqn:Eva.
    + split; [left; reflexivity|]. split; [lia|].
      intros w [Hw | Hw] Hvw; [subst w; lia | apply Hle; exact Hw].
    + destruct (find (fun x => v <? x) l) as [x|].
      * destruct IH as [Hin [Hvx Hmin]].
        split; [right; exact Hin|]. split; [exact Hvx|].
        intros w [Hw | Hw] Hvw; [subst w; lia | apply Hmin; assumption].
      * intros w [Hw | Hw]; [subst w; lia | apply IH; exact Hw].
Qed.

Lemma dp_in_range_In : forall lo hi l, in_range lo hi l = true -> forall w, In w l -> lo <= w <= hi.
Proof.
  intros lo hi l H w Hw. unfold in_range in H. rewrite forallb_forall in H.
  specialize (H w Hw). lia.
Qed.

(* ---------- the shapes of a well-formed day rule ---------- *)
Inductive day_shape : list Z -> Z -> list Z -> Z -> Prop :=
| DS_days : forall vals, sortedb vals = true -> (forall w, In w vals -> 1 <= w <= 31) -> day_shape vals 0 [] 0
| DS_last : day_shape [] 1 [] 0
| DS_lastk : forall n, -31 <= n <= -1 -> day_shape [] n [] 0
| DS_lw : day_shape [0] 3 [] 0
| DS_dw : forall d, 1 <= d <= 31 -> day_shape [d] 2 [] 0
| DS_wdays : forall w0 ws, sortedb (w0 :: ws) = true -> (forall w, In w (w0 :: ws) -> 0 <= w <= 6) ->
    day_shape [] 0 (w0 :: ws) 0
| DS_wnth : forall w k, 0 <= w <= 6 -> 1 <= k <= 5 -> day_shape [] 0 [w] k
| DS_wlast : forall w, 0 <= w <= 6 -> day_shape [] 0 [w] (-1).

Lemma dp_single_in : forall lo hi l, single_in lo hi l = true -> exists d, l = [d] /\ lo <= d <= hi.
Proof.
  intros lo hi l H. destruct l as [|d [|e l]]; cbn [single_in] in H; try discriminate.
  exists d. split; [reflexivity | lia].
Qed.

Lemma dp_dom_shape : forall vals n, dom_shape vals n = true -> day_shape vals n [] 0.
Proof.
  intros vals n H. unfold dom_shape in H.
  repeat (apply orb_true_iff in H; destruct H as [H | H]).
  - apply andb_true_iff in H. destruct H as [Hn Hs].
    unfold sorted_in in Hs. apply andb_true_iff in Hs. destruct Hs as [Hr Hs].
    assert (n = 0) by lia. subst n.
    apply DS_days; [exact Hs | exact (dp_in_range_In 1 31 vals Hr)].
  - apply andb_true_iff in H. destruct H as [Hn Hv].
    assert (n = 1) by lia. subst n.
    destruct vals; [apply DS_last | discriminate].
  - apply andb_true_iff in H. destruct H as [Hn Hv].
    destruct vals; [apply DS_lastk; lia | discriminate].
  - apply andb_true_iff in H. destruct H as [Hn Hv].
    assert (n = 3) by lia. subst n.
    destruct vals as [|[|p|p] [|e l]]; try discriminate. apply DS_lw.
  - apply andb_true_iff in H. destruct H as [Hn Hv].
    assert (n = 2) by lia. subst n.
    destruct (dp_single_in 1 31 vals Hv) as [d [Hd Hr]]. subst vals. apply DS_dw. exact Hr.
Qed.

Lemma dp_dow_shape : forall w0 ws n, dow_shape (w0 :: ws) n = true -> day_shape [] 0 (w0 :: ws) n.
Proof.
  intros w0 ws n H. unfold dow_shape in H.
  apply orb_true_iff in H. destruct H as [H | H].
  - apply andb_true_iff in H. destruct H as [Hn Hs].
    unfold sorted_in in Hs. apply andb_true_iff in Hs. destruct Hs as [Hr Hs].
    assert (n = 0) by lia. subst n.
    apply DS_wdays; [exact Hs | exact (dp_in_range_In 0 6 _ Hr)].
  - apply andb_true_iff in H. destruct H as [Hn Hv].
    destruct (dp_single_in 0 6 _ Hv) as [d [Hd Hr]]. inversion Hd; subst.
    apply orb_true_iff in Hn. destruct Hn as [Hn | Hn].
    + assert (n = -1) by lia. subst n. apply DS_wlast. exact Hr.
    + apply DS_wnth; [exact Hr | lia].
Qed.

Lemma dp_wf_day_shape : forall f, wf_fields f = true ->
  day_shape (fl_dom f) (fl_dom_n f) (fl_dow f) (fl_dow_n f).
Proof.
  intros f W. unfold wf_fields in W. apply andb_true_iff in W. destruct W as [_ W].
  unfold wf_day in W. destruct (fl_dow f) as [|w0 ws] eqn:Edow.
  - apply andb_true_iff in W. destruct W as [Hn Hs].
    assert (Hn0 : fl_dow_n f = 0) by lia. rewrite Hn0.
    apply dp_dom_shape. exact Hs.
  - apply andb_true_iff in W. destruct W as [W Hs].
    apply andb_true_iff in W. destruct W as [Hd Hn].
    assert (Hn0 : fl_dom_n f = 0) by lia. rewrite Hn0.
    destruct (fl_dom f); [|discriminate].
    apply dp_dow_shape. exact Hs.
Qed.

(* the day node mk_csm builds, with the generated bounds made explicit *)
Definition day_node (dom : list Z) (dn : Z) (dow : list Z) (wn : Z) : dnode :=
  match dow with
  | [] => {| dn_c := {| cn_lo := 1; cn_hi := 31; cn_vals := dom |}; dn_w := []; dn_n := dn |}
  | _ => {| dn_c := {| cn_lo := 1; cn_hi := 31; cn_vals := [] |}; dn_w := dow; dn_n := wn |}
  end.

Lemma dp_f_day_mk : forall f, f_day (mk_csm f) = day_node (fl_dom f) (fl_dom_n f) (fl_dow f) (fl_dow_n f).
Proof. intros f. reflexivity. Qed.

(* ---------- closestWeekday ---------- *)
Ltac dp_lhs_t := match goal with |- (if ?b then _ else _) = _ => replace b with true by (symmetry; lia) end; cbv iota.
Ltac dp_lhs_f := match goal with |- (if ?b then _ else _) = _ => replace b with false by (symmetry; lia) end; cbv iota.
Ltac dp_rhs_t := match goal with |- _ = (if ?b then _ else _) => replace b with true by (symmetry; lia) end; cbv iota.
Ltac dp_rhs_f := match goal with |- _ = (if ?b then _ else _) => replace b with false by (symmetry; lia) end; cbv iota.

Lemma dp_closest_weekday_eq : forall y m d, 1 <= d <= month_len y m ->
  closest_weekday y m d =
  if is_wk (weekday_of y m d) then d
  else if weekday_of y m d =? 6 then (if 1 <=? d - 1 then d - 1 else d + 2)
  else (if d + 1 <=? month_len y m then d + 1 else d - 2).
Proof.
  intros y m d Hd. pose proof (dp_month_len_bounds y m) as Hl.
  pose proof (dp_weekday_of_range y m d) as Hw.
  unfold closest_weekday. cbv beta iota zeta fix.
  rewrite !dp_weekday_of_sub, !dp_weekday_of_add.
  remember (weekday_of y m d) as wd eqn:Ewd. remember (month_len y m) as len eqn:Elen.
  clear Ewd Elen. unfold is_wk.
  destruct (negb (wd =? 6) && negb (wd =? 0)) eqn:E0; [reflexivity|].
  destruct (Z.eq_dec wd 6) as [E6 | E6].
  - dp_rhs_t. destruct (Z_le_gt_dec 1 (d - 1)) as [E1 | E1].
    + dp_rhs_t. dp_lhs_t. reflexivity.
    + dp_rhs_f. dp_lhs_f. dp_lhs_f. dp_lhs_f. dp_lhs_t. reflexivity.
  - dp_rhs_f. destruct (Z_le_gt_dec (d + 1) len) as [E1 | E1].
    + dp_rhs_t. dp_lhs_f. dp_lhs_t. reflexivity.
    + dp_rhs_f. dp_lhs_f. dp_lhs_f. dp_lhs_t. reflexivity.
Qed.

Lemma dp_is_wk_weekday_b : forall w, is_weekday_b w = is_wk w.
Proof. intros w. unfold is_weekday_b, is_wk. apply andb_comm. Qed.

(* closestWeekday meets its declarative meaning and stays inside the month *)
Lemma closest_weekday_spec : forall y m d, 1 <= d <= month_len y m ->
  nearest_weekday_b y m d (closest_weekday y m d) = true /\ 1 <= closest_weekday y m d <= month_len y m.
Proof.
  intros y m d Hd. pose proof (dp_month_len_bounds y m) as Hl.
  rewrite (dp_closest_weekday_eq y m d Hd).
  unfold nearest_weekday_b. rewrite dp_is_wk_weekday_b.
  destruct (is_wk (weekday_of y m d)) eqn:E0.
  - split; lia.
  - destruct (weekday_of y m d =? 6) eqn:E6.
    + destruct (1 <=? d - 1) eqn:E1; split; lia.
    + destruct (d + 1 <=? month_len y m) eqn:E1; split; lia.
Qed.

Lemma nearest_weekday_unique : forall y m d t1 t2,
  nearest_weekday_b y m d t1 = true -> nearest_weekday_b y m d t2 = true -> t1 = t2.
Proof.
  intros y m d t1 t2. unfold nearest_weekday_b.
  destruct (is_weekday_b (weekday_of y m d)); [lia|].
  destruct (weekday_of y m d =? 6).
  - destruct (1 <=? d - 1); lia.
  - destruct (d + 1 <=? month_len y m); lia.
Qed.

Lemma dp_nearest_iff_closest : forall y m d t, 1 <= d <= month_len y m ->
  nearest_weekday_b y m d t = (t =? closest_weekday y m d).
Proof.
  intros y m d t Hd. destruct (closest_weekday_spec y m d Hd) as [Hc _].
  destruct (nearest_weekday_b y m d t) eqn:E.
  - pose proof (nearest_weekday_unique y m d _ _ E Hc). lia.
  - destruct (t =? closest_weekday y m d) eqn:E2; [|reflexivity].
    assert (t = closest_weekday y m d) by lia. subst t. congruence.
Qed.

(* ---------- dayN for each single-day rule ---------- *)
Lemma dp_dayN_last : forall y m, dn_dayN (day_node [] 1 [] 0) y m = (month_len y m, true).
Proof. intros y m. reflexivity. Qed.

Lemma dp_dayN_lastk : forall y m n, -31 <= n <= -1 ->
  dn_dayN (day_node [] n [] 0) y m = (month_len y m + n, 1 <=? month_len y m + n).
Proof.
  intros y m n Hn. unfold dn_dayN, dn_is_weekday. cbn [day_node dn_w dn_n dn_c cn_vals hd andb].
  replace (0 <? n) with false by (symmetry; lia). rewrite andb_false_r.
  replace (n =? n_last_day_of_month) with false by (symmetry; unfold n_last_day_of_month; lia).
  reflexivity.
Qed.

Lemma dp_dayN_lw : forall y m, dn_dayN (day_node [0] 3 [] 0) y m = (closest_weekday y m (month_len y m), true).
Proof.
  intros y m. unfold dn_dayN, dn_is_weekday. cbn [day_node dn_w dn_n dn_c cn_vals hd andb].
  change (bit_weekday 3 && (0 <? 3)) with true. change (bit_last 3) with true. cbv iota.
  rewrite orb_true_r. reflexivity.
Qed.

Lemma dp_dayN_dw : forall y m d,
  dn_dayN (day_node [d] 2 [] 0) y m = (closest_weekday y m (Z.min d (month_len y m)), true).
Proof.
  intros y m d. unfold dn_dayN, dn_is_weekday. cbn [day_node dn_w dn_n dn_c cn_vals hd andb].
  change (bit_weekday 2 && (0 <? 2)) with true. change (bit_last 2) with false. cbv iota.
  rewrite orb_false_r.
  destruct (month_len y m <? d) eqn:E; f_equal; f_equal; lia.
Qed.

Lemma dp_dayN_wnth : forall y m w k, 1 <= k <= 5 ->
  dn_dayN (day_node [] 0 [w] k) y m =
  (1 + ((w - weekday_of y m 1 + 7) mod 7) + 7 * (k - 1),
   1 + ((w - weekday_of y m 1 + 7) mod 7) + 7 * (k - 1) <=? month_len y m).
Proof.
  intros y m w k Hk. unfold dn_dayN, dn_is_weekday. cbn [day_node dn_w dn_n dn_c cn_vals hd andb].
  replace (0 <? k) with true by (symmetry; lia). reflexivity.
Qed.

Lemma dp_dayN_wlast : forall y m w,
  dn_dayN (day_node [] 0 [w] (-1)) y m =
  (month_len y m - ((weekday_of y m (month_len y m) - w + 7) mod 7), true).
Proof. intros y m w. reflexivity. Qed.

Lemma dp_valid_dayN : forall nd y m v, dn_n nd <> 0 ->
  dn_is_valid nd y m v = (snd (dn_dayN nd y m) && (v =? fst (dn_dayN nd y m))).
Proof.
  intros nd y m v Hn. unfold dn_is_valid.
  replace (negb (dn_n nd =? 0)) with true by (symmetry; lia).
  destruct (dn_dayN nd y m) as [day ok]. reflexivity.
Qed.

(* ---------- validity for the set-valued rules ---------- *)
Lemma dp_valid_days : forall vals y m v,
  dn_is_valid (day_node vals 0 [] 0) y m v =
  (1 <=? v) && (v <=? 31) && (match vals with [] => true | _ => mem v vals end) && (v <=? month_len y m).
Proof.
  intros vals y m v. unfold dn_is_valid, cn_is_valid, cn_has_range, dn_is_weekday, mem.
  cbn [day_node dn_w dn_n dn_c cn_vals cn_lo cn_hi].
  change (negb (0 =? 0)) with false. cbv iota.
  rewrite andb_true_r. destruct vals; reflexivity.
Qed.

Lemma dp_valid_wdays : forall w0 ws y m v,
  dn_is_valid (day_node [] 0 (w0 :: ws) 0) y m v =
  (1 <=? v) && (v <=? 31) && (v <=? month_len y m) && mem (weekday_of y m v) (w0 :: ws).
Proof.
  intros w0 ws y m v. unfold dn_is_valid, cn_is_valid, cn_has_range, dn_is_weekday, mem.
  cbn [day_node dn_w dn_n dn_c cn_vals cn_lo cn_hi].
  change (negb (0 =? 0)) with false. cbv iota.
  rewrite andb_true_r. reflexivity.
Qed.

(* ---------- validity is exactly the declarative day rule ---------- *)
Lemma dn_valid_iff_day_match : forall f y m v, wf_fields f = true ->
  dn_is_valid (f_day (mk_csm f)) y m v = day_match f y m v.
Proof.
  intros f y m v W. pose proof (dp_wf_day_shape f W) as S. rewrite dp_f_day_mk. unfold day_match.
  pose proof (dp_month_len_bounds y m) as Hl.
  destruct f as [fsec fmin fhour dom dn fmon dow wn fyear].
  cbn [fl_dom fl_dom_n fl_dow fl_dow_n] in *. clear W.
  destruct S as [vals Hs Hr | | n Hn | | d Hd | w0 ws Hs Hr | w k Hw Hk | w Hw].
  - (* listed days *)
    rewrite dp_valid_days. change (0 =? 0) with true. cbv iota.
    destruct (match vals with [] => true | _ :: _ => mem v vals end); lia.
  - (* L *)
    rewrite dp_valid_dayN by (cbn [day_node dn_n]; lia). rewrite dp_dayN_last. cbn [fst snd].
    change (1 =? 0) with false. change (1 =? 1) with true. cbv iota. lia.
  - (* L-k *)
    rewrite dp_valid_dayN by (cbn [day_node dn_n]; lia). rewrite (dp_dayN_lastk y m n Hn). cbn [fst snd].
    replace (n =? 0) with false by (symmetry; lia).
    replace (n =? 1) with false by (symmetry; lia).
    replace (n <? 0) with true by (symmetry; lia). cbv iota. lia.
  - (* LW *)
    rewrite dp_valid_dayN by (cbn [day_node dn_n]; lia). rewrite dp_dayN_lw. cbn [fst snd].
    change (3 =? 0) with false. change (3 =? 1) with false. change (3 <? 0) with false.
    change (3 =? 3) with true. cbv iota.
    assert (Hin : 1 <= month_len y m <= month_len y m) by lia.
    rewrite (dp_nearest_iff_closest y m _ v Hin).
    destruct (closest_weekday_spec y m _ Hin) as [_ Hc]. lia.
  - (* dW *)
    rewrite dp_valid_dayN by (cbn [day_node dn_n]; lia). rewrite dp_dayN_dw. cbn [fst snd hd].
    change (2 =? 0) with false. change (2 =? 1) with false. change (2 <? 0) with false.
    change (2 =? 3) with false. cbv iota.
    assert (Hin : 1 <= Z.min d (month_len y m) <= month_len y m) by lia.
    rewrite (dp_nearest_iff_closest y m _ v Hin).
    destruct (closest_weekday_spec y m _ Hin) as [_ Hc]. lia.
  - (* listed weekdays *)
    rewrite dp_valid_wdays. change (0 =? 0) with true. cbv iota.
    destruct (mem (weekday_of y m v) (w0 :: ws)); lia.
  - (* w#k *)
    rewrite dp_valid_dayN by (cbn [day_node dn_n]; lia). rewrite (dp_dayN_wnth y m w k Hk). cbn [fst snd].
    replace (k =? 0) with false by (symmetry; lia).
    replace (0 <? k) with true by (symmetry; lia). cbv iota.
    assert (Ev : weekday_of y m v = (weekday_of y m 1 + (v - 1)) mod 7)
      by (rewrite <- dp_weekday_of_add; f_equal; lia).
    rewrite Ev. clear Ev.
    pose proof (dp_weekday_of_range y m 1) as Hw1.
    remember (weekday_of y m 1) as w1 eqn:Ew1. clear Ew1.
    remember (month_len y m) as len eqn:Elen. clear Elen.
    lia.
  - (* wL *)
    rewrite dp_valid_dayN by (cbn [day_node dn_n]; lia). rewrite dp_dayN_wlast. cbn [fst snd].
    change (-1 =? 0) with false. change (0 <? -1) with false. cbv iota.
    assert (Ev : weekday_of y m v = (weekday_of y m (month_len y m) + (v - month_len y m)) mod 7)
      by (rewrite <- dp_weekday_of_add; f_equal; lia).
    rewrite Ev. clear Ev.
    pose proof (dp_weekday_of_range y m (month_len y m)) as Hw1.
    remember (weekday_of y m (month_len y m)) as w1 eqn:Ew1. clear Ew1.
    remember (month_len y m) as len eqn:Elen. clear Elen.
    lia.
Qed.

(* every valid day is a real day of the month *)
Lemma dn_valid_in_month : forall f y m v, wf_fields f = true ->
  dn_is_valid (f_day (mk_csm f)) y m v = true -> 1 <= v <= month_len y m.
Proof.
  intros f y m v W H. rewrite (dn_valid_iff_day_match f y m v W) in H.
  unfold day_match in H.
  apply andb_true_iff in H. destruct H as [H _]. lia.
Qed.

(* ---------- Next ---------- *)
Definition dp_next_ok (nd : dnode) (y m : Z) : Prop :=
  forall v v' o, 0 <= v -> dn_next nd y m v = (v', o) ->
  (o = false -> dn_is_valid nd y m v' = true /\ v < v' /\
                forall w, dn_is_valid nd y m w = true -> v < w -> v' <= w) /\
  (o = true -> forall w, dn_is_valid nd y m w = true -> w <= v) /\
  0 <= v'.

Lemma dp_next_dayN : forall nd y m, dn_n nd <> 0 -> dp_next_ok nd y m.
Proof.
  intros nd y m Hn v v' o Hv H.
  unfold dn_next in H. replace (negb (dn_n nd =? 0)) with true in H by (symmetry; lia).
  unfold dn_next_dayN in H.
  assert (Hval : forall w, dn_is_valid nd y m w = (snd (dn_dayN nd y m) && (w =? fst (dn_dayN nd y m))))
    by (intros w; apply dp_valid_dayN; exact Hn).
  destruct (dn_dayN nd y m) as [day ok]. cbn [fst snd] in Hval.
  destruct (negb ok || (day <=? v)) eqn:Eo; inversion H; subst v' o; clear H.
  - split; [discriminate|]. split; [|lia].
    intros _ w Hw. rewrite Hval in Hw. destruct ok; lia.
  - split; [|split; [discriminate | destruct ok; lia]].
    intros _. split; [rewrite Hval; destruct ok; lia|]. split; [destruct ok; lia|].
    intros w Hw Hlt. rewrite Hval in Hw. destruct ok; lia.
Qed.

Lemma dp_next_days : forall vals y m, sortedb vals = true -> (forall w, In w vals -> 1 <= w <= 31) ->
  dp_next_ok (day_node vals 0 [] 0) y m.
Proof.
  intros vals y m Hs Hr v v' o Hv H.
  pose proof (dp_month_len_bounds y m) as Hl.
  unfold dn_next, dn_next_day, cn_next, cn_has_range, dn_is_weekday in H.
  cbn [day_node dn_w dn_n dn_c cn_vals cn_lo cn_hi] in H.
  change (negb (0 =? 0)) with false in H. cbv iota in H.
  destruct vals as [|a l].
  - (* every day *)
    assert (Hval : forall w, dn_is_valid (day_node [] 0 [] 0) y m w = true -> 1 <= w <= month_len y m)
      by (intros w Hw; rewrite dp_valid_days in Hw; lia).
    destruct (31 <? v + 1) eqn:E; cbv iota beta in H; inversion H; subst v' o; clear H.
    + split; [discriminate|]. split; [|lia].
      intros _ w Hw. specialize (Hval w Hw). lia.
    + destruct (month_len y m <? v + 1) eqn:E2; cbn [orb].
      * split; [discriminate|]. split; [|lia].
        intros _ w Hw. specialize (Hval w Hw). lia.
      * split; [|split; [discriminate | lia]].
        intros _. split; [rewrite dp_valid_days; lia|]. split; [lia|].
        intros w Hw Hlt. lia.
  - (* listed days *)
    assert (Hval : forall w, dn_is_valid (day_node (a :: l) 0 [] 0) y m w = true ->
                             In w (a :: l) /\ w <= month_len y m).
    { intros w Hw. rewrite dp_valid_days in Hw. unfold mem in Hw.
      apply andb_true_iff in Hw. destruct Hw as [Hw Hlen].
      apply andb_true_iff in Hw. destruct Hw as [_ Hm].
      split; [apply dp_existsb_In; exact Hm | lia]. }
    pose proof (dp_find_gt_sorted v (a :: l) Hs) as F.
    destruct (find (fun x => v <? x) (a :: l)) as [x|]; cbv iota beta in H; inversion H; subst v' o; clear H.
    + destruct F as [Hin [Hvx Hmin]]. pose proof (Hr x Hin) as Hx. cbn [orb].
      destruct (month_len y m <? x) eqn:E2.
      * split; [discriminate|]. split; [|lia].
        intros _ w Hw. destruct (Hval w Hw) as [Hw1 Hw2].
        destruct (Z_lt_le_dec v w) as [Hlt | Hle]; [|exact Hle].
        specialize (Hmin w Hw1 Hlt). lia.
      * split; [|split; [discriminate | lia]].
        intros _. split.
        { rewrite dp_valid_days. unfold mem.
          apply dp_existsb_In in Hin. rewrite Hin. lia. }
        split; [exact Hvx|].
        intros w Hw Hlt. destruct (Hval w Hw) as [Hw1 Hw2]. exact (Hmin w Hw1 Hlt).
    + cbn [orb hd]. split; [discriminate|].
      pose proof (Hr a (or_introl eq_refl)) as Ha. split; [|lia].
      intros _ w Hw. destruct (Hval w Hw) as [Hw1 Hw2]. exact (F w Hw1).
Qed.

Lemma dp_next_wdays : forall w0 ws y m, sortedb (w0 :: ws) = true ->
  (forall w, In w (w0 :: ws) -> 0 <= w <= 6) ->
  dp_next_ok (day_node [] 0 (w0 :: ws) 0) y m.
Proof.
  intros w0 ws y m Hs Hr v v' o Hv H.
  pose proof (dp_month_len_bounds y m) as Hl.
  unfold dn_next, dn_next_weekday, dn_is_weekday in H.
  cbn [day_node dn_w dn_n dn_c cn_vals cn_lo cn_hi hd] in H.
  change (negb (0 =? 0)) with false in H. cbv iota in H.
  pose proof (dp_weekday_of_range y m v) as Hwd.
  (* a valid day: in the month, and its weekday (relative to v's) is listed *)
  assert (Hval : forall w, dn_is_valid (day_node [] 0 (w0 :: ws) 0) y m w = true ->
            1 <= w <= month_len y m /\ In ((weekday_of y m v + (w - v)) mod 7) (w0 :: ws)).
  { intros w Hw. rewrite dp_valid_wdays in Hw. unfold mem in Hw.
    apply andb_true_iff in Hw. destruct Hw as [Hw Hm].
    apply dp_existsb_In in Hm.
    replace w with (v + (w - v)) in Hm by lia. rewrite dp_weekday_of_add in Hm.
    split; [lia | exact Hm]. }
  assert (Hval' : forall w, 1 <= w <= month_len y m -> In ((weekday_of y m v + (w - v)) mod 7) (w0 :: ws) ->
            dn_is_valid (day_node [] 0 (w0 :: ws) 0) y m w = true).
  { intros w Hw Hm. rewrite dp_valid_wdays. unfold mem.
    rewrite <- dp_weekday_of_add in Hm. replace (v + (w - v)) with w in Hm by lia.
    apply dp_existsb_In in Hm. rewrite Hm. lia. }
  destruct (dp_sortedb_cons ws w0 Hs) as [_ Hle0].
  assert (Hmin0 : forall w, In w (w0 :: ws) -> w0 <= w)
    by (intros w [Hw | Hw]; [lia | exact (Hle0 w Hw)]).
  pose proof (Hr w0 (or_introl eq_refl)) as Hw0.
  pose proof (dp_find_gt_sorted (weekday_of y m v) (w0 :: ws) Hs) as F.
  remember (weekday_of y m v) as wd eqn:Ewd. clear Ewd.
  remember (month_len y m) as len eqn:Elen. clear Elen.
  (* no listed weekday strictly between v and v + offset *)
  destruct (find (fun x => wd <? x) (w0 :: ws)) as [x|].
  - destruct F as [Hin [Hwx Hmin]]. pose proof (Hr x Hin) as Hx.
    assert (Hlater : forall w, dn_is_valid (day_node [] 0 (w0 :: ws) 0) y m w = true -> v < w ->
              v + (x - wd) <= w).
    { intros w Hw Hlt. destruct (Hval w Hw) as [Hw1 Hw2].
      pose proof (Hr _ Hw2) as Hw3.
      destruct (Z_lt_le_dec wd ((wd + (w - v)) mod 7)) as [Hc | Hc].
      - pose proof (Hmin _ Hw2 Hc). lia.
      - lia. }
    destruct (len <? v + (x - wd)) eqn:E; apply pair_equal_spec in H; destruct H as [H1 H2]; subst v' o.
    + split; [discriminate|]. split; [|lia].
      intros _ w Hw. destruct (Z_lt_le_dec v w) as [Hlt | Hle]; [|exact Hle].
      pose proof (Hlater w Hw Hlt). destruct (Hval w Hw) as [Hw1 _]. lia.
    + split; [|split; [discriminate | lia]].
      intros _. split; [|split; [lia | exact Hlater]].
      apply Hval'; [lia|].
      replace ((wd + (v + (x - wd) - v)) mod 7) with x by lia. exact Hin.
  - assert (Hlater : forall w, dn_is_valid (day_node [] 0 (w0 :: ws) 0) y m w = true -> v < w ->
              v + (7 + w0 - wd) <= w).
    { intros w Hw Hlt. destruct (Hval w Hw) as [Hw1 Hw2].
      pose proof (Hr _ Hw2) as Hw3. pose proof (F _ Hw2) as Hw4. pose proof (Hmin0 _ Hw2) as Hw5.
      lia. }
    pose proof (F w0 (or_introl eq_refl)) as Hw0wd.
    destruct (len <? v + (7 + w0 - wd)) eqn:E; apply pair_equal_spec in H; destruct H as [H1 H2]; subst v' o.
    + split; [discriminate|]. split; [|lia].
      intros _ w Hw. destruct (Z_lt_le_dec v w) as [Hlt | Hle]; [|exact Hle].
      pose proof (Hlater w Hw Hlt). destruct (Hval w Hw) as [Hw1 _]. lia.
    + split; [|split; [discriminate | lia]].
      intros _. split; [|split; [lia | exact Hlater]].
      apply Hval'; [lia|].
      replace ((wd + (v + (7 + w0 - wd) - v)) mod 7) with w0 by lia. left; reflexivity.
Qed.

Lemma dp_next_ok_shape : forall dom dn dow wn y m, day_shape dom dn dow wn ->
  dp_next_ok (day_node dom dn dow wn) y m.
Proof.
  intros dom dn dow wn y m S.
  destruct S as [vals Hs Hr | | n Hn | | d Hd | w0 ws Hs Hr | w k Hw Hk | w Hw].
  - apply dp_next_days; assumption.
  - apply dp_next_dayN. cbn [day_node dn_n]. lia.
  - apply dp_next_dayN. cbn [day_node dn_n]. lia.
  - apply dp_next_dayN. cbn [day_node dn_n]. lia.
  - apply dp_next_dayN. cbn [day_node dn_n]. lia.
  - apply dp_next_wdays; assumption.
  - apply dp_next_dayN. cbn [day_node dn_n]. lia.
  - apply dp_next_dayN. cbn [day_node dn_n]. lia.
Qed.

(* Next: least valid day greater than v in month (y, m), or overflow if there is none *)
Lemma dn_next_spec : forall f y m v v' o, wf_fields f = true -> 0 <= v ->
  dn_next (f_day (mk_csm f)) y m v = (v', o) ->
  (o = false -> dn_is_valid (f_day (mk_csm f)) y m v' = true /\ v < v' /\
                forall w, dn_is_valid (f_day (mk_csm f)) y m w = true -> v < w -> v' <= w) /\
  (o = true -> forall w, dn_is_valid (f_day (mk_csm f)) y m w = true -> w <= v) /\
  0 <= v'.
Proof.
  intros f y m v v' o W Hv H. rewrite dp_f_day_mk in *.
  exact (dp_next_ok_shape _ _ _ _ y m (dp_wf_day_shape f W) v v' o Hv H).
Qed.

(* Reset: least valid day of the month, or overflow if the month has none *)
Lemma dn_reset_spec : forall f y m v' o, wf_fields f = true ->
  dn_reset (f_day (mk_csm f)) y m = (v', o) ->
  (o = false -> dn_is_valid (f_day (mk_csm f)) y m v' = true /\
                forall w, dn_is_valid (f_day (mk_csm f)) y m w = true -> v' <= w) /\
  (o = true -> forall w, dn_is_valid (f_day (mk_csm f)) y m w = false) /\
  0 <= v'.
Proof.
  intros f y m v' o W H.
  assert (Hlo : cn_lo (dn_c (f_day (mk_csm f))) - 1 = 0).
  { rewrite dp_f_day_mk. unfold day_node. destruct (fl_dow f); reflexivity. }
  unfold dn_reset in H. rewrite Hlo in H.
  destruct (dn_next_spec f y m 0 v' o W (Z.le_refl 0) H) as [Hf [Ht Hpos]].
  split; [|split; [|exact Hpos]].
  - intros Ho. destruct (Hf Ho) as [Hv [Hlt Hmin]]. split; [exact Hv|].
    intros w Hw. apply Hmin; [exact Hw|].
    pose proof (dn_valid_in_month f y m w W Hw). lia.
  - intros Ho w. destruct (dn_is_valid (f_day (mk_csm f)) y m w) eqn:E; [|reflexivity].
    pose proof (Ht Ho w E). pose proof (dn_valid_in_month f y m w W E). lia.
Qed.

Print Assumptions closest_weekday_spec.
Print Assumptions nearest_weekday_unique.
Print Assumptions dn_valid_iff_day_match.
Print Assumptions dn_next_spec.
Print Assumptions dn_reset_spec.
Print Assumptions dn_valid_in_month.
