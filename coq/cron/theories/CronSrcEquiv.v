(* quartz/cron.go's firstAfter, translated from the source on every run (Gen/CronSrc.v), computes what the
   model's first_after (NextFire.v) computes: the first instant after prev at which the wall clock of the
   location reads the given reading, among the instant time.Date picks and its neighbours in the adjacent
   zone periods. *)
From Coq Require Import ZArith List Bool Lia ZifyBool.
Require Import QzBase.Calendar QzBase.CalendarProofs QzBase.UnixRange.
Require Import QzCron.NextFire QzCron.GoTimeLoc QzCron.Gen.CronSrc.
Import ListNotations.
Open Scope Z_scope.

Lemma offset_at_utc : forall t, offset_at utc_zone t = 0.
Proof. reflexivity. Qed.

Lemma civil_eq_dec_b : forall (y m d h mi s y' m' d' h' mi' s' : Z),
  ((((((negb (y' =? y)) || (negb (m' =? m))) || (negb (d' =? d))) || (negb (h' =? h))) || (negb (mi' =? mi))) || (negb (s' =? s))) = false <->
  (y', m', d', h', mi', s') = (y, m, d, h, mi, s).
Proof.
  intros. split.
  - intros H. repeat (apply orb_false_iff in H; destruct H as [H ?]).
    repeat match goal with H0 : negb (_ =? _) = false |- _ => apply negb_false_iff in H0; apply Z.eqb_eq in H0 end.
    subst. reflexivity.
  - intros H. inversion H; subst. rewrite !Z.eqb_refl. reflexivity.
Qed.

(* the reading test of the candidate loop is "the wall clock of the location reads u at this instant" *)
Lemma reading_test : forall z cs u y m d h mi s, civil_from_unix 0 u = Some (y, m, d, h, mi, s) ->
  forall y' m' d' h' mi' s', time_DateOf (mk_time z cs) = (y', m', d') -> time_ClockOf (mk_time z cs) = (h', mi', s') ->
  ((((((negb (y' =? y)) || (negb (m' =? m))) || (negb (d' =? d))) || (negb (h' =? h))) || (negb (mi' =? mi))) || (negb (s' =? s))) =
  negb (wall_secs z cs =? u).
Proof.
  intros z cs u y m d h mi s Eu y' m' d' h' mi' s' Hd Hc.
  destruct (civil_from_unix_sound _ _ _ Eu) as [Vu Uu].
  unfold time_DateOf, time_ClockOf, time_civilL in Hd, Hc. cbn [gt_sec gt_loc mk_time] in Hd, Hc.
  destruct (civil_from_unix_total_wide (offset_at z cs) cs) as [c' Ec']. rewrite Ec' in Hd, Hc.
  destruct (civil_from_unix_sound _ _ _ Ec') as [Vc Uc].
  destruct c' as [[[[[y0 m0] d0] h0] mi0] s0]. inversion Hd; inversion Hc; subst y0 m0 d0 h0 mi0 s0.
  destruct (wall_secs z cs =? u) eqn:Ew; cbn [negb].
  - apply civil_eq_dec_b. apply civil_to_unix_inj; [exact Vc | exact Vu|].
    unfold wall_secs in Ew. lia.
  - destruct (((((negb (y' =? y) || negb (m' =? m)) || negb (d' =? d)) || negb (h' =? h)) || negb (mi' =? mi)) || negb (s' =? s)) eqn:E; [reflexivity|].
    exfalso. apply civil_eq_dec_b in E. rewrite E in Uc. unfold wall_secs in Ew. lia.
Qed.

Ltac reading X :=
  let y := fresh "y" in let m := fresh "m" in let d := fresh "d" in
  let h := fresh "h" in let mi := fresh "mi" in let s := fresh "s" in
  let Hd := fresh "Hd" in let Hc := fresh "Hc" in
  destruct (time_DateOf X) as [[y m] d] eqn:Hd; destruct (time_ClockOf X) as [[h mi] s] eqn:Hc;
  match goal with Eu : civil_from_unix 0 _ = Some _ |- _ => rewrite (reading_test _ _ _ _ _ _ _ _ _ Eu _ _ _ _ _ _ Hd Hc) end;
  clear Hd Hc.

Ltac split_ifs :=
  repeat (cbn [negb andb orb];
          match goal with
          | |- context [wall_secs ?z ?a =? ?b] => destruct (wall_secs z a =? b) eqn:?
          | |- context [?a <? ?b] => destruct (a <? b) eqn:?
          end);
  cbn [negb andb orb]; try reflexivity.

Theorem src_first_after : forall z u prev_s,
  g_firstAfter (mk_time utc_zone u) z (mk_time z prev_s) =
  match first_after z u prev_s with
  | Some t => (mk_time z t, true)
  | None => (time_zeroTime, false)
  end.
Proof.
  intros z u prev_s.
  destruct (civil_from_unix_total_wide 0 u) as [c Eu].
  destruct (civil_from_unix_sound _ _ _ Eu) as [Vu Uu].
  destruct c as [[[[[y m] d] h] mi] s].
  unfold g_firstAfter.
  assert (Hd0 : time_DateOf (mk_time utc_zone u) = (y, m, d)).
  { unfold time_DateOf, time_civilL. cbn [gt_sec gt_loc mk_time]. rewrite offset_at_utc, Eu. reflexivity. }
  assert (Hc0 : time_ClockOf (mk_time utc_zone u) = (h, mi, s)).
  { unfold time_ClockOf, time_civilL. cbn [gt_sec gt_loc mk_time]. rewrite offset_at_utc, Eu. reflexivity. }
  rewrite Hd0, Hc0. cbv beta iota.
  unfold time_DateL. replace (civil_to_unix (y, m, d, h, mi, s)) with u by lia.
  unfold first_after.
  set (T := date_in_zone z u).
  unfold time_Zone, time_ZoneBounds, time_IsZero, time_AddSec. cbn [gt_sec gt_loc gt_zero mk_time].
  assert (Hoff : offset_at z T = fst (fst (lookup z T))) by reflexivity.
  rewrite Hoff. destruct (lookup z T) as [[off st] en]. cbn [fst snd].
  change (mk_time z T) with {| gt_sec := T; gt_loc := z; gt_zero := false |}.
  destruct st as [st|]; destruct en as [en|]; cbn [gt_zero mk_time time_zeroTime negb app fold_left gt_sec gt_loc].
  - replace (st + -1) with (st - 1) by lia. rewrite !Z.mul_1_r.
    fold (mk_time z T). fold (mk_time z (T + (off - offset_at z (st - 1)))). fold (mk_time z (T + (off - offset_at z en))).
    reading (mk_time z T). reading (mk_time z (T + (off - offset_at z (st - 1)))). reading (mk_time z (T + (off - offset_at z en))).
    unfold fa_pick, time_After, time_Before. cbn [gt_sec mk_time].
    split_ifs.
  - replace (st + -1) with (st - 1) by lia. rewrite !Z.mul_1_r.
    fold (mk_time z T). fold (mk_time z (T + (off - offset_at z (st - 1)))).
    reading (mk_time z T). reading (mk_time z (T + (off - offset_at z (st - 1)))).
    unfold fa_pick, time_After, time_Before. cbn [gt_sec mk_time].
    split_ifs.
  - rewrite !Z.mul_1_r.
    fold (mk_time z T). fold (mk_time z (T + (off - offset_at z en))).
    reading (mk_time z T). reading (mk_time z (T + (off - offset_at z en))).
    unfold fa_pick, time_After, time_Before. cbn [gt_sec mk_time].
    split_ifs.
  - fold (mk_time z T).
    reading (mk_time z T).
    unfold fa_pick, time_After, time_Before. cbn [gt_sec mk_time].
    split_ifs.
Qed.
