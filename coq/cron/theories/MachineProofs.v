(* The state machine (resetFrom / overflowFrom / findForward of internal/csm) computes the least
   all-valid state that is lexicographically greater than the start state, for ANY node tables whose
   Next / Reset meet their specification (Section hypotheses; discharged for mk_csm in NodeProofs.v). *)
From Coq Require Import ZArith Lia Bool List Arith.
Require Import QzBase.Calendar QzBase.Fields.
Require Import QzCron.Gen.Params QzCron.CsmModel.
Import ListNotations.
Open Scope Z_scope.

(* ---------- get / set ---------- *)
Lemma get_set_same : forall k v s, (k <= 5)%nat -> get k (set k v s) = v.
Proof. intros k v s H. do 6 (destruct k as [|k]; [reflexivity|]). lia. Qed.

Lemma get_set_other : forall j k v s, j <> k -> (j <= 5)%nat -> (k <= 5)%nat -> get j (set k v s) = get j s.
Proof.
  intros j k v s Hne Hj Hk.
  do 6 (destruct j as [|j]; [do 6 (destruct k as [|k]; [first [reflexivity | exfalso; apply Hne; reflexivity]|]); lia|]). lia.
Qed.

(* ---------- lexicographic comparison of the levels >= k ---------- *)
Definition Eq_from (k : nat) (s t : st) : Prop := forall j, (k <= j <= 5)%nat -> get j s = get j t.
Definition Gt_from (k : nat) (s t : st) : Prop :=
  exists j, (k <= j <= 5)%nat /\ get j s < get j t /\ Eq_from (S j) s t.
Definition Ge_from (k : nat) (s t : st) : Prop := Eq_from k s t \/ Gt_from k s t.

Lemma Eq_from_refl : forall k s, Eq_from k s s.
Proof. intros k s j _. reflexivity. Qed.

Lemma Eq_from_S : forall k s t, Eq_from k s t <-> Eq_from (S k) s t /\ ((k <= 5)%nat -> get k s = get k t).
Proof.
  intros k s t. split.
  - intros H. split; [intros j Hj; apply H; lia | intros Hk; apply H; lia].
  - intros [H1 H2] j Hj. destruct (Nat.eq_dec j k) as [->|Hne]; [apply H2; lia | apply H1; lia].
Qed.

Lemma Gt_from_S : forall k s t, (k <= 5)%nat ->
  (Gt_from k s t <-> Gt_from (S k) s t \/ (Eq_from (S k) s t /\ get k s < get k t)).
Proof.
  intros k s t Hk. split.
  - intros (j & Hj & Hlt & He). destruct (Nat.eq_dec j k) as [->|Hne].
    + right. split; assumption.
    + left. exists j. repeat split; try assumption; lia.
  - intros [(j & Hj & Hlt & He) | [He Hlt]].
    + exists j. repeat split; try assumption; lia.
    + exists k. repeat split; try assumption; lia.
Qed.

Lemma Gt_from_6 : forall s t, ~ Gt_from 6 s t.
Proof. intros s t (j & Hj & _). lia. Qed.

Lemma Eq_from_weaken : forall k k' s t, (k <= k')%nat -> Eq_from k s t -> Eq_from k' s t.
Proof. intros k k' s t Hk H j Hj. apply H. lia. Qed.

Lemma Eq_from_trans : forall k s t u, Eq_from k s t -> Eq_from k t u -> Eq_from k s u.
Proof. intros k s t u H1 H2 j Hj. rewrite (H1 j Hj). apply H2; exact Hj. Qed.

Lemma Eq_from_sym : forall k s t, Eq_from k s t -> Eq_from k t s.
Proof. intros k s t H j Hj. symmetry. apply H; exact Hj. Qed.

(* replacing s by a state that agrees with it on the compared levels *)
Lemma Gt_from_eq_l : forall k s s' t, Eq_from k s s' -> Gt_from k s t -> Gt_from k s' t.
Proof.
  intros k s s' t He (j & Hj & Hlt & Hej). exists j. split; [exact Hj|]. split.
  - rewrite <- (He j Hj). exact Hlt.
  - eapply Eq_from_trans; [apply Eq_from_sym; eapply Eq_from_weaken; [|exact He]; lia | exact Hej].
Qed.

Lemma Eq_from_eq_l : forall k s s' t, Eq_from k s s' -> Eq_from k s t -> Eq_from k s' t.
Proof. intros k s s' t He H. eapply Eq_from_trans; [apply Eq_from_sym; exact He | exact H]. Qed.

Lemma set_Eq_from : forall k v s, (k <= 5)%nat -> Eq_from (S k) s (set k v s).
Proof. intros k v s Hk j Hj. symmetry. apply get_set_other; lia. Qed.

Section Machine.
  Variable c : csm.
  (* lower bound of each node's values *)
  Variable lo : nat -> Z.

  (* validity of a value for node k depends only on the more significant nodes *)
  Hypothesis valid_ext : forall k s s' v, (k <= 5)%nat -> Eq_from (S k) s s' -> val_valid c k s v = val_valid c k s' v.
  Hypothesis next_ext : forall k s s', (k <= 5)%nat -> Eq_from k s s' -> val_next c k s = val_next c k s'.
  Hypothesis reset_ext : forall k s s', (k <= 5)%nat -> Eq_from (S k) s s' -> val_reset c k s = val_reset c k s'.
  Hypothesis valid_lo : forall k s v, (k <= 5)%nat -> val_valid c k s v = true -> lo k <= v.

  (* node.Next(): least valid value above the current one, or overflow when there is none *)
  Hypothesis next_spec : forall k s v o, (k <= 5)%nat -> lo k - 1 <= get k s -> val_next c k s = (v, o) ->
    (o = false -> val_valid c k s v = true /\ get k s < v /\
                  forall w, val_valid c k s w = true -> get k s < w -> v <= w) /\
    (o = true -> forall w, val_valid c k s w = true -> w <= get k s) /\
    lo k - 1 <= v.
  (* node.Reset(): least valid value, or overflow when there is none *)
  Hypothesis reset_spec : forall k s v o, (k <= 5)%nat -> val_reset c k s = (v, o) ->
    (o = false -> val_valid c k s v = true /\ forall w, val_valid c k s w = true -> v <= w) /\
    (o = true -> forall w, val_valid c k s w = false) /\
    lo k - 1 <= v.

  Definition all_valid (s : st) : Prop := forall k, (k <= 5)%nat -> node_is_valid c k s = true.
  Definition valid_above (k : nat) (s : st) : Prop := forall j, (k < j <= 5)%nat -> node_is_valid c j s = true.
  Definition low_ok (s : st) : Prop := forall k, (k <= 5)%nat -> lo k - 1 <= get k s.

  (* candidates still to be considered in a given phase *)
  Definition Cand (x : phase * st) (t : st) : Prop :=
    all_valid t /\
    match fst x with
    | Over k => Gt_from k (snd x) t
    | Reset k => Ge_from (S k) (snd x) t
    end.
  Definition Pre (x : phase * st) : Prop :=
    low_ok (snd x) /\
    match fst x with
    | Over k => valid_above k (snd x)
    | Reset k => (k <= 4)%nat /\ valid_above k (snd x)
    end.

  Lemma node_valid_of_t : forall k s t, (k <= 5)%nat -> all_valid t -> Eq_from (S k) s t ->
    val_valid c k s (get k t) = true.
  Proof.
    intros k s t Hk Ht He. rewrite (valid_ext k s t _ Hk He). apply (Ht k Hk).
  Qed.

  Lemma valid_above_set : forall k v s, (k <= 5)%nat -> valid_above k s -> valid_above k (set k v s).
  Proof.
    intros k v s Hk H j Hj. unfold node_is_valid.
    rewrite get_set_other by lia.
    rewrite <- (valid_ext j s (set k v s) _ ltac:(lia)).
    - apply (H j Hj).
    - eapply Eq_from_weaken; [|apply set_Eq_from; exact Hk]. lia.
  Qed.

  Lemma valid_at_set : forall k v s, (k <= 5)%nat -> val_valid c k s v = true -> node_is_valid c k (set k v s) = true.
  Proof.
    intros k v s Hk Hv. unfold node_is_valid. rewrite get_set_same by exact Hk.
    rewrite <- (valid_ext k s (set k v s) _ Hk (set_Eq_from k v s Hk)). exact Hv.
  Qed.

  Lemma low_ok_set : forall k v s, (k <= 5)%nat -> lo k - 1 <= v -> low_ok s -> low_ok (set k v s).
  Proof.
    intros k v s Hk Hv H j Hj. destruct (Nat.eq_dec j k) as [->|Hne].
    - rewrite get_set_same by exact Hk. exact Hv.
    - rewrite get_set_other by lia. apply H; exact Hj.
  Qed.

  (* what happens after node k took value v without overflow: continue with Reset (k-1), or done *)
  Lemma after_valid : forall k v s,
    (k <= 5)%nat -> low_ok s -> valid_above k s -> val_valid c k s v = true ->
    let s' := set k v s in
    low_ok s' /\ valid_above k s' /\ node_is_valid c k s' = true.
  Proof.
    intros k v s Hk Hlo Hva Hv s'. split; [|split].
    - apply low_ok_set; [exact Hk | | exact Hlo]. pose proof (valid_lo k s v Hk Hv). lia.
    - apply valid_above_set; assumption.
    - apply valid_at_set; assumption.
  Qed.

  (* the candidates with the prefix above k unchanged and level k at least v *)
  Lemma ge_set_iff : forall k v s t, (k <= 5)%nat -> all_valid t ->
    (forall w, val_valid c k s w = true -> get k s < w -> v <= w) -> get k s < v ->
    (Gt_from k s t <-> Ge_from k (set k v s) t).
  Proof.
    intros k v s t Hk Ht Hleast Hgt. set (s' := set k v s).
    assert (He : Eq_from (S k) s s') by (apply set_Eq_from; exact Hk).
    assert (Hgk : get k s' = v) by (apply get_set_same; exact Hk).
    split.
    - intros HG. apply Gt_from_S in HG; [|exact Hk]. destruct HG as [HG|[HE Hlt]].
      + right. apply Gt_from_S; [exact Hk|]. left. eapply Gt_from_eq_l; eassumption.
      + assert (Hv : v <= get k t).
        { apply Hleast; [|exact Hlt]. apply node_valid_of_t; assumption. }
        destruct (Z.eq_dec v (get k t)) as [Heq|Hne].
        * left. apply Eq_from_S. split; [eapply Eq_from_eq_l; eassumption | intros _; rewrite Hgk; exact Heq].
        * right. apply Gt_from_S; [exact Hk|]. right. split; [eapply Eq_from_eq_l; eassumption | rewrite Hgk; lia].
    - intros [HE|HG].
      + apply Eq_from_S in HE. destruct HE as [HE Hk']. specialize (Hk' Hk). rewrite Hgk in Hk'.
        apply Gt_from_S; [exact Hk|]. right. split; [eapply Eq_from_eq_l; [apply Eq_from_sym; exact He | exact HE] | lia].
      + apply Gt_from_S in HG; [|exact Hk]. apply Gt_from_S; [exact Hk|]. destruct HG as [HG|[HE Hlt]].
        * left. eapply Gt_from_eq_l; [apply Eq_from_sym; exact He | exact HG].
        * right. split; [eapply Eq_from_eq_l; [apply Eq_from_sym; exact He | exact HE] | rewrite Hgk in Hlt; lia].
  Qed.

  Lemma reset_set_iff : forall k v s t, (k <= 5)%nat -> all_valid t ->
    (forall w, val_valid c k s w = true -> v <= w) ->
    (Ge_from (S k) s t <-> Ge_from k (set k v s) t).
  Proof.
    intros k v s t Hk Ht Hleast. set (s' := set k v s).
    assert (He : Eq_from (S k) s s') by (apply set_Eq_from; exact Hk).
    assert (Hgk : get k s' = v) by (apply get_set_same; exact Hk).
    split.
    - intros [HE|HG].
      + assert (Hv : v <= get k t) by (apply Hleast; apply node_valid_of_t; assumption).
        destruct (Z.eq_dec v (get k t)) as [Heq|Hne].
        * left. apply Eq_from_S. split; [eapply Eq_from_eq_l; eassumption | intros _; rewrite Hgk; exact Heq].
        * right. apply Gt_from_S; [exact Hk|]. right. split; [eapply Eq_from_eq_l; eassumption | rewrite Hgk; lia].
      + right. apply Gt_from_S; [exact Hk|]. left. eapply Gt_from_eq_l; eassumption.
    - intros [HE|HG].
      + left. apply Eq_from_S in HE. destruct HE as [HE _]. eapply Eq_from_eq_l; [apply Eq_from_sym; exact He | exact HE].
      + apply Gt_from_S in HG; [|exact Hk]. destruct HG as [HG|[HE _]].
        * right. eapply Gt_from_eq_l; [apply Eq_from_sym; exact He | exact HG].
        * left. eapply Eq_from_eq_l; [apply Eq_from_sym; exact He | exact HE].
  Qed.

  (* ---------- one step preserves the set of candidates ---------- *)
  Lemma step_inl : forall x x', Pre x -> step c x = inl x' -> Pre x' /\ forall t, Cand x t <-> Cand x' t.
  Proof.
    intros [ph s] x' [Hlo Hpre] Hstep. cbn [fst snd] in *. unfold step in Hstep.
    destruct ph as [k|k].
    - (* Over k *)
      destruct (5 <? k)%nat eqn:E5; [discriminate|]. apply Nat.ltb_ge in E5.
      destruct (val_next c k s) as [v o] eqn:En.
      destruct (next_spec k s v o E5 (Hlo k E5) En) as (Hno & Hov & Hlov).
      unfold after_node in Hstep. destruct o.
      + (* overflow *)
        injection Hstep as <-. specialize (Hov eq_refl). cbn [fst snd]. split.
        * split; [apply low_ok_set; assumption|].
          intros j Hj. apply (valid_above_set k v s E5 Hpre j). lia.
        * intros t. unfold Cand. cbn [fst snd]. split; intros [Ht HG]; (split; [exact Ht|]).
          -- apply Gt_from_S in HG; [|exact E5]. destruct HG as [HG|[HE Hlt]].
             ++ eapply Gt_from_eq_l; [apply set_Eq_from; exact E5 | exact HG].
             ++ exfalso. pose proof (Hov _ (node_valid_of_t k s t E5 Ht HE)). lia.
          -- apply Gt_from_S; [exact E5|]. left.
             eapply Gt_from_eq_l; [apply Eq_from_sym; apply set_Eq_from; exact E5 | exact HG].
      + destruct (Hno eq_refl) as (Hv & Hgt & Hleast).
        destruct k as [|k']; [discriminate|]. injection Hstep as <-. cbn [fst snd].
        destruct (after_valid (S k') v s E5 Hlo Hpre Hv) as (Hlo' & Hva' & Hvk). split.
        * split; [exact Hlo'|]. split; [lia|].
          intros j Hj. destruct (Nat.eq_dec j (S k')) as [->|Hne]; [exact Hvk | apply Hva'; lia].
        * intros t. unfold Cand. cbn [fst snd]. split; intros [Ht HG]; (split; [exact Ht|]).
          -- apply (ge_set_iff (S k') v s t E5 Ht Hleast Hgt). exact HG.
          -- apply (ge_set_iff (S k') v s t E5 Ht Hleast Hgt). exact HG.
    - (* Reset k *)
      destruct Hpre as [Hk4 Hpre]. assert (Hk : (k <= 5)%nat) by lia.
      destruct (val_reset c k s) as [v o] eqn:En.
      destruct (reset_spec k s v o Hk En) as (Hno & Hov & Hlov).
      unfold after_node in Hstep. destruct o.
      + injection Hstep as <-. specialize (Hov eq_refl). cbn [fst snd]. split.
        * split; [apply low_ok_set; assumption|].
          intros j Hj. apply (valid_above_set k v s Hk Hpre j). lia.
        * intros t. unfold Cand. cbn [fst snd]. split; intros [Ht HG]; (split; [exact Ht|]).
          -- destruct HG as [HE|HG].
             ++ exfalso. pose proof (node_valid_of_t k s t Hk Ht HE) as Hc. rewrite Hov in Hc. discriminate.
             ++ eapply Gt_from_eq_l; [apply set_Eq_from; exact Hk | exact HG].
          -- right. eapply Gt_from_eq_l; [apply Eq_from_sym; apply set_Eq_from; exact Hk | exact HG].
      + destruct (Hno eq_refl) as (Hv & Hleast).
        destruct k as [|k']; [discriminate|]. injection Hstep as <-. cbn [fst snd].
        destruct (after_valid (S k') v s Hk Hlo Hpre Hv) as (Hlo' & Hva' & Hvk). split.
        * split; [exact Hlo'|]. split; [lia|].
          intros j Hj. destruct (Nat.eq_dec j (S k')) as [->|Hne]; [exact Hvk | apply Hva'; lia].
        * intros t. unfold Cand. cbn [fst snd]. split; intros [Ht HG]; (split; [exact Ht|]).
          -- apply (reset_set_iff (S k') v s t Hk Ht Hleast). exact HG.
          -- apply (reset_set_iff (S k') v s t Hk Ht Hleast). exact HG.
  Qed.

  (* a state with every node valid is at least itself *)
  Lemma all_valid_from_above : forall s, valid_above 0 s -> node_is_valid c 0 s = true -> all_valid s.
  Proof. intros s Ha H0 k Hk. destruct k as [|k]; [exact H0 | apply Ha; lia]. Qed.

  Lemma step_found : forall x s', Pre x -> step c x = inr (Some s') ->
    Cand x s' /\ forall t, Cand x t -> Ge_from 0 s' t.
  Proof.
    intros [ph s] s' [Hlo Hpre] Hstep. cbn [fst snd] in *. unfold step in Hstep.
    destruct ph as [k|k].
    - destruct (5 <? k)%nat eqn:E5; [discriminate|]. apply Nat.ltb_ge in E5.
      destruct (val_next c k s) as [v o] eqn:En.
      destruct (next_spec k s v o E5 (Hlo k E5) En) as (Hno & Hov & Hlov).
      unfold after_node in Hstep. destruct o; [discriminate|].
      destruct k as [|k']; [|discriminate]. injection Hstep as <-.
      destruct (Hno eq_refl) as (Hv & Hgt & Hleast).
      destruct (after_valid 0 v s E5 Hlo Hpre Hv) as (Hlo' & Hva' & Hvk).
      assert (Hall : all_valid (set 0 v s)) by (apply all_valid_from_above; assumption).
      split.
      + split; [exact Hall|]. cbn [fst snd].
        apply (ge_set_iff 0 v s (set 0 v s) E5 Hall Hleast Hgt). left. apply Eq_from_refl.
      + intros t [Ht HG]. cbn [fst snd] in HG. apply (ge_set_iff 0 v s t E5 Ht Hleast Hgt). exact HG.
    - destruct Hpre as [Hk4 Hpre]. assert (Hk : (k <= 5)%nat) by lia.
      destruct (val_reset c k s) as [v o] eqn:En.
      destruct (reset_spec k s v o Hk En) as (Hno & Hov & Hlov).
      unfold after_node in Hstep. destruct o; [discriminate|].
      destruct k as [|k']; [|discriminate]. injection Hstep as <-.
      destruct (Hno eq_refl) as (Hv & Hleast).
      destruct (after_valid 0 v s Hk Hlo Hpre Hv) as (Hlo' & Hva' & Hvk).
      assert (Hall : all_valid (set 0 v s)) by (apply all_valid_from_above; assumption).
      split.
      + split; [exact Hall|]. cbn [fst snd].
        apply (reset_set_iff 0 v s (set 0 v s) Hk Hall Hleast). left. apply Eq_from_refl.
      + intros t [Ht HG]. cbn [fst snd] in HG. apply (reset_set_iff 0 v s t Hk Ht Hleast). exact HG.
  Qed.

  Lemma step_none : forall x, Pre x -> step c x = inr None -> forall t, ~ Cand x t.
  Proof.
    intros [ph s] [Hlo Hpre] Hstep t [Ht HG]. cbn [fst snd] in *. unfold step in Hstep.
    destruct ph as [k|k].
    - destruct (5 <? k)%nat eqn:E5.
      + apply Nat.ltb_lt in E5. destruct HG as (j & Hj & _). lia.
      + destruct (val_next c k s) as [v o]. unfold after_node in Hstep.
        destruct o; [discriminate|]. destruct k; discriminate.
    - destruct (val_reset c k s) as [v o]. unfold after_node in Hstep.
      destruct o; [discriminate|]. destruct k; discriminate.
  Qed.

  (* ---------- the bounded loop ---------- *)
  Lemma loop_pos_inv : forall (A B : Type) (body : A -> A + B) (I : A -> Prop) (Q : B -> Prop),
    (forall a a', I a -> body a = inl a' -> I a') ->
    (forall a b, I a -> body a = inr b -> Q b) ->
    forall p a, I a ->
    match loop_pos p body a with inl a' => I a' | inr b => Q b end.
  Proof.
    intros A B body I Q Hinl Hinr. induction p as [p IH|p IH|]; intros a Ha; cbn [loop_pos].
    - destruct (body a) as [a1|b] eqn:E1; [|eapply Hinr; eassumption].
      assert (H1 : I a1) by (eapply Hinl; eassumption).
      pose proof (IH a1 H1) as H2. destruct (loop_pos p body a1) as [a2|b]; [|exact H2].
      apply IH; exact H2.
    - pose proof (IH a Ha) as H1. destruct (loop_pos p body a) as [a1|b]; [|exact H1].
      apply IH; exact H1.
    - destruct (body a) as [a1|b] eqn:E1; [eapply Hinl; eassumption | eapply Hinr; eassumption].
  Qed.

  Theorem run_correct : forall ph s, Pre (ph, s) ->
    match run c ph s with
    | Found s' => Cand (ph, s) s' /\ forall t, Cand (ph, s) t -> Ge_from 0 s' t
    | NoMore => forall t, ~ Cand (ph, s) t
    | OutOfFuel => True
    end.
  Proof.
    intros ph s Hpre. unfold run.
    pose proof (loop_pos_inv _ _ (step c)
      (fun x => Pre x /\ forall t, Cand (ph, s) t <-> Cand x t)
      (fun r => match r with
                | Some s' => Cand (ph, s) s' /\ forall t, Cand (ph, s) t -> Ge_from 0 s' t
                | None => forall t, ~ Cand (ph, s) t
                end)) as L.
    specialize (L ltac:(
      intros a a' [Hp Hc] Hs; destruct (step_inl a a' Hp Hs) as [Hp' Hc']; split; [exact Hp'|];
      intros t; rewrite Hc; apply Hc')).
    specialize (L ltac:(
      intros a [s'|] [Hp Hc] Hs;
      [ destruct (step_found a s' Hp Hs) as [H1 H2]; split; [apply Hc; exact H1 | intros t Ht; apply H2; apply Hc; exact Ht]
      | intros t Ht; apply (step_none a Hp Hs t); apply Hc; exact Ht ])).
    specialize (L run_fuel (ph, s) (conj Hpre (fun t => iff_refl _))).
    destruct (loop_pos run_fuel (step c) (ph, s)) as [x|[s'|]]; [exact I | exact L | exact L].
  Qed.

  (* ---------- findForward ---------- *)
  Lemma first_invalid_spec : forall s ids,
    match first_invalid c s ids with
    | Some k => In k ids /\ node_is_valid c k s = false /\
                forall j, In j ids -> node_is_valid c j s = false -> True
    | None => forall j, In j ids -> node_is_valid c j s = true
    end.
  Proof.
    intros s ids. induction ids as [|k ids IH]; cbn [first_invalid].
    - intros j [].
    - destruct (node_is_valid c k s) eqn:E.
      + destruct (first_invalid c s ids) as [k0|].
        * destruct IH as (H1 & H2 & H3). split; [right; exact H1|]. split; [exact H2 | intros; exact I].
        * intros j [<-|Hj]; [exact E | apply IH; exact Hj].
      + split; [left; reflexivity|]. split; [exact E | intros; exact I].
  Qed.

  (* the scan goes from the most significant node down: everything above the first invalid node is valid *)
  Lemma first_invalid_desc : forall s k, first_invalid c s [5; 4; 3; 2; 1; 0]%nat = Some k ->
    (k <= 5)%nat /\ node_is_valid c k s = false /\ valid_above k s.
  Proof.
    intros s k H. cbn [first_invalid] in H.
    destruct (node_is_valid c 5 s) eqn:E5; [|injection H as <-; repeat split; [lia | exact E5 | intros j Hj; lia]].
    destruct (node_is_valid c 4 s) eqn:E4; [|injection H as <-; repeat split; [lia | exact E4 |
      intros j Hj; assert (j = 5)%nat as -> by lia; exact E5]].
    destruct (node_is_valid c 3 s) eqn:E3; [|injection H as <-; repeat split; [lia | exact E3 |
      intros j Hj; assert (j = 5 \/ j = 4)%nat as [-> | ->] by lia; assumption]].
    destruct (node_is_valid c 2 s) eqn:E2; [|injection H as <-; repeat split; [lia | exact E2 |
      intros j Hj; assert (j = 5 \/ j = 4 \/ j = 3)%nat as [-> | [-> | ->]] by lia; assumption]].
    destruct (node_is_valid c 1 s) eqn:E1; [|injection H as <-; repeat split; [lia | exact E1 |
      intros j Hj; assert (j = 5 \/ j = 4 \/ j = 3 \/ j = 2)%nat as [-> | [-> | [-> | ->]]] by lia; assumption]].
    destruct (node_is_valid c 0 s) eqn:E0; [discriminate|]. injection H as <-. repeat split; [lia | exact E0 |].
    intros j Hj. assert (j = 5 \/ j = 4 \/ j = 3 \/ j = 2 \/ j = 1)%nat as [-> | [-> | [-> | [-> | ->]]]] by lia; assumption.
  Qed.

  Lemma first_invalid_none : forall s, first_invalid c s [5; 4; 3; 2; 1; 0]%nat = None -> all_valid s.
  Proof.
    intros s H k Hk. pose proof (first_invalid_spec s [5; 4; 3; 2; 1; 0]%nat) as L. rewrite H in L.
    apply L. cbn. lia.
  Qed.

  (* a matching state above s must already be above it at the first invalid node *)
  Lemma gt_at_first_invalid : forall s k t, (k <= 5)%nat -> node_is_valid c k s = false -> all_valid t ->
    (Gt_from 0 s t <-> Gt_from k s t).
  Proof.
    intros s k t Hk Hinv Ht. split.
    - intros (j & Hj & Hlt & He). destruct (le_lt_dec k j) as [Hle|Hlt'].
      + exists j. repeat split; try assumption; lia.
      + exfalso. assert (Hek : Eq_from k s t) by (eapply Eq_from_weaken; [|exact He]; lia).
        pose proof (Ht k Hk) as Hv. unfold node_is_valid in Hv, Hinv.
        apply Eq_from_S in Hek. destruct Hek as [Hek1 Hek2]. specialize (Hek2 Hk).
        rewrite <- Hek2 in Hv. rewrite <- (valid_ext k s t _ Hk Hek1) in Hv. congruence.
    - intros (j & Hj & Hlt & He). exists j. repeat split; try assumption; lia.
  Qed.

  Theorem find_forward_correct : forall s, low_ok s ->
    match find_forward c s with
    | Found s' => all_valid s' /\ Gt_from 0 s s' /\
                  forall t, all_valid t -> Gt_from 0 s t -> Ge_from 0 s' t
    | NoMore => forall t, all_valid t -> ~ Gt_from 0 s t
    | OutOfFuel => True
    end.
  Proof.
    intros s Hlo. unfold find_forward.
    destruct (first_invalid c s [5; 4; 3; 2; 1; 0]%nat) as [k|] eqn:E.
    - destruct (first_invalid_desc s k E) as (Hk & Hinv & Hva).
      pose proof (run_correct (Over k) s (conj Hlo Hva)) as R. cbn [fst snd] in R.
      destruct (run c (Over k) s) as [s'| |]; [|
        intros t Ht HG; apply (R t); split; [exact Ht | cbn [fst snd]; apply (gt_at_first_invalid s k t Hk Hinv Ht); exact HG] | exact I].
      destruct R as [[Hall HG] Hleast]. cbn [fst snd] in HG. split; [exact Hall|]. split.
      + apply (gt_at_first_invalid s k s' Hk Hinv Hall). exact HG.
      + intros t Ht HGt. apply Hleast. split; [exact Ht|]. cbn [fst snd].
        apply (gt_at_first_invalid s k t Hk Hinv Ht). exact HGt.
    - pose proof (first_invalid_none s E) as Hall0.
      assert (Hpre : Pre (Over 0%nat, s)) by (split; [exact Hlo | intros j Hj; apply Hall0; lia]).
      pose proof (run_correct (Over 0%nat) s Hpre) as R.
      destruct (run c (Over 0%nat) s) as [s'| |]; [| intros t Ht HG; apply (R t); split; assumption | exact I].
      destruct R as [[Hall HG] Hleast]. split; [exact Hall|]. split; [exact HG|].
      intros t Ht HGt. apply Hleast. split; assumption.
  Qed.
End Machine.
