(* Termination: the node-step fuel of `run` is never exhausted (C06).  The rank counts the months
   left until the last admissible year; every step of resetFrom / overflowFrom decreases it. *)
From Coq Require Import ZArith Lia Bool List ZifyBool.
Require Import QzBase.Calendar QzBase.Fields.
Require Import QzCron.Gen.Params QzCron.CsmModel QzCron.CsmSpec QzCron.CommonProofs QzCron.DayProofs
               QzCron.MachineProofs QzCron.NodeProofs.
Import ListNotations.
Open Scope Z_scope.

Lemma loop_pos_decreasing : forall (A B : Type) (body : A -> A + B) (mu : A -> Z) (I : A -> Prop),
  (forall a a', I a -> body a = inl a' -> I a' /\ 0 <= mu a' /\ mu a' + 1 <= mu a) ->
  forall p a, I a ->
  match loop_pos p body a with
  | inl a' => I a' /\ 0 <= mu a' /\ mu a' + Z.pos p <= mu a
  | inr _ => True
  end.
Proof.
  intros A B body mu I Hstep. induction p as [p IH|p IH|]; intros a Ha; cbn [loop_pos].
  - destruct (body a) as [a1|b] eqn:E1; [|exact Logic.I].
    destruct (Hstep a a1 Ha E1) as (H1 & H1p & H1d).
    pose proof (IH a1 H1) as H2. destruct (loop_pos p body a1) as [a2|b]; [|exact Logic.I].
    destruct H2 as (H2 & H2p & H2d).
    pose proof (IH a2 H2) as H3. destruct (loop_pos p body a2) as [a3|b]; [|exact Logic.I].
    destruct H3 as (H3 & H3p & H3d). split; [exact H3|]. split; [exact H3p|]. lia.
  - pose proof (IH a Ha) as H2. destruct (loop_pos p body a) as [a2|b]; [|exact Logic.I].
    destruct H2 as (H2 & H2p & H2d).
    pose proof (IH a2 H2) as H3. destruct (loop_pos p body a2) as [a3|b]; [|exact Logic.I].
    destruct H3 as (H3 & H3p & H3d). split; [exact H3|]. split; [exact H3p|]. lia.
  - destruct (body a) as [a1|b] eqn:E1; [|exact Logic.I].
    destruct (Hstep a a1 Ha E1) as (H1 & H1p & H1d). repeat split; try assumption; lia.
Qed.

Definition Lm (y m : Z) : Z := (3941 - y) * 13 + (13 - m).
Definition rank (x : phase * st) : Z :=
  let y := s_year (snd x) in let m := s_mon (snd x) in
  match fst x with
  | Reset k => if (k <=? 3)%nat then 20 * Lm y m + Z.of_nat k + 1 else 260 * (3941 - y) + 245
  | Over k => if (k <=? 3)%nat then 20 * Lm y m + 13 - Z.of_nat k
              else if (k =? 4)%nat then 20 * Lm y m + 3
              else if (k =? 5)%nat then 260 * (3941 - y) + 22
              else 0
  end.
(* bounds on year and month wherever the rank uses them *)
Definition J (x : phase * st) : Prop :=
  let y := s_year (snd x) in let m := s_mon (snd x) in
  low_ok lo6 (snd x) /\
  match fst x with
  | Reset k => (k <= 4)%nat /\ 0 <= y <= 3940 /\ ((k <= 3)%nat -> m <= 12)
  | Over k => ((k <= 5)%nat -> 0 <= y <= 3940) /\ ((k <= 4)%nat -> m <= 12)
  end.

Lemma s_year_set : forall k v s, (k <= 4)%nat -> s_year (set k v s) = s_year s.
Proof. intros k v s H. do 5 (destruct k as [|k]; [reflexivity|]). lia. Qed.
Lemma s_mon_set : forall k v s, (k <= 3)%nat -> s_mon (set k v s) = s_mon s.
Proof. intros k v s H. do 4 (destruct k as [|k]; [reflexivity|]). lia. Qed.
Lemma s_mon_set5 : forall v s, s_mon (set 5 v s) = s_mon s.
Proof. reflexivity. Qed.

Section Total.
  Variable f : fields.
  Hypothesis Hwf : wf_fields f = true.
  Let c := csm_eff f.

  Lemma mon_valid_range : forall s v, val_valid c 4 s v = true -> 1 <= v <= 12.
  Proof. intros s v H. cbn [val_valid] in H. apply (cn_valid_iff _ (mon_wf f Hwf)) in H. subst c. cnorm H. lia. Qed.
  Lemma year_valid_range : forall s v, val_valid c 5 s v = true -> 0 <= v <= 3940.
  Proof.
    intros s v H. cbn [val_valid] in H. apply (cn_valid_iff _ (year_wf f Hwf)) in H. subst c. cnorm H.
    destruct (fl_year f); lia.
  Qed.

  Lemma reset_no_overflow : forall k s v o, (k <= 4)%nat -> k <> 3%nat -> val_reset c k s = (v, o) -> o = false.
  Proof.
    intros k s v o Hk Hne H. destruct k as [|[|[|[|[|k]]]]]; cbn [val_reset] in H; try lia; injection H as _ <-; reflexivity.
  Qed.

  Lemma step_rank : forall x x', J x -> step c x = inl x' -> J x' /\ 0 <= rank x' /\ rank x' + 1 <= rank x.
  Proof.
    intros [ph s] x' [Hlo Hj] Hstep. cbn [fst snd] in *. unfold step in Hstep.
    destruct ph as [k|k].
    - (* Over k *)
      destruct (5 <? k)%nat eqn:E5; [discriminate|]. apply Nat.ltb_ge in E5.
      destruct Hj as [Hy Hm]. specialize (Hy E5).
      destruct (val_next c k s) as [v o] eqn:En.
      destruct (inst_next_spec f Hwf k s v o E5 (Hlo k E5) En) as (Hno & Hov & Hlov).
      assert (Hlo' : low_ok lo6 (set k v s)) by (apply low_ok_set; assumption).
      unfold after_node in Hstep. destruct o.
      + injection Hstep as <-. unfold J, rank. cbn [fst snd].
        destruct k as [|[|[|[|[|[|k]]]]]]; try lia; cbn [Nat.leb Nat.eqb].
        * cbn [set s_year s_mon]. specialize (Hm ltac:(lia)). unfold Lm. repeat split; try assumption; try lia.
        * cbn [set s_year s_mon]. specialize (Hm ltac:(lia)). unfold Lm. repeat split; try assumption; try lia.
        * cbn [set s_year s_mon]. specialize (Hm ltac:(lia)). unfold Lm. repeat split; try assumption; try lia.
        * cbn [set s_year s_mon]. specialize (Hm ltac:(lia)). unfold Lm. repeat split; try assumption; try lia.
        * cbn [set s_year s_mon]. specialize (Hm ltac:(lia)). unfold Lm. repeat split; try assumption; try lia.
        * repeat split; try assumption; try lia.
      + destruct (Hno eq_refl) as (Hv & Hgt & _).
        destruct k as [|k']; [discriminate|]. injection Hstep as <-. unfold J, rank. cbn [fst snd].
        destruct k' as [|[|[|[|[|k']]]]]; try lia; cbn [Nat.leb Nat.eqb].
        * cbn [set s_year s_mon]. specialize (Hm ltac:(lia)). unfold Lm. repeat split; try assumption; try lia.
        * cbn [set s_year s_mon]. specialize (Hm ltac:(lia)). unfold Lm. repeat split; try assumption; try lia.
        * cbn [set s_year s_mon]. specialize (Hm ltac:(lia)). unfold Lm. repeat split; try assumption; try lia.
        * (* Over 4 -> Reset 3: the month grew *)
          cbn [set s_year s_mon]. specialize (Hm ltac:(lia)).
          pose proof (mon_valid_range s v Hv) as Hr. cbn [get] in Hgt.
          unfold Lm. repeat split; try assumption; try lia.
        * (* Over 5 -> Reset 4: the year grew *)
          pose proof (year_valid_range s v Hv) as Hr. cbn [get] in Hgt.
          cbn [set s_year s_mon]. repeat split; try assumption; try lia.
    - (* Reset k *)
      destruct Hj as (Hk4 & Hy & Hm). assert (Hk : (k <= 5)%nat) by lia.
      destruct (val_reset c k s) as [v o] eqn:En.
      destruct (inst_reset_spec f Hwf k s v o Hk En) as (Hno & Hov & Hlov).
      assert (Hlo' : low_ok lo6 (set k v s)) by (apply low_ok_set; assumption).
      unfold after_node in Hstep. destruct o.
      + (* only the day node can overflow on Reset *)
        destruct (Nat.eq_dec k 3) as [->|Hne]; [|pose proof (reset_no_overflow k s v true Hk4 Hne En); discriminate].
        injection Hstep as <-. unfold J, rank. cbn [fst snd Nat.leb Nat.eqb].
        cbn [set s_year s_mon]. specialize (Hm ltac:(lia)). unfold Lm. repeat split; try assumption; try lia.
      + destruct (Hno eq_refl) as (Hv & _).
        destruct k as [|k']; [discriminate|]. injection Hstep as <-. unfold J, rank. cbn [fst snd].
        destruct k' as [|[|[|[|k']]]]; try lia; cbn [Nat.leb Nat.eqb].
        * cbn [set s_year s_mon]. specialize (Hm ltac:(lia)). unfold Lm. repeat split; try assumption; try lia.
        * cbn [set s_year s_mon]. specialize (Hm ltac:(lia)). unfold Lm. repeat split; try assumption; try lia.
        * cbn [set s_year s_mon]. specialize (Hm ltac:(lia)). unfold Lm. repeat split; try assumption; try lia.
        * (* Reset 4 -> Reset 3 *)
          cbn [set s_year s_mon]. pose proof (mon_valid_range s v Hv) as Hr.
          cbn [set s_year s_mon]. unfold Lm. repeat split; try assumption; try lia.
  Qed.

  Lemma rank_bound : forall x, J x -> rank x < Z.pos run_fuel.
  Proof.
    intros [ph s] [Hlo Hj]. unfold rank. cbn [fst snd] in *. change (Z.pos run_fuel) with 1048576.
    pose proof (Hlo 4%nat ltac:(lia)) as Hm4. cbn [get lo6] in Hm4.
    destruct ph as [k|k].
    - destruct Hj as [Hy Hm]. destruct k as [|[|[|[|[|[|k]]]]]]; cbn [Nat.leb Nat.eqb]; try lia;
        specialize (Hy ltac:(lia)); unfold Lm; lia.
    - destruct Hj as (Hk4 & Hy & Hm). destruct k as [|[|[|[|[|k]]]]]; cbn [Nat.leb Nat.eqb]; try lia; unfold Lm; lia.
  Qed.

  Theorem run_total : forall ph s, J (ph, s) -> run c ph s <> OutOfFuel.
  Proof.
    intros ph s Hj. unfold run.
    pose proof (loop_pos_decreasing _ _ (step c) rank J step_rank run_fuel (ph, s) Hj) as L.
    destruct (loop_pos run_fuel (step c) (ph, s)) as [x|[s'|]]; [|discriminate|discriminate].
    destruct L as (_ & Hp & Hd). pose proof (rank_bound (ph, s) Hj). lia.
  Qed.

  Theorem find_forward_total : forall s, low_ok lo6 s -> 0 <= s_year s <= 3940 -> s_mon s <= 12 ->
    find_forward c s <> OutOfFuel.
  Proof.
    intros s Hlo Hy Hm. unfold find_forward.
    destruct (first_invalid c s [5; 4; 3; 2; 1; 0]%nat); apply run_total; (split; [exact Hlo | cbn [fst snd]; split; intros; assumption]).
  Qed.
End Total.
