(* C14, completeness half, closed: ZoneComplete.v instantiated with the zone-table facts of ZoneProofs.v. *)
From Coq Require Import ZArith Lia Bool List.
Require Import QzBase.Calendar QzBase.Fields.
Require Import QzCron.CsmModel QzCron.CsmSpec QzCron.NextFire QzCron.NftProofs QzCron.ZoneProofs QzCron.ZoneComplete.
Open Scope Z_scope.

(* t is the later occurrence of a local time repeated by a fall-back *)
Definition is_repeat (z : zone) (t : Z) : Prop :=
  exists t', t' < t / nanos /\ wall_secs z t' = wall_secs z (t / nanos).

Lemma not_repeat_fresh : forall z t, ~ is_repeat z t ->
  forall t', t' < t / nanos -> wall_secs z t' <> wall_secs z (t / nanos).
Proof. intros z t H t' Hlt Heq. apply H. exists t'. split; assumption. Qed.

(* being a repeat is decidable: an earlier instant with the same reading lies less than 187200 s back *)
Lemma dec_exists_range : forall (P : Z -> Prop), (forall x, {P x} + {~ P x}) -> forall lo n,
  {exists x, lo <= x < lo + Z.of_nat n /\ P x} + {forall x, lo <= x < lo + Z.of_nat n -> ~ P x}.
Proof.
  intros P Pdec lo n. induction n as [|n IH].
  - right. intros x Hx. lia.
  - destruct IH as [IH|IH].
    + left. destruct IH as (x & Hx & Px). exists x. split; [lia | exact Px].
    + destruct (Pdec (lo + Z.of_nat n)) as [Hp|Hn].
      * left. exists (lo + Z.of_nat n). split; [lia | exact Hp].
      * right. intros x Hx. destruct (Z.eq_dec x (lo + Z.of_nat n)) as [->|Hne]; [exact Hn | apply IH; lia].
Qed.

Lemma is_repeat_dec : forall z t, wf_zone z = true -> {is_repeat z t} + {~ is_repeat z t}.
Proof.
  intros z t Hz. set (k := t / nanos).
  destruct (dec_exists_range (fun x => wall_secs z x = wall_secs z k) (fun x => Z.eq_dec _ _) (k - 187200) (Z.to_nat 187200))
    as [H|H].
  - left. destruct H as (x & Hx & Px). exists x. fold k. split; [lia | exact Px].
  - right. intros (x & Hx & Px). fold k in Hx, Px. apply (H x); [|exact Px].
    pose proof (offset_at_bound z x Hz). pose proof (offset_at_bound z k Hz). unfold wall_secs in Px. lia.
Qed.

(* a matching instant after prev that is not such a repeat is never passed over *)
Theorem nft_zone_never_skips_fresh : forall f z prev t,
  wf_fields f = true -> wf_zone z = true -> min_nanos <= prev <= max_nanos ->
  prev < t <= max_nanos -> t mod nanos = 0 -> matches_at f z t -> ~ is_repeat z t ->
  exists ns, next_fire_time_zone f z prev = Fire ns /\ ns <= t.
Proof.
  intros f z prev t Hwf Hz Hp Ht Hmod Hm Hnr.
  apply (nft_zone_complete_gen f z prev t Hwf (wf_zone_off_ok z Hz)
           (fun u p => first_after_complete z u p Hz)
           (fun t1 t2 H12 Hw => repeat_of_earlier z t1 t2 Hz H12 Hw) Hp Ht Hmod Hm).
  apply not_repeat_fresh. exact Hnr.
Qed.

(* nothing but repeats is skipped *)
Theorem nft_zone_skips_only_repeats : forall f z prev ns t,
  wf_fields f = true -> wf_zone z = true -> min_nanos <= prev <= max_nanos ->
  next_fire_time_zone f z prev = Fire ns ->
  prev < t < ns -> t mod nanos = 0 -> matches_at f z t -> is_repeat z t.
Proof.
  intros f z prev ns t Hwf Hz Hp Hf Ht Hmod Hm.
  destruct (nft_zone_sound_wf f z prev ns Hwf Hz Hp Hf) as (_ & Hr & _).
  destruct (is_repeat_dec z t Hz) as [H|H]; [exact H|]. exfalso.
  destruct (nft_zone_never_skips_fresh f z prev t Hwf Hz Hp ltac:(lia) Hmod Hm H) as (ns' & E & Hle).
  rewrite Hf in E. injection E as <-. lia.
Qed.

(* no false expiry: when expiry is reported, every matching instant still ahead is a repeat *)
Theorem nft_zone_no_false_expiry : forall f z prev t,
  wf_fields f = true -> wf_zone z = true -> min_nanos <= prev <= max_nanos ->
  next_fire_time_zone f z prev = Expired ->
  prev < t <= max_nanos -> t mod nanos = 0 -> matches_at f z t -> is_repeat z t.
Proof.
  intros f z prev t Hwf Hz Hp He Ht Hmod Hm.
  destruct (is_repeat_dec z t Hz) as [H|H]; [exact H|]. exfalso.
  destruct (nft_zone_never_skips_fresh f z prev t Hwf Hz Hp Ht Hmod Hm H) as (ns' & E & _).
  rewrite He in E. discriminate.
Qed.
