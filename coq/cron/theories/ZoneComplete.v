(* C14, completeness half: NextFireTime in a location with transitions skips nothing but the later
   occurrence of a local time repeated by a fall-back, and reports no false expiry.
   The two facts about zone tables it rests on (exactness of first_after, shape of repeated readings)
   are Section hypotheses here; ZoneFinal.v discharges them with ZoneProofs.v. *)
From Coq Require Import ZArith Lia Bool List ZifyBool.
Require Import QzBase.UnixRange QzBase.Calendar QzBase.Fields QzBase.CalendarProofs.
Require Import QzCron.Gen.Params QzCron.CsmModel QzCron.CsmSpec QzCron.NextFire QzCron.CommonProofs
               QzCron.DayProofs QzCron.MachineProofs QzCron.NodeProofs QzCron.TotalProofs QzCron.NftProofs.
Import ListNotations.
Open Scope Z_scope.

Section Complete.
  Variable f : fields.
  Hypothesis Hwf : wf_fields f = true.
  Variable z : zone.
  Hypothesis Hz : zone_off_ok z.

  Hypothesis first_after_complete : forall u p,
    match first_after z u p with
    | Some t => p < t /\ wall_secs z t = u /\ forall t', p < t' -> wall_secs z t' = u -> t <= t'
    | None => forall t', p < t' -> wall_secs z t' <> u
    end.
  Hypothesis repeat_of_earlier : forall t1 t2, t1 < t2 -> wall_secs z t2 <= wall_secs z t1 ->
    let x := wall_secs z t2 - offset_at z t1 in
    x <= t1 /\ wall_secs z x = wall_secs z t2 /\ forall y, x <= y <= t1 -> offset_at z y = offset_at z t1.

  Variable prev : Z.
  Hypothesis Hp : min_nanos <= prev <= max_nanos.
  Let ps := prev / nanos.

  Variable w0 : civil.
  Hypothesis E0 : civil_from_unix (offset_at z ps) ps = Some w0.

  (* the instant k (> ps) whose local reading c matches *)
  Variable k : Z.
  Variable c : civil.
  Hypothesis Hk : ps < k <= 9223372036.
  Hypothesis Ec : civil_from_unix (offset_at z k) k = Some c.
  Hypothesis Hm : matches f c = true.
  (* ... and is not a repeat of an earlier instant *)
  Hypothesis Hfresh : forall t', t' < k -> wall_secs z t' <> wall_secs z k.

  Lemma ps_range : -9223372037 <= ps <= 9223372036.
  Proof. unfold ps, nanos. unfold max_nanos, min_nanos in Hp. change Params.max_int64 with 9223372036854775807 in Hp. lia. Qed.

  Lemma w0_facts : valid_civil w0 = true /\ civil_to_unix w0 = wall_secs z ps /\ 0 <= year_of w0 <= 2262.
  Proof.
    destruct (civil_from_unix_sound _ _ _ E0) as [Hv Hu]. split; [exact Hv|]. split; [exact Hu|].
    destruct w0 as [[[[[y m] d] h] mi] s]. pose proof (civil_from_unix_year_range_wide _ _ _ _ _ _ _ _ (Hz ps) ps_range E0). cbn [year_of]. lia.
  Qed.

  Lemma c_facts : valid_civil c = true /\ civil_to_unix c = wall_secs z k /\ year_of c <= 2262 /\ all_valid_c f c.
  Proof.
    destruct (civil_from_unix_sound _ _ _ Ec) as [Hv Hu]. split; [exact Hv|]. split; [exact Hu|].
    assert (Hy : year_of c <= 2262).
    { pose proof ps_range as Hpr. assert (Hkr : -9223372037 <= k <= 9223372036) by lia.
      destruct c as [[[[[y m] d] h] mi] s].
      pose proof (civil_from_unix_year_range_wide _ _ _ _ _ _ _ _ (Hz k) Hkr Ec). cbn [year_of]. lia. }
    split; [exact Hy|]. apply (all_valid_c_matches f Hwf c Hy). exact Hm.
  Qed.

  (* the reading of k is later than the reading of prev: otherwise k would repeat an earlier instant *)
  Lemma c_after_w0 : civil_lt w0 c.
  Proof.
    destruct w0_facts as (Hv0 & Hu0 & _). destruct c_facts as (Hvc & Huc & _).
    apply civil_to_unix_lt_inv; [exact Hv0 | exact Hvc|]. rewrite Hu0, Huc.
    destruct (Z_lt_ge_dec (wall_secs z ps) (wall_secs z k)) as [H|H]; [exact H|].
    exfalso. destruct (repeat_of_earlier ps k ltac:(lia) ltac:(lia)) as (Hx & Hr & _).
    apply (Hfresh (wall_secs z k - offset_at z ps)); [lia | exact Hr].
  Qed.

  (* invariant of the candidate loop: every matching reading up to w has no instant after prev *)
  Definition visited (w : civil) : Prop :=
    good f w /\ civil_le w0 w /\
    forall c', matches f c' = true -> civil_lt w0 c' -> civil_le c' w -> first_after z (civil_to_unix c') ps = None.

  Lemma civil_le_lt_trans : forall a b d, valid_civil a = true -> valid_civil b = true -> valid_civil d = true ->
    civil_le a b -> civil_lt b d -> civil_lt a d.
  Proof.
    intros a b d Ha Hb Hd [->|Hab] Hbd; [exact Hbd|].
    apply civil_to_unix_lt_inv; [exact Ha | exact Hd|].
    pose proof (civil_to_unix_lt _ _ Ha Hb Hab). pose proof (civil_to_unix_lt _ _ Hb Hd Hbd). lia.
  Qed.

  Lemma civil_le_or_lt : forall a b, valid_civil a = true -> valid_civil b = true -> civil_le a b \/ civil_lt b a.
  Proof. intros a b _ _. destruct (civil_lt_trichotomy a b) as [H|[H|H]]; [left; right; exact H | left; left; exact H | right; exact H]. Qed.

  (* c cannot be among the visited readings: it has the instant k after prev *)
  Lemma c_not_visited : forall w, visited w -> ~ civil_le c w.
  Proof.
    intros w (_ & _ & Hv) Hle. pose proof (Hv c Hm c_after_w0 Hle) as Hn.
    pose proof (first_after_complete (civil_to_unix c) ps) as FA. rewrite Hn in FA.
    destruct c_facts as (_ & Huc & _). apply (FA k ltac:(lia)). symmetry. exact Huc.
  Qed.

  Lemma good_valid' : forall w, good f w -> valid_civil w = true.
  Proof. intros w Hg. apply (good_valid f Hwf w Hg). Qed.

  (* one step of the loop from a visited reading: either it continues with a visited reading, or it
     exits with a result that does not pass over k *)
  Lemma body_visited : forall w, visited w ->
    match nft_body f z ps w with
    | inl w' => visited w'
    | inr (Fire ns) => ns <= k * nanos
    | inr Expired => max_nanos < k * nanos
    | inr ModelError => True
    end.
  Proof.
    intros w Hvis. pose proof Hvis as (Hg & Hle0 & Hv).
    destruct w0_facts as (Hv0 & Hu0 & Hy0). destruct c_facts as (Hvc & Huc & Hyc & Hac).
    pose proof (good_valid' w Hg) as Hvw.
    pose proof (c_not_visited w Hvis) as Hnle.
    assert (Hwc : civil_lt w c) by (destruct (civil_le_or_lt c w Hvc Hvw) as [H|H]; [contradiction | exact H]).
    unfold nft_body.
    (* the machine's answer from w *)
    assert (N : match wall_next f w with
                | WNext w' => all_valid_c f w' /\ civil_lt w w' /\ civil_le w' c /\
                              forall t, all_valid_c f t -> civil_lt w t -> civil_le w' t
                | WExpired => False
                | WError => False
                end).
    { destruct Hg as [[Hvw' Hyw]|Haw].
      - pose proof (wall_next_low f Hwf w Hvw' Hyw) as L. destruct (wall_next f w) as [w'| |].
        + destruct L as (A & B & C). repeat split; [exact A | exact B | apply C; [exact Hac | exact Hwc] | exact C].
        + exact (L c Hac Hwc).
        + exact L.
      - destruct (Z_le_gt_dec (year_of w) 2262) as [Hyw|Hyw].
        + pose proof (all_valid_c_year f Hwf w Haw) as Hyr.
          pose proof (wall_next_low f Hwf w Hvw ltac:(lia)) as L. destruct (wall_next f w) as [w'| |].
          * destruct L as (A & B & C). repeat split; [exact A | exact B | apply C; [exact Hac | exact Hwc] | exact C].
          * exact (L c Hac Hwc).
          * exact L.
        + (* year(w) > 2262 >= year(c) contradicts w < c *)
          exfalso. destruct w as [[[[[y1 m1] d1] h1] i1] s1], c as [[[[[y2 m2] d2] h2] i2] s2].
          cbn [year_of] in Hyw, Hyc. cbn in Hwc. lia. }
    destruct (wall_next f w) as [w'| |]; [|contradiction|contradiction].
    destruct N as (Haw' & Hlt & Hle & Hstep).
    pose proof (all_valid_c_valid f Hwf w' Haw') as Hvw'.
    pose proof (first_after_complete (civil_to_unix w') ps) as FA.
    destruct (first_after z (civil_to_unix w') ps) as [tj|] eqn:Ef.
    - (* exit with instant tj *)
      destruct FA as (Hptj & Hrtj & Hleast).
      assert (Htjk : tj <= k).
      { destruct Hle as [Heq|Hltc].
        - subst w'. apply Hleast; [lia | symmetry; exact Huc].
        - (* w' < c lexicographically but, if k < tj, tj would be a repeat seen before prev *)
          destruct (Z_le_gt_dec tj k) as [H|H]; [exact H|]. exfalso.
          pose proof (civil_to_unix_lt _ _ Hvw' Hvc Hltc) as Hu. rewrite Huc, <- Hrtj in Hu.
          destruct (repeat_of_earlier k tj ltac:(lia) ltac:(lia)) as (Hx & Hr & Hconst).
          set (x := wall_secs z tj - offset_at z k) in *.
          assert (Hxps : x <= ps).
          { destruct (Z_le_gt_dec x ps) as [H1|H1]; [exact H1|]. assert (H2 : ps < x) by lia. pose proof (Hleast x H2 ltac:(rewrite Hr; exact Hrtj)). lia. }
          pose proof (Hconst ps ltac:(lia)) as Hops.
          (* reading of prev >= reading of tj = reading w' > reading w0 = reading of prev *)
          pose proof (civil_le_lt_trans w0 w w' Hv0 Hvw Hvw' Hle0 Hlt) as H0w'.
          pose proof (civil_to_unix_lt _ _ Hv0 Hvw' H0w') as Hu0w'. rewrite Hu0, <- Hrtj in Hu0w'.
          unfold wall_secs in Hu0w' at 1. rewrite Hops in Hu0w'. unfold wall_secs in Hr at 1.
          assert (offset_at z x = offset_at z k) by (apply Hconst; lia). lia. }
      destruct (max_nanos <? tj * nanos) eqn:Em; unfold nanos in *; lia.
    - (* continue *)
      split; [right; exact Haw'|]. split.
      + right. apply (civil_le_lt_trans w0 w w' Hv0 Hvw Hvw' Hle0 Hlt).
      + intros c' Hm' Hlt' Hle'.
        assert (Hvc' : valid_civil c' = true) by (eapply matches_valid_civil; eassumption).
        destruct (civil_le_or_lt c' w Hvc' Hvw) as [H|H]; [apply Hv; assumption|].
        (* w < c' <= w' : c' = w' by leastness of the machine's step (or impossible when year(w) > 2262) *)
        assert (Hc'w' : c' = w').
        { destruct Hle' as [->|Hlt'']; [reflexivity|]. exfalso.
          pose proof (matches_year f c' Hm') as Hyc'.
          assert (Hac' : all_valid_c f c') by (apply (all_valid_c_matches f Hwf c'); [lia | exact Hm']).
          destruct (Hstep c' Hac' H) as [Heq|Hlt3].
          - subst c'. pose proof (civil_to_unix_lt _ _ Hvw' Hvw' Hlt''). lia.
          - pose proof (civil_to_unix_lt _ _ Hvc' Hvw' Hlt''). pose proof (civil_to_unix_lt _ _ Hvw' Hvc' Hlt3). lia. }
        subst c'. exact Ef.
  Qed.

  Lemma visited_start : visited w0.
  Proof.
    destruct w0_facts as (Hv0 & Hu0 & Hy0). split; [left; split; assumption|]. split; [left; reflexivity|].
    intros c' Hm' Hlt Hle. exfalso.
    assert (Hvc' : valid_civil c' = true) by (eapply matches_valid_civil; eassumption).
    pose proof (civil_to_unix_lt _ _ Hv0 Hvc' Hlt).
    destruct Hle as [->|Hlt']; [lia | pose proof (civil_to_unix_lt _ _ Hvc' Hv0 Hlt'); lia].
  Qed.

  Lemma loop_does_not_pass_k :
    match loop_pos zone_fuel (nft_body f z ps) w0 with
    | inr (Fire ns) => ns <= k * nanos
    | inr Expired => max_nanos < k * nanos
    | _ => True
    end.
  Proof.
    pose proof (loop_pos_inv _ _ (nft_body f z ps) visited
                  (fun r => match r with Fire ns => ns <= k * nanos | Expired => max_nanos < k * nanos | ModelError => True end)) as L.
    specialize (L ltac:(intros a a' Ha Hb; pose proof (body_visited a Ha) as B; rewrite Hb in B; exact B)).
    specialize (L ltac:(intros a b Ha Hb; pose proof (body_visited a Ha) as B; rewrite Hb in B; exact B)).
    specialize (L zone_fuel w0 visited_start).
    destruct (loop_pos zone_fuel (nft_body f z ps) w0) as [w|r]; [exact I | exact L].
  Qed.
End Complete.

(* closed form: a matching instant after prev that is not the repeat of an earlier instant is never
   passed over -- the result is a fire time at or before it (expiry only if it lies beyond the int64 limit) *)
Theorem nft_zone_complete_gen : forall f z prev t,
  wf_fields f = true -> zone_off_ok z ->
  (forall u p, match first_after z u p with
               | Some t0 => p < t0 /\ wall_secs z t0 = u /\ forall t', p < t' -> wall_secs z t' = u -> t0 <= t'
               | None => forall t', p < t' -> wall_secs z t' <> u
               end) ->
  (forall t1 t2, t1 < t2 -> wall_secs z t2 <= wall_secs z t1 ->
     let x := wall_secs z t2 - offset_at z t1 in
     x <= t1 /\ wall_secs z x = wall_secs z t2 /\ forall y, x <= y <= t1 -> offset_at z y = offset_at z t1) ->
  min_nanos <= prev <= max_nanos -> prev < t <= max_nanos -> t mod nanos = 0 ->
  matches_at f z t ->
  (forall t', t' < t / nanos -> wall_secs z t' <> wall_secs z (t / nanos)) ->
  exists ns, next_fire_time_zone f z prev = Fire ns /\ ns <= t.
Proof.
  intros f z prev t Hwf Hz FA REP Hp Ht Hmod [c [Ec Hm]] Hfresh.
  pose proof (nft_zone_total f Hwf z Hz prev Hp) as Htot.
  unfold next_fire_time_zone in *.
  unfold max_nanos, min_nanos in Hp, Ht. change Params.max_int64 with 9223372036854775807 in Hp, Ht.
  assert (Hps : -9223372037 <= prev / nanos <= 9223372036) by (unfold nanos; lia).
  destruct (civil_from_unix_total_wide (offset_at z (prev / nanos)) (prev / nanos)) as [w0 E0]. rewrite E0 in *.
  assert (Hkt : t = (t / nanos) * nanos) by (unfold nanos in *; lia).
  assert (Hk : prev / nanos < t / nanos <= 9223372036) by (unfold nanos in *; lia).
  pose proof (loop_does_not_pass_k f Hwf z Hz FA REP prev
                ltac:(unfold max_nanos, min_nanos; change Params.max_int64 with 9223372036854775807; lia)
                w0 E0 (t / nanos) c Hk Ec Hm Hfresh) as L.
  destruct (loop_pos zone_fuel (nft_body f z (prev / nanos)) w0) as [w|[ns| |]].
  - exfalso. apply Htot. reflexivity.
  - exists ns. split; [reflexivity | lia].
  - exfalso. unfold max_nanos in L. change Params.max_int64 with 9223372036854775807 in L. unfold nanos in *. lia.
  - exfalso. apply Htot. reflexivity.
Qed.

