(* C02 -- Cron never skips a matching instant; expiry is reported exactly. *)
From Coq Require Import ZArith List.
Require Import QzBase.Calendar QzBase.Fields.
Require Import QzCron.CsmModel QzCron.CsmSpec QzCron.NextFire QzCron.NftProofs.
Open Scope Z_scope.

(* no whole-second instant strictly between prev and the result satisfies the expression *)
Theorem C02_nft_least : forall f off prev ns,
  wf_fields f = true -> -93600 <= off <= 93600 -> min_nanos <= prev <= max_nanos ->
  next_fire_time f off prev = Fire ns ->
  forall t', prev < t' < ns -> t' mod nanos = 0 -> ~ matches_at f (fixed_zone off) t'.
Proof. intros f off prev ns Hwf Hoff. exact (nft_fixed_least f Hwf off Hoff prev ns). Qed.
Print Assumptions C02_nft_least.

(* expiry iff no satisfying instant is left up to the int64-nanosecond limit (year 2262) *)
Theorem C02_nft_expired_iff : forall f off prev,
  wf_fields f = true -> -93600 <= off <= 93600 -> min_nanos <= prev <= max_nanos ->
  (next_fire_time f off prev = Expired <->
   forall t', prev < t' <= max_nanos -> t' mod nanos = 0 -> ~ matches_at f (fixed_zone off) t').
Proof. intros f off prev Hwf Hoff. exact (nft_fixed_expired_iff f Hwf off Hoff prev). Qed.
Print Assumptions C02_nft_expired_iff.

(* iterating enumerates every scheduled instant exactly once and in increasing order *)
Theorem C02_nft_chain : forall f off prev n1 n2,
  wf_fields f = true -> -93600 <= off <= 93600 -> min_nanos <= prev <= max_nanos ->
  next_fire_time f off prev = Fire n1 -> next_fire_time f off n1 = Fire n2 ->
  prev < n1 < n2 /\
  forall t', prev < t' < n2 -> t' mod nanos = 0 -> matches_at f (fixed_zone off) t' -> t' = n1.
Proof. exact nft_fixed_chain. Qed.
Print Assumptions C02_nft_chain.
