(* The tie between /repo's SOURCE and the model (nothing but theorem statements).

   Gen/CsmSrc.v is the source-to-Gallina translation of internal/csm/util.go, common_node.go and
   day_node.go, regenerated from /repo on every run.  The theorems below say that the translated
   Go functions (named g_...) compute exactly what the model functions of CsmModel.v compute, which are
   the functions the theorems of Props/C01 C02 C06 C14 are about.  cn_emb / dn_emb (SrcEquiv.v)
   build the Go struct from a model node and its current value. *)
From Coq Require Import ZArith List Bool Lia.
Require Import QzBase.Calendar QzBase.GoTime QzBase.Fields.
Require Import QzCron.Gen.Params QzCron.Gen.CsmSrc QzCron.CsmModel QzCron.SrcEquiv QzCron.NftProofs QzCron.SrcMachine.
Require Import QzCron.NextFire QzCron.GoTimeLoc QzCron.CronExt QzCron.Gen.CronSrc QzCron.CronSrcEquiv QzCron.NftSrcEquiv QzCron.CsmSpec QzCron.ZoneProofs QzCron.ZoneComplete QzCron.ZoneFinal.
Import ListNotations.
Open Scope Z_scope.

(* CommonNode: Next, Reset, isValid, Value, findForward -- for every node and value *)
Theorem SrcTie_common_node : forall n v,
  g_CommonNode_Next (cn_emb n v) = (cn_emb n (fst (cn_next n v)), snd (cn_next n v)) /\
  g_CommonNode_Reset (cn_emb n v) = (cn_emb n (cn_reset n), false) /\
  g_CommonNode_isValid (cn_emb n v) = cn_is_valid n v /\
  g_CommonNode_Value (cn_emb n v) = v /\
  g_CommonNode_findForward (cn_emb n v) =
    (if cn_is_valid n v then (cn_emb n v, c_unchanged)
     else (cn_emb n (fst (cn_next n v)), if snd (cn_next n v) then c_overflowed else c_advanced)).
Proof.
  intros n v.
  exact (conj (src_common_next n v) (conj (src_common_reset n v) (conj (src_common_is_valid n v)
        (conj (src_common_value n v) (src_common_find_forward n v))))).
Qed.
Print Assumptions SrcTie_common_node.

(* util.go: lastDayOfMonth and closestWeekday against the calendar model, for every year *)
Theorem SrcTie_last_day_of_month : forall y m, 1 <= m <= 12 -> g_lastDayOfMonth y m = month_len y m.
Proof. exact src_last_day_of_month. Qed.
Print Assumptions SrcTie_last_day_of_month.

Theorem SrcTie_closest_weekday : forall y m d, valid_date y m d = true ->
  g_closestWeekday (g_makeDateTime y m d) = closest_weekday y m d.
Proof. exact src_closest_weekday. Qed.
Print Assumptions SrcTie_closest_weekday.

(* DayNode: Next, Reset, isValid, Value, findForward, dayN -- for every node satisfying dn_ok,
   every year, every month 1..12, every current value (also 0 and values beyond the month) *)
Theorem SrcTie_day_node : forall n y m v, dn_ok n -> 1 <= m <= 12 ->
  g_DayNode_Next (dn_emb n y m v) = (dn_emb n y m (fst (dn_next n y m v)), snd (dn_next n y m v)) /\
  g_DayNode_Reset (dn_emb n y m v) = (dn_emb n y m (fst (dn_reset n y m)), snd (dn_reset n y m)) /\
  g_DayNode_isValid (dn_emb n y m v) = dn_is_valid n y m v /\
  g_DayNode_Value (dn_emb n y m v) = v /\
  g_DayNode_dayN (dn_emb n y m v) = dn_dayN n y m /\
  g_DayNode_findForward (dn_emb n y m v) =
    (if dn_is_valid n y m v then (dn_emb n y m v, c_unchanged)
     else (dn_emb n y m (fst (dn_next n y m v)), if snd (dn_next n y m v) then c_overflowed else c_advanced)).
Proof.
  intros n y m v Hok Hm.
  exact (conj (src_day_next n y m v Hok Hm) (conj (src_day_reset n y m v Hok Hm)
        (conj (src_day_is_valid n y m v Hok Hm) (conj (src_day_value n y m v)
        (conj (src_day_dayN n y m v Hok Hm) (src_day_find_forward n y m v Hok Hm)))))).
Qed.
Print Assumptions SrcTie_day_node.

(* the side condition dn_ok holds of the day node of every machine built from well-formed fields
   (wf_fields is proved of every accepted expression in C07) *)
Theorem SrcTie_wf_day_ok : forall f, wf_fields f = true -> dn_ok (f_day (mk_csm f)).
Proof. exact src_wf_day_ok. Qed.
Print Assumptions SrcTie_wf_day_ok.

(* the constructors quartz/csm.go calls build exactly the embedded model nodes *)
Theorem SrcTie_constructors : forall v lo hi k vals m y,
  g_NewCommonNode v lo hi vals = cn_emb {| cn_lo := lo; cn_hi := hi; cn_vals := vals |} v /\
  g_NewMonthDayNode v lo hi k vals m y =
    dn_emb {| dn_c := {| cn_lo := lo; cn_hi := hi; cn_vals := vals |}; dn_w := []; dn_n := k |} y m v /\
  g_NewWeekDayNode v lo hi k vals m y =
    dn_emb {| dn_c := {| cn_lo := lo; cn_hi := hi; cn_vals := [] |}; dn_w := vals; dn_n := k |} y m v.
Proof.
  intros. exact (conj (src_new_common v lo hi vals) (conj (src_new_month_day v lo hi k vals m y) (src_new_week_day v lo hi k vals m y))).
Qed.
Print Assumptions SrcTie_constructors.

(* the model's per-node operations on a machine state are what the Go day node computes *)
Theorem SrcTie_machine_day_node : forall f s, wf_fields f = true -> 1 <= s_mon s <= 12 ->
  let n := f_day (mk_csm f) in
  let N := dn_emb n (s_year s) (s_mon s) (s_day s) in
  g_DayNode_Next N = (dn_emb n (s_year s) (s_mon s) (fst (val_next (mk_csm f) 3 s)), snd (val_next (mk_csm f) 3 s)) /\
  g_DayNode_Reset N = (dn_emb n (s_year s) (s_mon s) (fst (val_reset (mk_csm f) 3 s)), snd (val_reset (mk_csm f) 3 s)) /\
  g_DayNode_isValid N = node_is_valid (mk_csm f) 3 s.
Proof. exact src_machine_day_node. Qed.
Print Assumptions SrcTie_machine_day_node.

(* the machine of the model with the TRANSLATED Go node code plugged in (src_wall_next: SrcMachine.v)
   returns, from every valid wall clock reading, exactly what the model's wall_next returns -- the
   function NextFireTime's model and every theorem of C01 C02 C06 C14 are built on *)
Theorem SrcTie_wall_next : forall f, wf_fields f = true -> forall w, valid_civil w = true -> 0 <= year_of w <= 3940 ->
  src_wall_next f w = wall_next f w.
Proof. exact src_wall_next_eq. Qed.
Print Assumptions SrcTie_wall_next.

(* non-vacuity: "0 15 10 LW * ?" from 2024-06-01T00:00:00, evaluated on the translated code: Friday 28 June
   (the last day, the 30th, is a Sunday) *)
Example SrcTie_wall_next_example :
  src_wall_next {| fl_sec := [0]; fl_min := [15]; fl_hour := [10]; fl_dom := [0]; fl_dom_n := 3; fl_mon := [];
                   fl_dow := []; fl_dow_n := 0; fl_year := [] |} (2024, 6, 1, 0, 0, 0) = WNext (2024, 6, 28, 10, 15, 0).
Proof. vm_compute. reflexivity. Qed.

(* quartz/cron.go's firstAfter (Gen/CronSrc.v, translated on every run): for EVERY zone table, wall clock
   reading u (as UTC seconds) and prev, the Go function returns the instant the model's first_after returns
   (in the trigger's location, found = true), or (zero Time, false) when the model finds none.  first_after is
   what the DST theorems of C14 (and NextFire.v's loop) are about. *)
Theorem SrcTie_first_after : forall z u prev_s,
  g_firstAfter (mk_time utc_zone u) z (mk_time z prev_s) =
  match first_after z u prev_s with
  | Some t => (mk_time z t, true)
  | None => (time_zeroTime, false)
  end.
Proof. exact src_first_after. Qed.
Print Assumptions SrcTie_first_after.

(* non-vacuity: a location that falls back by one hour at t = 10000 (offset 7200 -> 3600): the reading 12000
   occurs twice (at 4800 and 8400); after prev = 5000 the Go code finds the second occurrence *)
Example SrcTie_first_after_example :
  g_firstAfter (mk_time utc_zone 12000) {| z_off0 := 7200; z_trans := [(7000, 3600)] |}
               (mk_time {| z_off0 := 7200; z_trans := [(7000, 3600)] |} 5000)
  = (mk_time {| z_off0 := 7200; z_trans := [(7000, 3600)] |} 8400, true).
Proof. vm_compute. reflexivity. Qed.

(* (CronTrigger).NextFireTime of quartz/cron.go (Gen/CronSrc.v, translated on every run): for every well-formed
   expression, every zone table with offsets within +-26 h and EVERY int64 prev, the Go function returns what
   the model next_fire_time_zone returns (encode: a fire time with the nil error, or (0, ErrTriggerExpired);
   never the out-of-budget value).  The model is what C01 C02 C06 C14 are stated about.  The state machine of
   internal/csm is the external function wall_next here (CronExt.v); SrcTie_wall_next above ties its node
   level to the source. *)
Theorem SrcTie_next_fire_time : forall f, wf_fields f = true -> forall z, zone_off_ok z -> forall prev, min_nanos <= prev <= max_nanos ->
  g_NextFireTime {| CronTrigger_fields := f; CronTrigger_location := z |} prev = encode (next_fire_time_zone f z prev).
Proof. exact src_next_fire_time. Qed.
Print Assumptions SrcTie_next_fire_time.

(* C01 read off the translated source: a value the Go function returns with a nil error is a whole second
   strictly after prev whose reading in the location satisfies the expression and is a real date *)
Theorem SrcTie_C01_on_the_source : forall f z prev ns,
  wf_fields f = true -> wf_zone z = true -> min_nanos <= prev <= max_nanos ->
  g_NextFireTime {| CronTrigger_fields := f; CronTrigger_location := z |} prev = Some (ns, 0) ->
  ns mod nanos = 0 /\ prev < ns <= max_nanos /\
  exists c, civil_from_unix (offset_at z (ns / nanos)) (ns / nanos) = Some c /\ matches f c = true /\ valid_civil c = true.
Proof.
  intros f z prev ns Hwf Hz Hp H.
  rewrite (src_next_fire_time f Hwf z (wf_zone_off_ok z Hz) prev Hp) in H.
  destruct (next_fire_time_zone f z prev) as [ns'| |] eqn:E; cbn [encode] in H; try discriminate.
  injection H as ->. exact (nft_zone_sound_wf f z prev ns Hwf Hz Hp E).
Qed.
Print Assumptions SrcTie_C01_on_the_source.

(* non-vacuity: the translated NextFireTime evaluated on "0 15 10 LW * ?" in UTC from 2024-06-01T00:00:00Z:
   Friday 28 June 2024 10:15:00 UTC *)
Example SrcTie_next_fire_time_example :
  g_NextFireTime {| CronTrigger_fields := {| fl_sec := [0]; fl_min := [15]; fl_hour := [10]; fl_dom := [0]; fl_dom_n := 3;
                                             fl_mon := []; fl_dow := []; fl_dow_n := 0; fl_year := [] |};
                    CronTrigger_location := fixed_zone 0 |} 1717200000000000000
  = Some (1719569700000000000, 0).
Proof. vm_compute. reflexivity. Qed.

(* C02 read off the translated source (fixed-offset locations, UTC included): when the Go function returns ns with
   a nil error no whole-second instant strictly between prev and ns satisfies the expression, and it returns
   ErrTriggerExpired exactly when no satisfying instant is left up to the int64 limit *)
Theorem SrcTie_C02_on_the_source : forall f off prev,
  wf_fields f = true -> -93600 <= off <= 93600 -> min_nanos <= prev <= max_nanos ->
  (forall ns, g_NextFireTime {| CronTrigger_fields := f; CronTrigger_location := fixed_zone off |} prev = Some (ns, 0) ->
     forall t', prev < t' < ns -> t' mod nanos = 0 -> ~ matches_at f (fixed_zone off) t') /\
  (g_NextFireTime {| CronTrigger_fields := f; CronTrigger_location := fixed_zone off |} prev = Some (0, c_ErrTriggerExpired) <->
     forall t', prev < t' <= max_nanos -> t' mod nanos = 0 -> ~ matches_at f (fixed_zone off) t').
Proof.
  intros f off prev Hwf Hoff Hp.
  rewrite (src_next_fire_time f Hwf (fixed_zone off) (fixed_zone_off_ok off Hoff) prev Hp).
  assert (Ez : next_fire_time_zone f (fixed_zone off) prev = next_fire_time f off prev) by (unfold next_fire_time; reflexivity).
  rewrite Ez. clear Ez.
  split.
  - intros ns H. destruct (next_fire_time f off prev) as [ns'| |] eqn:E; cbn [encode] in H; try discriminate.
    injection H as ->. exact (nft_fixed_least f Hwf off Hoff prev ns Hp E).
  - rewrite <- (nft_fixed_expired_iff f Hwf off Hoff prev Hp).
    destruct (next_fire_time f off prev) as [ns'| |] eqn:E; cbn [encode]; split; intros H; try discriminate; try reflexivity.
Qed.
Print Assumptions SrcTie_C02_on_the_source.

(* C06 read off the translated source: for every location with bounded offsets and every int64 prev the Go function
   comes back (never the out-of-budget value None), with a fire time strictly after prev and a nil error, or with
   ErrTriggerExpired *)
Theorem SrcTie_C06_on_the_source : forall f z prev,
  wf_fields f = true -> wf_zone z = true -> min_nanos <= prev <= max_nanos ->
  exists v code, g_NextFireTime {| CronTrigger_fields := f; CronTrigger_location := z |} prev = Some (v, code) /\
    ((code = 0 /\ prev < v) \/ (code = c_ErrTriggerExpired /\ v = 0)).
Proof.
  intros f z prev Hwf Hz Hp.
  rewrite (src_next_fire_time f Hwf z (wf_zone_off_ok z Hz) prev Hp).
  pose proof (nft_zone_total f Hwf z (wf_zone_off_ok z Hz) prev Hp) as Ht.
  destruct (next_fire_time_zone f z prev) as [ns| |] eqn:E; [| |contradiction]; cbn [encode].
  - exists ns, 0. split; [reflexivity|]. left. split; [reflexivity|].
    destruct (nft_zone_sound_wf f z prev ns Hwf Hz Hp E) as (_ & Hlt & _). lia.
  - exists 0, c_ErrTriggerExpired. split; [reflexivity|]. right. split; reflexivity.
Qed.
Print Assumptions SrcTie_C06_on_the_source.

(* C14 read off the translated source (locations with transitions, wf_zone): a matching instant after prev that is
   not the later occurrence of a repeated local time is never passed over by the Go function, and it never
   reports expiry while such an instant remains *)
Theorem SrcTie_C14_on_the_source : forall f z prev t,
  wf_fields f = true -> wf_zone z = true -> min_nanos <= prev <= max_nanos ->
  prev < t <= max_nanos -> t mod nanos = 0 -> matches_at f z t -> ~ is_repeat z t ->
  exists ns, g_NextFireTime {| CronTrigger_fields := f; CronTrigger_location := z |} prev = Some (ns, 0) /\ ns <= t.
Proof.
  intros f z prev t Hwf Hz Hp Ht Hmod Hm Hr.
  destruct (nft_zone_never_skips_fresh f z prev t Hwf Hz Hp Ht Hmod Hm Hr) as (ns & E & Hle).
  exists ns. split; [|exact Hle].
  rewrite (src_next_fire_time f Hwf z (wf_zone_off_ok z Hz) prev Hp), E. reflexivity.
Qed.
Print Assumptions SrcTie_C14_on_the_source.
