(* C14 -- Cron triggers stay correct and alive across daylight-saving transitions.
   Locations are arbitrary zone tables (initial offset + list of (instant, offset) transitions) with
   wf_zone: offsets within +-26h, transitions more than 52h apart.

   PROVED for every such table, every well-formed expression, every prev:
     - a returned instant is strictly after prev and its LOCAL wall clock reading satisfies the
       expression (never fired early or on a non-matching reading);
     - the call always terminates with a value or expiry (no hang on gaps, repeated hours, skipped days);
     - a location without transitions behaves exactly as a fixed-offset location (then C02's
       least/expiry-iff theorems apply).
   NOT PROVED (kept as the full statement, decided by the harness's per-second wall clock oracle):
     nft_zone_complete : forall instants t with prev < t (and t < ns if Fire ns, t <= max if Expired)
       whose local reading matches, t is the later occurrence of a reading repeated by a fall-back
       (exists t' < t, wall_secs z t' = wall_secs z t).
     Missing: completeness of first_after (its three candidates find every instant after prev that
     shows a given reading when transitions are more than 52h apart). *)
From Coq Require Import ZArith List.
Require Import QzBase.Calendar QzBase.Fields.
Require Import QzCron.CsmModel QzCron.CsmSpec QzCron.NextFire QzCron.NftProofs.
Open Scope Z_scope.

Theorem C14_nft_zone_sound : forall f z prev ns,
  wf_fields f = true -> wf_zone z = true -> 0 <= prev <= max_nanos ->
  next_fire_time_zone f z prev = Fire ns ->
  ns mod nanos = 0 /\ prev < ns <= max_nanos /\
  exists c, civil_from_unix (offset_at z (ns / nanos)) (ns / nanos) = Some c /\ matches f c = true /\ valid_civil c = true.
Proof. exact nft_zone_sound_wf. Qed.
Print Assumptions C14_nft_zone_sound.

Theorem C14_nft_zone_total : forall f z prev,
  wf_fields f = true -> wf_zone z = true -> 0 <= prev <= max_nanos ->
  next_fire_time_zone f z prev <> ModelError.
Proof. exact nft_zone_total_wf. Qed.
Print Assumptions C14_nft_zone_total.

Theorem C14_no_transitions_is_fixed_offset : forall f z prev, z_trans z = nil ->
  next_fire_time_zone f z prev = next_fire_time f (z_off0 z) prev.
Proof. exact nft_zone_no_transitions. Qed.
Print Assumptions C14_no_transitions_is_fixed_offset.
