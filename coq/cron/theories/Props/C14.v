(* C14 -- Cron triggers stay correct and alive across daylight-saving transitions.
   Locations are arbitrary zone tables (initial offset + list of (instant, offset) transitions) with
   wf_zone: offsets within +-26h, transitions more than 52h apart.  For every such table, every
   well-formed expression, every prev:
     - a returned instant is strictly after prev and its LOCAL wall clock reading satisfies the
       expression (never fired early or on a non-matching reading);
     - the call always terminates with a value or expiry;
     - nothing is skipped and no expiry is reported while a matching local time remains, except the
       later occurrence of a local time repeated by a fall-back (is_repeat); a local time removed by a
       spring-forward gap has no instant at all and is simply not fired;
     - a location without transitions behaves exactly as a fixed-offset location (C02 applies). *)
From Coq Require Import ZArith List.
Require Import QzBase.Calendar QzBase.Fields.
Require Import QzCron.CsmModel QzCron.CsmSpec QzCron.NextFire QzCron.NftProofs QzCron.ZoneFinal.
Open Scope Z_scope.

Theorem C14_nft_zone_sound : forall f z prev ns,
  wf_fields f = true -> wf_zone z = true -> min_nanos <= prev <= max_nanos ->
  next_fire_time_zone f z prev = Fire ns ->
  ns mod nanos = 0 /\ prev < ns <= max_nanos /\
  exists c, civil_from_unix (offset_at z (ns / nanos)) (ns / nanos) = Some c /\ matches f c = true /\ valid_civil c = true.
Proof. exact nft_zone_sound_wf. Qed.
Print Assumptions C14_nft_zone_sound.

Theorem C14_nft_zone_total : forall f z prev,
  wf_fields f = true -> wf_zone z = true -> min_nanos <= prev <= max_nanos ->
  next_fire_time_zone f z prev <> ModelError.
Proof. exact nft_zone_total_wf. Qed.
Print Assumptions C14_nft_zone_total.

Theorem C14_no_transitions_is_fixed_offset : forall f z prev, z_trans z = nil ->
  next_fire_time_zone f z prev = next_fire_time f (z_off0 z) prev.
Proof. exact nft_zone_no_transitions. Qed.
Print Assumptions C14_no_transitions_is_fixed_offset.

(* a matching instant after prev that is not the repeat of an earlier instant is never passed over *)
Theorem C14_never_skips_fresh : forall f z prev t,
  wf_fields f = true -> wf_zone z = true -> min_nanos <= prev <= max_nanos ->
  prev < t <= max_nanos -> t mod nanos = 0 -> matches_at f z t -> ~ is_repeat z t ->
  exists ns, next_fire_time_zone f z prev = Fire ns /\ ns <= t.
Proof. exact nft_zone_never_skips_fresh. Qed.
Print Assumptions C14_never_skips_fresh.

Theorem C14_skips_only_repeats : forall f z prev ns t,
  wf_fields f = true -> wf_zone z = true -> min_nanos <= prev <= max_nanos ->
  next_fire_time_zone f z prev = Fire ns ->
  prev < t < ns -> t mod nanos = 0 -> matches_at f z t -> is_repeat z t.
Proof. exact nft_zone_skips_only_repeats. Qed.
Print Assumptions C14_skips_only_repeats.

Theorem C14_no_false_expiry : forall f z prev t,
  wf_fields f = true -> wf_zone z = true -> min_nanos <= prev <= max_nanos ->
  next_fire_time_zone f z prev = Expired ->
  prev < t <= max_nanos -> t mod nanos = 0 -> matches_at f z t -> is_repeat z t.
Proof. exact nft_zone_no_false_expiry. Qed.
Print Assumptions C14_no_false_expiry.
