(* C01 -- Cron fire times always satisfy the expression (soundness).
   Only property theorems here, each closed by `exact` of a lemma proved elsewhere. *)
From Coq Require Import ZArith List.
Require Import QzBase.Calendar QzBase.Fields.
Require Import QzCron.CsmModel QzCron.CsmSpec QzCron.NextFire QzCron.NftProofs.
Open Scope Z_scope.

(* For every well-formed parsed expression (wf_fields: what the parser accepts, C07), every fixed
   offset up to +-26h and every prev in [0, MaxInt64]: a returned value is a whole second, strictly
   after prev, representable, and its civil reading at that offset satisfies every field of the
   expression (`matches`: second, minute, hour, month, year sets; day rules L, L-n, nW, LW, weekday
   sets, nL, n#k, see CsmSpec.day_match) and is a real calendar date and time. *)
Theorem C01_nft_sound : forall f off prev ns,
  wf_fields f = true -> -93600 <= off <= 93600 -> min_nanos <= prev <= max_nanos ->
  next_fire_time f off prev = Fire ns ->
  ns mod nanos = 0 /\ prev < ns <= max_nanos /\
  exists c, civil_from_unix off (ns / nanos) = Some c /\ matches f c = true /\ valid_civil c = true.
Proof. exact nft_fixed_sound'. Qed.
Print Assumptions C01_nft_sound.

(* `matches` can only hold of a date that exists: day 31 of a 30-day month, 30 February, hour 24
   never match, so they can never be "rolled over" into a result *)
Theorem C01_matches_only_real_dates : forall f c, wf_fields f = true -> matches f c = true -> valid_civil c = true.
Proof. exact matches_valid_civil. Qed.
Print Assumptions C01_matches_only_real_dates.

(* the same in every location given as a zone table with offsets within +-26h (C14 uses it too) *)
Theorem C01_nft_sound_any_location : forall f z prev ns,
  wf_fields f = true -> wf_zone z = true -> min_nanos <= prev <= max_nanos ->
  next_fire_time_zone f z prev = Fire ns ->
  ns mod nanos = 0 /\ prev < ns <= max_nanos /\
  exists c, civil_from_unix (offset_at z (ns / nanos)) (ns / nanos) = Some c /\ matches f c = true /\ valid_civil c = true.
Proof. exact nft_zone_sound_wf. Qed.
Print Assumptions C01_nft_sound_any_location.
