(* C06 -- NextFireTime always terminates, never crashes, and is a pure function.
   The model is a total Gallina function of (fields, location, prev) -- purity is by construction and
   tied to the code by the harness; what is proved here is that its explicit step budgets (2^20 node
   steps per state-machine run, 2^37 wall-clock candidates per call) are never exhausted, i.e. the
   search of internal/csm always terminates, for every location with offsets within +-26h. *)
From Coq Require Import ZArith List.
Require Import QzBase.Calendar QzBase.Fields.
Require Import QzCron.CsmModel QzCron.CsmSpec QzCron.NextFire QzCron.NftProofs.
Open Scope Z_scope.

Theorem C06_nft_total : forall f z prev,
  wf_fields f = true -> wf_zone z = true -> min_nanos <= prev <= max_nanos ->
  next_fire_time_zone f z prev <> ModelError.
Proof. exact nft_zone_total_wf. Qed.
Print Assumptions C06_nft_total.

Theorem C06_nft_total_fixed : forall f off prev,
  wf_fields f = true -> -93600 <= off <= 93600 -> min_nanos <= prev <= max_nanos ->
  next_fire_time f off prev <> ModelError.
Proof. intros f off prev Hwf Hoff. exact (nft_fixed_total f Hwf off Hoff prev). Qed.
Print Assumptions C06_nft_total_fixed.

(* either an error (expiry) or a value strictly greater than prev *)
Theorem C06_nft_strictly_after : forall f z prev ns,
  wf_fields f = true -> wf_zone z = true -> min_nanos <= prev <= max_nanos ->
  next_fire_time_zone f z prev = Fire ns -> prev < ns <= max_nanos.
Proof. intros f z prev ns Hwf Hz Hp H. exact (proj1 (proj2 (nft_zone_sound_wf f z prev ns Hwf Hz Hp H))). Qed.
Print Assumptions C06_nft_strictly_after.
