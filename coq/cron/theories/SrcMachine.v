(* The state machine of the model run on the TRANSLATED Go node code.

   src_val_next / src_val_reset / src_val_valid call the functions of Gen/CsmSrc.v (the translation of
   internal/csm's node level, regenerated from /repo on every run) on the embedded nodes; src_step,
   src_run, src_find_forward and src_wall_next are CsmModel.v's machine with those operations plugged in.
   The theorem src_wall_next_eq says that, from every valid wall clock reading of the years 0..3940, this machine
   returns exactly what the model's wall_next returns -- the function NextFire.v, and hence every theorem
   of Props/C01 C02 C06 C14, is built on. *)
From Coq Require Import ZArith List Bool Lia ZifyBool.
Require Import QzBase.Calendar QzBase.CalendarProofs QzBase.GoTime QzBase.Fields.
Require Import QzCron.Gen.Params QzCron.Gen.CsmSrc QzCron.CsmModel QzCron.SrcEquiv.
Require Import QzCron.MachineProofs QzCron.NodeProofs QzCron.TotalProofs QzCron.NftProofs.
Import ListNotations.
Open Scope Z_scope.

Definition src_common_op (op : CommonNode -> CommonNode * bool) (n : cnode) (v : Z) : Z * bool :=
  let '(N, o) := op (cn_emb n v) in (g_CommonNode_Value N, o).
Definition src_day_op (op : DayNode -> DayNode * bool) (n : dnode) (s : st) : Z * bool :=
  let '(N, o) := op (dn_emb n (s_year s) (s_mon s) (s_day s)) in (g_DayNode_Value N, o).

(* node.Next() of the Go code *)
Definition src_val_next (c : csm) (k : nat) (s : st) : Z * bool :=
  match k with
  | 0 => src_common_op g_CommonNode_Next (f_sec c) (s_sec s)
  | 1 => src_common_op g_CommonNode_Next (f_min c) (s_min s)
  | 2 => src_common_op g_CommonNode_Next (f_hour c) (s_hour s)
  | 3 => src_day_op g_DayNode_Next (f_day c) s
  | 4 => src_common_op g_CommonNode_Next (f_mon c) (s_mon s)
  | _ => src_common_op g_CommonNode_Next (f_year c) (s_year s)
  end%nat.
(* node.Reset() of the Go code *)
Definition src_val_reset (c : csm) (k : nat) (s : st) : Z * bool :=
  match k with
  | 0 => src_common_op g_CommonNode_Reset (f_sec c) (s_sec s)
  | 1 => src_common_op g_CommonNode_Reset (f_min c) (s_min s)
  | 2 => src_common_op g_CommonNode_Reset (f_hour c) (s_hour s)
  | 3 => src_day_op g_DayNode_Reset (f_day c) s
  | 4 => src_common_op g_CommonNode_Reset (f_mon c) (s_mon s)
  | _ => src_common_op g_CommonNode_Reset (f_year c) (s_year s)
  end%nat.
(* node.isValid() of the Go code on the node's current value *)
Definition src_node_is_valid (c : csm) (k : nat) (s : st) : bool :=
  match k with
  | 0 => g_CommonNode_isValid (cn_emb (f_sec c) (s_sec s))
  | 1 => g_CommonNode_isValid (cn_emb (f_min c) (s_min s))
  | 2 => g_CommonNode_isValid (cn_emb (f_hour c) (s_hour s))
  | 3 => g_DayNode_isValid (dn_emb (f_day c) (s_year s) (s_mon s) (s_day s))
  | 4 => g_CommonNode_isValid (cn_emb (f_mon c) (s_mon s))
  | _ => g_CommonNode_isValid (cn_emb (f_year c) (s_year s))
  end%nat.

Definition src_step (c : csm) (x : phase * st) : (phase * st) + option st :=
  let '(ph, s) := x in
  match ph with
  | Over k =>
      if (5 <? k)%nat then inr None
      else let '(v, o) := src_val_next c k s in after_node k o (set k v s)
  | Reset k =>
      let '(v, o) := src_val_reset c k s in after_node k o (set k v s)
  end.
Definition src_run (c : csm) (ph : phase) (s : st) : outcome :=
  match loop_pos run_fuel (src_step c) (ph, s) with
  | inl _ => OutOfFuel
  | inr (Some s') => Found s'
  | inr None => NoMore
  end.
Fixpoint src_first_invalid (c : csm) (s : st) (ids : list nat) : option nat :=
  match ids with
  | [] => None
  | k :: ids' => if src_node_is_valid c k s then src_first_invalid c s ids' else Some k
  end.
Definition src_find_forward (c : csm) (s : st) : outcome :=
  match src_first_invalid c s [5; 4; 3; 2; 1; 0]%nat with
  | Some k => src_run c (Over k) s
  | None => src_run c (Over 0%nat) s
  end.
Definition src_wall_next (f : fields) (c : civil) : wall_res :=
  match src_find_forward (mk_csm f) (st_of_civil c) with
  | Found s => WNext (civil_of_st s)
  | NoMore => WExpired
  | OutOfFuel => WError
  end.

Lemma src_common_op_next : forall n v, src_common_op g_CommonNode_Next n v = cn_next n v.
Proof. intros n v. unfold src_common_op. rewrite src_common_next. cbn [g_CommonNode_Value cn_emb CommonNode_value]. destruct (cn_next n v); reflexivity. Qed.
Lemma src_common_op_reset : forall n v, src_common_op g_CommonNode_Reset n v = (cn_reset n, false).
Proof. intros n v. unfold src_common_op. rewrite src_common_reset. reflexivity. Qed.

Section SrcMachine.
  Variable f : fields.
  Hypothesis Hwf : wf_fields f = true.
  Let c := mk_csm f.

  Lemma day_ok : dn_ok (f_day c).
  Proof. exact (src_wf_day_ok f Hwf). Qed.

  Lemma src_val_next_eq : forall k s, (k = 3%nat -> 1 <= s_mon s <= 12) -> src_val_next c k s = val_next c k s.
  Proof.
    intros k s Hm. destruct k as [|[|[|[|[|k]]]]]; cbn [src_val_next val_next]; try apply src_common_op_next.
    unfold src_day_op. rewrite (src_day_next _ _ _ _ day_ok (Hm eq_refl)).
    cbn [g_DayNode_Value]. destruct (dn_next (f_day c) (s_year s) (s_mon s) (s_day s)); reflexivity.
  Qed.
  Lemma src_val_reset_eq : forall k s, (k = 3%nat -> 1 <= s_mon s <= 12) -> src_val_reset c k s = val_reset c k s.
  Proof.
    intros k s Hm. destruct k as [|[|[|[|[|k]]]]]; cbn [src_val_reset val_reset]; try apply src_common_op_reset.
    unfold src_day_op. rewrite (src_day_reset _ _ _ _ day_ok (Hm eq_refl)).
    cbn [g_DayNode_Value]. destruct (dn_reset (f_day c) (s_year s) (s_mon s)); reflexivity.
  Qed.
  Lemma src_node_is_valid_eq : forall k s, (k = 3%nat -> 1 <= s_mon s <= 12) -> src_node_is_valid c k s = node_is_valid c k s.
  Proof.
    intros k s Hm. destruct k as [|[|[|[|[|k]]]]]; cbn [src_node_is_valid]; unfold node_is_valid; cbn [val_valid get];
      try apply src_common_is_valid.
    exact (src_day_is_valid _ _ _ _ day_ok (Hm eq_refl)).
  Qed.

  (* the month value never drops below 1 *)
  Lemma mon_vals_pos : forall x, In x (fl_mon f) -> 1 <= x.
  Proof.
    intros x Hx. pose proof Hwf as W. unfold wf_fields in W.
    repeat (apply andb_true_iff in W; destruct W as [W ?]).
    match goal with H : sorted_in 1 12 (fl_mon f) = true |- _ => rename H into Hs end.
    unfold sorted_in in Hs. apply andb_true_iff in Hs. destruct Hs as [Hr _].
    unfold in_range in Hr. rewrite forallb_forall in Hr. specialize (Hr x Hx). lia.
  Qed.
  Lemma mon_next_pos : forall v, 0 <= v -> 1 <= fst (cn_next (f_mon c) v).
  Proof.
    intros v Hv. subst c. unfold mk_csm. cbn [f_mon]. unfold cn_next, cn_has_range. cbn [cn_vals cn_lo cn_hi].
    change Params.mon_lo with 1. change Params.mon_hi with 12.
    destruct (fl_mon f) as [|a l] eqn:E.
    - destruct (12 <? v + 1); cbn [fst]; lia.
    - rewrite <- E. destruct (find (fun x => v <? x) (fl_mon f)) as [x|] eqn:Ef; cbn [fst].
      + apply find_some in Ef. apply mon_vals_pos. exact (proj1 Ef).
      + apply mon_vals_pos. rewrite E. left. reflexivity.
  Qed.

  Definition Inv (x : phase * st) : Prop := J x /\ 1 <= s_mon (snd x).

  Lemma Inv_phase_ok : forall x, Inv x -> phase_ok x.
  Proof. intros [[k|k] s] [[_ Hj] _]; cbn [phase_ok fst] in *; [exact I | exact (proj1 Hj)]. Qed.

  Lemma Inv_day_month : forall ph s, Inv (ph, s) -> (ph = Over 3 \/ ph = Reset 3) -> 1 <= s_mon s <= 12.
  Proof.
    intros ph s [[_ Hj] Hm] [->| ->]; cbn [fst snd] in *.
    - destruct Hj as [_ H12]. specialize (H12 ltac:(lia)). lia.
    - destruct Hj as (_ & _ & H12). specialize (H12 ltac:(lia)). lia.
  Qed.

  Lemma src_step_eq : forall x, Inv x -> src_step c x = step c x.
  Proof.
    intros [ph s] Hi. unfold src_step, step. destruct ph as [k|k].
    - destruct (5 <? k)%nat; [reflexivity|].
      rewrite src_val_next_eq; [reflexivity|]. intros ->. apply (Inv_day_month (Over 3) s Hi). left. reflexivity.
    - rewrite src_val_reset_eq; [reflexivity|]. intros ->. apply (Inv_day_month (Reset 3) s Hi). right. reflexivity.
  Qed.

  Lemma mon_of_set : forall k v s, (k <= 5)%nat -> s_mon (set k v s) = if (k =? 4)%nat then v else s_mon s.
  Proof. intros k v s Hk. do 6 (destruct k as [|k]; [reflexivity|]). lia. Qed.

  Lemma step_Inv : forall x x', Inv x -> step c x = inl x' -> Inv x'.
  Proof.
    intros x x' Hi Hs. pose proof (Inv_phase_ok x Hi) as Hp. destruct Hi as [Hj Hm].
    split.
    - pose proof Hs as Hs2. unfold c in Hs2. rewrite <- (step_eff f x Hp) in Hs2. exact (proj1 (step_rank f Hwf x x' Hj Hs2)).
    - destruct x as [ph s]. cbn [snd] in Hm. unfold step in Hs.
      destruct Hj as [Hlo Hj]. cbn [fst snd] in Hlo, Hj.
      destruct ph as [k|k].
      + destruct (5 <? k)%nat eqn:E5; [discriminate|]. apply Nat.ltb_ge in E5.
        destruct (val_next c k s) as [v o] eqn:En.
        assert (Hv : 1 <= s_mon (set k v s)).
        { rewrite (mon_of_set k v s E5). destruct (k =? 4)%nat eqn:E4; [|exact Hm].
          apply Nat.eqb_eq in E4. subst k. cbn [val_next] in En.
          pose proof (mon_next_pos (s_mon s) ltac:(lia)) as Hp1. rewrite En in Hp1. exact Hp1. }
        unfold after_node in Hs. destruct o; [injection Hs as <-; exact Hv|].
        destruct k as [|k']; [discriminate|]. injection Hs as <-. exact Hv.
      + destruct Hj as (Hk4 & _).
        destruct (val_reset c k s) as [v o] eqn:En.
        assert (Hv : 1 <= s_mon (set k v s)).
        { rewrite (mon_of_set k v s ltac:(lia)). destruct (k =? 4)%nat eqn:E4; [|exact Hm].
          apply Nat.eqb_eq in E4. subst k. cbn [val_reset] in En. injection En as <- _.
          unfold cn_reset. apply mon_next_pos. subst c. unfold mk_csm. cbn [f_mon cn_hi]. change Params.mon_hi with 12. lia. }
        unfold after_node in Hs. destruct o; [injection Hs as <-; exact Hv|].
        destruct k as [|k']; [discriminate|]. injection Hs as <-. exact Hv.
  Qed.

  Lemma src_run_eq : forall ph s, Inv (ph, s) -> src_run c ph s = run c ph s.
  Proof.
    intros ph s Hi. unfold src_run, run.
    rewrite (loop_pos_ext _ _ (src_step c) (step c) Inv src_step_eq step_Inv run_fuel (ph, s) Hi). reflexivity.
  Qed.

  Theorem src_find_forward_eq : forall s, low_ok lo6 s -> 0 <= s_year s <= 3940 -> 1 <= s_mon s <= 12 ->
    src_find_forward c s = find_forward c s.
  Proof.
    intros s Hlo Hy Hm. unfold src_find_forward, find_forward.
    assert (E : src_first_invalid c s [5; 4; 3; 2; 1; 0]%nat = first_invalid c s [5; 4; 3; 2; 1; 0]%nat).
    { cbn [src_first_invalid first_invalid]. rewrite !src_node_is_valid_eq by (intros; exact Hm). reflexivity. }
    rewrite E.
    assert (Hinv : forall k, Inv (Over k, s)).
    { intros k. split; [|cbn [snd]; lia]. split; [exact Hlo|]. cbn [fst snd]. split; intros; lia. }
    destruct (first_invalid c s [5; 4; 3; 2; 1; 0]%nat); apply src_run_eq; apply Hinv.
  Qed.

  Theorem src_wall_next_eq : forall w, valid_civil w = true -> 0 <= year_of w <= 3940 ->
    src_wall_next f w = wall_next f w.
  Proof.
    intros w Hv Hy. unfold src_wall_next, wall_next. fold c.
    rewrite src_find_forward_eq; [reflexivity | | |].
    - apply low_ok_valid_civil; [exact Hv | exact (proj1 Hy)].
    - destruct w as [[[[[y m] d] h] mi] s0]. cbn [year_of] in Hy. cbn [st_of_civil s_year]. exact Hy.
    - destruct w as [[[[[y m] d] h] mi] s0]. cbn [st_of_civil s_mon].
      unfold valid_civil, valid_date in Hv. lia.
  Qed.
End SrcMachine.
