(* CommonNode (internal/csm/common_node.go): Next / Reset / isValid against "least admissible value". *)
From Coq Require Import ZArith Lia Bool List ZifyBool.
Require Import QzBase.Calendar QzBase.Fields.
Require Import QzCron.Gen.Params QzCron.CsmModel QzCron.CsmSpec.
Import ListNotations.
Open Scope Z_scope.

Lemma existsb_eqb_In : forall v l, existsb (Z.eqb v) l = true <-> In v l.
Proof.
  intros v l. rewrite existsb_exists. split.
  - intros (x & Hx & E). apply Z.eqb_eq in E. subst. exact Hx.
  - intros H. exists v. split; [exact H | apply Z.eqb_refl].
Qed.

Lemma in_range_In : forall lo hi l v, in_range lo hi l = true -> In v l -> lo <= v <= hi.
Proof.
  intros lo hi l v H Hin. unfold in_range in H. rewrite forallb_forall in H. specialize (H v Hin). lia.
Qed.

Lemma sortedb_cons : forall x l, sortedb (x :: l) = true -> sortedb l = true /\ forall w, In w l -> x <= w.
Proof.
  intros x l. revert x. induction l as [|y l IH]; intros x H.
  - split; [reflexivity | intros w []].
  - cbn [sortedb] in H. apply andb_true_iff in H. destruct H as [Hxy Hs]. split; [exact Hs|].
    destruct (IH y Hs) as [_ Hy]. intros w [<-|Hw]; [lia | specialize (Hy w Hw); lia].
Qed.

(* find on an ascending list returns the least element above v *)
Lemma find_gt_sorted : forall v l, sortedb l = true ->
  match find (fun x => v <? x) l with
  | Some x => In x l /\ v < x /\ forall w, In w l -> v < w -> x <= w
  | None => forall w, In w l -> w <= v
  end.
Proof.
  intros v l. induction l as [|a l IH]; intros Hs; cbn [find].
  - intros w [].
  - destruct (sortedb_cons a l Hs) as [Hs' Ha]. destruct (v <? a) eqn:E.
    + split; [left; reflexivity|]. split; [lia|]. intros w [<-|Hw] Hv; [lia | apply Ha; exact Hw].
    + specialize (IH Hs'). destruct (find (fun x => v <? x) l) as [x|].
      * destruct IH as (Hin & Hlt & Hleast). split; [right; exact Hin|]. split; [exact Hlt|].
        intros w [<-|Hw] Hv; [lia | apply Hleast; assumption].
      * intros w [<-|Hw]; [lia | apply IH; exact Hw].
Qed.

Lemma sorted_hd_least : forall l d, sortedb l = true -> forall w, In w l -> hd d l <= w.
Proof.
  intros l d Hs w Hw. destruct l as [|a l]; [destruct Hw|]. cbn [hd].
  destruct (sortedb_cons a l Hs) as [_ Ha]. destruct Hw as [<-|Hw]; [lia | apply Ha; exact Hw].
Qed.

Section Common.
  Variable n : cnode.
  Hypothesis Hwf : sorted_in (cn_lo n) (cn_hi n) (cn_vals n) = true.
  Hypothesis Hlohi : cn_lo n <= cn_hi n.

  Lemma cn_wf : in_range (cn_lo n) (cn_hi n) (cn_vals n) = true /\ sortedb (cn_vals n) = true.
  Proof. unfold sorted_in in Hwf. apply andb_true_iff in Hwf. exact Hwf. Qed.

  Lemma cn_valid_iff : forall v, cn_is_valid n v = true <->
    cn_lo n <= v <= cn_hi n /\ (cn_vals n = [] \/ In v (cn_vals n)).
  Proof.
    intros v. unfold cn_is_valid, cn_has_range. destruct (cn_vals n) as [|a l] eqn:E.
    - split; [intros H; split; [lia | left; reflexivity] | intros [H _]; lia].
    - rewrite !andb_true_iff, existsb_eqb_In. split.
      + intros [H1 H2]. split; [lia | right; exact H2].
      + intros [H1 [H2|H2]]; [discriminate | split; [lia | exact H2]].
  Qed.

  Lemma cn_valid_field_match : forall v, cn_is_valid n v = field_match (cn_lo n) (cn_hi n) (cn_vals n) v.
  Proof.
    intros v. unfold cn_is_valid, field_match, cn_has_range, mem. destruct (cn_vals n); reflexivity.
  Qed.

  Lemma has_range_true : cn_has_range n = true -> cn_vals n <> [] /\ In (hd 0 (cn_vals n)) (cn_vals n).
  Proof. unfold cn_has_range. destruct (cn_vals n) as [|a l]; [discriminate|]. intros _. split; [discriminate | left; reflexivity]. Qed.
  Lemma has_range_false : cn_has_range n = false -> cn_vals n = [].
  Proof. unfold cn_has_range. destruct (cn_vals n) as [|a l]; [reflexivity | discriminate]. Qed.

  Lemma cn_next_spec : forall v v' o, cn_lo n - 1 <= v -> cn_next n v = (v', o) ->
    (o = false -> cn_is_valid n v' = true /\ v < v' /\ forall w, cn_is_valid n w = true -> v < w -> v' <= w) /\
    (o = true -> forall w, cn_is_valid n w = true -> w <= v) /\
    cn_lo n <= v'.
  Proof.
    intros v v' o Hv H. destruct cn_wf as [Hr Hs]. unfold cn_next in H.
    destruct (cn_has_range n) eqn:Ehr.
    - destruct (has_range_true Ehr) as [Ev Hhd].
      pose proof (find_gt_sorted v (cn_vals n) Hs) as F.
      destruct (find (fun x => v <? x) (cn_vals n)) as [x|].
      + injection H as <- <-. destruct F as (Hin & Hlt & Hleast).
        pose proof (in_range_In _ _ _ _ Hr Hin) as Hx. split; [|split; [discriminate | lia]].
        intros _. split; [apply cn_valid_iff; split; [lia | right; exact Hin]|]. split; [exact Hlt|].
        intros w Hw Hvw. apply cn_valid_iff in Hw. destruct Hw as [_ [Hw|Hw]]; [contradiction|].
        apply Hleast; assumption.
      + injection H as <- <-. split; [discriminate|]. split.
        * intros _ w Hw. apply cn_valid_iff in Hw. destruct Hw as [_ [Hw|Hw]]; [contradiction|].
          apply F; exact Hw.
        * pose proof (in_range_In _ _ _ _ Hr Hhd). lia.
    - pose proof (has_range_false Ehr) as Ev.
      destruct (cn_hi n <? v + 1) eqn:E; injection H as <- <-.
      + split; [discriminate|]. split; [|lia]. intros _ w Hw. apply cn_valid_iff in Hw. lia.
      + split; [|split; [discriminate | lia]]. intros _. split; [apply cn_valid_iff; split; [lia | left; exact Ev]|].
        split; [lia|]. intros w Hw Hvw. lia.
  Qed.

  Lemma cn_reset_spec : cn_is_valid n (cn_reset n) = true /\ forall w, cn_is_valid n w = true -> cn_reset n <= w.
  Proof.
    destruct cn_wf as [Hr Hs]. unfold cn_reset, cn_next.
    destruct (cn_has_range n) eqn:Ehr.
    - destruct (has_range_true Ehr) as [Ev Hin].
      pose proof (find_gt_sorted (cn_hi n) (cn_vals n) Hs) as F.
      destruct (find (fun x => cn_hi n <? x) (cn_vals n)) as [x|].
      + destruct F as (Hinx & Hlt & _). pose proof (in_range_In _ _ _ _ Hr Hinx). lia.
      + cbn [fst].
        pose proof (in_range_In _ _ _ _ Hr Hin) as Hh. split.
        * apply cn_valid_iff. split; [lia | right; exact Hin].
        * intros w Hw. apply cn_valid_iff in Hw. destruct Hw as [_ [Hw|Hw]]; [contradiction|].
          apply sorted_hd_least; assumption.
    - pose proof (has_range_false Ehr) as Ev.
      assert (E : cn_hi n <? cn_hi n + 1 = true) by lia. rewrite E. cbn [fst]. split.
      + apply cn_valid_iff. split; [lia | left; exact Ev].
      + intros w Hw. apply cn_valid_iff in Hw. lia.
  Qed.
End Common.
