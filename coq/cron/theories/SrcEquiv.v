(* The tie between the SOURCE of internal/csm's node level and the hand-written model.

   Gen/CsmSrc.v is regenerated on every run from /repo's internal/csm/util.go, common_node.go and
   day_node.go by the source-to-Gallina translator (harness/cmd/genparams/csmsrc.go).  This file
   proves that the translated functions compute exactly what the cn_ and dn_ functions of CsmModel.v and
   closest_weekday compute (the functions every theorem of Props/C01 C02 C06 C14 is about), for all
   inputs satisfying the stated side conditions.  When the Go source of one of these functions
   changes, CsmSrc.v changes and this file no longer checks unless the change preserves behaviour
   in a way the proofs below still follow. *)
From Coq Require Import ZArith List Bool Lia ZifyBool.
Require Import QzBase.Calendar QzBase.CalendarProofs QzBase.GoTime QzBase.GoTimeProofs QzBase.Fields.
Require Import QzCron.Gen.Params QzCron.Gen.CsmSrc QzCron.CsmModel.
Import ListNotations.
Open Scope Z_scope.
Ltac Zify.zify_post_hook ::= Z.div_mod_to_equations.

(* ---------- embeddings: a model node + its current value = the Go struct ---------- *)
Definition cn_emb (n : cnode) (v : Z) : CommonNode :=
  {| CommonNode_value := v; CommonNode_min := cn_lo n; CommonNode_max := cn_hi n; CommonNode_values := cn_vals n |}.
(* the Go DayNode holds pointers to the month and year nodes and only ever calls Value() on them:
   the translation keeps their current values *)
Definition dn_emb (n : dnode) (y m v : Z) : DayNode :=
  {| DayNode_c := cn_emb (dn_c n) v; DayNode_weekdayValues := dn_w n; DayNode_n := dn_n n;
     DayNode_month := m; DayNode_year := y |}.

Lemma go_index_0 : forall l, go_index l 0 = hd 0 l.
Proof. intros [|x l]; reflexivity. Qed.

Lemma len_nonzero : forall (l : list Z), negb (Z.of_nat (length l) =? 0) = match l with [] => false | _ => true end.
Proof. intros [|x l]; cbn [length]; [reflexivity|]. lia. Qed.

(* ---------- util.go ---------- *)
Lemma src_contains : forall l e, g_contains l e = existsb (Z.eqb e) l.
Proof.
  intros l e. unfold g_contains. induction l as [|x l IH]; [reflexivity|].
  cbn [existsb]. destruct (e =? x); [reflexivity|]. exact IH.
Qed.

Lemma src_is_weekday : forall t, g_isWeekday t = is_wk (weekday_of_days t).
Proof. intros t. reflexivity. Qed.

Lemma src_last_day_of_month : forall y m, 1 <= m <= 12 -> g_lastDayOfMonth y m = month_len y m.
Proof. intros y m Hm. unfold g_lastDayOfMonth, g_makeDateTime. apply last_day_of_month_eq. exact Hm. Qed.

Lemma weekday_shift : forall y m d k, weekday_of_days (time_Date y m d + k) = weekday_of y m (d + k).
Proof. intros. unfold weekday_of, time_Date. rewrite days_from_civil_add. reflexivity. Qed.

(* one iteration of closestWeekday's search loop: the day before first, then the day after *)
Lemma cw_step : forall y m d i (A B : Z), valid_date y m d = true -> 1 <= i <= 7 -> A = B ->
  (if (time_Month (time_AddDate (time_Date y m d) 0 0 (- i)) =? time_Month (time_Date y m d)) &&
      g_isWeekday (time_AddDate (time_Date y m d) 0 0 (- i))
   then time_Day (time_AddDate (time_Date y m d) 0 0 (- i))
   else if (time_Month (time_AddDate (time_Date y m d) 0 0 i) =? time_Month (time_Date y m d)) &&
           g_isWeekday (time_AddDate (time_Date y m d) 0 0 i)
        then time_Day (time_AddDate (time_Date y m d) 0 0 i)
        else A) =
  (if (1 <=? d - i) && is_wk (weekday_of y m (d - i)) then d - i
   else if (d + i <=? month_len y m) && is_wk (weekday_of y m (d + i)) then d + i
        else B).
Proof.
  intros y m d i A B Hv Hi HAB. subst B.
  rewrite !time_AddDate_days.
  rewrite (time_Month_Date y m d Hv).
  destruct (shift_back_same_month y m d i Hv Hi) as [Hbm Hbd].
  destruct (shift_fwd_same_month y m d i Hv Hi) as [Hfm Hfd].
  replace (time_Date y m d + - i) with (time_Date y m d - i) in * by lia.
  rewrite Hbm, Hfm. rewrite !src_is_weekday.
  replace (time_Date y m d - i) with (time_Date y m d + (- i)) by lia.
  rewrite !weekday_shift.
  replace (time_Date y m d + - i) with (time_Date y m d - i) by lia.
  replace (d + - i) with (d - i) by lia.
  destruct (1 <=? d - i) eqn:E1; cbn [andb].
  - destruct (is_wk (weekday_of y m (d - i))) eqn:W1.
    + apply Hbd. lia.
    + destruct (d + i <=? month_len y m) eqn:E2; cbn [andb]; [|reflexivity].
      destruct (is_wk (weekday_of y m (d + i))) eqn:W2; [apply Hfd; lia | reflexivity].
  - destruct (d + i <=? month_len y m) eqn:E2; cbn [andb]; [|reflexivity].
    destruct (is_wk (weekday_of y m (d + i))) eqn:W2; [apply Hfd; lia | reflexivity].
Qed.

Lemma src_closest_weekday : forall y m d, valid_date y m d = true ->
  g_closestWeekday (time_Date y m d) = closest_weekday y m d.
Proof.
  intros y m d Hv. unfold g_closestWeekday, closest_weekday.
  rewrite src_is_weekday. change (weekday_of_days (time_Date y m d)) with (weekday_of y m d).
  destruct (is_wk (weekday_of y m d)); [exact (time_Day_Date y m d Hv)|].
  repeat (apply cw_step; [exact Hv | lia | ]).
  exact (time_Day_Date y m d Hv).
Qed.

(* ---------- common_node.go ---------- *)
Lemma src_common_has_range : forall n v, g_CommonNode_hasRange (cn_emb n v) = cn_has_range n.
Proof. intros n v. unfold g_CommonNode_hasRange, cn_has_range. cbn [cn_emb CommonNode_values]. apply len_nonzero. Qed.

Lemma src_next_in_range : forall N,
  g_CommonNode_nextInRange N =
  match find (fun x => CommonNode_value N <? x) (CommonNode_values N) with
  | Some x => (set_CommonNode_value N x, false)
  | None => (set_CommonNode_value N (go_index (CommonNode_values N) 0), true)
  end.
Proof.
  intros N. unfold g_CommonNode_nextInRange.
  set (h := go_index (CommonNode_values N) 0).
  generalize (CommonNode_values N). intros l.
  induction l as [|x l IH]; [reflexivity|].
  cbn [find]. destruct (CommonNode_value N <? x); [reflexivity|]. exact IH.
Qed.

Lemma src_common_next : forall n v,
  g_CommonNode_Next (cn_emb n v) = (cn_emb n (fst (cn_next n v)), snd (cn_next n v)).
Proof.
  intros n v. unfold g_CommonNode_Next. rewrite src_common_has_range. unfold cn_next.
  destruct (cn_has_range n).
  - rewrite src_next_in_range. cbn [cn_emb CommonNode_value CommonNode_values].
    destruct (find (fun x => v <? x) (cn_vals n)) as [x|]; [reflexivity|].
    rewrite go_index_0. reflexivity.
  - unfold g_CommonNode_next. cbn [cn_emb set_CommonNode_value CommonNode_value CommonNode_max CommonNode_min CommonNode_values].
    destruct (cn_hi n <? v + 1); reflexivity.
Qed.

Lemma src_common_reset : forall n v, g_CommonNode_Reset (cn_emb n v) = (cn_emb n (cn_reset n), false).
Proof.
  intros n v. unfold g_CommonNode_Reset.
  change (set_CommonNode_value (cn_emb n v) (CommonNode_max (cn_emb n v))) with (cn_emb n (cn_hi n)).
  rewrite src_common_next. reflexivity.
Qed.

Lemma src_common_is_valid : forall n v, g_CommonNode_isValid (cn_emb n v) = cn_is_valid n v.
Proof.
  intros n v. unfold g_CommonNode_isValid, cn_is_valid. rewrite src_common_has_range.
  cbn [cn_emb CommonNode_value CommonNode_max CommonNode_min CommonNode_values].
  rewrite src_contains.
  destruct (cn_has_range n); [reflexivity|]. rewrite andb_true_r. reflexivity.
Qed.

Lemma src_common_value : forall n v, g_CommonNode_Value (cn_emb n v) = v.
Proof. reflexivity. Qed.

(* node.findForward(): unchanged / advanced / overflowed *)
Lemma src_common_find_forward : forall n v,
  g_CommonNode_findForward (cn_emb n v) =
  if cn_is_valid n v then (cn_emb n v, c_unchanged)
  else (cn_emb n (fst (cn_next n v)), if snd (cn_next n v) then c_overflowed else c_advanced).
Proof.
  intros n v. unfold g_CommonNode_findForward. rewrite src_common_is_valid.
  destruct (cn_is_valid n v); cbn [negb]; [reflexivity|].
  rewrite src_common_next. destruct (snd (cn_next n v)); reflexivity.
Qed.

(* ---------- day_node.go ---------- *)
(* side conditions under which the Go arithmetic and the model agree (they hold of every node built
   from well-formed fields: src_wf_day_ok below) *)
Definition dn_ok (n : dnode) : Prop :=
  (dn_is_weekday n = true -> 0 <= hd 0 (dn_w n) <= 6) /\
  (dn_is_weekday n = false -> bit_weekday (dn_n n) = true -> 0 < dn_n n -> bit_last (dn_n n) = false ->
   1 <= hd 0 (cn_vals (dn_c n))).

Lemma src_day_is_weekday : forall n y m v, g_DayNode_isWeekday (dn_emb n y m v) = dn_is_weekday n.
Proof. intros. unfold g_DayNode_isWeekday, dn_is_weekday. cbn [dn_emb DayNode_weekdayValues]. apply len_nonzero. Qed.

Lemma src_day_max : forall n y m v, 1 <= m <= 12 -> g_DayNode_max (dn_emb n y m v) = month_len y m.
Proof. intros n y m v Hm. unfold g_DayNode_max. cbn [dn_emb DayNode_year DayNode_month]. apply src_last_day_of_month. exact Hm. Qed.

Lemma src_day_get_weekday : forall n y m v, g_DayNode_getWeekday (dn_emb n y m v) = weekday_of y m v.
Proof. reflexivity. Qed.

Lemma rem7 : forall a, 0 <= a -> Z.rem a 7 = a mod 7.
Proof. intros a Ha. apply Z.rem_mod_nonneg; lia. Qed.

Lemma src_day_dayN : forall n y m v, dn_ok n -> 1 <= m <= 12 ->
  g_DayNode_dayN (dn_emb n y m v) = dn_dayN n y m.
Proof.
  intros n y m v [Hw Hd] Hm. unfold g_DayNode_dayN, dn_dayN.
  cbn [dn_emb DayNode_year DayNode_month DayNode_n DayNode_weekdayValues DayNode_c cn_emb CommonNode_values].
  cbv zeta. rewrite !src_day_is_weekday. rewrite (src_last_day_of_month y m Hm).
  unfold g_makeDateTime. rewrite !go_index_0.
  change (time_Weekday (time_Date y m 1)) with (weekday_of y m 1).
  change (time_Weekday (time_Date y m (month_len y m))) with (weekday_of y m (month_len y m)).
  change c_NLastDayOfMonth with Params.n_last_day_of_month.
  change c_NWeekday with Params.n_weekday.
  fold (bit_weekday (dn_n n)). fold (bit_last (dn_n n)).
  pose proof (weekday_of_range y m 1) as R1.
  pose proof (weekday_of_range y m (month_len y m)) as R2.
  pose proof (month_len_range y m) as RL.
  destruct (dn_is_weekday n) eqn:Ew.
  - specialize (Hw eq_refl). cbn [andb].
    destruct (0 <? dn_n n) eqn:En.
    + rewrite rem7 by lia. reflexivity.
    + rewrite rem7 by lia. reflexivity.
  - cbn [andb].
    destruct (bit_weekday (dn_n n) && (0 <? dn_n n)) eqn:Eb; [|reflexivity].
    apply andb_true_iff in Eb. destruct Eb as [Eb1 Eb2].
    destruct ((month_len y m <? hd 0 (cn_vals (dn_c n))) || bit_last (dn_n n)) eqn:Ec.
    + rewrite src_closest_weekday; [reflexivity|]. apply valid_date_iff. lia.
    + apply orb_false_iff in Ec. destruct Ec as [Ec1 Ec2].
      specialize (Hd eq_refl Eb1 ltac:(lia) Ec2).
      rewrite src_closest_weekday; [reflexivity|]. apply valid_date_iff. lia.
Qed.

Lemma src_day_next_dayN : forall n y m v, dn_ok n -> 1 <= m <= 12 ->
  g_DayNode_nextDayN (dn_emb n y m v) = (dn_emb n y m (fst (dn_next_dayN n y m v)), snd (dn_next_dayN n y m v)).
Proof.
  intros n y m v Hok Hm. unfold g_DayNode_nextDayN, dn_next_dayN. rewrite (src_day_dayN n y m v Hok Hm).
  destruct (dn_dayN n y m) as [day ok].
  cbn [dn_emb DayNode_c cn_emb CommonNode_value].
  destruct (negb ok || (day <=? v)); reflexivity.
Qed.

Lemma src_next_weekday_gen : forall N,
  g_DayNode_nextWeekday N =
  let wd := g_DayNode_getWeekday N in
  let off := match find (fun x => wd <? x) (DayNode_weekdayValues N) with
             | Some x => x - wd
             | None => 7 + go_index (DayNode_weekdayValues N) 0 - wd
             end in
  if g_DayNode_max N <? CommonNode_value (DayNode_c N) + off then (N, true)
  else (set_DayNode_c N (set_CommonNode_value (DayNode_c N) (CommonNode_value (DayNode_c N) + off)), false).
Proof.
  intros N. unfold g_DayNode_nextWeekday. cbv zeta.
  set (wd := g_DayNode_getWeekday N).
  set (o0 := 7 + go_index (DayNode_weekdayValues N) 0 - wd).
  generalize (DayNode_weekdayValues N). clearbody o0. revert o0.
  intros o0 l. revert o0.
  induction l as [|x l IH]; intros off; [reflexivity|].
  cbn [find]. destruct (wd <? x); [reflexivity|]. exact (IH off).
Qed.

Lemma src_day_next_weekday : forall n y m v, 1 <= m <= 12 ->
  g_DayNode_nextWeekday (dn_emb n y m v) = (dn_emb n y m (fst (dn_next_weekday n y m v)), snd (dn_next_weekday n y m v)).
Proof.
  intros n y m v Hm. rewrite src_next_weekday_gen. cbv zeta. unfold dn_next_weekday.
  rewrite src_day_get_weekday. rewrite (src_day_max n y m v Hm). rewrite go_index_0.
  cbn [dn_emb DayNode_weekdayValues DayNode_c cn_emb CommonNode_value].
  destruct (month_len y m <? v + _); reflexivity.
Qed.

Lemma src_day_next_day : forall n y m v, 1 <= m <= 12 ->
  g_DayNode_nextDay (dn_emb n y m v) = (dn_emb n y m (fst (dn_next_day n y m v)), snd (dn_next_day n y m v)).
Proof.
  intros n y m v Hm. unfold g_DayNode_nextDay, dn_next_day.
  cbn [dn_emb DayNode_c]. rewrite src_common_next.
  destruct (cn_next (dn_c n) v) as [v' ov]. cbn [fst snd].
  change (set_DayNode_c (dn_emb n y m v) (cn_emb (dn_c n) v')) with (dn_emb n y m v').
  rewrite (src_day_max n y m v' Hm). reflexivity.
Qed.

Theorem src_day_next : forall n y m v, dn_ok n -> 1 <= m <= 12 ->
  g_DayNode_Next (dn_emb n y m v) = (dn_emb n y m (fst (dn_next n y m v)), snd (dn_next n y m v)).
Proof.
  intros n y m v Hok Hm. unfold g_DayNode_Next, dn_next.
  cbn [dn_emb DayNode_n]. fold (dn_emb n y m v).
  destruct (negb (dn_n n =? 0)).
  - rewrite (src_day_next_dayN n y m v Hok Hm). reflexivity.
  - rewrite src_day_is_weekday. destruct (dn_is_weekday n).
    + rewrite (src_day_next_weekday n y m v Hm). reflexivity.
    + rewrite (src_day_next_day n y m v Hm). reflexivity.
Qed.

Theorem src_day_reset : forall n y m v, dn_ok n -> 1 <= m <= 12 ->
  g_DayNode_Reset (dn_emb n y m v) = (dn_emb n y m (fst (dn_reset n y m)), snd (dn_reset n y m)).
Proof.
  intros n y m v Hok Hm. unfold g_DayNode_Reset, dn_reset.
  change (set_DayNode_c (dn_emb n y m v)
            (set_CommonNode_value (DayNode_c (dn_emb n y m v)) (CommonNode_min (DayNode_c (dn_emb n y m v)) - 1)))
    with (dn_emb n y m (cn_lo (dn_c n) - 1)).
  rewrite (src_day_next n y m _ Hok Hm). reflexivity.
Qed.

Theorem src_day_is_valid : forall n y m v, dn_ok n -> 1 <= m <= 12 ->
  g_DayNode_isValid (dn_emb n y m v) = dn_is_valid n y m v.
Proof.
  intros n y m v Hok Hm. unfold g_DayNode_isValid, dn_is_valid.
  cbn [dn_emb DayNode_n]. fold (dn_emb n y m v).
  destruct (negb (dn_n n =? 0)).
  - rewrite (src_day_dayN n y m v Hok Hm). destruct (dn_dayN n y m) as [day ok]. reflexivity.
  - unfold g_DayNode_isValidDay, g_DayNode_isValidWeekday.
    rewrite src_day_is_weekday, src_day_get_weekday, (src_day_max n y m v Hm), src_contains.
    cbn [dn_emb DayNode_c DayNode_weekdayValues cn_emb CommonNode_value]. fold (cn_emb (dn_c n) v).
    rewrite src_common_is_valid.
    destruct (dn_is_weekday n); [reflexivity|]. rewrite andb_true_r. reflexivity.
Qed.

Theorem src_day_value : forall n y m v, g_DayNode_Value (dn_emb n y m v) = v.
Proof. reflexivity. Qed.

Theorem src_day_find_forward : forall n y m v, dn_ok n -> 1 <= m <= 12 ->
  g_DayNode_findForward (dn_emb n y m v) =
  if dn_is_valid n y m v then (dn_emb n y m v, c_unchanged)
  else (dn_emb n y m (fst (dn_next n y m v)), if snd (dn_next n y m v) then c_overflowed else c_advanced).
Proof.
  intros n y m v Hok Hm. unfold g_DayNode_findForward. rewrite (src_day_is_valid n y m v Hok Hm).
  destruct (dn_is_valid n y m v); cbn [negb]; [reflexivity|].
  rewrite (src_day_next n y m v Hok Hm). destruct (snd (dn_next n y m v)); reflexivity.
Qed.

(* ---------- constructors (quartz/csm.go passes the parsed fields to these) ---------- *)
Theorem src_new_common : forall v lo hi vals,
  g_NewCommonNode v lo hi vals = cn_emb {| cn_lo := lo; cn_hi := hi; cn_vals := vals |} v.
Proof. reflexivity. Qed.
Theorem src_new_month_day : forall v lo hi k vals m y,
  g_NewMonthDayNode v lo hi k vals m y =
  dn_emb {| dn_c := {| cn_lo := lo; cn_hi := hi; cn_vals := vals |}; dn_w := []; dn_n := k |} y m v.
Proof. reflexivity. Qed.
Theorem src_new_week_day : forall v lo hi k vals m y,
  g_NewWeekDayNode v lo hi k vals m y =
  dn_emb {| dn_c := {| cn_lo := lo; cn_hi := hi; cn_vals := [] |}; dn_w := vals; dn_n := k |} y m v.
Proof. reflexivity. Qed.

(* ---------- the side conditions hold of every machine built from well-formed fields ---------- *)
Lemma single_in_hd : forall lo hi l, single_in lo hi l = true -> lo <= hd 0 l <= hi.
Proof. intros lo hi [|d [|e l]] H; cbn in H; try discriminate. cbn [hd]. lia. Qed.

Lemma sorted_in_hd : forall lo hi x l, sorted_in lo hi (x :: l) = true -> lo <= x <= hi.
Proof.
  intros lo hi x l H. unfold sorted_in in H. apply andb_true_iff in H. destruct H as [H _].
  cbn [in_range forallb] in H. apply andb_true_iff in H. lia.
Qed.

Theorem src_wf_day_ok : forall f, wf_fields f = true -> dn_ok (f_day (mk_csm f)).
Proof.
  intros f Hwf. unfold wf_fields in Hwf.
  repeat (apply andb_true_iff in Hwf; destruct Hwf as [Hwf ?]).
  match goal with H : wf_day f = true |- _ => rename H into Hday end.
  unfold wf_day in Hday. unfold mk_csm. cbn [f_day].
  destruct (fl_dow f) as [|w ws] eqn:Edow.
  - apply andb_true_iff in Hday. destruct Hday as [_ Hshape].
    split; cbn [dn_is_weekday dn_w dn_n dn_c cn_vals]; [discriminate|].
    intros _ Hbw Hpos Hbl. unfold dom_shape in Hshape.
    unfold bit_weekday, bit_last in *.
    change Params.n_weekday with 2 in Hbw. change Params.n_last_day_of_month with 1 in Hbl.
    repeat (apply orb_true_iff in Hshape; destruct Hshape as [Hshape|Hshape]);
      apply andb_true_iff in Hshape; destruct Hshape as [Hn Hv].
    + assert (fl_dom_n f = 0) as E by lia. rewrite E in Hpos. lia.
    + assert (fl_dom_n f = 1) as E by lia. rewrite E in Hbw. cbn in Hbw. discriminate.
    + apply andb_true_iff in Hn. lia.
    + assert (fl_dom_n f = 3) as E by lia. rewrite E in Hbl. cbn in Hbl. discriminate.
    + pose proof (single_in_hd 1 31 _ Hv). lia.
  - apply andb_true_iff in Hday. destruct Hday as [_ Hshape].
    split; cbn [dn_is_weekday dn_w dn_n dn_c cn_vals hd]; [|discriminate].
    intros _. unfold dow_shape in Hshape.
    apply orb_true_iff in Hshape. destruct Hshape as [Hshape|Hshape];
      apply andb_true_iff in Hshape; destruct Hshape as [_ Hv].
    + exact (sorted_in_hd 0 6 w ws Hv).
    + pose proof (single_in_hd 0 6 _ Hv) as Hh. cbn [hd] in Hh. exact Hh.
Qed.

(* ---------- the model's per-node operations, restated over the translated source ---------- *)
(* val_next / val_reset / val_valid of CsmModel.v are, node by node, what the Go methods compute *)
Theorem src_machine_day_node : forall f s, wf_fields f = true -> 1 <= s_mon s <= 12 ->
  let n := f_day (mk_csm f) in
  let N := dn_emb n (s_year s) (s_mon s) (s_day s) in
  g_DayNode_Next N = (dn_emb n (s_year s) (s_mon s) (fst (val_next (mk_csm f) 3 s)), snd (val_next (mk_csm f) 3 s)) /\
  g_DayNode_Reset N = (dn_emb n (s_year s) (s_mon s) (fst (val_reset (mk_csm f) 3 s)), snd (val_reset (mk_csm f) 3 s)) /\
  g_DayNode_isValid N = node_is_valid (mk_csm f) 3 s.
Proof.
  intros f s Hwf Hm n N. pose proof (src_wf_day_ok f Hwf) as Hok.
  repeat split.
  - exact (src_day_next n _ _ _ Hok Hm).
  - exact (src_day_reset n _ _ _ Hok Hm).
  - exact (src_day_is_valid n _ _ _ Hok Hm).
Qed.
