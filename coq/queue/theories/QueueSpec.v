(* M2 -- specification of the default job queue: a finite map from job key to entry, with
   relational (any minimum-priority entry) Head/Pop, and declarative matchers.  Definitions only. *)
From Coq Require Import ZArith String List Bool.
Require Import QzQueue.Gen.Params QzQueue.Entry QzQueue.Matcher QzQueue.HeapModel.
Import ListNotations.
Open Scope string_scope.

(* ---- what the string operators and matchers mean ---- *)
Definition op_holds (o : strop) (s p : string) : Prop :=
  match o with
  | StringEquals => s = p
  | StringStartsWith => exists t, s = p ++ t
  | StringEndsWith => exists t, s = t ++ p
  | StringContains => exists a b, s = a ++ p ++ b
  end.

Definition matches (m : matcher) (e : entry) : Prop :=
  match m with
  | MName o p => op_holds o (k_name (e_key e)) p
  | MGroup o p => op_holds o (k_group (e_key e)) p
  | MStatus s => e_susp e = s
  end.

(* ---- keyed map ---- *)
Definition smap := key -> option entry.
Definition s_empty : smap := fun _ => None.
Definition s_upd (m : smap) (k : key) (e : entry) : smap := fun k' => if key_eqb k' k then Some e else m k'.
Definition s_del (m : smap) (k : key) : smap := fun k' => if key_eqb k' k then None else m k'.
Definition s_eq (m m' : smap) : Prop := forall k, m k = m' k.
Definition s_isempty (m : smap) : Prop := forall k, m k = None.
(* e is bound in m and no bound entry has a smaller priority *)
Definition s_min (m : smap) (e : entry) : Prop :=
  m (e_key e) = Some e /\ forall k e', m k = Some e' -> (e_prio e <= e_prio e')%Z.
(* l lists the bound entries, each once *)
Definition s_elems (m : smap) (l : list entry) : Prop :=
  NoDup l /\ forall e, In e l <-> m (e_key e) = Some e.

Inductive spec_step (m : smap) : op -> result -> smap -> Prop :=
| SPushNew : forall e m', m (e_key e) = None -> s_eq m' (s_upd m (e_key e) e) ->
    spec_step m (OPush e) ROk m'
| SPushDup : forall e e0 m', m (e_key e) = Some e0 -> e_replace e = false -> s_eq m' m ->
    spec_step m (OPush e) (RErr ErrJobAlreadyExists) m'
| SPushReplace : forall e e0 m', m (e_key e) = Some e0 -> e_replace e = true -> s_eq m' (s_upd m (e_key e) e) ->
    spec_step m (OPush e) ROk m'
| SPopEmpty : forall m', s_isempty m -> s_eq m' m -> spec_step m OPop (RErr ErrQueueEmpty) m'
| SPop : forall e m', s_min m e -> s_eq m' (s_del m (e_key e)) -> spec_step m OPop (REntry e) m'
| SHeadEmpty : forall m', s_isempty m -> s_eq m' m -> spec_step m OHead (RErr ErrQueueEmpty) m'
| SHead : forall e m', s_min m e -> s_eq m' m -> spec_step m OHead (REntry e) m'
| SGet : forall k e m', m k = Some e -> s_eq m' m -> spec_step m (OGet k) (REntry e) m'
| SGetAbsent : forall k m', m k = None -> s_eq m' m -> spec_step m (OGet k) (RErr ErrJobNotFound) m'
| SRemove : forall k e m', m k = Some e -> s_eq m' (s_del m k) -> spec_step m (ORemove k) (REntry e) m'
| SRemoveAbsent : forall k m', m k = None -> s_eq m' m -> spec_step m (ORemove k) (RErr ErrJobNotFound) m'
| SScheduled : forall ms l m', NoDup l ->
    (forall e, In e l <-> (m (e_key e) = Some e /\ Forall (fun mt => matches mt e) ms)) -> s_eq m' m ->
    spec_step m (OScheduled ms) (RList l) m'
| SSize : forall l m', s_elems m l -> s_eq m' m -> spec_step m OSize (RSize (length l)) m'
| SClear : forall m', s_isempty m' -> spec_step m OClear ROk m'.

Inductive spec_run : smap -> list op -> list result -> smap -> Prop :=
| SRNil : forall m m', s_eq m' m -> spec_run m [] [] m'
| SRCons : forall m o r m1 ops rs m2, spec_step m o r m1 -> spec_run m1 ops rs m2 ->
    spec_run m (o :: ops) (r :: rs) m2.

(* ---- abstraction of the heap array ---- *)
Definition abs (a : list entry) : smap := fun k => find (fun e => key_eqb (e_key e) k) a.
Definition keys (a : list entry) : list key := map e_key a.

(* heap order of the array: no child is smaller than its parent *)
Definition heap_upto (a : list entry) (n : nat) : Prop :=
  forall p c, (c = 2 * p + 1 \/ c = 2 * p + 2)%nat -> (c < n)%nat -> (e_prio (get a p) <= e_prio (get a c))%Z.
Definition heap_ordered (a : list entry) : Prop := heap_upto a (length a).
