(* The jobQueue model refines the keyed-map specification; per-method facts; filtering; draining. *)
From Coq Require Import ZArith String List Bool Arith Lia ZifyNat Permutation Sorted.
Require Import QzQueue.Gen.Params QzQueue.Entry QzQueue.Matcher QzQueue.HeapModel QzQueue.QueueSpec
  QzQueue.MatcherProofs QzQueue.HeapProofs QzQueue.HeapOpsProofs.
Import ListNotations.
Open Scope nat_scope.
Open Scope list_scope.

(* ---- keys ---- *)
(* both fields are compared (in whatever order the source lists them) *)
Lemma equals_fields_complete : In FieldName equals_fields /\ In FieldGroup equals_fields.
Proof. split; vm_compute; auto. Qed.

Lemma key_equals_eq : forall a b, key_equals a b = true <-> a = b.
Proof.
  intros [g1 n1] [g2 n2]. unfold key_equals. rewrite forallb_forall. split.
  - intros H. destruct equals_fields_complete as [Hn Hg].
    pose proof (H _ Hn) as E1. pose proof (H _ Hg) as E2.
    cbn [key_field k_name k_group fst snd] in E1, E2. apply String.eqb_eq in E1. apply String.eqb_eq in E2.
    subst. reflexivity.
  - intros H f _. injection H as -> ->. apply String.eqb_refl.
Qed.

Lemma key_eqb_eq : forall a b, key_eqb a b = true <-> a = b.
Proof.
  intros [g1 n1] [g2 n2]. unfold key_eqb. cbn [fst snd]. rewrite andb_true_iff, !String.eqb_eq. split.
  - intros [-> ->]. reflexivity.
  - intros H. injection H as -> ->. auto.
Qed.

Lemma key_equals_eqb : forall a b, key_equals a b = key_eqb a b.
Proof.
  intros. destruct (key_equals a b) eqn:E1, (key_eqb a b) eqn:E2; try reflexivity.
  - apply key_equals_eq in E1. apply key_eqb_eq in E1. congruence.
  - apply key_eqb_eq in E2. apply key_equals_eq in E2. congruence.
Qed.

Lemma key_eqb_refl : forall k, key_eqb k k = true.
Proof. intros. apply key_eqb_eq. reflexivity. Qed.

Lemma key_eqb_sym : forall a b, key_eqb a b = key_eqb b a.
Proof.
  intros. destruct (key_eqb a b) eqn:E1, (key_eqb b a) eqn:E2; try reflexivity.
  - apply key_eqb_eq in E1. subst. rewrite key_eqb_refl in E2. discriminate.
  - apply key_eqb_eq in E2. subst. rewrite key_eqb_refl in E1. discriminate.
Qed.

(* ---- the linear searches ---- *)
Lemma get_loop_abs : forall a k, get_loop a k = abs a k.
Proof.
  unfold abs. induction a as [|h t IH]; intros k; simpl; [reflexivity|].
  rewrite key_equals_eqb. destruct (key_eqb (e_key h) k); [reflexivity | apply IH].
Qed.

Lemma find_from_some : forall a k i r, find_from a k i = Some r ->
  exists j, r = i + j /\ j < length a /\ get_loop a k = Some (get a j).
Proof.
  induction a as [|h t IH]; intros k i r H; simpl in H; [discriminate|]. simpl.
  destruct (key_equals (e_key h) k) eqn:E.
  - injection H as <-. exists 0. split; [lia|]. split; [lia | reflexivity].
  - destruct (IH k (S i) r H) as [j [-> [Hj Hg]]]. exists (S j). split; [lia|]. split; [lia | exact Hg].
Qed.

Lemma find_from_none : forall a k i, find_from a k i = None -> get_loop a k = None.
Proof.
  induction a as [|h t IH]; intros k i H; simpl in *; [reflexivity|].
  destruct (key_equals (e_key h) k); [discriminate | eapply IH; exact H].
Qed.

Lemma find_key_some : forall a k i, find_key a k = Some i -> i < length a /\ abs a k = Some (get a i).
Proof.
  intros a k i H. destruct (find_from_some a k 0 i H) as [j [-> [Hj Hg]]].
  rewrite get_loop_abs in Hg. split; [lia | exact Hg].
Qed.

Lemma find_key_none : forall a k, find_key a k = None -> abs a k = None.
Proof. intros a k H. rewrite <- get_loop_abs. eapply find_from_none. exact H. Qed.

(* ---- abs ---- *)
Lemma abs_some_in : forall a k e, abs a k = Some e -> In e a /\ e_key e = k.
Proof.
  unfold abs. intros a k e H. apply find_some in H. destruct H as [H1 H2].
  apply key_eqb_eq in H2. auto.
Qed.

Lemma abs_in : forall a e, NoDup (keys a) -> In e a -> abs a (e_key e) = Some e.
Proof.
  unfold abs, keys. induction a as [|h t IH]; intros e Hnd Hin; [destruct Hin|].
  simpl in *. apply NoDup_cons_iff in Hnd. destruct Hnd as [Hn Hnd].
  destruct (key_eqb (e_key h) (e_key e)) eqn:E.
  - apply key_eqb_eq in E. destruct Hin as [->|Hin]; [reflexivity|].
    exfalso. apply Hn. rewrite E. apply in_map. exact Hin.
  - destruct Hin as [->|Hin]; [rewrite key_eqb_refl in E; discriminate|]. apply IH; assumption.
Qed.

Lemma abs_none_iff : forall a k, abs a k = None <-> (forall e, In e a -> e_key e <> k).
Proof.
  unfold abs. intros a k. split.
  - intros H e Hin Hk. pose proof (find_none _ _ H e Hin) as F. cbv beta in F.
    rewrite Hk, key_eqb_refl in F. discriminate.
  - induction a as [|h t IH]; intros H; simpl; [reflexivity|].
    destruct (key_eqb (e_key h) k) eqn:E.
    + apply key_eqb_eq in E. exfalso. apply (H h); [left; reflexivity | exact E].
    + apply IH. intros e Hin. apply H. right. exact Hin.
Qed.

Lemma abs_none_keys : forall a k, abs a k = None <-> ~ In k (keys a).
Proof.
  intros. rewrite abs_none_iff. unfold keys. rewrite in_map_iff. split.
  - intros H [e [Hk Hin]]. apply (H e Hin Hk).
  - intros H e Hin Hk. apply H. exists e. auto.
Qed.

Lemma perm_nodup_keys : forall a b, Permutation a b -> NoDup (keys a) -> NoDup (keys b).
Proof. intros a b Hp. apply Permutation_NoDup. unfold keys. apply Permutation_map. exact Hp. Qed.

Lemma abs_perm : forall a b, Permutation a b -> NoDup (keys a) -> s_eq (abs a) (abs b).
Proof.
  intros a b Hp Hnd k. pose proof (perm_nodup_keys a b Hp Hnd) as Hnb.
  destruct (abs a k) as [e|] eqn:E.
  - apply abs_some_in in E. destruct E as [Hin <-]. symmetry. apply abs_in; [exact Hnb|].
    eapply Permutation_in; [exact Hp | exact Hin].
  - symmetry. apply abs_none_iff. intros e Hin. rewrite abs_none_iff in E. apply E.
    eapply Permutation_in; [apply Permutation_sym; exact Hp | exact Hin].
Qed.

Lemma abs_cons : forall e a, s_eq (abs (e :: a)) (s_upd (abs a) (e_key e) e).
Proof. intros e a k. unfold abs, s_upd. simpl. rewrite key_eqb_sym. reflexivity. Qed.

Lemma abs_del : forall x a a', NoDup (keys a) -> Permutation a (x :: a') -> s_eq (abs a') (s_del (abs a) (e_key x)).
Proof.
  intros x a a' Hnd Hp k. unfold s_del.
  pose proof (perm_nodup_keys _ _ Hp Hnd) as Hn2. unfold keys in Hn2. simpl in Hn2.
  apply NoDup_cons_iff in Hn2. destruct Hn2 as [Hnx Hn2].
  destruct (key_eqb k (e_key x)) eqn:E.
  - apply key_eqb_eq in E. subst k. apply abs_none_keys. exact Hnx.
  - rewrite (abs_perm a (x :: a') Hp Hnd k). unfold abs. simpl. rewrite key_eqb_sym, E. reflexivity.
Qed.

Lemma nodup_keys_nodup : forall a, NoDup (keys a) -> NoDup a.
Proof. intros a. unfold keys. apply NoDup_map_inv. Qed.

(* ---- invariant and one-step refinement ---- *)
Definition q_inv (a : list entry) : Prop := heap_ordered a /\ NoDup (keys a).

Lemma q_inv_nil : q_inv [].
Proof. split; [intros p c _ H; simpl in H; lia | constructor]. Qed.

Lemma length0_nil : forall a : list entry, (length a =? 0) = true -> a = [].
Proof. intros [|h t] H; [reflexivity | discriminate]. Qed.

Lemma abs_nil_empty : s_isempty (abs []).
Proof. intros k. reflexivity. Qed.

Lemma s_eq_refl : forall m, s_eq m m.
Proof. intros m k. reflexivity. Qed.

Lemma job_loop_filter : forall ms a, job_loop ms a = filter (all_match ms) a.
Proof. induction a as [|h t IH]; simpl; [reflexivity|]. rewrite IH. reflexivity. Qed.

Lemma filter_all : forall (f : entry -> bool) a, (forall x, f x = true) -> filter f a = a.
Proof. intros f a H. induction a as [|h t IH]; simpl; [reflexivity|]. rewrite H, IH. reflexivity. Qed.

Lemma q_scheduled_filter : forall a ms, q_scheduled a ms = (a, RList (filter (all_match ms) a)).
Proof.
  intros a ms. unfold q_scheduled. destruct ms as [|m ms]; cbn [length Nat.eqb].
  - f_equal. f_equal. symmetry. apply filter_all. reflexivity.
  - rewrite job_loop_filter. reflexivity.
Qed.

Lemma push_new_step : forall a e, q_inv a -> abs a (e_key e) = None ->
  q_inv (heap_push a e) /\ s_eq (abs (heap_push a e)) (s_upd (abs a) (e_key e) e).
Proof.
  intros a e [Hh Hn] Hnone. destruct (heap_push_spec a e Hh) as [_ [Hp Hh']].
  assert (Hn1 : NoDup (keys (e :: a))).
  { unfold keys. simpl. constructor; [apply abs_none_keys; exact Hnone | exact Hn]. }
  split; [split; [exact Hh' | exact (perm_nodup_keys _ _ Hp Hn1)]|].
  intros k. rewrite <- (abs_perm _ _ Hp Hn1 k). apply abs_cons.
Qed.

Lemma remove_step : forall a i, q_inv a -> i < length a ->
  q_inv (fst (heap_remove a i)) /\ snd (heap_remove a i) = get a i /\
  Permutation a (get a i :: fst (heap_remove a i)) /\
  s_eq (abs (fst (heap_remove a i))) (s_del (abs a) (e_key (get a i))).
Proof.
  intros a i [Hh Hn] Hi. destruct (heap_remove_spec a i Hi Hh) as [S1 [_ [S3 S4]]].
  rewrite S1 in S3. pose proof (perm_nodup_keys _ _ S3 Hn) as Hn2. unfold keys in Hn2. simpl in Hn2.
  apply NoDup_cons_iff in Hn2. destruct Hn2 as [_ Hn2].
  split; [split; assumption|]. split; [exact S1|]. split; [exact S3|]. apply abs_del; assumption.
Qed.

Lemma pop_step : forall a, q_inv a -> 0 < length a ->
  q_inv (fst (heap_pop a)) /\ snd (heap_pop a) = get a 0 /\
  Permutation a (get a 0 :: fst (heap_pop a)) /\
  s_eq (abs (fst (heap_pop a))) (s_del (abs a) (e_key (get a 0))).
Proof.
  intros a [Hh Hn] Hl. destruct (heap_pop_spec a Hl Hh) as [S1 [_ [S3 S4]]].
  rewrite S1 in S3. pose proof (perm_nodup_keys _ _ S3 Hn) as Hn2. unfold keys in Hn2. simpl in Hn2.
  apply NoDup_cons_iff in Hn2. destruct Hn2 as [_ Hn2].
  split; [split; assumption|]. split; [exact S1|]. split; [exact S3|]. apply abs_del; assumption.
Qed.

Lemma head_is_min : forall a, q_inv a -> 0 < length a -> s_min (abs a) (get a 0).
Proof.
  intros a [Hh Hn] Hl. split.
  - apply abs_in; [exact Hn | apply get_in; exact Hl].
  - intros k e' He. apply abs_some_in in He. destruct He as [Hin _]. apply root_min_in; assumption.
Qed.

Lemma q_step_refines : forall a o, q_inv a ->
  q_inv (fst (q_step a o)) /\ spec_step (abs a) o (snd (q_step a o)) (abs (fst (q_step a o))).
Proof.
  intros a o Hinv. pose proof Hinv as [Hh Hn]. destruct o as [e| | |k|k|ms| |]; cbn [q_step].
  - (* Push *)
    unfold q_push. destruct (find_key a (e_key e)) as [i|] eqn:F.
    + destruct (find_key_some _ _ _ F) as [Hi Ha]. destruct (e_replace e) eqn:R; cbn [fst snd].
      * destruct (remove_step a i Hinv Hi) as [Hinv1 [_ [_ Hd]]].
        pose proof (abs_some_in _ _ _ Ha) as [_ Hk].
        assert (Hnone : abs (fst (heap_remove a i)) (e_key e) = None).
        { rewrite (Hd (e_key e)). unfold s_del. rewrite Hk, key_eqb_refl. reflexivity. }
        destruct (push_new_step _ e Hinv1 Hnone) as [Hinv2 He]. split; [exact Hinv2|].
        eapply SPushReplace; [exact Ha | exact R|].
        intros k. rewrite (He k). unfold s_upd. destruct (key_eqb k (e_key e)) eqn:E; [reflexivity|].
        rewrite (Hd k). unfold s_del. rewrite Hk, E. reflexivity.
      * split; [exact Hinv|]. change push_dup_err with ErrJobAlreadyExists.
        eapply SPushDup; [exact Ha | exact R | apply s_eq_refl].
    + pose proof (find_key_none _ _ F) as Hnone. cbn [fst snd].
      destruct (push_new_step a e Hinv Hnone) as [Hinv2 He]. split; [exact Hinv2|].
      apply SPushNew; assumption.
  - (* Pop *)
    unfold q_pop. destruct (length a =? 0) eqn:E; cbn [fst snd].
    + apply length0_nil in E. subst a. split; [exact Hinv|]. change pop_empty_err with ErrQueueEmpty.
      apply SPopEmpty; [apply abs_nil_empty | apply s_eq_refl].
    + apply Nat.eqb_neq in E. assert (Hl : 0 < length a) by lia.
      destruct (pop_step a Hinv Hl) as [Hinv1 [Hx [_ Hd]]].
      destruct (heap_pop a) as [a' x] eqn:Hp. cbn [fst snd] in *. subst x. split; [exact Hinv1|].
      apply SPop; [apply head_is_min; assumption | exact Hd].
  - (* Head *)
    unfold q_head. destruct (length a =? 0) eqn:E; cbn [fst snd].
    + apply length0_nil in E. subst a. split; [exact Hinv|]. change head_empty_err with ErrQueueEmpty.
      apply SHeadEmpty; [apply abs_nil_empty | apply s_eq_refl].
    + apply Nat.eqb_neq in E. split; [exact Hinv|].
      apply SHead; [apply head_is_min; [assumption | lia] | apply s_eq_refl].
  - (* Get *)
    unfold q_get. rewrite get_loop_abs. destruct (abs a k) as [e|] eqn:E; cbn [fst snd]; (split; [exact Hinv|]).
    + apply SGet; [exact E | apply s_eq_refl].
    + change get_absent_err with ErrJobNotFound. apply SGetAbsent; [exact E | apply s_eq_refl].
  - (* Remove *)
    unfold q_remove. destruct (find_key a k) as [i|] eqn:F.
    + destruct (find_key_some _ _ _ F) as [Hi Ha].
      destruct (remove_step a i Hinv Hi) as [Hinv1 [Hx [_ Hd]]].
      destruct (heap_remove a i) as [a' x] eqn:Hr. cbn [fst snd] in *. subst x. split; [exact Hinv1|].
      pose proof (abs_some_in _ _ _ Ha) as [_ Hk]. rewrite Hk in Hd.
      apply SRemove; [exact Ha | exact Hd].
    + cbn [fst snd]. split; [exact Hinv|]. change remove_absent_err with ErrJobNotFound.
      apply SRemoveAbsent; [apply find_key_none; exact F | apply s_eq_refl].
  - (* ScheduledJobs *)
    rewrite q_scheduled_filter. cbn [fst snd]. split; [exact Hinv|].
    apply SScheduled; [apply NoDup_filter, nodup_keys_nodup; exact Hn | | apply s_eq_refl].
    intros e. rewrite filter_In, all_match_spec. split.
    + intros [Hin Hm]. split; [apply abs_in; assumption | exact Hm].
    + intros [Ha Hm]. split; [apply abs_some_in in Ha; tauto | exact Hm].
  - (* Size *)
    unfold q_size. cbn [fst snd]. split; [exact Hinv|].
    apply SSize; [|apply s_eq_refl]. split; [apply nodup_keys_nodup; exact Hn|].
    intros e. split; [apply abs_in; exact Hn | intros Ha; apply abs_some_in in Ha; tauto].
  - (* Clear *)
    unfold q_clear. cbn [fst snd]. split; [apply q_inv_nil|]. apply SClear. apply abs_nil_empty.
Qed.

Lemma q_run_cons : forall a o ops, q_run a (o :: ops) =
  (fst (q_run (fst (q_step a o)) ops), snd (q_step a o) :: snd (q_run (fst (q_step a o)) ops)).
Proof.
  intros. cbn [q_run]. destruct (q_step a o) as [a1 r]. cbn [fst snd].
  destruct (q_run a1 ops) as [a2 rs]. reflexivity.
Qed.

Lemma q_run_refines : forall ops a, q_inv a ->
  q_inv (fst (q_run a ops)) /\ spec_run (abs a) ops (snd (q_run a ops)) (abs (fst (q_run a ops))).
Proof.
  induction ops as [|o ops IH]; intros a Hinv.
  - cbn [q_run fst snd]. split; [exact Hinv|]. apply SRNil. apply s_eq_refl.
  - rewrite q_run_cons. cbn [fst snd].
    destruct (q_step_refines a o Hinv) as [Hinv1 Hs]. destruct (IH _ Hinv1) as [Hinv2 Hr].
    split; [exact Hinv2|]. eapply SRCons; [exact Hs | exact Hr].
Qed.

(* ---- statements exported to Props/C11.v ---- *)
Theorem heap_refines_keyed_pq : forall ops,
  heap_ordered (fst (q_run [] ops)) /\ NoDup (keys (fst (q_run [] ops))) /\
  spec_run s_empty ops (snd (q_run [] ops)) (abs (fst (q_run [] ops))).
Proof.
  intros ops. destruct (q_run_refines ops [] q_inv_nil) as [[H1 H2] H3]. auto.
Qed.

Theorem step_refines_from_any_state : forall a o, heap_ordered a -> NoDup (keys a) ->
  heap_ordered (fst (q_step a o)) /\ NoDup (keys (fst (q_step a o))) /\
  spec_step (abs a) o (snd (q_step a o)) (abs (fst (q_step a o))).
Proof.
  intros a o H1 H2. destruct (q_step_refines a o (conj H1 H2)) as [[H3 H4] H5]. auto.
Qed.

Theorem head_pop_min : forall a, heap_ordered a -> a <> [] ->
  q_head a = (a, REntry (get a 0)) /\
  snd (q_pop a) = REntry (get a 0) /\ Permutation a (get a 0 :: fst (q_pop a)) /\ heap_ordered (fst (q_pop a)) /\
  In (get a 0) a /\ (forall e', In e' a -> (e_prio (get a 0) <= e_prio e')%Z).
Proof.
  intros a Hh Hne. assert (Hl : 0 < length a) by (destruct a; [congruence | simpl; lia]).
  assert (E : (length a =? 0) = false) by (apply Nat.eqb_neq; lia).
  unfold q_head, q_pop. rewrite E.
  destruct (heap_pop_spec a Hl Hh) as [S1 [_ [S3 S4]]].
  destruct (heap_pop a) as [a' x]. cbn [fst snd] in *. subst x.
  split; [reflexivity|]. split; [reflexivity|]. split; [exact S3|]. split; [exact S4|].
  split; [apply get_in; exact Hl|]. intros e' Hin. apply root_min_in; assumption.
Qed.

Theorem push_duplicate_rejected : forall a job i, find_key a (e_key job) = Some i -> e_replace job = false ->
  q_push a job = (a, RErr ErrJobAlreadyExists).
Proof. intros a job i F R. unfold q_push. rewrite F, R. reflexivity. Qed.

Theorem push_replace_exact : forall a job i, heap_ordered a -> NoDup (keys a) ->
  find_key a (e_key job) = Some i -> e_replace job = true ->
  snd (q_push a job) = ROk /\ e_key (get a i) = e_key job /\ In (get a i) a /\
  exists rest, Permutation a (get a i :: rest) /\ Permutation (fst (q_push a job)) (job :: rest).
Proof.
  intros a job i Hh Hn F R. unfold q_push. rewrite F, R. cbn [fst snd].
  destruct (find_key_some _ _ _ F) as [Hi Ha]. pose proof (abs_some_in _ _ _ Ha) as [Hin Hk].
  destruct (remove_step a i (conj Hh Hn) Hi) as [[Hh1 _] [_ [Hp _]]].
  destruct (heap_push_spec (fst (heap_remove a i)) job Hh1) as [_ [Hp2 _]].
  split; [reflexivity|]. split; [exact Hk|]. split; [exact Hin|].
  exists (fst (heap_remove a i)). split; [exact Hp | apply Permutation_sym; exact Hp2].
Qed.

Theorem push_new_exact : forall a job, heap_ordered a -> find_key a (e_key job) = None ->
  snd (q_push a job) = ROk /\ Permutation (job :: a) (fst (q_push a job)).
Proof.
  intros a job Hh F. unfold q_push. rewrite F. cbn [fst snd].
  destruct (heap_push_spec a job Hh) as [_ [Hp _]]. auto.
Qed.

Theorem remove_from_middle_keeps_heap : forall a i, heap_ordered a -> i < length a ->
  heap_ordered (fst (heap_remove a i)) /\ snd (heap_remove a i) = get a i /\
  Permutation a (get a i :: fst (heap_remove a i)).
Proof.
  intros a i Hh Hi. destruct (heap_remove_spec a i Hi Hh) as [S1 [_ [S3 S4]]].
  rewrite S1 in S3. auto.
Qed.

Theorem empty_reads :
  q_pop [] = ([], RErr ErrQueueEmpty) /\ q_head [] = ([], RErr ErrQueueEmpty) /\
  (forall a k, ~ In k (keys a) -> q_get a k = (a, RErr ErrJobNotFound) /\ q_remove a k = (a, RErr ErrJobNotFound)) /\
  (forall a, q_size a = (a, RSize (length a))) /\ (forall a, q_clear a = ([], ROk)).
Proof.
  split; [reflexivity|]. split; [reflexivity|]. split; [|split; reflexivity].
  intros a k Hk. apply abs_none_keys in Hk. unfold q_get, q_remove. rewrite get_loop_abs, Hk.
  split; [reflexivity|]. destruct (find_key a k) as [i|] eqn:F; [|reflexivity].
  apply find_key_some in F. destruct F as [_ F]. congruence.
Qed.

Theorem keyed_reads : forall a e, heap_ordered a -> NoDup (keys a) -> In e a ->
  q_get a (e_key e) = (a, REntry e) /\
  snd (q_remove a (e_key e)) = REntry e /\ Permutation a (e :: fst (q_remove a (e_key e))) /\
  heap_ordered (fst (q_remove a (e_key e))).
Proof.
  intros a e Hh Hn Hin. pose proof (abs_in a e Hn Hin) as Ha.
  unfold q_get, q_remove. rewrite get_loop_abs, Ha. split; [reflexivity|].
  destruct (find_key a (e_key e)) as [i|] eqn:F.
  - destruct (find_key_some _ _ _ F) as [Hi Hg]. rewrite Ha in Hg. injection Hg as Hg.
    destruct (heap_remove_spec a i Hi Hh) as [S1 [_ [S3 S4]]].
    destruct (heap_remove a i) as [a' x]. cbn [fst snd] in *. subst x. rewrite <- Hg in *. auto.
  - apply find_key_none in F. congruence.
Qed.

Theorem filter_exact : forall a ms,
  q_scheduled a ms = (a, RList (filter (fun e => forallb (fun m => is_match m e) ms) a)) /\
  (forall e, In e (filter (fun e => forallb (fun m => is_match m e) ms) a) <->
             In e a /\ Forall (fun m => matches m e) ms) /\
  get_job_keys a ms = map e_key (filter (fun e => forallb (fun m => is_match m e) ms) a) /\
  q_scheduled a [] = (a, RList a).
Proof.
  intros a ms.
  assert (E : filter (all_match ms) a = filter (fun e => forallb (fun m => is_match m e) ms) a).
  { apply filter_ext. intros e. apply all_match_forallb. }
  split; [rewrite q_scheduled_filter, E; reflexivity|]. split.
  - intros e. rewrite <- E, filter_In, all_match_spec. reflexivity.
  - split; [unfold get_job_keys; rewrite q_scheduled_filter, E; reflexivity | reflexivity].
Qed.

(* iterated Pop *)
Lemma drain_loop_spec : forall fuel a, length a <= fuel -> heap_ordered a ->
  Permutation a (drain_loop fuel a) /\ StronglySorted Z.le (map e_prio (drain_loop fuel a)).
Proof.
  induction fuel as [|f IH]; intros a Hl Hh.
  - destruct a; [|simpl in Hl; lia]. split; [apply perm_nil | constructor].
  - cbn [drain_loop]. unfold q_pop. destruct (length a =? 0) eqn:E.
    + apply length0_nil in E. subst a. split; [apply perm_nil | constructor].
    + apply Nat.eqb_neq in E. assert (Hl0 : 0 < length a) by lia.
      destruct (heap_pop_spec a Hl0 Hh) as [S1 [S2 [S3 S4]]].
      destruct (heap_pop a) as [a' x]. cbn [fst snd] in *.
      destruct (IH a') as [Hp Hs]; [lia | exact S4|].
      split; [eapply perm_trans; [exact S3 | apply perm_skip; exact Hp]|].
      cbn [map]. constructor; [exact Hs|]. apply Forall_forall. intros z Hz.
      apply in_map_iff in Hz. destruct Hz as [e [<- He]].
      subst x. apply root_min_in; [exact Hh|].
      eapply Permutation_in; [apply Permutation_sym; exact S3|]. right.
      eapply Permutation_in; [apply Permutation_sym; exact Hp | exact He].
Qed.

Theorem drain_sorted : forall a, heap_ordered a ->
  Permutation a (drain a) /\ StronglySorted Z.le (map e_prio (drain a)).
Proof. intros a Hh. apply drain_loop_spec; [lia | exact Hh]. Qed.

(* loops are not cut short by their fuel *)
Theorem loops_not_truncated :
  (forall fuel a j, j <= fuel -> up_loop fuel a j = heap_up a j) /\
  (forall fuel a i n, n - i <= fuel -> down_loop fuel a i n = down_loop (n - i) a i n).
Proof. split; [exact up_loop_fuel | exact down_loop_fuel]. Qed.

(* every method is one atomic step; a concurrent history in lock order is a sequential run *)
Theorem methods_atomic : forall o, method_atomic o = true.
Proof. intros []; reflexivity. Qed.

Theorem concurrent_history_refines : forall h a, heap_ordered a -> NoDup (keys a) ->
  (forall c, In c h -> method_atomic (snd c) = true) /\
  heap_ordered (fst (c_run a h)) /\ NoDup (keys (fst (c_run a h))) /\
  spec_run (abs a) (map snd h) (map snd (snd (c_run a h))) (abs (fst (c_run a h))).
Proof.
  intros h a H1 H2. split; [intros; apply methods_atomic|].
  unfold c_run. destruct (q_run_refines (map snd h) a (conj H1 H2)) as [[H3 H4] H5].
  destruct (q_run a (map snd h)) as [a' rs] eqn:E. cbn [fst snd] in *.
  split; [exact H3|]. split; [exact H4|].
  assert (L : length rs = length (map fst h)).
  { rewrite map_length. clear -E. revert a a' rs E. induction h as [|c h IH]; intros a a' rs E.
    - cbn in E. injection E as _ <-. reflexivity.
    - cbn [map] in E. rewrite q_run_cons in E. injection E as _ <-. cbn [length]. f_equal.
      eapply IH. apply surjective_pairing. }
  assert (M : map snd (combine (map fst h) rs) = rs).
  { clear -L. revert rs L. generalize (map fst h) as ns. induction ns as [|n ns IH]; intros [|r rs] L; simpl in *; try lia; try reflexivity.
    f_equal. apply IH. lia. }
  rewrite M. exact H5.
Qed.

(* ---- non-vacuity: concrete states satisfying the hypotheses above ---- *)
Definition ex_e (g n : string) (p : Z) (r : bool) (id : Z) : entry := mkEntry (g, n) p false r id.
Definition ex_ops : list op :=
  [OPush (ex_e "g" "a" 5 false 1); OPush (ex_e "g" "b" 3 false 2); OPush (ex_e "h" "a" 3 false 3);
   OPush (ex_e "g" "c" 9223372036854775807 false 4); OPush (ex_e "g" "d" (-7) false 5)]%string.
Definition ex_state : list entry := fst (q_run [] ex_ops).

Example ex_state_nontrivial :
  heap_ordered ex_state /\ NoDup (keys ex_state) /\ ex_state <> [] /\ length ex_state = 5 /\
  find_key ex_state ("g", "a")%string = Some 4 /\
  e_id (get ex_state 0) = 5%Z /\
  (exists e, In e ex_state /\ e_key e = ("g", "b")%string) /\
  ~ In ("x", "y")%string (keys ex_state).
Proof.
  pose proof (heap_refines_keyed_pq ex_ops) as [H1 [H2 _]]. fold ex_state in H1, H2.
  split; [exact H1|]. split; [exact H2|].
  split; [vm_compute; discriminate|]. split; [reflexivity|]. split; [reflexivity|]. split; [reflexivity|].
  split.
  - exists (ex_e "g" "b" 3 false 2). split; [vm_compute; tauto | reflexivity].
  - vm_compute. intros H. repeat (destruct H as [H|H]; [discriminate|]). exact H.
Qed.

Example ex_replace_hypotheses :
  find_key ex_state (e_key (ex_e "g" "a" 1 true 6)) = Some 4 /\ e_replace (ex_e "g" "a" 1 true 6) = true /\
  find_key ex_state (e_key (ex_e "g" "a" 1 false 7)) = Some 4 /\ e_replace (ex_e "g" "a" 1 false 7) = false.
Proof. repeat split; reflexivity. Qed.
