(* heap.Push / heap.Pop / heap.Remove on the array: heap order kept, exactly one element added or
   removed, the root is a minimum. *)
From Coq Require Import ZArith String List Bool Arith Lia ZifyNat Permutation.
Require Import QzQueue.Gen.Params QzQueue.Entry QzQueue.Matcher QzQueue.HeapModel QzQueue.QueueSpec QzQueue.HeapProofs.
Import ListNotations.
Open Scope nat_scope.
Open Scope list_scope.

Lemma heap_down_eq : forall a i0 n, heap_down a i0 n =
  (fst (down_loop (n - i0) a i0 n), i0 <? snd (down_loop (n - i0) a i0 n)).
Proof. intros. unfold heap_down. destruct (down_loop (n - i0) a i0 n). reflexivity. Qed.

Lemma heap_pop_eq : forall a, heap_pop a =
  pq_pop (fst (heap_down (pq_swap a 0 (length a - 1)) 0 (length a - 1))).
Proof. intros. unfold heap_pop. destruct (heap_down (pq_swap a 0 (length a - 1)) 0 (length a - 1)). reflexivity. Qed.

Lemma heap_remove_eq : forall a i, heap_remove a i =
  pq_pop (if negb (length a - 1 =? i) then
            if negb (snd (heap_down (pq_swap a i (length a - 1)) i (length a - 1)))
            then heap_up (fst (heap_down (pq_swap a i (length a - 1)) i (length a - 1))) i
            else fst (heap_down (pq_swap a i (length a - 1)) i (length a - 1))
          else a).
Proof.
  intros. unfold heap_remove. destruct (negb (length a - 1 =? i)); [|reflexivity].
  destruct (heap_down (pq_swap a i (length a - 1)) i (length a - 1)). reflexivity.
Qed.

(* removing the last array element *)
Lemma pop_last_spec : forall a n, length a = S n -> heap_upto a n ->
  snd (pq_pop a) = get a n /\ length (fst (pq_pop a)) = n /\
  Permutation a (snd (pq_pop a) :: fst (pq_pop a)) /\ heap_ordered (fst (pq_pop a)).
Proof.
  intros a n L H. rewrite pq_pop_eq. cbn [fst snd].
  assert (Ne : a <> []) by (intro; subst; discriminate).
  split; [rewrite last_get, L; f_equal; lia|].
  split; [rewrite length_removelast; lia|].
  split.
  - rewrite (removelast_last a Ne) at 1. apply Permutation_sym, Permutation_cons_append.
  - unfold heap_ordered. rewrite length_removelast, L. replace (S n - 1) with n by lia.
    intros p c Hc Hcn. rewrite !get_removelast by (unfold child in Hc; lia). apply H; assumption.
Qed.

Lemma heap_push_spec : forall a x, heap_ordered a ->
  length (heap_push a x) = S (length a) /\ Permutation (x :: a) (heap_push a x) /\ heap_ordered (heap_push a x).
Proof.
  intros a x H. unfold heap_push, heap_up. rewrite pq_push_eq.
  assert (L1 : length (a ++ [x]) = S (length a)) by (rewrite app_length; simpl; lia).
  rewrite L1. replace (S (length a) - 1) with (length a) by lia.
  destruct (up_loop_spec (length a) (a ++ [x]) (length a) (S (length a))) as [L [Pm [_ Hp]]]; try lia.
  { split.
    - intros p c Hc Hcn Hne. rewrite !get_app_l by (unfold child in Hc; lia). apply H; [assumption | lia].
    - intros c Hc Hcn _. unfold child in Hc. lia. }
  split; [lia|]. split.
  - eapply perm_trans; [apply Permutation_cons_append | exact Pm].
  - unfold heap_ordered. rewrite L, L1. exact Hp.
Qed.

Lemma heap_pop_spec : forall a, 0 < length a -> heap_ordered a ->
  snd (heap_pop a) = get a 0 /\ length (fst (heap_pop a)) = length a - 1 /\
  Permutation a (snd (heap_pop a) :: fst (heap_pop a)) /\ heap_ordered (fst (heap_pop a)).
Proof.
  intros a Hl H. rewrite heap_pop_eq, heap_down_eq. cbn [fst].
  set (n := length a - 1). rewrite Nat.sub_0_r.
  assert (L0 : 0 < length a) by assumption. assert (Ln : n < length a) by (unfold n; lia).
  assert (G : forall k, get (pq_swap a 0 n) k = if k =? n then get a 0 else if k =? 0 then get a n else get a k).
  { intros. apply get_swap; assumption. }
  destruct (down_loop_spec n (pq_swap a 0 n) 0 n) as [L [Pm [Fr [_ [_ Hp]]]]]; try lia.
  { rewrite length_swap. lia. }
  { split.
    - intros p c Hc Hcn Hp0 Hc0. rewrite !G.
      destruct (c =? n) eqn:X; [apply Nat.eqb_eq in X; lia|]. clear X.
      destruct (p =? n) eqn:X; [apply Nat.eqb_eq in X; unfold child in Hc; lia|]. clear X.
      destruct (c =? 0) eqn:X; [apply Nat.eqb_eq in X; lia|]. clear X.
      destruct (p =? 0) eqn:X; [apply Nat.eqb_eq in X; lia|]. clear X.
      apply H; [assumption | lia].
    - intros; lia. }
  set (a2 := fst (down_loop n (pq_swap a 0 n) 0 n)) in *.
  rewrite length_swap in L.
  destruct (pop_last_spec a2 n) as [S1 [S2 [S3 S4]]]; [unfold n in *; lia| |].
  { intros p c Hc Hcn. apply Hp; auto. left. unfold child in Hc. lia. }
  split.
  - rewrite S1, Fr by lia. rewrite G, Nat.eqb_refl. reflexivity.
  - split; [exact S2|]. split; [|exact S4].
    eapply perm_trans; [apply (swap_perm a 0 n); assumption|]. eapply perm_trans; [exact Pm | exact S3].
Qed.

Lemma heap_remove_spec : forall a i, i < length a -> heap_ordered a ->
  snd (heap_remove a i) = get a i /\ length (fst (heap_remove a i)) = length a - 1 /\
  Permutation a (snd (heap_remove a i) :: fst (heap_remove a i)) /\ heap_ordered (fst (heap_remove a i)).
Proof.
  intros a i Hi H. rewrite heap_remove_eq. set (n := length a - 1).
  assert (Ln : n < length a) by (unfold n; lia).
  (* the array before the final h.Pop(): same length, a permutation, a[i] moved to the end, heap order below n *)
  match goal with |- context [pq_pop ?X] => set (a3 := X) end.
  assert (K : length a3 = length a /\ Permutation a a3 /\ get a3 n = get a i /\ heap_upto a3 n).
  { unfold a3. destruct (n =? i) eqn:E; cbn [negb].
    { apply Nat.eqb_eq in E. subst i. split; [reflexivity|]. split; [apply Permutation_refl|]. split; [reflexivity|].
      intros p c Hc Hcn. apply H; [assumption | lia]. }
    apply Nat.eqb_neq in E. assert (Hin : i < n) by lia.
    assert (G : forall k, get (pq_swap a i n) k = if k =? n then get a i else if k =? i then get a n else get a k).
    { intros. apply get_swap; assumption. }
    assert (I2 : forall c, child i c -> c < n -> 0 < i -> (P (pq_swap a i n) ((i - 1) / 2) <= P (pq_swap a i n) c)%Z).
    { intros c Hc Hcn Hi0. rewrite !G.
      destruct ((i - 1) / 2 =? n) eqn:X; [apply Nat.eqb_eq in X; lia|]. clear X.
      destruct ((i - 1) / 2 =? i) eqn:X; [apply Nat.eqb_eq in X; lia|]. clear X.
      destruct (c =? n) eqn:X; [apply Nat.eqb_eq in X; lia|]. clear X.
      destruct (c =? i) eqn:X; [apply Nat.eqb_eq in X; unfold child in Hc; lia|]. clear X.
      assert ((P a ((i - 1) / 2) <= P a i)%Z) by (apply H; [unfold child; lia | lia]).
      assert ((P a i <= P a c)%Z) by (apply H; [assumption | lia]). lia. }
    rewrite heap_down_eq. cbn [fst snd].
    destruct (down_loop_spec (n - i) (pq_swap a i n) i n) as [L [Pm [Fr [Hle [Hsame Hp]]]]]; try lia.
    { rewrite length_swap. lia. }
    { split; [|exact I2].
      intros p c Hc Hcn Hpi Hci. rewrite !G.
      destruct (c =? n) eqn:X; [apply Nat.eqb_eq in X; lia|]. clear X.
      destruct (p =? n) eqn:X; [apply Nat.eqb_eq in X; unfold child in Hc; lia|]. clear X.
      destruct (c =? i) eqn:X; [apply Nat.eqb_eq in X; lia|]. clear X.
      destruct (p =? i) eqn:X; [apply Nat.eqb_eq in X; lia|]. clear X.
      apply H; [assumption | lia]. }
    set (a2 := fst (down_loop (n - i) (pq_swap a i n) i n)) in *.
    set (i' := snd (down_loop (n - i) (pq_swap a i n) i n)) in *.
    rewrite length_swap in L.
    assert (Pa : Permutation a a2) by (eapply perm_trans; [apply (swap_perm a i n); assumption | exact Pm]).
    assert (Gn : get a2 n = get a i).
    { rewrite Fr by lia. rewrite G, Nat.eqb_refl. reflexivity. }
    destruct (i <? i') eqn:Em; cbn [negb].
    - apply Nat.ltb_lt in Em. split; [exact L|]. split; [exact Pa|]. split; [exact Gn|].
      intros p c Hc Hcn. apply Hp; auto.
    - apply Nat.ltb_ge in Em. assert (Ei : i' = i) by lia. pose proof (Hsame Ei) as Ea2.
      unfold heap_up.
      destruct (up_loop_spec i a2 i n) as [L' [Pm' [Fr' Hp']]]; try lia.
      { split.
        - intros p c Hc Hcn Hci. apply Hp; auto.
        - rewrite Ea2. exact I2. }
      split; [lia|]. split; [eapply perm_trans; [exact Pa | exact Pm']|]. split; [|exact Hp'].
      rewrite Fr' by lia. exact Gn. }
  destruct K as [K1 [K2 [K3 K4]]].
  destruct (pop_last_spec a3 n) as [S1 [S2 [S3 S4]]]; [unfold n in *; lia | exact K4 |].
  split; [rewrite S1; exact K3|]. split; [exact S2|]. split; [|exact S4].
  eapply perm_trans; [exact K2 | exact S3].
Qed.

(* the root of a heap-ordered array is a minimum *)
Lemma root_min : forall a, heap_ordered a -> forall k, k < length a -> (P a 0 <= P a k)%Z.
Proof.
  intros a H k. induction k as [k IH] using lt_wf_ind. intros Hk.
  destruct k as [|k']; [lia|]. set (k := S k') in *.
  assert (Hp : (k - 1) / 2 < k) by (unfold k; lia).
  assert ((P a 0 <= P a ((k - 1) / 2))%Z) by (apply IH; lia).
  assert ((P a ((k - 1) / 2) <= P a k)%Z) by (apply H; [unfold child, k; lia | assumption]).
  lia.
Qed.

Lemma root_min_in : forall a e, heap_ordered a -> In e a -> (P a 0 <= e_prio e)%Z.
Proof.
  intros a e H Hin. destruct (In_nth a e dflt Hin) as [k [Hk E]].
  fold (get a k) in E. rewrite <- E. apply root_min; assumption.
Qed.

Lemma get_in : forall a k, k < length a -> In (get a k) a.
Proof. intros. apply nth_In. assumption. Qed.
