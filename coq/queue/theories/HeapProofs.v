(* Proofs about the array heap: up, down, heap.Push, heap.Pop, heap.Remove keep the heap order,
   permute the array and remove exactly the addressed element. *)
From Coq Require Import ZArith String List Bool Arith Lia ZifyNat Permutation.
Require Import QzQueue.Gen.Params QzQueue.Entry QzQueue.Matcher QzQueue.HeapModel QzQueue.QueueSpec.
Import ListNotations.
Open Scope nat_scope.
Open Scope list_scope.

Notation P a i := (e_prio (get a i)).
Definition child (p c : nat) : Prop := c = 2 * p + 1 \/ c = 2 * p + 2.

(* ---- facts read from the source through Params ---- *)
Lemma less_is_lt : forall a i j, pq_less a i j = (P a i <? P a j)%Z.
Proof. reflexivity. Qed.
Lemma pq_swap_eq : forall a i j, pq_swap a i j = set (set a i (get a j)) j (get a i).
Proof. reflexivity. Qed.
Lemma pq_push_eq : forall a x, pq_push a x = a ++ [x].
Proof. reflexivity. Qed.
Lemma pq_pop_eq : forall a, pq_pop a = (removelast a, last a dflt).
Proof. reflexivity. Qed.

(* ---- get / set ---- *)
Lemma length_set : forall a i x, length (set a i x) = length a.
Proof. induction a; intros [|i] x; simpl; auto. Qed.

Lemma get_set : forall a i x k, i < length a -> get (set a i x) k = if k =? i then x else get a k.
Proof.
  unfold get. induction a as [|h t IH]; intros i x k H; simpl in H; [lia|].
  destruct i as [|i]; destruct k as [|k]; simpl; try reflexivity.
  apply IH. lia.
Qed.

Lemma set_get_same : forall a i, set a i (get a i) = a.
Proof.
  unfold get. induction a as [|h t IH]; intros [|i]; simpl; try reflexivity.
  f_equal. apply IH.
Qed.

Lemma set_perm : forall a i x, i < length a -> Permutation (x :: a) (get a i :: set a i x).
Proof.
  unfold get. induction a as [|h t IH]; intros i x H; simpl in H; [lia|].
  destruct i as [|i]; simpl.
  - apply perm_swap.
  - eapply perm_trans; [apply perm_swap|].
    eapply perm_trans; [apply perm_skip, (IH i x); lia|]. apply perm_swap.
Qed.

Lemma length_swap : forall a i j, length (pq_swap a i j) = length a.
Proof. intros. rewrite pq_swap_eq, !length_set. reflexivity. Qed.

Lemma get_swap : forall a i j k, i < length a -> j < length a ->
  get (pq_swap a i j) k = if k =? j then get a i else if k =? i then get a j else get a k.
Proof.
  intros. rewrite pq_swap_eq, get_set by (rewrite length_set; assumption).
  destruct (k =? j); [reflexivity|]. apply get_set. assumption.
Qed.

Lemma swap_same : forall a i, pq_swap a i i = a.
Proof.
  intros. rewrite pq_swap_eq.
  destruct (Nat.lt_ge_cases i (length a)) as [H|H].
  - apply nth_ext with (d := dflt) (d' := dflt); [rewrite !length_set; reflexivity|].
    intros k _. fold (get (set (set a i (get a i)) i (get a i)) k). fold (get a k).
    rewrite get_set by (rewrite length_set; assumption). rewrite get_set by assumption.
    destruct (k =? i) eqn:E; [apply Nat.eqb_eq in E; subst; reflexivity | reflexivity].
  - rewrite set_get_same. apply set_get_same.
Qed.

Lemma swap_perm : forall a i j, i < length a -> j < length a -> Permutation a (pq_swap a i j).
Proof.
  intros a i j Hi Hj. destruct (Nat.eq_dec i j) as [->|N]; [rewrite swap_same; apply Permutation_refl|].
  rewrite pq_swap_eq. set (a1 := set a i (get a j)).
  assert (L1 : length a1 = length a) by apply length_set.
  pose proof (set_perm a i (get a j) Hi) as P1. fold a1 in P1.
  assert (Hj1 : j < length a1) by lia.
  pose proof (set_perm a1 j (get a i) Hj1) as P2.
  assert (E : get a1 j = get a j).
  { unfold a1. rewrite get_set by assumption. destruct (j =? i) eqn:E; [apply Nat.eqb_eq in E; lia | reflexivity]. }
  rewrite E in P2. apply Permutation_cons_inv with (a := get a j).
  eapply perm_trans; [exact P1 | exact P2].
Qed.

Lemma get_app_l : forall a b k, k < length a -> get (a ++ b) k = get a k.
Proof. intros. unfold get. apply app_nth1. assumption. Qed.
Lemma get_app_last : forall a x, get (a ++ [x]) (length a) = x.
Proof. intros. unfold get. rewrite app_nth2, Nat.sub_diag by lia. reflexivity. Qed.

Lemma get_removelast : forall a k, k < length a - 1 -> get (removelast a) k = get a k.
Proof.
  unfold get. induction a as [|h t IH]; intros k H; simpl in *; [lia|].
  destruct t as [|h2 t2]; [simpl in H; lia|].
  destruct k as [|k]; [reflexivity|]. apply IH. simpl in *. lia.
Qed.
Lemma length_removelast : forall a : list entry, length (removelast a) = length a - 1.
Proof.
  induction a as [|h t IH]; [reflexivity|]. destruct t as [|h2 t2]; [reflexivity|].
  change (removelast (h :: h2 :: t2)) with (h :: removelast (h2 :: t2)). simpl length in *. lia.
Qed.
Lemma last_get : forall a, last a dflt = get a (length a - 1).
Proof.
  unfold get. induction a as [|h t IH]; [reflexivity|]. destruct t as [|h2 t2]; [reflexivity|].
  change (last (h :: h2 :: t2) dflt) with (last (h2 :: t2) dflt). rewrite IH. simpl. rewrite Nat.sub_0_r. reflexivity.
Qed.
Lemma removelast_last : forall a : list entry, a <> [] -> a = removelast a ++ [last a dflt].
Proof. intros. apply app_removelast_last. assumption. Qed.

Ltac split4 := split; [|split; [|split]].
Ltac same4 := split4; [reflexivity | apply Permutation_refl | reflexivity | ].

(* ---- up ---- *)
Definition up_inv (a : list entry) (j n : nat) : Prop :=
  (forall p c, child p c -> c < n -> c <> j -> (P a p <= P a c)%Z) /\
  (forall c, child j c -> c < n -> 0 < j -> (P a ((j - 1) / 2) <= P a c)%Z).

Lemma up_loop_spec : forall fuel a j n, j <= fuel -> j < n -> n <= length a -> up_inv a j n ->
  let a' := up_loop fuel a j in
  length a' = length a /\ Permutation a a' /\ (forall k, j < k -> get a' k = get a k) /\ heap_upto a' n.
Proof.
  induction fuel as [|f IH]; intros a j n Hf Hj Hn [I1 I2]; cbv zeta; cbn [up_loop].
  - same4. intros p c Hc Hcn. apply I1; auto. unfold child in Hc. lia.
  - destruct ((j - 1) / 2 =? j) eqn:E0; cbn [orb negb].
    { apply Nat.eqb_eq in E0. same4. intros p c Hc Hcn. apply I1; auto. unfold child in Hc. lia. }
    apply Nat.eqb_neq in E0.
    rewrite less_is_lt. destruct (P a j <? P a ((j - 1) / 2))%Z eqn:E1; cbn [orb negb].
    2:{ apply Z.ltb_ge in E1. same4. intros p c Hc Hcn.
        destruct (Nat.eq_dec c j) as [->|N]; [|apply I1; auto].
        replace p with ((j - 1) / 2) by (unfold child in Hc; lia). exact E1. }
    apply Z.ltb_lt in E1.
    set (i := (j - 1) / 2) in *.
    assert (Hij : i < j) by (unfold i; lia).
    assert (Hchild : child i j) by (unfold child, i; lia).
    assert (Li : i < length a) by lia. assert (Lj : j < length a) by lia.
    assert (G : forall k, P (pq_swap a i j) k = if k =? j then P a i else if k =? i then P a j else P a k).
    { intros k. rewrite get_swap by assumption. destruct (k =? j); [reflexivity|]. destruct (k =? i); reflexivity. }
    destruct (IH (pq_swap a i j) i n) as [L [Pm [Fr Hp]]]; try lia.
    { rewrite length_swap. assumption. }
    { split.
      - intros p c Hc Hcn Hci. rewrite !G.
        destruct (c =? j) eqn:Ecj.
        + apply Nat.eqb_eq in Ecj. subst c. assert (p = i) by (unfold child in *; lia). subst p.
          rewrite Nat.eqb_refl. destruct (i =? j) eqn:X; [apply Nat.eqb_eq in X; lia|]. lia.
        + apply Nat.eqb_neq in Ecj. destruct (c =? i) eqn:Eci; [apply Nat.eqb_eq in Eci; lia|].
          destruct (p =? j) eqn:Epj.
          * apply Nat.eqb_eq in Epj. subst p. apply (I2 c Hc Hcn). lia.
          * apply Nat.eqb_neq in Epj. destruct (p =? i) eqn:Epi.
            -- apply Nat.eqb_eq in Epi. subst p. pose proof (I1 i c Hc Hcn Ecj). lia.
            -- apply I1; auto.
      - intros c Hc Hcn Hi0. rewrite !G.
        assert (Hg : (i - 1) / 2 < i) by lia.
        assert (Hgc : child ((i - 1) / 2) i) by (unfold child; lia).
        destruct ((i - 1) / 2 =? j) eqn:X1; [apply Nat.eqb_eq in X1; lia|].
        destruct ((i - 1) / 2 =? i) eqn:X2; [apply Nat.eqb_eq in X2; lia|].
        assert (Hgi : (P a ((i - 1) / 2) <= P a i)%Z) by (apply I1; auto; lia).
        destruct (c =? j) eqn:Ecj; [exact Hgi|]. apply Nat.eqb_neq in Ecj.
        destruct (c =? i) eqn:Eci; [apply Nat.eqb_eq in Eci; unfold child in Hc; lia|].
        pose proof (I1 i c Hc Hcn Ecj). lia. }
    rewrite length_swap in L. split4; auto.
    + eapply perm_trans; [exact (swap_perm a i j Li Lj) | exact Pm].
    + intros k Hk. rewrite Fr by lia. rewrite get_swap by assumption.
      destruct (k =? j) eqn:X1; [apply Nat.eqb_eq in X1; lia|].
      destruct (k =? i) eqn:X2; [apply Nat.eqb_eq in X2; lia|]. reflexivity.
Qed.

Lemma up_loop_S : forall f a j, up_loop (S f) a j =
  if ((j - 1) / 2 =? j) || negb (pq_less a j ((j - 1) / 2)) then a
  else up_loop f (pq_swap a ((j - 1) / 2) j) ((j - 1) / 2).
Proof. reflexivity. Qed.

Lemma up_loop_fuel2 : forall f1 f2 a j, j <= f1 -> j <= f2 -> up_loop f1 a j = up_loop f2 a j.
Proof.
  induction f1 as [|f1 IH]; intros f2 a j H1 H2.
  - replace j with 0 in * by lia. destruct f2; reflexivity.
  - destruct f2 as [|f2].
    + replace j with 0 in * by lia. reflexivity.
    + rewrite !up_loop_S.
      destruct (((j - 1) / 2 =? j) || negb (pq_less a j ((j - 1) / 2))) eqn:E; [reflexivity|].
      apply orb_false_iff in E. destruct E as [E _]. apply Nat.eqb_neq in E.
      apply IH; lia.
Qed.

(* the fuel-0 branch never cuts the loop short: any fuel >= j gives the result of fuel j *)
Lemma up_loop_fuel : forall fuel a j, j <= fuel -> up_loop fuel a j = heap_up a j.
Proof. intros. unfold heap_up. apply up_loop_fuel2; lia. Qed.

(* ---- down ---- *)
Definition down_inv (a : list entry) (i n : nat) : Prop :=
  (forall p c, child p c -> c < n -> p <> i -> c <> i -> (P a p <= P a c)%Z) /\
  (forall c, child i c -> c < n -> 0 < i -> (P a ((i - 1) / 2) <= P a c)%Z).

Lemma down_loop_S : forall f a i n, down_loop (S f) a i n =
  if n <=? 2 * i + 1 then (a, i)
  else if negb (pq_less a (if (2 * i + 1 + 1 <? n) && pq_less a (2 * i + 1 + 1) (2 * i + 1) then 2 * i + 1 + 1 else 2 * i + 1) i)
       then (a, i)
       else down_loop f (pq_swap a i (if (2 * i + 1 + 1 <? n) && pq_less a (2 * i + 1 + 1) (2 * i + 1) then 2 * i + 1 + 1 else 2 * i + 1))
                      (if (2 * i + 1 + 1 <? n) && pq_less a (2 * i + 1 + 1) (2 * i + 1) then 2 * i + 1 + 1 else 2 * i + 1) n.
Proof. reflexivity. Qed.

Definition down_post (a : list entry) (i n : nat) (a' : list entry) (i' : nat) : Prop :=
  length a' = length a /\ Permutation a a' /\
  (forall k, k < i \/ n <= k -> get a' k = get a k) /\
  i <= i' /\ (i' = i -> a' = a) /\
  (forall p c, child p c -> c < n -> c <> i \/ i < i' -> (P a' p <= P a' c)%Z).

Lemma down_loop_spec : forall fuel a i n, n - i <= fuel -> n <= length a -> down_inv a i n ->
  down_post a i n (fst (down_loop fuel a i n)) (snd (down_loop fuel a i n)).
Proof.
  induction fuel as [|f IH]; intros a i n Hf Hn [I1 I2].
  - cbn [down_loop fst snd]. unfold down_post. repeat (split; [auto; try apply Permutation_refl|]).
    intros p c Hc Hcn Hor. apply I1; auto; unfold child in Hc; lia.
  - rewrite down_loop_S. destruct (n <=? 2 * i + 1) eqn:E0.
    { apply Nat.leb_le in E0. cbn [fst snd]. unfold down_post. repeat (split; [auto; try apply Permutation_refl|]).
      intros p c Hc Hcn Hor. apply I1; auto; unfold child in Hc; lia. }
    apply Nat.leb_gt in E0.
    set (j1 := 2 * i + 1) in *. set (j2 := j1 + 1) in *.
    set (j := if (j2 <? n) && pq_less a j2 j1 then j2 else j1) in *.
    (* the chosen child is a child of i, below n, and not larger than the other child *)
    assert (Hj : (j = j1 \/ j = j2) /\ j < n /\ (forall c, child i c -> c < n -> (P a j <= P a c)%Z)).
    { unfold j. rewrite less_is_lt. destruct (j2 <? n) eqn:E2; cbn [andb].
      - apply Nat.ltb_lt in E2. destruct (P a j2 <? P a j1)%Z eqn:E3.
        + apply Z.ltb_lt in E3. split; [right; reflexivity|]. split; [assumption|].
          intros c Hc Hcn. assert (c = j1 \/ c = j2) as [->| ->] by (unfold child, j1, j2 in *; lia); lia.
        + apply Z.ltb_ge in E3. split; [left; reflexivity|]. split; [assumption|].
          intros c Hc Hcn. assert (c = j1 \/ c = j2) as [->| ->] by (unfold child, j1, j2 in *; lia); lia.
      - apply Nat.ltb_ge in E2. split; [left; reflexivity|]. split; [assumption|].
        intros c Hc Hcn. assert (c = j1) as -> by (unfold child, j1, j2 in *; lia). lia. }
    destruct Hj as [Hjj [Hjn Hjmin]].
    assert (Hcij : child i j) by (unfold child, j1, j2 in *; lia).
    assert (Hij : i < j) by (unfold j1, j2 in *; lia).
    rewrite less_is_lt. destruct (P a j <? P a i)%Z eqn:E1; cbn [negb].
    2:{ apply Z.ltb_ge in E1. cbn [fst snd]. unfold down_post. repeat (split; [auto; try apply Permutation_refl|]).
        intros p c Hc Hcn Hor. destruct (Nat.eq_dec p i) as [->|Np].
        - pose proof (Hjmin c Hc Hcn). lia.
        - apply I1; auto. lia. }
    apply Z.ltb_lt in E1.
    assert (Li : i < length a) by lia. assert (Lj : j < length a) by lia.
    assert (G : forall k, P (pq_swap a i j) k = if k =? j then P a i else if k =? i then P a j else P a k).
    { intros k. rewrite get_swap by assumption. destruct (k =? j); [reflexivity|]. destruct (k =? i); reflexivity. }
    destruct (IH (pq_swap a i j) j n) as [L [Pm [Fr [Hle [Hsame Hp]]]]]; try lia.
    { rewrite length_swap. assumption. }
    { split.
      - intros p c Hc Hcn Hpj Hcj. rewrite !G.
        destruct (c =? j) eqn:X; [apply Nat.eqb_eq in X; lia|]. clear X.
        destruct (p =? j) eqn:X; [apply Nat.eqb_eq in X; lia|]. clear X.
        destruct (c =? i) eqn:Eci.
        + apply Nat.eqb_eq in Eci. subst c.
          assert (p = (i - 1) / 2) by (unfold child in Hc; lia). subst p.
          destruct ((i - 1) / 2 =? i) eqn:X; [apply Nat.eqb_eq in X; unfold child in Hc; lia|].
          apply I2; auto. unfold child in Hc; lia.
        + apply Nat.eqb_neq in Eci. destruct (p =? i) eqn:Epi.
          * apply Nat.eqb_eq in Epi. subst p. apply Hjmin; assumption.
          * apply Nat.eqb_neq in Epi. apply I1; assumption.
      - intros c Hc Hcn _. rewrite !G.
        replace ((j - 1) / 2) with i by (unfold child in Hcij; lia).
        destruct (i =? j) eqn:X; [apply Nat.eqb_eq in X; lia|]. clear X.
        rewrite Nat.eqb_refl.
        destruct (c =? j) eqn:X; [apply Nat.eqb_eq in X; unfold child in Hc; lia|]. clear X.
        destruct (c =? i) eqn:X; [apply Nat.eqb_eq in X; unfold child in Hc, Hcij; lia|]. apply Nat.eqb_neq in X.
        apply I1; auto; unfold child in Hc; lia. }
    rewrite length_swap in L.
    unfold down_post. split; [exact L|]. split; [eapply perm_trans; [exact (swap_perm a i j Li Lj) | exact Pm]|].
    split.
    { intros k Hk. rewrite Fr by lia. rewrite get_swap by assumption.
      destruct (k =? j) eqn:X1; [apply Nat.eqb_eq in X1; lia|].
      destruct (k =? i) eqn:X2; [apply Nat.eqb_eq in X2; lia|]. reflexivity. }
    split; [lia|]. split; [lia|].
    intros p c Hc Hcn _.
    set (a' := fst (down_loop f (pq_swap a i j) j n)) in *.
    set (i' := snd (down_loop f (pq_swap a i j) j n)) in *.
    destruct (Nat.eq_dec c j) as [->|Ncj].
    + destruct (Nat.eq_dec i' j) as [Ei|Ni]; [|apply Hp; auto; lia].
      rewrite (Hsame Ei), !G. assert (p = i) by (unfold child in *; lia). subst p.
      rewrite !Nat.eqb_refl. destruct (i =? j) eqn:X; [apply Nat.eqb_eq in X; lia|]. lia.
    + apply Hp; auto.
Qed.

Lemma down_loop_fuel2 : forall f1 f2 a i n, n - i <= f1 -> n - i <= f2 -> down_loop f1 a i n = down_loop f2 a i n.
Proof.
  induction f1 as [|f1 IH]; intros f2 a i n H1 H2.
  - destruct f2 as [|f2]; [reflexivity|]. rewrite down_loop_S.
    destruct (n <=? 2 * i + 1) eqn:E; [reflexivity | apply Nat.leb_gt in E; lia].
  - destruct f2 as [|f2].
    + rewrite down_loop_S. destruct (n <=? 2 * i + 1) eqn:E; [reflexivity | apply Nat.leb_gt in E; lia].
    + rewrite !down_loop_S. destruct (n <=? 2 * i + 1) eqn:E; [reflexivity|]. apply Nat.leb_gt in E.
      match goal with |- (if ?c then _ else _) = _ => destruct c; [reflexivity|] end.
      apply IH; destruct ((2 * i + 1 + 1 <? n) && pq_less a (2 * i + 1 + 1) (2 * i + 1)); lia.
Qed.

(* the fuel-0 branch never cuts the loop short *)
Lemma down_loop_fuel : forall fuel a i n, n - i <= fuel -> down_loop fuel a i n = down_loop (n - i) a i n.
Proof. intros. apply down_loop_fuel2; lia. Qed.
