(* Proofs about the string operators and matchers. *)
From Coq Require Import ZArith String Ascii List Bool Arith Lia.
Require Import QzQueue.Gen.Params QzQueue.Entry QzQueue.Matcher QzQueue.HeapModel QzQueue.QueueSpec.
Import ListNotations.
Open Scope string_scope.

Lemma has_prefix_spec : forall p s, has_prefix s p = true <-> exists t, s = p ++ t.
Proof.
  induction p as [|c p IH]; intros s; simpl.
  - split; [intros _; exists s; reflexivity | reflexivity].
  - destruct s as [|d s].
    + split; [discriminate | intros [t H]; discriminate].
    + rewrite andb_true_iff, Ascii.eqb_eq, IH. split.
      * intros [-> [t ->]]. exists t. reflexivity.
      * intros [t H]. injection H as -> ->. split; [reflexivity | exists t; reflexivity].
Qed.

Lemma str_length_app : forall a b, String.length (a ++ b) = (String.length a + String.length b)%nat.
Proof. induction a; simpl; intros; [reflexivity | rewrite IHa; reflexivity]. Qed.

Lemma str_drop_app : forall t p, str_drop (String.length t) (t ++ p) = p.
Proof. induction t; simpl; intros; [reflexivity | apply IHt]. Qed.

Lemma str_split : forall n s, (n <= String.length s)%nat -> exists t, s = t ++ str_drop n s /\ String.length t = n.
Proof.
  induction n; intros s H.
  - exists "". split; reflexivity.
  - destruct s as [|c s]; simpl in H; [lia|].
    destruct (IHn s) as [t [E L]]; [lia|].
    exists (String c t). simpl. split; [f_equal; exact E | f_equal; exact L].
Qed.

Lemma has_suffix_spec : forall p s, has_suffix s p = true <-> exists t, s = t ++ p.
Proof.
  intros p s. unfold has_suffix. rewrite andb_true_iff, Nat.leb_le, String.eqb_eq. split.
  - intros [L E]. destruct (str_split (String.length s - String.length p) s) as [t [Es _]]; [lia|].
    exists t. rewrite E in Es. exact Es.
  - intros [t ->]. rewrite str_length_app. split; [lia|].
    replace (String.length t + String.length p - String.length p)%nat with (String.length t) by lia.
    apply str_drop_app.
Qed.

Lemma contains_spec : forall p s, contains s p = true <-> exists a b, s = a ++ p ++ b.
Proof.
  intros p. induction s as [|c s IH]; simpl.
  - rewrite orb_false_r, has_prefix_spec. split.
    + intros [t H]. exists "", t. exact H.
    + intros [a [b H]]. destruct a; simpl in H; [exists b; exact H | discriminate].
  - rewrite orb_true_iff, has_prefix_spec, IH. split.
    + intros [[t H] | [a [b H]]].
      * exists "", t. exact H.
      * exists (String c a), b. simpl. rewrite H. reflexivity.
    + intros [a [b H]]. destruct a as [|d a]; simpl in H.
      * left. exists b. exact H.
      * right. injection H as _ H. exists a, b. exact H.
Qed.

Lemma apply_op_spec : forall o s p, apply_op o s p = true <-> op_holds o s p.
Proof.
  intros o s p. unfold apply_op. change matcher_source_first with true. cbv iota.
  destruct o; simpl.
  - change op_StringEquals with FEq. simpl. unfold str_equals. apply String.eqb_eq.
  - change op_StringStartsWith with FHasPrefix. simpl. apply has_prefix_spec.
  - change op_StringEndsWith with FHasSuffix. simpl. apply has_suffix_spec.
  - change op_StringContains with FContains. simpl. apply contains_spec.
Qed.

Lemma is_match_spec : forall m e, is_match m e = true <-> matches m e.
Proof.
  intros [o p | o p | s] e; simpl.
  - change jobname_field with FieldName. apply apply_op_spec.
  - change jobgroup_field with FieldGroup. apply apply_op_spec.
  - change status_op with OpEq. simpl. apply Bool.eqb_true_iff.
Qed.

Lemma all_match_forallb : forall ms e, all_match ms e = forallb (fun m => is_match m e) ms.
Proof. induction ms; simpl; intros; [reflexivity | destruct (is_match a e); simpl; auto]. Qed.

Lemma all_match_spec : forall ms e, all_match ms e = true <-> Forall (fun m => matches m e) ms.
Proof.
  intros. rewrite all_match_forallb, forallb_forall, Forall_forall.
  split; intros H m Hin; apply is_match_spec, H, Hin.
Qed.

(* string operators on the strings the harness uses (non-vacuity / sanity) *)
Example string_ops_examples :
  apply_op StringStartsWith "alpha" "al" = true /\ apply_op StringStartsWith "alpha" "ha" = false /\
  apply_op StringEndsWith "alpha" "ha" = true /\ apply_op StringEndsWith "alpha" "al" = false /\
  apply_op StringContains "alpha" "lph" = true /\ apply_op StringContains "alpha" "" = true /\
  apply_op StringContains "alpha" "x" = false /\ apply_op StringEquals "alpha" "alpha" = true /\
  apply_op StringEquals "alpha" "alph" = false.
Proof. vm_compute. repeat split; reflexivity. Qed.

Lemma string_ops_spec : forall s p : string,
  (apply_op StringEquals s p = true <-> s = p) /\
  (apply_op StringStartsWith s p = true <-> exists t, s = p ++ t) /\
  (apply_op StringEndsWith s p = true <-> exists t, s = t ++ p) /\
  (apply_op StringContains s p = true <-> exists a b, s = a ++ p ++ b).
Proof.
  intros s p. repeat split; intros H;
    first [apply (apply_op_spec StringEquals) | apply (apply_op_spec StringStartsWith)
          | apply (apply_op_spec StringEndsWith) | apply (apply_op_spec StringContains)]; exact H.
Qed.
