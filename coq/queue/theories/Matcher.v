(* M2 -- matchers.  Definitions only.
   str_equals/has_prefix/has_suffix/contains <-> stringsEqual, strings.HasPrefix, strings.HasSuffix,
   strings.Contains (matcher/string_operator.go; the strings package is modelled from its documentation);
   is_match <-> JobName.IsMatch, JobGroup.IsMatch, JobStatus.IsMatch (matcher/*.go). *)
From Coq Require Import ZArith String Ascii List Bool Arith.
Require Import QzQueue.Gen.Params QzQueue.Entry.
Import ListNotations.
Open Scope string_scope.

(* stringsEqual(source, target) = source == target *)
Definition str_equals (s p : string) : bool := String.eqb s p.

(* strings.HasPrefix(s, prefix) = len(s) >= len(prefix) && s[:len(prefix)] == prefix *)
Fixpoint has_prefix (s p : string) {struct p} : bool :=
  match p, s with
  | EmptyString, _ => true
  | String c p', String d s' => Ascii.eqb d c && has_prefix s' p'
  | String _ _, EmptyString => false
  end.

Fixpoint str_drop (n : nat) (s : string) : string :=
  match n, s with
  | O, _ => s
  | S n', String _ s' => str_drop n' s'
  | S _, EmptyString => EmptyString
  end.

(* strings.HasSuffix(s, suffix) = len(s) >= len(suffix) && s[len(s)-len(suffix):] == suffix *)
Definition has_suffix (s p : string) : bool :=
  Nat.leb (String.length p) (String.length s) && String.eqb (str_drop (String.length s - String.length p) s) p.

(* strings.Contains(s, substr) = Index(s, substr) >= 0 : substr occurs at some offset of s *)
Fixpoint contains (s p : string) : bool :=
  has_prefix s p || match s with EmptyString => false | String _ s' => contains s' p end.

Definition run_strfun (f : strfun) (source target : string) : bool :=
  match f with
  | FEq => str_equals source target
  | FHasPrefix => has_prefix source target
  | FHasSuffix => has_suffix source target
  | FContains => contains source target
  end.

(* the four exported operators *)
Inductive strop := StringEquals | StringStartsWith | StringEndsWith | StringContains.
Definition strop_fun (o : strop) : strfun :=
  match o with
  | StringEquals => op_StringEquals | StringStartsWith => op_StringStartsWith
  | StringEndsWith => op_StringEndsWith | StringContains => op_StringContains
  end.
Definition apply_op (o : strop) (source pattern : string) : bool :=
  if matcher_source_first then run_strfun (strop_fun o) source pattern
  else run_strfun (strop_fun o) pattern source.

Inductive matcher :=
| MName (o : strop) (pattern : string)      (* matcher.JobName{Operator, Pattern} *)
| MGroup (o : strop) (pattern : string)     (* matcher.JobGroup{Operator, Pattern} *)
| MStatus (suspended : bool).               (* matcher.JobStatus{Suspended} *)

Definition is_match (m : matcher) (e : entry) : bool :=
  match m with
  | MName o p => apply_op o (key_field jobname_field (e_key e)) p
  | MGroup o p => apply_op o (key_field jobgroup_field (e_key e)) p
  | MStatus s => cmp_bool status_op (e_susp e) s
  end.
