(* C11 -- Default job queue is a keyed min-priority queue with exact matcher filtering.
   This file contains only the property theorems; each is closed by `exact` of a lemma proved in
   MatcherProofs.v / HeapProofs.v / HeapOpsProofs.v / QueueProofs.v and followed by Print Assumptions.
   Model: HeapModel.v (q_* <-> jobQueue.*, heap_* / up_loop / down_loop <-> container/heap),
   Matcher.v; specification: QueueSpec.v (spec_step over a key -> option entry map). *)
From Coq Require Import ZArith String List Bool Arith Permutation Sorted.
Require Import QzQueue.Gen.Params QzQueue.Entry QzQueue.Matcher QzQueue.HeapModel QzQueue.QueueSpec
  QzQueue.MatcherProofs QzQueue.HeapProofs QzQueue.HeapOpsProofs QzQueue.QueueProofs.
Import ListNotations.
Open Scope nat_scope.
Open Scope list_scope.

(* 1. Every sequence of calls, from the empty queue: the array stays heap ordered, keys stay distinct,
      and the calls with the results the model returns form a run of the keyed-map specification that
      ends in the abstraction of the array (Head/Pop: some minimum-priority entry; see QueueSpec.spec_step). *)
Theorem C11_heap_refines_keyed_pq : forall ops : list op,
  heap_ordered (fst (q_run [] ops)) /\ NoDup (keys (fst (q_run [] ops))) /\
  spec_run s_empty ops (snd (q_run [] ops)) (abs (fst (q_run [] ops))).
Proof. exact heap_refines_keyed_pq. Qed.
Print Assumptions C11_heap_refines_keyed_pq.

(* the same, one call from any heap-ordered state with distinct keys *)
Theorem C11_step_refines_from_any_state : forall (a : list entry) (o : op),
  heap_ordered a -> NoDup (keys a) ->
  heap_ordered (fst (q_step a o)) /\ NoDup (keys (fst (q_step a o))) /\
  spec_step (abs a) o (snd (q_step a o)) (abs (fst (q_step a o))).
Proof. exact step_refines_from_any_state. Qed.
Print Assumptions C11_step_refines_from_any_state.

(* Head and Pop return the array root; it is in the queue and no entry has a smaller priority;
   Pop removes exactly it and keeps the heap order *)
Theorem C11_head_pop_min : forall a : list entry, heap_ordered a -> a <> [] ->
  q_head a = (a, REntry (get a 0)) /\
  snd (q_pop a) = REntry (get a 0) /\ Permutation a (get a 0 :: fst (q_pop a)) /\ heap_ordered (fst (q_pop a)) /\
  In (get a 0) a /\ (forall e', In e' a -> (e_prio (get a 0) <= e_prio e')%Z).
Proof. exact head_pop_min. Qed.
Print Assumptions C11_head_pop_min.

(* 2. Push of an existing key *)
Theorem C11_push_duplicate_rejected : forall (a : list entry) (job : entry) (i : nat),
  find_key a (e_key job) = Some i -> e_replace job = false ->
  q_push a job = (a, RErr ErrJobAlreadyExists).
Proof. exact push_duplicate_rejected. Qed.
Print Assumptions C11_push_duplicate_rejected.

Theorem C11_push_replace_exact : forall (a : list entry) (job : entry) (i : nat),
  heap_ordered a -> NoDup (keys a) ->
  find_key a (e_key job) = Some i -> e_replace job = true ->
  snd (q_push a job) = ROk /\ e_key (get a i) = e_key job /\ In (get a i) a /\
  exists rest, Permutation a (get a i :: rest) /\ Permutation (fst (q_push a job)) (job :: rest).
Proof. exact push_replace_exact. Qed.
Print Assumptions C11_push_replace_exact.

Theorem C11_push_new_exact : forall (a : list entry) (job : entry),
  heap_ordered a -> find_key a (e_key job) = None ->
  snd (q_push a job) = ROk /\ Permutation (job :: a) (fst (q_push a job)).
Proof. exact push_new_exact. Qed.
Print Assumptions C11_push_new_exact.

(* 3. heap.Remove at any index *)
Theorem C11_remove_from_middle_keeps_heap : forall (a : list entry) (i : nat),
  heap_ordered a -> i < length a ->
  heap_ordered (fst (heap_remove a i)) /\ snd (heap_remove a i) = get a i /\
  Permutation a (get a i :: fst (heap_remove a i)).
Proof. exact remove_from_middle_keeps_heap. Qed.
Print Assumptions C11_remove_from_middle_keeps_heap.

(* 4. reads of an empty queue / of an absent key; Size; Clear *)
Theorem C11_empty_reads :
  q_pop [] = ([], RErr ErrQueueEmpty) /\ q_head [] = ([], RErr ErrQueueEmpty) /\
  (forall a k, ~ In k (keys a) -> q_get a k = (a, RErr ErrJobNotFound) /\ q_remove a k = (a, RErr ErrJobNotFound)) /\
  (forall a, q_size a = (a, RSize (length a))) /\ (forall a, q_clear a = ([], ROk)).
Proof. exact empty_reads. Qed.
Print Assumptions C11_empty_reads.

(* Get and Remove address entries by key *)
Theorem C11_keyed_reads : forall (a : list entry) (e : entry), heap_ordered a -> NoDup (keys a) -> In e a ->
  q_get a (e_key e) = (a, REntry e) /\
  snd (q_remove a (e_key e)) = REntry e /\ Permutation a (e :: fst (q_remove a (e_key e))) /\
  heap_ordered (fst (q_remove a (e_key e))).
Proof. exact keyed_reads. Qed.
Print Assumptions C11_keyed_reads.

(* 5. ScheduledJobs / GetJobKeys return exactly the entries satisfying all matchers, in array order *)
Theorem C11_filter_exact : forall (a : list entry) (ms : list matcher),
  q_scheduled a ms = (a, RList (filter (fun e => forallb (fun m => is_match m e) ms) a)) /\
  (forall e, In e (filter (fun e => forallb (fun m => is_match m e) ms) a) <->
             In e a /\ Forall (fun m => matches m e) ms) /\
  get_job_keys a ms = map e_key (filter (fun e => forallb (fun m => is_match m e) ms) a) /\
  q_scheduled a [] = (a, RList a).
Proof. exact filter_exact. Qed.
Print Assumptions C11_filter_exact.

Theorem C11_string_ops_spec : forall s p : string,
  (apply_op StringEquals s p = true <-> s = p) /\
  (apply_op StringStartsWith s p = true <-> exists t, s = (p ++ t)%string) /\
  (apply_op StringEndsWith s p = true <-> exists t, s = (t ++ p)%string) /\
  (apply_op StringContains s p = true <-> exists a b, s = (a ++ p ++ b)%string).
Proof. exact string_ops_spec. Qed.
Print Assumptions C11_string_ops_spec.

Theorem C11_is_match_spec : forall (m : matcher) (e : entry),
  is_match m e = true <->
  match m with
  | MName o p => op_holds o (k_name (e_key e)) p
  | MGroup o p => op_holds o (k_group (e_key e)) p
  | MStatus s => e_susp e = s
  end.
Proof. exact is_match_spec. Qed.
Print Assumptions C11_is_match_spec.

Theorem C11_key_equals_eq : forall a b : key, key_equals a b = true <-> a = b.
Proof. exact key_equals_eq. Qed.
Print Assumptions C11_key_equals_eq.

(* 6. iterated Pop returns every entry once, priorities in non-decreasing order *)
Theorem C11_drain_sorted : forall a : list entry, heap_ordered a ->
  Permutation a (drain a) /\ StronglySorted Z.le (map e_prio (drain a)).
Proof. exact drain_sorted. Qed.
Print Assumptions C11_drain_sorted.

(* the model's loops are not cut short by their fuel argument *)
Theorem C11_loops_not_truncated :
  (forall fuel a j, j <= fuel -> up_loop fuel a j = heap_up a j) /\
  (forall fuel a i n, n - i <= fuel -> down_loop fuel a i n = down_loop (n - i) a i n).
Proof. exact loops_not_truncated. Qed.
Print Assumptions C11_loops_not_truncated.

(* thread safety: every method holds jq.mtx for its whole body (read from the source), so any
   concurrent history, taken in lock-acquisition order, is a run of the specification *)
Theorem C11_concurrent_history_refines : forall (h : list (nat * op)) (a : list entry),
  heap_ordered a -> NoDup (keys a) ->
  (forall c, In c h -> method_atomic (snd c) = true) /\
  heap_ordered (fst (c_run a h)) /\ NoDup (keys (fst (c_run a h))) /\
  spec_run (abs a) (map snd h) (map snd (snd (c_run a h))) (abs (fst (c_run a h))).
Proof. exact concurrent_history_refines. Qed.
Print Assumptions C11_concurrent_history_refines.
