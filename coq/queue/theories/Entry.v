(* M2 -- queue entries and job keys.  Definitions only.
   entry <-> quartz.scheduledJob {job *JobDetail{jobKey, opts}, trigger, priority};
   key   <-> quartz.JobKey {name, group};  key_equals <-> JobKey.Equals (quartz/job_key.go). *)
From Coq Require Import ZArith String List Bool.
Require Import QzQueue.Gen.Params.
Import ListNotations.
Open Scope string_scope.

(* Go strings are byte sequences; Coq strings are lists of 8-bit characters. *)
Definition key := (string * string)%type.            (* (group, name) *)
Definition k_group (k : key) : string := fst k.
Definition k_name (k : key) : string := snd k.

Record entry := mkEntry {
  e_key : key;          (* JobDetail().jobKey *)
  e_prio : Z;           (* scheduledJob.priority (int64 in Go; any Z here) *)
  e_susp : bool;        (* JobDetail().opts.Suspended *)
  e_replace : bool;     (* JobDetail().opts.Replace *)
  e_id : Z              (* identity of the *scheduledJob (pointer identity in Go) *)
}.

Definition key_field (f : keyfield) (k : key) : string :=
  match f with FieldName => k_name k | FieldGroup => k_group k end.

(* JobKey.Equals: jobKey.name == that.name && jobKey.group == that.group
   (the list of compared fields comes from the source) *)
Definition key_equals (a b : key) : bool :=
  forallb (fun f => String.eqb (key_field f a) (key_field f b)) equals_fields.

Definition cmp (op : cmp_op) (a b : Z) : bool :=
  match op with
  | OpGe => (b <=? a)%Z | OpGt => (b <? a)%Z | OpLe => (a <=? b)%Z | OpLt => (a <? b)%Z
  | OpEq => (a =? b)%Z | OpNe => negb (a =? b)%Z
  end.

Definition cmp_bool (op : cmp_op) (a b : bool) : bool :=
  match op with
  | OpEq => Bool.eqb a b
  | OpNe => negb (Bool.eqb a b)
  | OpGe => orb a (negb b) | OpGt => andb a (negb b) | OpLe => orb (negb a) b | OpLt => andb (negb a) b
  end.

(* decidable equality of entries (used by the correspondence drivers and by statements about lists) *)
Definition key_eqb (a b : key) : bool := String.eqb (fst a) (fst b) && String.eqb (snd a) (snd b).
Definition entry_eqb (a b : entry) : bool :=
  key_eqb (e_key a) (e_key b) && (e_prio a =? e_prio b)%Z && Bool.eqb (e_susp a) (e_susp b) &&
  Bool.eqb (e_replace a) (e_replace b) && (e_id a =? e_id b)%Z.
