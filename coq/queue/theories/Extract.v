(* Extraction of the executable model for the correspondence driver (ocaml/queue/driver.ml).
   ExtrOcamlBasic only: Z, nat, string, ascii stay the extracted inductive types. *)
From Coq Require Import ZArith String List Extraction ExtrOcamlBasic.
Require Import QzQueue.Gen.Params QzQueue.Entry QzQueue.Matcher QzQueue.HeapModel.
Cd "../../ocaml/queue/gen".
Extraction "qmodel.ml" q_step q_run result_eqb entry_eqb heap_remove heap_push heap_pop drain
  is_match apply_op key_equals get_job_keys method_atomic
  Z.add Z.mul Z.opp Z.of_nat Z.eqb Z.leb Nat.eqb.
Cd "../../../coq/queue".
