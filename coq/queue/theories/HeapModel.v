(* M2 -- the default job queue.  Definitions only; proofs are in HeapProofs.v / QueueProofs.v.

   pq_less/pq_swap/pq_push/pq_pop      <-> priorityQueue.Less/Swap/Push/Pop        (quartz/queue.go)
   up_loop/heap_up, down_loop/heap_down <-> up, down                                (container/heap/heap.go)
   heap_push/heap_pop/heap_remove       <-> heap.Push, heap.Pop, heap.Remove        (container/heap/heap.go)
   q_push/q_pop/q_head/q_get/q_remove/q_scheduled/q_size/q_clear <-> jobQueue.*     (quartz/queue.go)

   The Go slice is a list; indexes are nat (Go's int overflow guard `j1 < 0` in down cannot fire for
   slices that fit in memory and is not modelled).  The loops recurse on a fuel argument that is
   *exactly* the number of remaining iterations the Go loop can make: up is started with fuel j and
   maintains j <= fuel, so fuel 0 means j = 0, where the Go loop breaks (i == j); down is started with
   fuel n - i and maintains n - i <= fuel, so fuel 0 means i >= n, where the Go loop breaks
   (j1 >= n).  HeapProofs.up_loop_fuel / down_loop_fuel prove that any larger fuel gives the same
   result, i.e. the fuel-0 branch never cuts a loop short.

   Each jobQueue method runs with jq.mtx held for its whole body (Params.locked_methods, regenerated
   from the source), so a method call is one atomic step q_step of the sequential model; a concurrent
   history is the sequence of its calls in lock-acquisition order (c_run). *)
From Coq Require Import ZArith String List Bool Arith.
Require Import QzQueue.Gen.Params QzQueue.Entry QzQueue.Matcher.
Import ListNotations.
Open Scope nat_scope.

Definition dflt : entry := mkEntry (EmptyString, EmptyString) 0%Z false false (-1)%Z.

(* a[i] and a[i] = x *)
Definition get (a : list entry) (i : nat) : entry := nth i a dflt.
Fixpoint set (a : list entry) (i : nat) (x : entry) : list entry :=
  match a, i with
  | [], _ => []
  | _ :: t, O => x :: t
  | h :: t, S i' => h :: set t i' x
  end.

(* ---- priorityQueue (heap.Interface) ---- *)
Definition pq_less (a : list entry) (i j : nat) : bool := cmp less_op (e_prio (get a i)) (e_prio (get a j)).
Definition pq_swap (a : list entry) (i j : nat) : list entry :=
  if pq_swap_exchanges then set (set a i (get a j)) j (get a i) else a.
Definition pq_push (a : list entry) (x : entry) : list entry := if pq_push_appends then a ++ [x] else x :: a.
Definition pq_pop (a : list entry) : list entry * entry :=
  if pq_pop_takes_last then (removelast a, last a dflt) else (tl a, hd dflt a).

(* ---- container/heap ---- *)
(* func up(h, j): for { i := (j-1)/2; if i == j || !h.Less(j, i) { break }; h.Swap(i, j); j = i } *)
Fixpoint up_loop (fuel : nat) (a : list entry) (j : nat) : list entry :=
  match fuel with
  | O => a
  | S f =>
      let i := (j - 1) / 2 in
      if (i =? j) || negb (pq_less a j i) then a
      else up_loop f (pq_swap a i j) i
  end.
Definition heap_up (a : list entry) (j : nat) : list entry := up_loop j a j.

(* func down(h, i0, n) bool: i := i0; for { j1 := 2*i+1; if j1 >= n { break }; j := j1;
     if j2 := j1+1; j2 < n && h.Less(j2, j1) { j = j2 }; if !h.Less(j, i) { break }; h.Swap(i, j); i = j }
   return i > i0 *)
Fixpoint down_loop (fuel : nat) (a : list entry) (i n : nat) : list entry * nat :=
  match fuel with
  | O => (a, i)
  | S f =>
      let j1 := 2 * i + 1 in
      if n <=? j1 then (a, i)
      else
        let j2 := j1 + 1 in
        let j := if (j2 <? n) && pq_less a j2 j1 then j2 else j1 in
        if negb (pq_less a j i) then (a, i)
        else down_loop f (pq_swap a i j) j n
  end.
Definition heap_down (a : list entry) (i0 n : nat) : list entry * bool :=
  let (a', i) := down_loop (n - i0) a i0 n in (a', i0 <? i).

(* func Push(h, x) { h.Push(x); up(h, h.Len()-1) } *)
Definition heap_push (a : list entry) (x : entry) : list entry :=
  let a1 := pq_push a x in heap_up a1 (length a1 - 1).

(* func Pop(h) any { n := h.Len() - 1; h.Swap(0, n); down(h, 0, n); return h.Pop() } *)
Definition heap_pop (a : list entry) : list entry * entry :=
  let n := length a - 1 in
  let a1 := pq_swap a 0 n in
  let (a2, _) := heap_down a1 0 n in
  pq_pop a2.

(* func Remove(h, i) any { n := h.Len() - 1; if n != i { h.Swap(i, n); if !down(h, i, n) { up(h, i) } }; return h.Pop() } *)
Definition heap_remove (a : list entry) (i : nat) : list entry * entry :=
  let n := length a - 1 in
  let a3 :=
    if negb (n =? i) then
      let a1 := pq_swap a i n in
      let (a2, moved) := heap_down a1 i n in
      if negb moved then heap_up a2 i else a2
    else a in
  pq_pop a3.

(* ---- jobQueue ---- *)
Inductive result :=
| ROk                          (* nil error, no value *)
| RErr (e : qerr)              (* error wrapping the sentinel e *)
| REntry (e : entry)
| RList (l : list entry)
| RSize (n : nat).

(* for i, scheduled := range scheduledJobs { if scheduled...jobKey.Equals(k) { ... i ... } } *)
Fixpoint find_from (a : list entry) (k : key) (i : nat) : option nat :=
  match a with
  | [] => None
  | e :: t => if key_equals (e_key e) k then Some i else find_from t k (S i)
  end.
Definition find_key (a : list entry) (k : key) : option nat := find_from a k 0.

Definition q_push (a : list entry) (job : entry) : list entry * result :=
  match find_key a (e_key job) with
  | Some i =>
      if e_replace job then (heap_push (fst (heap_remove a i)) job, ROk)
      else (a, RErr push_dup_err)
  | None => (heap_push a job, ROk)
  end.

Definition q_pop (a : list entry) : list entry * result :=
  if length a =? 0 then (a, RErr pop_empty_err)
  else let (a', x) := heap_pop a in (a', REntry x).

Definition q_head (a : list entry) : list entry * result :=
  if length a =? 0 then (a, RErr head_empty_err) else (a, REntry (get a 0)).

(* for _, scheduled := range jq.delegate { if Equals { return scheduled } } *)
Fixpoint get_loop (a : list entry) (k : key) : option entry :=
  match a with
  | [] => None
  | e :: t => if key_equals (e_key e) k then Some e else get_loop t k
  end.
Definition q_get (a : list entry) (k : key) : list entry * result :=
  match get_loop a k with Some e => (a, REntry e) | None => (a, RErr get_absent_err) end.

Definition q_remove (a : list entry) (k : key) : list entry * result :=
  match find_key a k with
  | Some i => let (a', x) := heap_remove a i in (a', REntry x)
  | None => (a, RErr remove_absent_err)
  end.

(* inner loop: for _, matcher := range matchers { if !matcher.IsMatch(job) { continue JobLoop } } *)
Fixpoint all_match (ms : list matcher) (e : entry) : bool :=
  match ms with
  | [] => true
  | m :: ms' => if negb (is_match m e) then false else all_match ms' e
  end.
Fixpoint job_loop (ms : list matcher) (a : list entry) : list entry :=
  match a with
  | [] => []
  | e :: t => if all_match ms e then e :: job_loop ms t else job_loop ms t
  end.
Definition q_scheduled (a : list entry) (ms : list matcher) : list entry * result :=
  if length ms =? 0 then (a, RList a) else (a, RList (job_loop ms a)).

Definition q_size (a : list entry) : list entry * result := (a, RSize (length a)).
Definition q_clear (a : list entry) : list entry * result := ([], ROk).

(* StdScheduler.GetJobKeys: the key projection of ScheduledJobs *)
Definition get_job_keys (a : list entry) (ms : list matcher) : list key :=
  match snd (q_scheduled a ms) with RList l => map e_key l | _ => [] end.

Inductive op :=
| OPush (job : entry) | OPop | OHead | OGet (k : key) | ORemove (k : key)
| OScheduled (ms : list matcher) | OSize | OClear.

Definition q_step (a : list entry) (o : op) : list entry * result :=
  match o with
  | OPush job => q_push a job
  | OPop => q_pop a
  | OHead => q_head a
  | OGet k => q_get a k
  | ORemove k => q_remove a k
  | OScheduled ms => q_scheduled a ms
  | OSize => q_size a
  | OClear => q_clear a
  end.

(* run a sequence of calls; results in call order *)
Fixpoint q_run (a : list entry) (ops : list op) : list entry * list result :=
  match ops with
  | [] => (a, [])
  | o :: ops' => let (a1, r) := q_step a o in let (a2, rs) := q_run a1 ops' in (a2, r :: rs)
  end.

(* iterated Pop until the queue is empty *)
Fixpoint drain_loop (fuel : nat) (a : list entry) : list entry :=
  match fuel with
  | O => []
  | S f => match q_pop a with
           | (a', REntry x) => x :: drain_loop f a'
           | _ => []
           end
  end.
Definition drain (a : list entry) : list entry := drain_loop (length a) a.

(* ---- concurrent callers ----
   method_name o is the jobQueue method a call executes; it is atomic iff the source holds jq.mtx
   around its whole body.  A concurrent history is a list of (caller, call) in the order in which the
   callers acquired jq.mtx; its effect is the sequential run of the calls in that order. *)
Definition method_name (o : op) : string :=
  match o with
  | OPush _ => "Push" | OPop => "Pop" | OHead => "Head" | OGet _ => "Get" | ORemove _ => "Remove"
  | OScheduled _ => "ScheduledJobs" | OSize => "Size" | OClear => "Clear"
  end%string.
Fixpoint assoc_bool (n : string) (l : list (string * bool)) : bool :=
  match l with
  | [] => false
  | (m, b) :: t => if String.eqb m n then b else assoc_bool n t
  end.
Definition method_atomic (o : op) : bool := assoc_bool (method_name o) locked_methods.
Definition c_run (a : list entry) (h : list (nat * op)) : list entry * list (nat * result) :=
  let (a', rs) := q_run a (map snd h) in (a', combine (map fst h) rs).

(* ---- entry points for the correspondence drivers ---- *)
Fixpoint list_eqb {A} (eqb : A -> A -> bool) (x y : list A) : bool :=
  match x, y with
  | [], [] => true
  | a :: x', b :: y' => eqb a b && list_eqb eqb x' y'
  | _, _ => false
  end.
Definition qerr_eqb (a b : qerr) : bool :=
  match a, b with
  | ErrQueueEmpty, ErrQueueEmpty | ErrJobNotFound, ErrJobNotFound
  | ErrJobAlreadyExists, ErrJobAlreadyExists | ErrOther, ErrOther => true
  | _, _ => false
  end.
Definition result_eqb (a b : result) : bool :=
  match a, b with
  | ROk, ROk => true
  | RErr x, RErr y => qerr_eqb x y
  | REntry x, REntry y => entry_eqb x y
  | RList x, RList y => list_eqb entry_eqb x y
  | RSize x, RSize y => Nat.eqb x y
  | _, _ => false
  end.
