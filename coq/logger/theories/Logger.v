(* M6 -- loggers.  Executable model of logger/simple_logger.go, logger/slog_logger.go and
   logger/logger.go (NoOpLogger).  Definitions only; proofs are in LoggerProofs.v.
   Tables (level constants, prefixes, comparison operator, format strings, lock discipline,
   slog level mapping) come from Gen/Params.v, regenerated from the Go source on every run. *)
From Coq Require Import ZArith String List Bool.
Require Import QzLog.Gen.Params.
Import ListNotations.
Open Scope string_scope.
Open Scope Z_scope.

Inductive level := Trace | Debug | Info | Warn | Error.
Definition all_levels : list level := [Trace; Debug; Info; Warn; Error].
Definition level_index (l : level) : nat :=
  match l with Trace => 0 | Debug => 1 | Info => 2 | Warn => 3 | Error => 4 end%nat.
Definition level_eqb (a b : level) : bool := Nat.eqb (level_index a) (level_index b).

(* the documented meaning of the levels (logger/simple_logger.go constants) *)
Definition level_value (l : level) : Z :=
  match l with Trace => go_LevelTrace | Debug => go_LevelDebug | Info => go_LevelInfo
             | Warn => go_LevelWarn | Error => go_LevelError end.

Definition cmp (op : cmp_op) (a b : Z) : bool :=
  match op with
  | OpGe => b <=? a | OpGt => b <? a | OpLe => a <=? b | OpLt => a <? b
  | OpEq => a =? b | OpNe => negb (a =? b)
  end.

(* ---- SimpleLogger ---- *)
(* the level constant method l passes to enabled(), the prefix it sets *)
Definition simple_level (l : level) : Z := nth (level_index l) simple_levels 99.
Definition simple_prefix (l : level) : string := nth (level_index l) simple_prefixes "?".
Definition simple_is_locked (l : level) : bool := nth (level_index l) simple_locked false.

Definition simple_enabled (thr : Z) (l : level) : bool := cmp simple_enabled_op (simple_level l) thr.

(* formatMessage: args are the rendered (%s / %v) arguments *)
Fixpoint render_args (args : list string) : string :=
  match args with
  | [] => ""
  | [v] => nth 0 fmt_tail "" ++ v ++ nth 1 fmt_tail ""
  | k :: v :: rest => nth 0 fmt_pair "" ++ k ++ nth 1 fmt_pair "" ++ v ++ nth 2 fmt_pair "" ++ render_args rest
  end.
Definition format_message (msg : string) (args : list string) : string :=
  nth 0 fmt_head "" ++ msg ++ nth 1 fmt_head "" ++ render_args args.

(* one call of a SimpleLogger method with threshold thr: the line written, if any *)
Definition simple_emit (thr : Z) (l : level) (msg : string) (args : list string) : option string :=
  if simple_enabled thr l then Some (simple_prefix l ++ format_message msg args) else None.

(* ---- SlogLogger ---- *)
Definition slog_level (l : level) : Z := nth (level_index l) slog_levels 99.
(* handler with minimum level hmin (slog's rule: level >= min) *)
Definition slog_handler_enabled (hmin lv : Z) : bool := hmin <=? lv.
Definition bad_key : string := "!BADKEY".
Fixpoint slog_attrs (args : list string) : list (string * string) :=
  match args with
  | [] => []
  | [v] => [(bad_key, v)]
  | k :: v :: rest => (k, v) :: slog_attrs rest
  end.
Definition slog_emit (hmin : Z) (l : level) (msg : string) (args : list string)
  : option (Z * string * list (string * string)) :=
  if slog_enabled_guard && negb (slog_handler_enabled hmin (slog_level l)) then None
  else if slog_handles_record && slog_record_level_msg then
    Some (slog_level l, msg, if slog_adds_args then slog_attrs args else [])
  else None.

(* ---- NoOpLogger ---- *)
Definition noop_emit (l : level) (msg : string) (args : list string) : option string :=
  if noop_bodies_empty then None else Some msg.

(* ---- concurrent use of one SimpleLogger: labelled transition system ----
   Any number of threads (ids are nat).  The shared log.Logger makes SetPrefix and Output
   individually atomic (its own mutex); SimpleLogger's mtx, where the source takes it
   (simple_is_locked), brackets the pair. *)
Inductive pc := Idle | Want (l : level) | Held (l : level) | PrefixSet (l : level) | Written (l : level).

Record lstate := {
  ls_holder : option nat;            (* owner of SimpleLogger.mtx *)
  ls_prefix : option level;          (* prefix currently set in the shared log.Logger *)
  ls_pc : nat -> pc;
  ls_out : list (option level * level)  (* (label written, level the record was logged at), newest first *)
}.

Definition upd (f : nat -> pc) (t : nat) (p : pc) : nat -> pc := fun u => if Nat.eqb u t then p else f u.

Inductive llabel := LCall (t : nat) (l : level) | LLock (t : nat) | LSetPrefix (t : nat) | LOutput (t : nat) | LUnlock (t : nat).

Definition linit : lstate := {| ls_holder := None; ls_prefix := None; ls_pc := fun _ => Idle; ls_out := [] |}.

Definition lstep (s : lstate) (a : llabel) : option lstate :=
  match a with
  | LCall t l => match ls_pc s t with
                 | Idle => Some {| ls_holder := ls_holder s; ls_prefix := ls_prefix s; ls_pc := upd (ls_pc s) t (Want l); ls_out := ls_out s |}
                 | _ => None end
  | LLock t => match ls_pc s t with
               | Want l =>
                   if simple_is_locked l then
                     match ls_holder s with
                     | None => Some {| ls_holder := Some t; ls_prefix := ls_prefix s; ls_pc := upd (ls_pc s) t (Held l); ls_out := ls_out s |}
                     | Some _ => None
                     end
                   else Some {| ls_holder := ls_holder s; ls_prefix := ls_prefix s; ls_pc := upd (ls_pc s) t (Held l); ls_out := ls_out s |}
               | _ => None end
  | LSetPrefix t => match ls_pc s t with
                    | Held l => Some {| ls_holder := ls_holder s; ls_prefix := Some l; ls_pc := upd (ls_pc s) t (PrefixSet l); ls_out := ls_out s |}
                    | _ => None end
  | LOutput t => match ls_pc s t with
                 | PrefixSet l => Some {| ls_holder := ls_holder s; ls_prefix := ls_prefix s; ls_pc := upd (ls_pc s) t (Written l);
                                          ls_out := (ls_prefix s, l) :: ls_out s |}
                 | _ => None end
  | LUnlock t => match ls_pc s t with
                 | Written l => Some {| ls_holder := if simple_is_locked l then None else ls_holder s; ls_prefix := ls_prefix s;
                                        ls_pc := upd (ls_pc s) t Idle; ls_out := ls_out s |}
                 | _ => None end
  end.

Fixpoint lrun (s : lstate) (tr : list llabel) : option lstate :=
  match tr with
  | [] => Some s
  | a :: tr' => match lstep s a with Some s' => lrun s' tr' | None => None end
  end.

(* ---- several SimpleLoggers over ONE shared log.Logger, used one call at a time ----
   The log.Logger keeps its prefix between calls; a SimpleLogger leaves its last level label there.
   `captures` says whether the constructor stores the log.Logger's prefix of that moment as a
   "user prefix" which every method then puts in front of its level label (it does not in the
   source: Params.simple_ctor_captures_prefix). *)
Record wrapped := { w_thr : Z; w_user_prefix : string }.
Record shstate := { sh_prefix : string; sh_loggers : list wrapped }.
Inductive shop :=
| ShNew (thr : Z)                                                   (* NewSimpleLogger(shared, thr) *)
| ShLog (id : nat) (l : level) (msg : string) (args : list string). (* the id-th SimpleLogger's method l *)

Definition sh_init (p0 : string) : shstate := {| sh_prefix := p0; sh_loggers := [] |}.

Definition sh_step (captures : bool) (s : shstate) (op : shop) : shstate * option string :=
  match op with
  | ShNew thr =>
      ({| sh_prefix := sh_prefix s;
          sh_loggers := sh_loggers s ++ [{| w_thr := thr; w_user_prefix := if captures then sh_prefix s else "" |}] |}, None)
  | ShLog id l msg args =>
      match nth_error (sh_loggers s) id with
      | None => (s, None)
      | Some w =>
          if simple_enabled (w_thr w) l then
            let p := w_user_prefix w ++ simple_prefix l in       (* SetPrefix *)
            ({| sh_prefix := p; sh_loggers := sh_loggers s |}, Some (p ++ format_message msg args))  (* Output *)
          else (s, None)
      end
  end.

(* what each operation wrote *)
Fixpoint sh_run (captures : bool) (s : shstate) (ops : list shop) : list (option string) :=
  match ops with
  | [] => []
  | op :: rest => let '(s', o) := sh_step captures s op in o :: sh_run captures s' rest
  end.

(* the specification: every call behaves as the stateless simple_emit of its own logger's threshold *)
Fixpoint sh_spec (thrs : list Z) (ops : list shop) : list (option string) :=
  match ops with
  | [] => []
  | ShNew thr :: rest => None :: sh_spec (thrs ++ [thr]) rest
  | ShLog id l msg args :: rest =>
      match nth_error thrs id with
      | Some thr => simple_emit thr l msg args
      | None => None
      end :: sh_spec thrs rest
  end.

(* ---- correspondence-check entry points (evaluated by the harness inside Coq) ---- *)
Definition level_of_nat (n : nat) : level :=
  match n with 0 => Trace | 1 => Debug | 2 => Info | 3 => Warn | _ => Error end%nat.

Definition opt_string_eqb (a b : option string) : bool :=
  match a, b with
  | None, None => true
  | Some x, Some y => String.eqb x y
  | _, _ => false
  end.

Fixpoint attrs_eqb (a b : list (string * string)) : bool :=
  match a, b with
  | [], [] => true
  | (k1, v1) :: a', (k2, v2) :: b' => String.eqb k1 k2 && String.eqb v1 v2 && attrs_eqb a' b'
  | _, _ => false
  end.

Definition slog_obs_eqb (a b : option (Z * string * list (string * string))) : bool :=
  match a, b with
  | None, None => true
  | Some (l1, m1, a1), Some (l2, m2, a2) => (l1 =? l2) && String.eqb m1 m2 && attrs_eqb a1 a2
  | _, _ => false
  end.

Fixpoint opt_strings_eqb (a b : list (option string)) : bool :=
  match a, b with
  | [], [] => true
  | x :: a', y :: b' => opt_string_eqb x y && opt_strings_eqb a' b'
  | _, _ => false
  end.
