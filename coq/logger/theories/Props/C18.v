(* C18 -- Loggers filter by level and label every record with its own level.
   This file contains only the property theorems; each is closed by `exact` of a lemma proved
   in LoggerProofs.v and followed by Print Assumptions. *)
From Coq Require Import ZArith String List.
Require Import QzLog.Gen.Params QzLog.Logger QzLog.LoggerProofs.
Import ListNotations.
Open Scope Z_scope.

(* SimpleLogger emits iff the record's level is at or above the threshold *)
Theorem C18_simple_emit_iff_enabled : forall thr l msg args,
  (exists line, simple_emit thr l msg args = Some line) <-> thr <= level_value l.
Proof. exact simple_emit_iff_enabled. Qed.
Print Assumptions C18_simple_emit_iff_enabled.

Theorem C18_simple_off_silent : forall l msg args, simple_emit go_LevelOff l msg args = None.
Proof. exact simple_off_silent. Qed.
Print Assumptions C18_simple_off_silent.

(* SlogLogger: same, through the level mapping and the handler's threshold *)
Theorem C18_slog_emit_iff_enabled : forall hmin l msg args,
  (exists r, slog_emit hmin l msg args = Some r) <-> hmin <= level_value l.
Proof. exact slog_emit_iff_enabled. Qed.
Print Assumptions C18_slog_emit_iff_enabled.

Theorem C18_slog_off_silent : forall l msg args, slog_emit go_LevelOff l msg args = None.
Proof. exact slog_off_silent. Qed.
Print Assumptions C18_slog_off_silent.

Theorem C18_noop_silent : forall l msg args, noop_emit l msg args = None.
Proof. exact noop_silent. Qed.
Print Assumptions C18_noop_silent.

(* an emitted record carries its own label, the message and all arguments in order *)
Theorem C18_simple_record_shape : forall thr l msg args line,
  simple_emit thr l msg args = Some line ->
  (exists ps, args = flatten ps /\
     line = (simple_prefix l ++ nth 0 fmt_head "" ++ msg ++ nth 1 fmt_head "" ++ pairs_text ps)%string) \/
  (exists ps v, args = (flatten ps ++ [v])%list /\
     line = (simple_prefix l ++ nth 0 fmt_head "" ++ msg ++ nth 1 fmt_head "" ++ pairs_text ps ++ tail_text v)%string).
Proof. exact simple_record_shape. Qed.
Print Assumptions C18_simple_record_shape.

Theorem C18_simple_prefix_injective : forall a b, simple_prefix a = simple_prefix b -> a = b.
Proof. exact simple_prefix_injective. Qed.
Print Assumptions C18_simple_prefix_injective.

Theorem C18_slog_record_shape : forall hmin l msg args lv m attrs,
  slog_emit hmin l msg args = Some (lv, m, attrs) ->
  lv = level_value l /\ m = msg /\
  ((exists ps, args = flatten ps /\ attrs = ps) \/
   (exists ps v, args = (flatten ps ++ [v])%list /\ attrs = (ps ++ [(bad_key, v)])%list)).
Proof. exact slog_record_shape. Qed.
Print Assumptions C18_slog_record_shape.

(* any number of goroutines, any interleaving: each line's label is the level it was logged at *)
Theorem C18_label_is_own_level : forall tr s lab l,
  lrun linit tr = Some s -> In (lab, l) (ls_out s) -> lab = Some l.
Proof. exact label_is_own_level. Qed.
Print Assumptions C18_label_is_own_level.

Theorem C18_writer_can_finish : forall tr s t l,
  lrun linit tr = Some s -> ls_pc s t = PrefixSet l ->
  exists s1 s2, lstep s (LOutput t) = Some s1 /\ lstep s1 (LUnlock t) = Some s2 /\
                ls_holder s2 = None /\ hd_error (ls_out s1) = Some (Some l, l).
Proof. exact writer_can_finish. Qed.
Print Assumptions C18_writer_can_finish.

(* several SimpleLoggers (any thresholds) wrapped at any time over ONE shared log.Logger with any
   initial prefix, calls one at a time: every call writes exactly the line its own logger alone
   would write (own label once, message, arguments), and nothing when its level is below that
   logger's threshold *)
Theorem C18_shared_logger_own_label : forall p0 ops,
  sh_run simple_ctor_captures_prefix (sh_init p0) ops = sh_spec [] ops.
Proof. exact shared_logger_own_label. Qed.
Print Assumptions C18_shared_logger_own_label.

(* sensitivity: were the constructor to store the log.Logger's prefix of that moment, the second
   wrapper would label an ERROR record "INFO ERROR " *)
Theorem C18_shared_capture_doubles_label :
  nth 3 (sh_run true (sh_init "") capture_trace) None
    = Some (simple_prefix Info ++ simple_prefix Error ++ format_message "m" [])%string /\
  nth 3 (sh_run true (sh_init "") capture_trace) None <> nth 3 (sh_spec [] capture_trace) None.
Proof. exact shared_capture_doubles_label. Qed.
Print Assumptions C18_shared_capture_doubles_label.

(* thresholds anywhere in Z (the Go type is a 64-bit int): above LevelError nothing is emitted, at or
   below LevelTrace everything is -- in particular for math.MaxInt / math.MinInt and for values outside
   the 32-bit range, which must not wrap *)
Theorem C18_threshold_above_error_silent : forall thr l msg args,
  go_LevelError < thr -> simple_emit thr l msg args = None /\ slog_emit thr l msg args = None.
Proof. exact threshold_above_error_silent. Qed.
Print Assumptions C18_threshold_above_error_silent.

Theorem C18_threshold_at_most_trace_emits_all : forall thr l msg args,
  thr <= go_LevelTrace ->
  (exists line, simple_emit thr l msg args = Some line) /\ (exists r, slog_emit thr l msg args = Some r).
Proof. exact threshold_at_most_trace_emits_all. Qed.
Print Assumptions C18_threshold_at_most_trace_emits_all.
