(* Proofs about the logger model (Logger.v). *)
From Coq Require Import ZArith String List Bool Lia Arith.
Require Import QzLog.Gen.Params QzLog.Logger.
Import ListNotations.
Open Scope string_scope.
Open Scope Z_scope.

(* ---- the tables of the source agree with the documented level meaning ---- *)
Lemma simple_level_is_value : forall l, simple_level l = level_value l.
Proof. destruct l; reflexivity. Qed.

Lemma slog_level_is_value : forall l, slog_level l = level_value l.
Proof. destruct l; reflexivity. Qed.

Lemma enabled_spec : forall thr l, simple_enabled thr l = true <-> thr <= level_value l.
Proof.
  intros thr l. unfold simple_enabled. rewrite simple_level_is_value.
  change simple_enabled_op with OpGe. unfold cmp. apply Z.leb_le.
Qed.

Theorem simple_emit_iff_enabled : forall thr l msg args,
  (exists line, simple_emit thr l msg args = Some line) <-> thr <= level_value l.
Proof.
  intros thr l msg args. unfold simple_emit. rewrite <- enabled_spec.
  destruct (simple_enabled thr l); split; intros H; try reflexivity.
  - eexists; reflexivity.
  - destruct H as [x H]; discriminate.
  - discriminate.
Qed.

Theorem simple_off_silent : forall l msg args, simple_emit go_LevelOff l msg args = None.
Proof.
  intros l msg args. unfold simple_emit.
  destruct (simple_enabled go_LevelOff l) eqn:E; [|reflexivity].
  apply enabled_spec in E. destruct l; vm_compute in E; exfalso; apply E; reflexivity.
Qed.

Theorem slog_emit_iff_enabled : forall hmin l msg args,
  (exists r, slog_emit hmin l msg args = Some r) <-> hmin <= level_value l.
Proof.
  intros hmin l msg args. unfold slog_emit.
  change slog_enabled_guard with true. change slog_handles_record with true.
  change slog_record_level_msg with true. change slog_adds_args with true.
  rewrite slog_level_is_value. unfold slog_handler_enabled. cbn [andb negb].
  destruct (hmin <=? level_value l) eqn:E; cbn [negb]; split; intros H.
  - apply Z.leb_le; exact E.
  - eexists; reflexivity.
  - destruct H as [r H]; discriminate.
  - apply Z.leb_le in H. rewrite H in E. discriminate.
Qed.

Theorem slog_off_silent : forall l msg args, slog_emit go_LevelOff l msg args = None.
Proof.
  intros l msg args. destruct (slog_emit go_LevelOff l msg args) eqn:E; [|reflexivity].
  assert (H : go_LevelOff <= level_value l) by (apply (slog_emit_iff_enabled _ _ msg args); eexists; exact E).
  destruct l; vm_compute in H; exfalso; apply H; reflexivity.
Qed.

Theorem noop_silent : forall l msg args, noop_emit l msg args = None.
Proof. reflexivity. Qed.

(* ---- record shape ---- *)
Fixpoint flatten (ps : list (string * string)) : list string :=
  match ps with [] => [] | (k, v) :: r => k :: v :: flatten r end.

Definition pair_text (kv : string * string) : string :=
  nth 0 fmt_pair "" ++ fst kv ++ nth 1 fmt_pair "" ++ snd kv ++ nth 2 fmt_pair "".
Definition tail_text (v : string) : string := nth 0 fmt_tail "" ++ v ++ nth 1 fmt_tail "".
Definition pairs_text (ps : list (string * string)) : string := String.concat "" (map pair_text ps).

Lemma string_app_assoc : forall a b c : string, (a ++ b) ++ c = a ++ (b ++ c).
Proof. induction a; intros; cbn; [reflexivity | rewrite IHa; reflexivity]. Qed.

Lemma string_app_nil_r : forall a : string, a ++ "" = a.
Proof. induction a; cbn; [reflexivity | rewrite IHa; reflexivity]. Qed.

Lemma concat_cons_empty_sep : forall (x : string) xs, String.concat "" (x :: xs) = x ++ String.concat "" xs.
Proof.
  intros x xs. destruct xs as [|y ys]; cbn [String.concat].
  - rewrite string_app_nil_r. reflexivity.
  - reflexivity.
Qed.

Lemma render_even : forall ps, render_args (flatten ps) = pairs_text ps.
Proof.
  induction ps as [|[k v] ps IH]; [reflexivity|].
  cbn [flatten render_args]. unfold pairs_text. cbn [map]. rewrite concat_cons_empty_sep.
  fold (pairs_text ps). rewrite IH. unfold pair_text. cbn [fst snd].
  rewrite !string_app_assoc. reflexivity.
Qed.

Lemma render_odd : forall ps v, render_args (flatten ps ++ [v])%list = pairs_text ps ++ tail_text v.
Proof.
  induction ps as [|[k w] ps IH]; intros v.
  - reflexivity.
  - cbn [flatten app render_args].
    destruct (flatten ps ++ [v])%list eqn:E.
    + destruct (flatten ps); discriminate.
    + rewrite <- E. rewrite IH. unfold pairs_text at 2. cbn [map]. rewrite concat_cons_empty_sep.
      fold (pairs_text ps). unfold pair_text. cbn [fst snd]. rewrite !string_app_assoc. reflexivity.
Qed.

Lemma args_decompose : forall args : list string,
  (exists ps, args = flatten ps) \/ (exists ps v, args = (flatten ps ++ [v])%list).
Proof.
  intros args. remember (length args) as n eqn:Hn. revert args Hn.
  induction n as [n IH] using lt_wf_ind. intros args Hn.
  destruct args as [|k [|v rest]].
  - left. exists []. reflexivity.
  - right. exists [], k. reflexivity.
  - destruct (IH (length rest)) with (args := rest) as [[ps Hp]|[ps [w Hp]]].
    + subst n. cbn [length]. lia.
    + reflexivity.
    + left. exists ((k, v) :: ps). cbn [flatten]. rewrite Hp. reflexivity.
    + right. exists ((k, v) :: ps), w. cbn [flatten app]. rewrite Hp. reflexivity.
Qed.

(* the line written is: own prefix, message, every key/value pair in order, odd tail alone *)
Theorem simple_record_shape : forall thr l msg args line,
  simple_emit thr l msg args = Some line ->
  (exists ps, args = flatten ps /\
     line = simple_prefix l ++ nth 0 fmt_head "" ++ msg ++ nth 1 fmt_head "" ++ pairs_text ps) \/
  (exists ps v, args = (flatten ps ++ [v])%list /\
     line = simple_prefix l ++ nth 0 fmt_head "" ++ msg ++ nth 1 fmt_head "" ++ pairs_text ps ++ tail_text v).
Proof.
  intros thr l msg args line H. unfold simple_emit in H.
  destruct (simple_enabled thr l); [|discriminate]. injection H as H. subst line.
  unfold format_message.
  destruct (args_decompose args) as [[ps Hp]|[ps [v Hp]]]; subst args.
  - left. exists ps. split; [reflexivity|]. rewrite render_even. rewrite ?string_app_assoc. reflexivity.
  - right. exists ps, v. split; [reflexivity|]. rewrite render_odd. rewrite ?string_app_assoc. reflexivity.
Qed.

(* distinct levels have distinct labels *)
Theorem simple_prefix_injective : forall a b, simple_prefix a = simple_prefix b -> a = b.
Proof. destruct a, b; intros H; try reflexivity; vm_compute in H; discriminate. Qed.

Lemma slog_attrs_flatten : forall ps, slog_attrs (flatten ps) = ps.
Proof. induction ps as [|[k v] ps IH]; [reflexivity|]. cbn [flatten slog_attrs]. rewrite IH. reflexivity. Qed.

Lemma slog_attrs_flatten_odd : forall ps v, slog_attrs (flatten ps ++ [v])%list = (ps ++ [(bad_key, v)])%list.
Proof.
  induction ps as [|[k w] ps IH]; intros v; [reflexivity|].
  cbn [flatten app slog_attrs].
  destruct (flatten ps ++ [v])%list eqn:E.
  - destruct (flatten ps); discriminate.
  - rewrite <- E, IH. reflexivity.
Qed.

Theorem slog_record_shape : forall hmin l msg args lv m attrs,
  slog_emit hmin l msg args = Some (lv, m, attrs) ->
  lv = level_value l /\ m = msg /\
  ((exists ps, args = flatten ps /\ attrs = ps) \/
   (exists ps v, args = (flatten ps ++ [v])%list /\ attrs = (ps ++ [(bad_key, v)])%list)).
Proof.
  intros hmin l msg args lv m attrs H. unfold slog_emit in H.
  change slog_enabled_guard with true in H. change slog_handles_record with true in H.
  change slog_record_level_msg with true in H. change slog_adds_args with true in H.
  cbn [andb] in H.
  destruct (negb (slog_handler_enabled hmin (slog_level l))); [discriminate|].
  injection H as H1 H2 H3. subst. rewrite slog_level_is_value.
  split; [reflexivity|]. split; [reflexivity|].
  destruct (args_decompose args) as [[ps Hp]|[ps [v Hp]]]; subst args.
  - left. exists ps. split; [reflexivity|apply slog_attrs_flatten].
  - right. exists ps, v. split; [reflexivity|apply slog_attrs_flatten_odd].
Qed.

(* ---- concurrent use: each emitted line carries the label of its own level ---- *)
Lemma all_locked : forall l, simple_is_locked l = true.
Proof. destruct l; reflexivity. Qed.

Definition in_section (p : pc) : bool :=
  match p with Held _ | PrefixSet _ | Written _ => true | _ => false end.

Record linv (s : lstate) : Prop := {
  inv_holder : forall t, in_section (ls_pc s t) = true -> ls_holder s = Some t;
  inv_prefix : forall t l, ls_pc s t = PrefixSet l -> ls_prefix s = Some l;
  inv_out : forall lab l, In (lab, l) (ls_out s) -> lab = Some l
}.

Lemma linv_init : linv linit.
Proof. split; cbn; intros; try discriminate; contradiction. Qed.

Lemma upd_same : forall f t p, upd f t p t = p.
Proof. intros; unfold upd; rewrite Nat.eqb_refl; reflexivity. Qed.

Lemma upd_other : forall f t p u, u <> t -> upd f t p u = f u.
Proof. intros f t p u H; unfold upd. destruct (Nat.eqb_spec u t); [contradiction|reflexivity]. Qed.

Lemma linv_step : forall s a s', linv s -> lstep s a = Some s' -> linv s'.
Proof.
  intros s a s' [Hh Hp Ho] Hstep. destruct a as [t l|t|t|t|t]; cbn [lstep] in Hstep.
  - (* LCall *)
    destruct (ls_pc s t) eqn:Et; try discriminate. injection Hstep as <-.
    split; cbn [ls_holder ls_prefix ls_pc ls_out].
    + intros u Hu. destruct (Nat.eq_dec u t) as [->|Hne].
      * rewrite upd_same in Hu. discriminate.
      * rewrite upd_other in Hu by exact Hne. apply Hh; exact Hu.
    + intros u l0 Hu. destruct (Nat.eq_dec u t) as [->|Hne].
      * rewrite upd_same in Hu. discriminate.
      * rewrite upd_other in Hu by exact Hne. eapply Hp; exact Hu.
    + exact Ho.
  - (* LLock *)
    destruct (ls_pc s t) eqn:Et; try discriminate.
    rewrite all_locked in Hstep. destruct (ls_holder s) eqn:Eh; try discriminate.
    injection Hstep as <-.
    split; cbn [ls_holder ls_prefix ls_pc ls_out].
    + intros u Hu. destruct (Nat.eq_dec u t) as [->|Hne]; [reflexivity|].
      rewrite upd_other in Hu by exact Hne. apply Hh in Hu. congruence.
    + intros u l0 Hu. destruct (Nat.eq_dec u t) as [->|Hne].
      * rewrite upd_same in Hu. discriminate.
      * rewrite upd_other in Hu by exact Hne.
        assert (Hs : in_section (ls_pc s u) = true) by (rewrite Hu; reflexivity).
        apply Hh in Hs. congruence.
    + exact Ho.
  - (* LSetPrefix *)
    destruct (ls_pc s t) eqn:Et; try discriminate. injection Hstep as <-.
    assert (Ht : ls_holder s = Some t) by (apply Hh; rewrite Et; reflexivity).
    split; cbn [ls_holder ls_prefix ls_pc ls_out].
    + intros u Hu. destruct (Nat.eq_dec u t) as [->|Hne]; [exact Ht|].
      rewrite upd_other in Hu by exact Hne. apply Hh; exact Hu.
    + intros u l0 Hu. destruct (Nat.eq_dec u t) as [->|Hne].
      * rewrite upd_same in Hu. injection Hu as ->. reflexivity.
      * rewrite upd_other in Hu by exact Hne.
        assert (Hs : in_section (ls_pc s u) = true) by (rewrite Hu; reflexivity).
        apply Hh in Hs. rewrite Ht in Hs. injection Hs as Hs. congruence.
    + exact Ho.
  - (* LOutput *)
    destruct (ls_pc s t) eqn:Et; try discriminate. injection Hstep as <-.
    assert (Ht : ls_holder s = Some t) by (apply Hh; rewrite Et; reflexivity).
    split; cbn [ls_holder ls_prefix ls_pc ls_out].
    + intros u Hu. destruct (Nat.eq_dec u t) as [->|Hne]; [exact Ht|].
      rewrite upd_other in Hu by exact Hne. apply Hh; exact Hu.
    + intros u l0 Hu. destruct (Nat.eq_dec u t) as [->|Hne].
      * rewrite upd_same in Hu. discriminate.
      * rewrite upd_other in Hu by exact Hne. eapply Hp; exact Hu.
    + intros lab l0 [Hin|Hin].
      * injection Hin as <- <-. eapply Hp; exact Et.
      * apply Ho; exact Hin.
  - (* LUnlock *)
    destruct (ls_pc s t) eqn:Et; try discriminate. rewrite all_locked in Hstep. injection Hstep as <-.
    assert (Ht : ls_holder s = Some t) by (apply Hh; rewrite Et; reflexivity).
    split; cbn [ls_holder ls_prefix ls_pc ls_out].
    + intros u Hu. destruct (Nat.eq_dec u t) as [->|Hne].
      * rewrite upd_same in Hu. discriminate.
      * rewrite upd_other in Hu by exact Hne. apply Hh in Hu. rewrite Ht in Hu. injection Hu as Hu. congruence.
    + intros u l0 Hu. destruct (Nat.eq_dec u t) as [->|Hne].
      * rewrite upd_same in Hu. discriminate.
      * rewrite upd_other in Hu by exact Hne. eapply Hp; exact Hu.
    + exact Ho.
Qed.

Lemma linv_run : forall tr s s', linv s -> lrun s tr = Some s' -> linv s'.
Proof.
  induction tr as [|a tr IH]; intros s s' Hi Hr; cbn [lrun] in Hr.
  - injection Hr as <-. exact Hi.
  - destruct (lstep s a) as [s1|] eqn:E; [|discriminate].
    eapply IH; [eapply linv_step; eassumption | exact Hr].
Qed.

(* every interleaving of any number of threads logging through one SimpleLogger *)
Theorem label_is_own_level : forall tr s lab l,
  lrun linit tr = Some s -> In (lab, l) (ls_out s) -> lab = Some l.
Proof.
  intros tr s lab l Hr Hin. eapply inv_out; [eapply linv_run; [apply linv_init | exact Hr] | exact Hin].
Qed.

(* every thread that started a record can always finish it: no deadlock in the gate *)
Theorem writer_can_finish : forall tr s t l,
  lrun linit tr = Some s -> ls_pc s t = PrefixSet l ->
  exists s1 s2, lstep s (LOutput t) = Some s1 /\ lstep s1 (LUnlock t) = Some s2 /\
                ls_holder s2 = None /\ hd_error (ls_out s1) = Some (Some l, l).
Proof.
  intros tr s t l Hr Hpc.
  pose proof (linv_run _ _ _ linv_init Hr) as [Hh Hp Ho].
  cbn [lstep]. rewrite Hpc. eexists. eexists. split; [reflexivity|].
  cbn [lstep ls_pc]. rewrite upd_same. rewrite all_locked. split; [reflexivity|].
  cbn [ls_holder ls_out hd_error]. split; [reflexivity|]. rewrite (Hp _ _ Hpc). reflexivity.
Qed.

(* non-vacuity: a run with two threads at different levels that writes two correct lines *)
Example two_writers :
  option_map ls_out (lrun linit [LCall 0 Info; LCall 1 Error; LLock 1; LSetPrefix 1; LOutput 1; LUnlock 1;
                        LLock 0; LSetPrefix 0; LOutput 0; LUnlock 0]%nat)
  = Some [(Some Info, Info); (Some Error, Error)].
Proof. vm_compute. reflexivity. Qed.

(* sensitivity of the model: WITHOUT the mutex (the code before the repair) the property is false.
   The same system with no lock discipline reaches a mislabelled line in six steps. *)
Definition lstep_nolock (s : lstate) (a : llabel) : option lstate :=
  match a with
  | LLock t => match ls_pc s t with
               | Want l => Some {| ls_holder := ls_holder s; ls_prefix := ls_prefix s; ls_pc := upd (ls_pc s) t (Held l); ls_out := ls_out s |}
               | _ => None end
  | _ => lstep s a
  end.
Fixpoint lrun_nolock (s : lstate) (tr : list llabel) : option lstate :=
  match tr with
  | [] => Some s
  | a :: tr' => match lstep_nolock s a with Some s' => lrun_nolock s' tr' | None => None end
  end.
Example unlocked_system_mislabels :
  option_map (fun s => hd_error (ls_out s))
    (lrun_nolock linit [LCall 0 Info; LCall 1 Error; LLock 0; LLock 1; LSetPrefix 0; LSetPrefix 1; LOutput 0]%nat)
  = Some (Some (Some Error, Info)).
Proof. vm_compute. reflexivity. Qed.

(* non-vacuity of the filtering theorems *)
Example emits_example : simple_emit go_LevelInfo Warn "m" ["k"; "v"; "odd"] = Some "WARN msg=m, k=v, odd".
Proof. reflexivity. Qed.
Example filtered_example : simple_emit go_LevelWarn Info "m" [] = None.
Proof. reflexivity. Qed.

(* ---- several SimpleLoggers over one shared log.Logger ---- *)
Lemma sh_run_no_capture : forall ops s,
  Forall (fun w => w_user_prefix w = ""%string) (sh_loggers s) ->
  sh_run false s ops = sh_spec (map w_thr (sh_loggers s)) ops.
Proof.
  induction ops as [|op rest IH]; intros s Hs; [reflexivity|].
  destruct op as [thr | id l msg args].
  - cbn [sh_run sh_step sh_spec].
    rewrite (IH {| sh_prefix := sh_prefix s;
                   sh_loggers := sh_loggers s ++ [{| w_thr := thr; w_user_prefix := "" |}] |}).
    + cbn [sh_loggers]. rewrite map_app. reflexivity.
    + cbn [sh_loggers]. apply Forall_app. split; [exact Hs|]. constructor; [reflexivity|constructor].
  - cbn [sh_run sh_step sh_spec].
    rewrite nth_error_map.
    destruct (nth_error (sh_loggers s) id) as [w|] eqn:E; cbn [option_map].
    + assert (Hw : w_user_prefix w = ""%string).
      { rewrite Forall_forall in Hs. apply Hs. eapply nth_error_In; exact E. }
      unfold simple_emit. destruct (simple_enabled (w_thr w) l).
      * rewrite Hw. cbn [append]. f_equal.
        exact (IH {| sh_prefix := simple_prefix l; sh_loggers := sh_loggers s |} Hs).
      * f_equal. exact (IH s Hs).
    + f_equal. exact (IH s Hs).
Qed.

(* whatever prefix the log.Logger starts with, whatever loggers are wrapped over it and when,
   every call writes exactly what its own logger alone would write: its own label, once *)
Lemma shared_logger_own_label : forall p0 ops,
  sh_run simple_ctor_captures_prefix (sh_init p0) ops = sh_spec [] ops.
Proof.
  intros p0 ops. change simple_ctor_captures_prefix with false.
  exact (sh_run_no_capture ops (sh_init p0) (Forall_nil _)).
Qed.

(* sensitivity: a constructor that captures the prefix picks up the label the previous wrapper left behind *)
Definition capture_trace : list shop :=
  [ShNew 0; ShLog 0 Info "m" []; ShNew 0; ShLog 1 Error "m" []].
Lemma shared_capture_doubles_label :
  nth 3 (sh_run true (sh_init "") capture_trace) None
    = Some (simple_prefix Info ++ simple_prefix Error ++ format_message "m" [])%string /\
  nth 3 (sh_run true (sh_init "") capture_trace) None <> nth 3 (sh_spec [] capture_trace) None.
Proof.
  split; [vm_compute; reflexivity|].
  vm_compute. intro H. discriminate H.
Qed.

Example shared_logger_nontrivial :
  sh_run simple_ctor_captures_prefix (sh_init "[app] ") capture_trace
    = [None; Some (simple_prefix Info ++ format_message "m" [])%string; None;
       Some (simple_prefix Error ++ format_message "m" [])%string].
Proof. vm_compute. reflexivity. Qed.

(* ---- thresholds beyond the five levels (the Level type is a 64-bit int: math.MaxInt as "never",
   math.MinInt as "always", anything outside the 32-bit range) ---- *)
Lemma level_value_bounds : forall l, go_LevelTrace <= level_value l <= go_LevelError.
Proof. destruct l; vm_compute; split; discriminate. Qed.

Lemma simple_above_error_silent : forall thr l msg args,
  go_LevelError < thr -> simple_emit thr l msg args = None.
Proof.
  intros thr l msg args H.
  destruct (simple_emit thr l msg args) as [line|] eqn:E; [|reflexivity].
  assert (Hle : thr <= level_value l) by (apply (simple_emit_iff_enabled thr l msg args); eexists; exact E).
  pose proof (level_value_bounds l) as B. exfalso. apply (Z.lt_irrefl thr).
  eapply Z.le_lt_trans; [exact Hle|]. eapply Z.le_lt_trans; [apply B|exact H].
Qed.

Lemma simple_at_most_trace_emits_all : forall thr l msg args,
  thr <= go_LevelTrace -> exists line, simple_emit thr l msg args = Some line.
Proof.
  intros thr l msg args H. apply (simple_emit_iff_enabled thr l msg args).
  eapply Z.le_trans; [exact H|apply level_value_bounds].
Qed.

Lemma slog_above_error_silent : forall hmin l msg args,
  go_LevelError < hmin -> slog_emit hmin l msg args = None.
Proof.
  intros hmin l msg args H.
  destruct (slog_emit hmin l msg args) as [r|] eqn:E; [|reflexivity].
  assert (Hle : hmin <= level_value l) by (apply (slog_emit_iff_enabled hmin l msg args); eexists; exact E).
  pose proof (level_value_bounds l) as B. exfalso. apply (Z.lt_irrefl hmin).
  eapply Z.le_lt_trans; [exact Hle|]. eapply Z.le_lt_trans; [apply B|exact H].
Qed.

Lemma slog_at_most_trace_emits_all : forall hmin l msg args,
  hmin <= go_LevelTrace -> exists r, slog_emit hmin l msg args = Some r.
Proof.
  intros hmin l msg args H. apply (slog_emit_iff_enabled hmin l msg args).
  eapply Z.le_trans; [exact H|apply level_value_bounds].
Qed.

Lemma threshold_above_error_silent : forall thr l msg args,
  go_LevelError < thr -> simple_emit thr l msg args = None /\ slog_emit thr l msg args = None.
Proof. intros thr l msg args H. split; [exact (simple_above_error_silent thr l msg args H)|exact (slog_above_error_silent thr l msg args H)]. Qed.

Lemma threshold_at_most_trace_emits_all : forall thr l msg args,
  thr <= go_LevelTrace ->
  (exists line, simple_emit thr l msg args = Some line) /\ (exists r, slog_emit thr l msg args = Some r).
Proof. intros thr l msg args H. split; [exact (simple_at_most_trace_emits_all thr l msg args H)|exact (slog_at_most_trace_emits_all thr l msg args H)]. Qed.

Example extreme_thresholds_nontrivial :
  simple_emit 9223372036854775807 Error "m" [] = None /\
  (exists line, simple_emit (-9223372036854775808) Trace "m" [] = Some line) /\
  simple_emit 4294967296 Error "m" [] = None /\ simple_emit 2147483648 Error "m" [] = None /\
  (exists line, simple_emit (-2147483649) Trace "m" [] = Some line).
Proof. vm_compute. repeat split; eexists; reflexivity. Qed.
