(* C02 over STRINGS (composition with the parser theorem of C07). *)
From Coq Require Import ZArith List.
Require Import QzBase.Calendar QzBase.Fields.
Require Import QzCron.CsmModel QzCron.CsmSpec QzCron.NextFire QzCron.NftProofs.
Require Import QzCron.Props.C02.
Require Import QzParser.ParserModel QzParser.Props.C07.
Open Scope Z_scope.

Theorem C02_nft_least_parsed : forall (s : bytes) f off prev ns,
  parse_trigger s = Ok f -> -93600 <= off <= 93600 -> min_nanos <= prev <= max_nanos ->
  next_fire_time f off prev = Fire ns ->
  forall t', prev < t' < ns -> t' mod nanos = 0 -> ~ matches_at f (fixed_zone off) t'.
Proof. intros s f off prev ns Hp. exact (C02_nft_least f off prev ns (parse_trigger_ok_wf s f Hp)). Qed.
Print Assumptions C02_nft_least_parsed.

Theorem C02_nft_expired_iff_parsed : forall (s : bytes) f off prev,
  parse_trigger s = Ok f -> -93600 <= off <= 93600 -> min_nanos <= prev <= max_nanos ->
  (next_fire_time f off prev = Expired <->
   forall t', prev < t' <= max_nanos -> t' mod nanos = 0 -> ~ matches_at f (fixed_zone off) t').
Proof. intros s f off prev Hp. exact (C02_nft_expired_iff f off prev (parse_trigger_ok_wf s f Hp)). Qed.
Print Assumptions C02_nft_expired_iff_parsed.
