(* C01 over STRINGS: composition of the parser theorem (every accepted expression has well-formed
   fields, C07) with the state machine theorem -- "for every accepted cron expression ...". *)
From Coq Require Import ZArith List.
Require Import QzBase.Calendar QzBase.Fields.
Require Import QzCron.CsmModel QzCron.CsmSpec QzCron.NextFire QzCron.NftProofs.
Require Import QzCron.Props.C01.
Require Import QzParser.ParserModel QzParser.Props.C07.
Open Scope Z_scope.

Theorem C01_nft_sound_parsed : forall (s : bytes) f off prev ns,
  parse_trigger s = Ok f ->                         (* NewCronTrigger accepts s and acts on fields f *)
  -93600 <= off <= 93600 -> min_nanos <= prev <= max_nanos ->
  next_fire_time f off prev = Fire ns ->
  ns mod nanos = 0 /\ prev < ns <= max_nanos /\
  exists c, civil_from_unix off (ns / nanos) = Some c /\ matches f c = true /\ valid_civil c = true.
Proof.
  intros s f off prev ns Hp. exact (C01_nft_sound f off prev ns (parse_trigger_ok_wf s f Hp)).
Qed.
Print Assumptions C01_nft_sound_parsed.

Theorem C01_nft_sound_parsed_any_location : forall (s : bytes) f z prev ns,
  parse_trigger s = Ok f -> wf_zone z = true -> min_nanos <= prev <= max_nanos ->
  next_fire_time_zone f z prev = Fire ns ->
  ns mod nanos = 0 /\ prev < ns <= max_nanos /\
  exists c, civil_from_unix (offset_at z (ns / nanos)) (ns / nanos) = Some c /\ matches f c = true /\ valid_civil c = true.
Proof.
  intros s f z prev ns Hp. exact (C01_nft_sound_any_location f z prev ns (parse_trigger_ok_wf s f Hp)).
Qed.
Print Assumptions C01_nft_sound_parsed_any_location.
