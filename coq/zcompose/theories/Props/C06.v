(* C06 over STRINGS (composition with the parser theorem of C07). *)
From Coq Require Import ZArith List.
Require Import QzBase.Calendar QzBase.Fields.
Require Import QzCron.CsmModel QzCron.CsmSpec QzCron.NextFire QzCron.NftProofs.
Require Import QzCron.Props.C06.
Require Import QzParser.ParserModel QzParser.Props.C07.
Open Scope Z_scope.

Theorem C06_nft_total_parsed : forall (s : bytes) f z prev,
  parse_trigger s = Ok f -> wf_zone z = true -> min_nanos <= prev <= max_nanos ->
  next_fire_time_zone f z prev <> ModelError.
Proof. intros s f z prev Hp. exact (C06_nft_total f z prev (parse_trigger_ok_wf s f Hp)). Qed.
Print Assumptions C06_nft_total_parsed.
