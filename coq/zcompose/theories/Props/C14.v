(* C14 over STRINGS (composition with the parser theorem of C07). *)
From Coq Require Import ZArith List.
Require Import QzBase.Calendar QzBase.Fields.
Require Import QzCron.CsmModel QzCron.CsmSpec QzCron.NextFire QzCron.NftProofs QzCron.ZoneFinal.
Require Import QzCron.Props.C14.
Require Import QzParser.ParserModel QzParser.Props.C07.
Open Scope Z_scope.

Theorem C14_never_skips_fresh_parsed : forall (s : bytes) f z prev t,
  parse_trigger s = Ok f -> wf_zone z = true -> min_nanos <= prev <= max_nanos ->
  prev < t <= max_nanos -> t mod nanos = 0 -> matches_at f z t -> ~ is_repeat z t ->
  exists ns, next_fire_time_zone f z prev = Fire ns /\ ns <= t.
Proof. intros s f z prev t Hp. exact (C14_never_skips_fresh f z prev t (parse_trigger_ok_wf s f Hp)). Qed.
Print Assumptions C14_never_skips_fresh_parsed.
