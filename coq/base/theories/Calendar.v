(* M0 -- proleptic Gregorian calendar arithmetic over Z (definitions only).
   Mirrors what internal/csm and quartz/cron.go use of Go's time package:
   time.Date(y, m, d, ..., UTC) with normalisation linear in d, Time.Weekday,
   lastDayOfMonth, and time.Unix(s, 0).In(fixed zone).Date()/Clock(). *)
From Coq Require Import ZArith List Bool.
Import ListNotations.
Open Scope Z_scope.

Definition is_leap (y : Z) : bool := (y mod 4 =? 0) && (negb (y mod 100 =? 0) || (y mod 400 =? 0)).
Definition month_len (y m : Z) : Z :=
  if m =? 2 then (if is_leap y then 29 else 28)
  else if (m =? 4) || (m =? 6) || (m =? 9) || (m =? 11) then 30 else 31.
Definition year_len (y : Z) : Z := if is_leap y then 366 else 365.

(* days from 1970-01-01 to y-01-01 *)
Definition days_before_year (y : Z) : Z :=
  365 * (y - 1970) + ((y - 1969) / 4 - (y - 1901) / 100 + (y - 1601) / 400).
Definition cum (m : Z) : Z := nth (Z.to_nat m) [0;0;31;59;90;120;151;181;212;243;273;304;334;365] 0.
Definition days_before_month (y m : Z) : Z := cum m + (if (2 <? m) && is_leap y then 1 else 0).
(* linear in d: day 0 and day 32 mean what time.Date's normalisation makes of them *)
Definition days_from_civil (y m d : Z) : Z := days_before_year y + days_before_month y m + (d - 1).
Definition weekday_of_days (n : Z) : Z := (n + 4) mod 7.        (* 0 = Sunday; 1970-01-01 was a Thursday *)
Definition weekday_of (y m d : Z) : Z := weekday_of_days (days_from_civil y m d).

(* civil from days: H. Hinnant's closed form, whose result is CHECKED against days_from_civil
   (a verified checker instead of a proof of the closed form) *)
Definition civil_from_days_raw (z0 : Z) : Z * Z * Z :=
  let z := z0 + 719468 in
  let era := z / 146097 in
  let doe := z - era * 146097 in
  let yoe := (doe - doe / 1460 + doe / 36524 - doe / 146096) / 365 in
  let y := yoe + era * 400 in
  let doy := doe - (365 * yoe + yoe / 4 - yoe / 100) in
  let mp := (5 * doy + 2) / 153 in
  let d := doy - (153 * mp + 2) / 5 + 1 in
  let m := if mp <? 10 then mp + 3 else mp - 9 in
  ((if m <=? 2 then y + 1 else y), m, d).
Definition civil_from_days (n : Z) : option (Z * Z * Z) :=
  let '(y, m, d) := civil_from_days_raw n in
  if (1 <=? m) && (m <=? 12) && (1 <=? d) && (d <=? month_len y m) && (days_from_civil y m d =? n)
  then Some (y, m, d) else None.

(* a civil date-time tuple (y, m, d, h, mi, s) *)
Definition civil := (Z * Z * Z * Z * Z * Z)%type.

Definition valid_date (y m d : Z) : bool := (1 <=? m) && (m <=? 12) && (1 <=? d) && (d <=? month_len y m).
Definition valid_civil (c : civil) : bool :=
  let '(y, m, d, h, mi, s) := c in
  valid_date y m d && (0 <=? h) && (h <=? 23) && (0 <=? mi) && (mi <=? 59) && (0 <=? s) && (s <=? 59).

(* seconds since the epoch of the civil tuple read as UTC *)
Definition civil_to_unix (c : civil) : Z :=
  let '(y, m, d, h, mi, s) := c in days_from_civil y m d * 86400 + h * 3600 + mi * 60 + s.

(* the civil reading of instant t (seconds) at a fixed offset (seconds east of UTC) *)
Definition civil_from_unix (off t : Z) : option civil :=
  let local := t + off in
  match civil_from_days (local / 86400) with
  | None => None
  | Some (y, m, d) =>
      let sod := local mod 86400 in
      Some (y, m, d, sod / 3600, (sod / 60) mod 60, sod mod 60)
  end.

(* lexicographic order on civil tuples (most significant first) *)
Definition civil_lt (a b : civil) : Prop :=
  let '(y1, m1, d1, h1, i1, s1) := a in
  let '(y2, m2, d2, h2, i2, s2) := b in
  y1 < y2 \/ (y1 = y2 /\ (m1 < m2 \/ (m1 = m2 /\ (d1 < d2 \/ (d1 = d2 /\ (h1 < h2 \/ (h1 = h2 /\ (i1 < i2 \/ (i1 = i2 /\ s1 < s2))))))))).
Definition civil_le (a b : civil) : Prop := a = b \/ civil_lt a b.
