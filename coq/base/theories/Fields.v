(* The parsed form of a cron expression -- the interface between the parser model (coq/parser)
   and the next-fire-time machine (coq/cron).  Mirrors quartz/cron.go's []*cronField after
   buildCronField (day-of-week values already shifted to 0..6 by add(-1)).

     index  field         values                      n
     0      second        sorted, 0..59               0
     1      minute        sorted, 0..59               0
     2      hour          sorted, 0..23               0
     3      day-of-month  sorted 1..31 | [] | [0] | [d]   0 | 1 (L) | -k (L-k) | 3 (LW) | 2 (dW)
     4      month         sorted, 1..12               0
     5      day-of-week   sorted 0..6 | [d]           0 | -1 (dL, L) | k (d#k)
     6      year          sorted, 1970..3940          0
   An empty value list means "every value" (tokens * and ?). *)
From Coq Require Import ZArith List Bool.
Import ListNotations.
Open Scope Z_scope.

Record fields := {
  fl_sec : list Z; fl_min : list Z; fl_hour : list Z;
  fl_dom : list Z; fl_dom_n : Z;
  fl_mon : list Z;
  fl_dow : list Z; fl_dow_n : Z;
  fl_year : list Z
}.

Fixpoint sortedb (l : list Z) : bool :=
  match l with
  | [] => true
  | x :: l' => match l' with [] => true | y :: _ => (x <=? y) && sortedb l' end
  end.
Definition in_range (lo hi : Z) (l : list Z) : bool := forallb (fun v => (lo <=? v) && (v <=? hi)) l.
(* ascending (duplicates allowed: "1,1" parses to [1;1]) and inside the field's range *)
Definition sorted_in (lo hi : Z) (l : list Z) : bool := in_range lo hi l && sortedb l.

Definition single_in (lo hi : Z) (l : list Z) : bool :=
  match l with [d] => (lo <=? d) && (d <=? hi) | _ => false end.

(* the day-of-month field alone *)
Definition dom_shape (vals : list Z) (n : Z) : bool :=
  ((n =? 0) && sorted_in 1 31 vals)                                   (* *, ?, values, lists, ranges, steps *)
  || ((n =? 1) && match vals with [] => true | _ => false end)        (* L *)
  || ((-31 <=? n) && (n <=? -1) && match vals with [] => true | _ => false end)   (* L-k *)
  || ((n =? 3) && match vals with [0] => true | _ => false end)       (* LW *)
  || ((n =? 2) && single_in 1 31 vals).                               (* dW *)

(* the day-of-week field alone (restricted: vals non-empty) *)
Definition dow_shape (vals : list Z) (n : Z) : bool :=
  ((n =? 0) && sorted_in 0 6 vals)
  || (((n =? -1) || ((1 <=? n) && (n <=? 5))) && single_in 0 6 vals). (* dL / L ; d#k *)

Definition wf_day (f : fields) : bool :=
  match fl_dow f with
  | [] => (fl_dow_n f =? 0) && dom_shape (fl_dom f) (fl_dom_n f)
  | _ => match fl_dom f with [] => true | _ => false end && (fl_dom_n f =? 0) && dow_shape (fl_dow f) (fl_dow_n f)
  end.

Definition wf_fields (f : fields) : bool :=
  sorted_in 0 59 (fl_sec f) && sorted_in 0 59 (fl_min f) && sorted_in 0 23 (fl_hour f) &&
  sorted_in 1 12 (fl_mon f) && sorted_in 1970 3940 (fl_year f) && wf_day f.

Definition list_eqb (a b : list Z) : bool :=
  (Nat.eqb (length a) (length b)) && forallb (fun p => fst p =? snd p) (combine a b).
Definition fields_eqb (a b : fields) : bool :=
  list_eqb (fl_sec a) (fl_sec b) && list_eqb (fl_min a) (fl_min b) && list_eqb (fl_hour a) (fl_hour b) &&
  list_eqb (fl_dom a) (fl_dom b) && (fl_dom_n a =? fl_dom_n b) && list_eqb (fl_mon a) (fl_mon b) &&
  list_eqb (fl_dow a) (fl_dow b) && (fl_dow_n a =? fl_dow_n b) && list_eqb (fl_year a) (fl_year b).
