(* The civil reading of every instant an int64 nanosecond count can denote (years 1677..2262),
   at offsets within +-26 h -- the range over which the cron theorems are stated.  Generalises the
   non-negative versions of CalendarProofs.v (which rest on a finite sweep of 1969..2264) using the
   totality of civil_from_days for all day numbers (GoTimeProofs.v). *)
From Coq Require Import ZArith List Bool Lia ZifyBool.
Require Import QzBase.Calendar QzBase.CalendarProofs QzBase.GoTime QzBase.GoTimeProofs.
Open Scope Z_scope.
Ltac Zify.zify_post_hook ::= Z.div_mod_to_equations.

(* floor(MinInt64 / 10^9) = -9223372037, floor(MaxInt64 / 10^9) = 9223372036 *)
Lemma local_day_range_wide : forall off t, -93600 <= off <= 93600 -> -9223372037 <= t <= 9223372036 ->
  -106754 <= (t + off) / 86400 <= 106753.
Proof. intros off t Ho Ht. lia. Qed.

Lemma civil_from_unix_total_wide : forall off t, exists c, civil_from_unix off t = Some c.
Proof.
  intros off t. unfold civil_from_unix. cbv zeta.
  destruct (civil_from_days ((t + off) / 86400)) as [[[y m] d]|] eqn:E.
  - cbv beta iota. eexists. reflexivity.
  - exfalso. exact (civil_from_days_total_all _ E).
Qed.

Lemma dby_1677 : days_before_year 1677 = -107015.
Proof. vm_compute. reflexivity. Qed.
Lemma dby_2263 : days_before_year 2263 = 107016.
Proof. vm_compute. reflexivity. Qed.

Lemma days_from_civil_bounds : forall y m d, valid_date y m d = true ->
  days_before_year y <= days_from_civil y m d < days_before_year y + year_len y.
Proof. intros y m d Hv. pose proof (day_of_year_range y m d Hv). unfold days_from_civil. lia. Qed.

Lemma civil_from_days_year_range_wide : forall n y m d, -106754 <= n <= 106753 ->
  civil_from_days n = Some (y, m, d) -> 1677 <= y <= 2262.
Proof.
  intros n y m d Hn Hc. apply civil_from_days_sound in Hc. destruct Hc as [Hv Hd].
  pose proof (days_from_civil_bounds y m d Hv) as Hb. rewrite Hd in Hb.
  split.
  - destruct (Z_lt_ge_dec y 1677) as [Hlt|Hge]; [|lia]. exfalso.
    pose proof (dby_mono y 1677 Hlt) as Hm. rewrite dby_1677 in Hm. lia.
  - destruct (Z_lt_ge_dec 2262 y) as [Hlt|Hge]; [|lia]. exfalso.
    assert (2263 = y \/ 2263 < y) as [<-|Hlt'] by lia.
    + rewrite dby_2263 in Hb. lia.
    + pose proof (dby_mono 2263 y Hlt') as Hm. rewrite dby_2263 in Hm.
      pose proof (year_len_range 2263). lia.
Qed.

Lemma civil_from_unix_year_range_wide : forall off t y m d h mi s, -93600 <= off <= 93600 ->
  -9223372037 <= t <= 9223372036 ->
  civil_from_unix off t = Some (y, m, d, h, mi, s) -> 1677 <= y <= 2262.
Proof.
  intros off t y m d h mi s Ho Ht H. pose proof (local_day_range_wide off t Ho Ht) as Hd.
  unfold civil_from_unix in H. cbv zeta in H.
  destruct (civil_from_days ((t + off) / 86400)) as [[[y0 m0] d0]|] eqn:E; [|discriminate H].
  cbv beta iota in H. inversion H; subst y0 m0 d0.
  exact (civil_from_days_year_range_wide _ _ _ _ Hd E).
Qed.

(* going back: the reading of the instant at which a valid civil tuple is shown (any instant) *)
Lemma civil_from_unix_to_unix_wide : forall off c, valid_civil c = true ->
  civil_from_unix off (civil_to_unix c - off) = Some c.
Proof.
  intros off c Hv.
  destruct (civil_from_unix_total_wide off (civil_to_unix c - off)) as [c' Hc'].
  rewrite Hc'. f_equal.
  apply civil_from_unix_sound in Hc'. destruct Hc' as [Hv' Hu'].
  apply civil_to_unix_inj; [exact Hv' | exact Hv | lia].
Qed.

Print Assumptions civil_from_unix_total_wide.
Print Assumptions civil_from_unix_year_range_wide.
Print Assumptions civil_from_unix_to_unix_wide.
