(* M0 -- lemmas about the proleptic Gregorian calendar arithmetic of Calendar.v:
   ranges, recurrences, strict monotonicity / injectivity of civil_to_unix on valid tuples,
   soundness of the checked closed form civil_from_days, and (by a finite sweep evaluated
   in the kernel's VM) its totality and year range on the int64-nanosecond instant range. *)
From Coq Require Import ZArith Lia Bool List ZifyBool.
Require Import QzBase.Calendar.
Import ListNotations.
Open Scope Z_scope.
Ltac Zify.zify_post_hook ::= Z.div_mod_to_equations.

(* ------------------------------------------------------------------ *)
(* ranges                                                              *)

Lemma month_len_range : forall y m, 28 <= month_len y m <= 31.
Proof.
  intros y m. unfold month_len.
  destruct (m =? 2) eqn:E2; [destruct (is_leap y) eqn:EL; lia|].
  destruct ((m =? 4) || (m =? 6) || (m =? 9) || (m =? 11)) eqn:E30; lia.
Qed.

Lemma year_len_range : forall y, 365 <= year_len y <= 366.
Proof. intros y. unfold year_len. destruct (is_leap y) eqn:EL; lia. Qed.

Lemma weekday_of_days_range : forall n, 0 <= weekday_of_days n <= 6.
Proof. intros n. unfold weekday_of_days. lia. Qed.

Lemma weekday_of_range : forall y m d, 0 <= weekday_of y m d <= 6.
Proof. intros y m d. unfold weekday_of. apply weekday_of_days_range. Qed.

Lemma days_from_civil_add : forall y m d k, days_from_civil y m (d + k) = days_from_civil y m d + k.
Proof. intros y m d k. unfold days_from_civil. lia. Qed.

Lemma weekday_of_add : forall y m d k, weekday_of y m (d + k) = (weekday_of y m d + k) mod 7.
Proof.
  intros y m d k. unfold weekday_of. rewrite days_from_civil_add.
  generalize (days_from_civil y m d) as n. intros n.
  unfold weekday_of_days. lia.
Qed.

(* ------------------------------------------------------------------ *)
(* year / month recurrences                                            *)

Lemma days_before_year_succ : forall y, days_before_year (y + 1) = days_before_year y + year_len y.
Proof.
  intros y. unfold days_before_year, year_len, is_leap.
  destruct (y mod 4 =? 0) eqn:E4; destruct (y mod 100 =? 0) eqn:E100; destruct (y mod 400 =? 0) eqn:E400;
    cbn [andb orb negb]; lia.
Qed.

Lemma dbm_1 : forall y, days_before_month y 1 = 0.
Proof.
  intros y. unfold days_before_month. change (cum 1) with 0. change (2 <? 1) with false.
  cbn [andb]. reflexivity.
Qed.

Lemma dbm_13 : forall y, days_before_month y 13 = year_len y.
Proof.
  intros y. unfold days_before_month, year_len. change (cum 13) with 365. change (2 <? 13) with true.
  cbn [andb]. destruct (is_leap y) eqn:EL; lia.
Qed.

Lemma dbm_succ : forall y m, 1 <= m <= 12 -> days_before_month y (m + 1) = days_before_month y m + month_len y m.
Proof.
  intros y m H.
  assert (m = 1 \/ m = 2 \/ m = 3 \/ m = 4 \/ m = 5 \/ m = 6 \/ m = 7 \/ m = 8 \/ m = 9 \/ m = 10 \/ m = 11 \/ m = 12)
    as Hm by lia.
  unfold days_before_month, month_len.
  repeat (destruct Hm as [Hm|Hm]); subst m;
  match goal with |- cum ?a + (if (2 <? ?a) && _ then _ else _) = cum ?b + (if (2 <? ?b) && _ then _ else _) + _ =>
    let ca := eval vm_compute in (cum a) in let cb := eval vm_compute in (cum b) in
    let la := eval vm_compute in (2 <? a) in let lb := eval vm_compute in (2 <? b) in
    change (cum a) with ca; change (cum b) with cb; change (2 <? a) with la; change (2 <? b) with lb end;
  cbn [andb orb Z.eqb Pos.eqb]; destruct (is_leap y) eqn:EL; lia.
Qed.

Lemma dbm_mono : forall y m1 m2, 1 <= m1 -> m1 < m2 -> m2 <= 13 ->
  days_before_month y m1 + month_len y m1 <= days_before_month y m2.
Proof.
  intros y m1 m2 H1 H12 H2.
  assert (exists k, m2 = m1 + 1 + Z.of_nat k) as [k ->] by (exists (Z.to_nat (m2 - m1 - 1)); lia).
  clear H12. induction k as [|k IH].
  - rewrite Z.add_0_r. rewrite dbm_succ by lia. lia.
  - replace (m1 + 1 + Z.of_nat (S k)) with ((m1 + 1 + Z.of_nat k) + 1) by lia.
    rewrite dbm_succ by lia.
    pose proof (month_len_range y (m1 + 1 + Z.of_nat k)) as Hml.
    assert (m1 + 1 + Z.of_nat k <= 13) as Hle by lia.
    specialize (IH Hle). lia.
Qed.

Lemma dbm_nonneg : forall y m, 1 <= m <= 13 -> 0 <= days_before_month y m.
Proof.
  intros y m H. assert (m = 1 \/ 1 < m) as [->|Hlt] by lia.
  - rewrite dbm_1. lia.
  - pose proof (dbm_mono y 1 m ltac:(lia) Hlt ltac:(lia)) as Hm.
    rewrite dbm_1 in Hm. pose proof (month_len_range y 1) as Hml. lia.
Qed.

Lemma dby_mono : forall y1 y2, y1 < y2 -> days_before_year y1 + year_len y1 <= days_before_year y2.
Proof.
  intros y1 y2 H12.
  assert (exists k, y2 = y1 + 1 + Z.of_nat k) as [k ->] by (exists (Z.to_nat (y2 - y1 - 1)); lia).
  clear H12. induction k as [|k IH].
  - rewrite Z.add_0_r. rewrite days_before_year_succ. lia.
  - replace (y1 + 1 + Z.of_nat (S k)) with ((y1 + 1 + Z.of_nat k) + 1) by lia.
    rewrite days_before_year_succ.
    pose proof (year_len_range (y1 + 1 + Z.of_nat k)) as Hyl. lia.
Qed.

(* ------------------------------------------------------------------ *)
(* valid dates                                                         *)

Lemma valid_date_iff : forall y m d,
  valid_date y m d = true <-> (1 <= m <= 12 /\ 1 <= d <= month_len y m).
Proof.
  intros y m d. unfold valid_date. rewrite !andb_true_iff.
  generalize (month_len y m) as l. intros l. lia.
Qed.

Lemma day_of_year_range : forall y m d, valid_date y m d = true ->
  0 <= days_before_month y m + (d - 1) < year_len y.
Proof.
  intros y m d Hv. apply valid_date_iff in Hv. destruct Hv as [Hm Hd].
  pose proof (dbm_nonneg y m ltac:(lia)) as H0.
  pose proof (dbm_mono y m 13 ltac:(lia) ltac:(lia) ltac:(lia)) as H13.
  rewrite dbm_13 in H13. lia.
Qed.

Lemma days_from_civil_lt : forall y1 m1 d1 y2 m2 d2,
  valid_date y1 m1 d1 = true -> valid_date y2 m2 d2 = true ->
  (y1 < y2 \/ (y1 = y2 /\ (m1 < m2 \/ (m1 = m2 /\ d1 < d2)))) ->
  days_from_civil y1 m1 d1 < days_from_civil y2 m2 d2.
Proof.
  intros y1 m1 d1 y2 m2 d2 Hv1 Hv2 Hlt.
  unfold days_from_civil.
  destruct Hlt as [Hy|[Hy [Hm|[Hm Hd]]]].
  - pose proof (day_of_year_range _ _ _ Hv1) as R1.
    pose proof (day_of_year_range _ _ _ Hv2) as R2.
    pose proof (dby_mono y1 y2 Hy) as Hyy. lia.
  - subst y2. apply valid_date_iff in Hv1. apply valid_date_iff in Hv2.
    destruct Hv1 as [Hm1 Hd1]. destruct Hv2 as [Hm2 Hd2].
    pose proof (dbm_mono y1 m1 m2 ltac:(lia) Hm ltac:(lia)) as Hmm. lia.
  - subst y2 m2. lia.
Qed.

(* ------------------------------------------------------------------ *)
(* civil tuples                                                        *)

Lemma valid_civil_iff : forall y m d h mi s,
  valid_civil (y, m, d, h, mi, s) = true <->
  (valid_date y m d = true /\ 0 <= h <= 23 /\ 0 <= mi <= 59 /\ 0 <= s <= 59).
Proof.
  intros y m d h mi s. unfold valid_civil. rewrite !andb_true_iff.
  rewrite !Z.leb_le. tauto.
Qed.

Lemma civil_to_unix_lt : forall a b, valid_civil a = true -> valid_civil b = true ->
  civil_lt a b -> civil_to_unix a < civil_to_unix b.
Proof.
  intros [[[[[y1 m1] d1] h1] i1] s1] [[[[[y2 m2] d2] h2] i2] s2] Hva Hvb Hlt.
  apply valid_civil_iff in Hva. apply valid_civil_iff in Hvb.
  destruct Hva as [Hda [Hh1 [Hi1 Hs1]]]. destruct Hvb as [Hdb [Hh2 [Hi2 Hs2]]].
  unfold civil_lt in Hlt. unfold civil_to_unix.
  assert ((y1 < y2 \/ (y1 = y2 /\ (m1 < m2 \/ (m1 = m2 /\ d1 < d2)))) \/
          (y1 = y2 /\ m1 = m2 /\ d1 = d2 /\
           (h1 < h2 \/ (h1 = h2 /\ (i1 < i2 \/ (i1 = i2 /\ s1 < s2)))))) as [Hdate|Htime] by lia.
  - pose proof (days_from_civil_lt _ _ _ _ _ _ Hda Hdb Hdate) as Hd.
    revert Hd. generalize (days_from_civil y1 m1 d1) as n1. generalize (days_from_civil y2 m2 d2) as n2.
    intros n2 n1 Hd. lia.
  - destruct Htime as [-> [-> [-> Ht]]].
    generalize (days_from_civil y2 m2 d2) as n. intros n. lia.
Qed.

Lemma civil_lt_trichotomy : forall a b, civil_lt a b \/ a = b \/ civil_lt b a.
Proof.
  intros [[[[[y1 m1] d1] h1] i1] s1] [[[[[y2 m2] d2] h2] i2] s2].
  unfold civil_lt.
  destruct (Z.lt_trichotomy y1 y2) as [H|[H|H]]; [left; lia | subst y2 | right; right; lia].
  destruct (Z.lt_trichotomy m1 m2) as [H|[H|H]]; [left; lia | subst m2 | right; right; lia].
  destruct (Z.lt_trichotomy d1 d2) as [H|[H|H]]; [left; lia | subst d2 | right; right; lia].
  destruct (Z.lt_trichotomy h1 h2) as [H|[H|H]]; [left; lia | subst h2 | right; right; lia].
  destruct (Z.lt_trichotomy i1 i2) as [H|[H|H]]; [left; lia | subst i2 | right; right; lia].
  destruct (Z.lt_trichotomy s1 s2) as [H|[H|H]]; [left; lia | subst s2 | right; right; lia].
  right. left. reflexivity.
Qed.

Lemma civil_to_unix_lt_inv : forall a b, valid_civil a = true -> valid_civil b = true ->
  civil_to_unix a < civil_to_unix b -> civil_lt a b.
Proof.
  intros a b Hva Hvb Hlt.
  destruct (civil_lt_trichotomy a b) as [H|[H|H]].
  - exact H.
  - subst b. lia.
  - pose proof (civil_to_unix_lt b a Hvb Hva H) as Hba. lia.
Qed.

Lemma civil_to_unix_inj : forall a b, valid_civil a = true -> valid_civil b = true ->
  civil_to_unix a = civil_to_unix b -> a = b.
Proof.
  intros a b Hva Hvb Heq.
  destruct (civil_lt_trichotomy a b) as [H|[H|H]].
  - pose proof (civil_to_unix_lt a b Hva Hvb H) as Hab. lia.
  - exact H.
  - pose proof (civil_to_unix_lt b a Hvb Hva H) as Hba. lia.
Qed.

(* ------------------------------------------------------------------ *)
(* soundness of the checked closed form                                *)

Lemma civil_from_days_sound : forall n y m d, civil_from_days n = Some (y, m, d) ->
  valid_date y m d = true /\ days_from_civil y m d = n.
Proof.
  intros n y m d H. unfold civil_from_days in H.
  destruct (civil_from_days_raw n) as [[y0 m0] d0].
  destruct ((1 <=? m0) && (m0 <=? 12) && (1 <=? d0) && (d0 <=? month_len y0 m0) &&
            (days_from_civil y0 m0 d0 =? n)) eqn:E; [|discriminate H].
  inversion H; subst y0 m0 d0. clear H.
  apply andb_true_iff in E. destruct E as [Ev En].
  split.
  - unfold valid_date. exact Ev.
  - apply Z.eqb_eq. exact En.
Qed.

Lemma sod_split : forall sod, 0 <= sod < 86400 ->
  0 <= sod / 3600 <= 23 /\ 0 <= (sod / 60) mod 60 <= 59 /\ 0 <= sod mod 60 <= 59 /\
  sod / 3600 * 3600 + (sod / 60) mod 60 * 60 + sod mod 60 = sod.
Proof. intros sod H. lia. Qed.

Lemma civil_from_unix_sound : forall off t c, civil_from_unix off t = Some c ->
  valid_civil c = true /\ civil_to_unix c = t + off.
Proof.
  intros off t c H. unfold civil_from_unix in H. cbv zeta in H.
  destruct (civil_from_days ((t + off) / 86400)) as [[[y m] d]|] eqn:E; [|discriminate H].
  cbv beta iota in H. inversion H; subst c. clear H.
  apply civil_from_days_sound in E. destruct E as [Hv Hd].
  assert (0 <= (t + off) mod 86400 < 86400) as Hsod by lia.
  pose proof (sod_split _ Hsod) as [Hh [Hi [Hs Hsum]]].
  split.
  - apply valid_civil_iff. repeat split; try exact Hv; lia.
  - unfold civil_to_unix. rewrite Hd.
    revert Hsum. generalize ((t + off) mod 86400 / 3600) as hh.
    generalize (((t + off) mod 86400 / 60) mod 60) as ii.
    generalize (((t + off) mod 86400) mod 60) as ss.
    intros ss ii hh Hsum. lia.
Qed.

(* ------------------------------------------------------------------ *)
(* finite sweep                                                        *)

(* f holds on start, start+1, ..., start+len-1 *)
Fixpoint all_from (f : Z -> bool) (start : Z) (len : nat) : bool :=
  match len with
  | O => true
  | S k => if f start then all_from f (start + 1) k else false
  end.

Lemma all_from_spec : forall f len start, all_from f start len = true ->
  forall n, start <= n < start + Z.of_nat len -> f n = true.
Proof.
  intros f len. induction len as [|k IH]; intros start H n Hn.
  - lia.
  - cbn [all_from] in H. destruct (f start) eqn:Ef; [|discriminate H].
    assert (n = start \/ start + 1 <= n < start + 1 + Z.of_nat k) as [->|Hn'] by lia.
    + exact Ef.
    + exact (IH (start + 1) H n Hn').
Qed.

(* the closed form passes its check; on the days reachable from an int64-nanosecond instant
   with an offset of at most 26 h, the year is within 1969..2262 *)
Definition sweep_ok (n : Z) : bool :=
  match civil_from_days n with
  | Some (y, _, _) =>
      if (-2 <=? n) && (n <=? 106753) then (1969 <=? y) && (y <=? 2262) else true
  | None => false
  end.

Lemma sweep_all : all_from sweep_ok (-366) (Z.to_nat 107767) = true.
Proof. vm_compute. reflexivity. Qed.

Lemma sweep_ok_range : forall n, -366 <= n <= 107400 -> sweep_ok n = true.
Proof.
  intros n Hn. apply (all_from_spec sweep_ok (Z.to_nat 107767) (-366) sweep_all). lia.
Qed.

Lemma civil_from_days_total : forall n, -366 <= n <= 107400 -> civil_from_days n <> None.
Proof.
  intros n Hn Hnone. pose proof (sweep_ok_range n Hn) as Hs.
  unfold sweep_ok in Hs. rewrite Hnone in Hs. discriminate Hs.
Qed.

Lemma civil_from_days_year_range : forall n y m d, -2 <= n <= 106753 ->
  civil_from_days n = Some (y, m, d) -> 1969 <= y <= 2262.
Proof.
  intros n y m d Hn Hc. pose proof (sweep_ok_range n ltac:(lia)) as Hs.
  unfold sweep_ok in Hs. rewrite Hc in Hs. cbv beta iota in Hs.
  destruct ((-2 <=? n) && (n <=? 106753)) eqn:Er; lia.
Qed.

Lemma local_day_range : forall off t, -93600 <= off <= 93600 -> 0 <= t <= 9223372036 ->
  -2 <= (t + off) / 86400 <= 106753.
Proof. intros off t Ho Ht. lia. Qed.

Lemma civil_from_unix_total : forall off t, -93600 <= off <= 93600 -> 0 <= t <= 9223372036 ->
  exists c, civil_from_unix off t = Some c.
Proof.
  intros off t Ho Ht. pose proof (local_day_range off t Ho Ht) as Hd.
  unfold civil_from_unix. cbv zeta.
  destruct (civil_from_days ((t + off) / 86400)) as [[[y m] d]|] eqn:E.
  - cbv beta iota. eexists. reflexivity.
  - exfalso. revert E. apply civil_from_days_total. lia.
Qed.

Lemma civil_from_unix_year_range : forall off t y m d h mi s, -93600 <= off <= 93600 -> 0 <= t <= 9223372036 ->
  civil_from_unix off t = Some (y, m, d, h, mi, s) -> 1969 <= y <= 2262.
Proof.
  intros off t y m d h mi s Ho Ht H. pose proof (local_day_range off t Ho Ht) as Hd.
  unfold civil_from_unix in H. cbv zeta in H.
  destruct (civil_from_days ((t + off) / 86400)) as [[[y0 m0] d0]|] eqn:E; [|discriminate H].
  cbv beta iota in H. inversion H; subst y0 m0 d0.
  exact (civil_from_days_year_range _ _ _ _ Hd E).
Qed.

(* going back: the reading of the instant at which a valid civil tuple is shown *)
Lemma civil_from_unix_to_unix : forall off c, valid_civil c = true -> -93600 <= off <= 93600 ->
  0 <= civil_to_unix c - off <= 9223372036 ->
  civil_from_unix off (civil_to_unix c - off) = Some c.
Proof.
  intros off c Hv Ho Ht.
  destruct (civil_from_unix_total off (civil_to_unix c - off) Ho Ht) as [c' Hc'].
  rewrite Hc'. f_equal.
  apply civil_from_unix_sound in Hc'. destruct Hc' as [Hv' Hu'].
  apply civil_to_unix_inj; [exact Hv' | exact Hv | lia].
Qed.

Print Assumptions month_len_range.
Print Assumptions weekday_of_range.
Print Assumptions weekday_of_add.
Print Assumptions days_before_year_succ.
Print Assumptions dbm_succ.
Print Assumptions days_from_civil_lt.
Print Assumptions civil_to_unix_lt.
Print Assumptions civil_to_unix_lt_inv.
Print Assumptions civil_to_unix_inj.
Print Assumptions civil_from_days_sound.
Print Assumptions civil_from_unix_sound.
Print Assumptions civil_from_days_total.
Print Assumptions civil_from_unix_total.
Print Assumptions civil_from_unix_year_range.
Print Assumptions civil_from_unix_to_unix.
