(* M0 -- lemmas about the day-number model of Go's time package in GoTime.v:
   totality of civil_from_days on ALL day numbers (400-year periodicity plus a sweep of one
   era evaluated in the kernel's VM), the round trip Date -> civil -> Date, AddDate by days,
   lastDayOfMonth, and staying in / leaving the month when shifting by at most a week. *)
From Coq Require Import ZArith Lia Bool List ZifyBool.
Require Import QzBase.Calendar QzBase.CalendarProofs QzBase.GoTime.
Import ListNotations.
Open Scope Z_scope.
Ltac Zify.zify_post_hook ::= Z.div_mod_to_equations.

(* ------------------------------------------------------------------ *)
(* A. 400-year periodicity                                             *)

Lemma days_before_year_400 : forall y, days_before_year (y + 400) = days_before_year y + 146097.
Proof. intros y. unfold days_before_year. lia. Qed.

Lemma is_leap_400 : forall y, is_leap (y + 400) = is_leap y.
Proof.
  intros y. unfold is_leap.
  assert ((y + 400) mod 4 = y mod 4) as E4 by lia.
  assert ((y + 400) mod 100 = y mod 100) as E100 by lia.
  assert ((y + 400) mod 400 = y mod 400) as E400 by lia.
  rewrite E4, E100, E400. reflexivity.
Qed.

Lemma month_len_400 : forall y m, month_len (y + 400) m = month_len y m.
Proof. intros y m. unfold month_len. rewrite is_leap_400. reflexivity. Qed.

Lemma days_from_civil_400 : forall y m d,
  days_from_civil (y + 400) m d = days_from_civil y m d + 146097.
Proof.
  intros y m d. unfold days_from_civil, days_before_month.
  rewrite days_before_year_400, is_leap_400. lia.
Qed.

Lemma civil_from_days_raw_400 : forall n,
  civil_from_days_raw (n + 146097) = let '(y, m, d) := civil_from_days_raw n in (y + 400, m, d).
Proof.
  intros n. unfold civil_from_days_raw. cbv beta iota zeta.
  replace (n + 146097 + 719468) with ((n + 719468) + 1 * 146097) by lia.
  rewrite Z.div_add by lia.
  set (z := n + 719468). set (era := z / 146097).
  replace (z + 1 * 146097 - (era + 1) * 146097) with (z - era * 146097) by lia.
  set (doe := z - era * 146097).
  set (yoe := (doe - doe / 1460 + doe / 36524 - doe / 146096) / 365).
  replace (yoe + (era + 1) * 400) with (yoe + era * 400 + 400) by lia.
  set (doy := doe - (365 * yoe + yoe / 4 - yoe / 100)).
  set (mp := (5 * doy + 2) / 153).
  set (mm := if mp <? 10 then mp + 3 else mp - 9).
  destruct (mm <=? 2) eqn:Em; f_equal; f_equal; lia.
Qed.

Lemma civil_from_days_400 : forall n,
  civil_from_days (n + 146097) =
  match civil_from_days n with Some (y, m, d) => Some (y + 400, m, d) | None => None end.
Proof.
  intros n. unfold civil_from_days. rewrite civil_from_days_raw_400.
  destruct (civil_from_days_raw n) as [[y m] d]. cbv beta iota.
  rewrite month_len_400, days_from_civil_400.
  assert ((days_from_civil y m d + 146097 =? n + 146097) = (days_from_civil y m d =? n)) as Eeq.
  { generalize (days_from_civil y m d) as x. intros x.
    destruct (x + 146097 =? n + 146097) eqn:E1; destruct (x =? n) eqn:E2; lia. }
  rewrite Eeq.
  destruct ((1 <=? m) && (m <=? 12) && (1 <=? d) && (d <=? month_len y m) &&
            (days_from_civil y m d =? n)) eqn:E; reflexivity.
Qed.

Definition is_some_civil (n : Z) : bool :=
  match civil_from_days n with Some _ => true | None => false end.

Lemma is_some_civil_400 : forall n, is_some_civil (n + 146097) = is_some_civil n.
Proof.
  intros n. unfold is_some_civil. rewrite civil_from_days_400.
  destruct (civil_from_days n) as [[[y m] d]|]; reflexivity.
Qed.

(* one era: the 146097 days from 1970-01-01 *)
Lemma era_sweep : all_from is_some_civil 0 (Z.to_nat 146097) = true.
Proof. vm_compute. reflexivity. Qed.

Lemma is_some_civil_era : forall r, 0 <= r < 146097 -> is_some_civil r = true.
Proof.
  intros r Hr. apply (all_from_spec is_some_civil (Z.to_nat 146097) 0 era_sweep). lia.
Qed.

Lemma is_some_civil_up : forall k, 0 <= k -> forall r, is_some_civil (r + 146097 * k) = is_some_civil r.
Proof.
  intros k Hk. pattern k. apply natlike_ind; [| |exact Hk].
  - intros r. f_equal. lia.
  - intros j Hj IH r.
    replace (r + 146097 * Z.succ j) with ((r + 146097 * j) + 146097) by lia.
    rewrite is_some_civil_400. apply IH.
Qed.

Lemma is_some_civil_all : forall n, is_some_civil n = true.
Proof.
  intros n.
  assert (0 <= n mod 146097 < 146097) as Hr by lia.
  assert (n = n mod 146097 + 146097 * (n / 146097)) as Hn by lia.
  pose proof (is_some_civil_era _ Hr) as Hera.
  destruct (Z_le_gt_dec 0 (n / 146097)) as [Hk|Hk].
  - rewrite Hn. rewrite (is_some_civil_up _ Hk). exact Hera.
  - assert (0 <= - (n / 146097)) as Hk' by lia.
    pose proof (is_some_civil_up _ Hk' n) as Hup.
    rewrite <- Hup.
    replace (n + 146097 * - (n / 146097)) with (n mod 146097) by lia.
    exact Hera.
Qed.

Theorem civil_from_days_total_all : forall n, civil_from_days n <> None.
Proof.
  intros n Hnone. pose proof (is_some_civil_all n) as Hs.
  unfold is_some_civil in Hs. rewrite Hnone in Hs. discriminate Hs.
Qed.

(* ------------------------------------------------------------------ *)
(* B. round trip                                                       *)

Lemma days_from_civil_inj : forall y1 m1 d1 y2 m2 d2,
  valid_date y1 m1 d1 = true -> valid_date y2 m2 d2 = true ->
  days_from_civil y1 m1 d1 = days_from_civil y2 m2 d2 ->
  (y1, m1, d1) = (y2, m2, d2).
Proof.
  intros y1 m1 d1 y2 m2 d2 Hv1 Hv2 Heq.
  assert ((y1 < y2 \/ (y1 = y2 /\ (m1 < m2 \/ (m1 = m2 /\ d1 < d2)))) \/
          (y1 = y2 /\ m1 = m2 /\ d1 = d2) \/
          (y2 < y1 \/ (y2 = y1 /\ (m2 < m1 \/ (m2 = m1 /\ d2 < d1))))) as [Hlt|[Hsame|Hgt]] by lia.
  - pose proof (days_from_civil_lt _ _ _ _ _ _ Hv1 Hv2 Hlt) as Hc. lia.
  - destruct Hsame as [-> [-> ->]]. reflexivity.
  - pose proof (days_from_civil_lt _ _ _ _ _ _ Hv2 Hv1 Hgt) as Hc. lia.
Qed.

Theorem civil_from_days_roundtrip : forall y m d, valid_date y m d = true ->
  civil_from_days (days_from_civil y m d) = Some (y, m, d).
Proof.
  intros y m d Hv.
  destruct (civil_from_days (days_from_civil y m d)) as [[[y' m'] d']|] eqn:E.
  - apply civil_from_days_sound in E. destruct E as [Hv' Hd'].
    f_equal. exact (days_from_civil_inj _ _ _ _ _ _ Hv' Hv Hd').
  - exfalso. exact (civil_from_days_total_all _ E).
Qed.

(* ------------------------------------------------------------------ *)
(* C. the time model                                                   *)

Lemma time_civil_Date : forall y m d, valid_date y m d = true ->
  time_civil (time_Date y m d) = (y, m, d).
Proof.
  intros y m d Hv. unfold time_civil, time_Date.
  rewrite (civil_from_days_roundtrip y m d Hv). reflexivity.
Qed.

Lemma time_Year_Date : forall y m d, valid_date y m d = true -> time_Year (time_Date y m d) = y.
Proof. intros y m d Hv. unfold time_Year. rewrite (time_civil_Date y m d Hv). reflexivity. Qed.

Lemma time_Month_Date : forall y m d, valid_date y m d = true -> time_Month (time_Date y m d) = m.
Proof. intros y m d Hv. unfold time_Month. rewrite (time_civil_Date y m d Hv). reflexivity. Qed.

Lemma time_Day_Date : forall y m d, valid_date y m d = true -> time_Day (time_Date y m d) = d.
Proof. intros y m d Hv. unfold time_Day. rewrite (time_civil_Date y m d Hv). reflexivity. Qed.

Lemma time_Date_civil : forall t,
  let '(y, m, d) := time_civil t in valid_date y m d = true /\ time_Date y m d = t.
Proof.
  intros t. unfold time_civil.
  destruct (civil_from_days t) as [[[y m] d]|] eqn:E.
  - unfold time_Date. exact (civil_from_days_sound t y m d E).
  - exfalso. exact (civil_from_days_total_all _ E).
Qed.

Lemma time_AddDate_days : forall t k, time_AddDate t 0 0 k = t + k.
Proof.
  intros t k. unfold time_AddDate. pose proof (time_Date_civil t) as Hc.
  destruct (time_civil t) as [[y m] d]. destruct Hc as [Hv Hd].
  rewrite !Z.add_0_r. unfold time_Date in *. rewrite days_from_civil_add. lia.
Qed.

Lemma time_Weekday_Date : forall y m d, time_Weekday (time_Date y m d) = weekday_of y m d.
Proof. intros y m d. reflexivity. Qed.

Lemma valid_first : forall y m, 1 <= m <= 12 -> valid_date y m 1 = true.
Proof.
  intros y m Hm. apply valid_date_iff. pose proof (month_len_range y m) as Hl. lia.
Qed.

Lemma valid_last : forall y m, 1 <= m <= 12 -> valid_date y m (month_len y m) = true.
Proof.
  intros y m Hm. apply valid_date_iff. pose proof (month_len_range y m) as Hl. lia.
Qed.

(* Go's lastDayOfMonth: first of the month, AddDate(0, 1, -1), Day() *)
Theorem last_day_of_month_eq : forall y m, 1 <= m <= 12 ->
  time_Day (time_AddDate (time_Date y m 1) 0 1 (-1)) = month_len y m.
Proof.
  intros y m Hm. unfold time_AddDate.
  rewrite (time_civil_Date y m 1 (valid_first y m Hm)).
  rewrite Z.add_0_r. change (1 + -1) with 0.
  assert (time_Date y (m + 1) 0 = time_Date y m (month_len y m)) as Heq.
  { unfold time_Date, days_from_civil. rewrite (dbm_succ y m Hm). lia. }
  rewrite Heq. apply time_Day_Date. exact (valid_last y m Hm).
Qed.

(* the same month of two different years is at least 300 days apart *)
Lemma dbm_diff : forall y1 y2 m, days_before_month y1 m <= days_before_month y2 m + 1.
Proof.
  intros y1 y2 m. unfold days_before_month.
  destruct ((2 <? m) && is_leap y1) eqn:E1; destruct ((2 <? m) && is_leap y2) eqn:E2; lia.
Qed.

Lemma same_month_far : forall y1 y2 m d1 d2,
  valid_date y1 m d1 = true -> valid_date y2 m d2 = true -> y1 < y2 ->
  days_from_civil y1 m d1 + 300 <= days_from_civil y2 m d2.
Proof.
  intros y1 y2 m d1 d2 Hv1 Hv2 Hy.
  apply valid_date_iff in Hv1. apply valid_date_iff in Hv2.
  destruct Hv1 as [Hm1 Hd1]. destruct Hv2 as [Hm2 Hd2].
  pose proof (month_len_range y1 m) as Hl1.
  pose proof (dby_mono y1 y2 Hy) as Hyy.
  pose proof (year_len_range y1) as Hyl.
  pose proof (dbm_diff y1 y2 m) as Hdm.
  unfold days_from_civil. lia.
Qed.

Lemma shift_core : forall y m d j, valid_date y m d = true -> -7 <= j <= 7 ->
  (1 <= d + j <= month_len y m -> time_civil (time_Date y m d + j) = (y, m, d + j)) /\
  (~ (1 <= d + j <= month_len y m) -> time_Month (time_Date y m d + j) <> m).
Proof.
  intros y m d j Hv Hj. split.
  - intros Hin. unfold time_Date. rewrite <- days_from_civil_add.
    apply time_civil_Date. apply valid_date_iff. apply valid_date_iff in Hv. lia.
  - intros Hout Hmm.
    pose proof (time_Date_civil (time_Date y m d + j)) as Hc.
    unfold time_Month in Hmm.
    destruct (time_civil (time_Date y m d + j)) as [[y' m'] d'].
    destruct Hc as [Hv' Hd']. subst m'. unfold time_Date in Hd'.
    destruct (Z.lt_trichotomy y' y) as [Hlt|[Heq|Hgt]].
    + pose proof (same_month_far y' y m d' d Hv' Hv Hlt) as Hfar. lia.
    + subst y'. apply valid_date_iff in Hv'. destruct Hv' as [_ Hd'r].
      rewrite <- days_from_civil_add in Hd'.
      unfold days_from_civil in Hd'. lia.
    + pose proof (same_month_far y y' m d d' Hv Hv' Hgt) as Hfar. lia.
Qed.

Theorem shift_back_same_month : forall y m d i, valid_date y m d = true -> 1 <= i <= 7 ->
  ((time_Month (time_Date y m d - i) =? m) = (1 <=? d - i)) /\
  (1 <= d - i -> time_Day (time_Date y m d - i) = d - i).
Proof.
  intros y m d i Hv Hi.
  assert (-7 <= - i <= 7) as Hj by lia.
  destruct (shift_core y m d (- i) Hv Hj) as [Hin Hout].
  pose proof Hv as Hv0. apply valid_date_iff in Hv0. destruct Hv0 as [Hm Hd].
  replace (time_Date y m d - i) with (time_Date y m d + - i) by lia.
  replace (d - i) with (d + - i) by lia.
  split.
  - destruct (1 <=? d + - i) eqn:E.
    + assert (1 <= d + - i <= month_len y m) as Hr by lia.
      unfold time_Month. rewrite (Hin Hr). apply Z.eqb_refl.
    + assert (~ (1 <= d + - i <= month_len y m)) as Hr by lia.
      apply Z.eqb_neq. exact (Hout Hr).
  - intros H1. assert (1 <= d + - i <= month_len y m) as Hr by lia.
    unfold time_Day. rewrite (Hin Hr). reflexivity.
Qed.

Theorem shift_fwd_same_month : forall y m d i, valid_date y m d = true -> 1 <= i <= 7 ->
  ((time_Month (time_Date y m d + i) =? m) = (d + i <=? month_len y m)) /\
  (d + i <= month_len y m -> time_Day (time_Date y m d + i) = d + i).
Proof.
  intros y m d i Hv Hi.
  assert (-7 <= i <= 7) as Hj by lia.
  destruct (shift_core y m d i Hv Hj) as [Hin Hout].
  pose proof Hv as Hv0. apply valid_date_iff in Hv0. destruct Hv0 as [Hm Hd].
  split.
  - destruct (d + i <=? month_len y m) eqn:E.
    + assert (1 <= d + i <= month_len y m) as Hr by lia.
      unfold time_Month. rewrite (Hin Hr). apply Z.eqb_refl.
    + assert (~ (1 <= d + i <= month_len y m)) as Hr by lia.
      apply Z.eqb_neq. exact (Hout Hr).
  - intros H1. assert (1 <= d + i <= month_len y m) as Hr by lia.
    unfold time_Day. rewrite (Hin Hr). reflexivity.
Qed.

Print Assumptions civil_from_days_total_all.
Print Assumptions civil_from_days_roundtrip.
Print Assumptions time_civil_Date.
Print Assumptions time_Date_civil.
Print Assumptions time_AddDate_days.
Print Assumptions last_day_of_month_eq.
Print Assumptions shift_back_same_month.
Print Assumptions shift_fwd_same_month.
