(* M0 -- a model of the small part of Go's time package that internal/csm uses on dates at
   midnight UTC (definitions only).  A time.Time at 00:00:00 UTC is represented by its day
   number: days since 1970-01-01. *)
From Coq Require Import ZArith List Bool.
Require Import QzBase.Calendar.
Import ListNotations.
Open Scope Z_scope.

(* time.Time at 00:00:00 UTC, represented by its day number *)
Definition gotime := Z.

(* time.Date(y, time.Month(m), d, 0, 0, 0, 0, time.UTC); faithful to Go's normalisation
   for 1 <= m <= 13 and any d *)
Definition time_Date (y m d : Z) : gotime := days_from_civil y m d.

Definition time_civil (t : gotime) : Z * Z * Z :=
  match civil_from_days t with Some c => c | None => (0, 0, 0) end.

Definition time_Year (t : gotime) : Z := let '(y, _, _) := time_civil t in y.
Definition time_Month (t : gotime) : Z := let '(_, m, _) := time_civil t in m.
Definition time_Day (t : gotime) : Z := let '(_, _, d) := time_civil t in d.
Definition time_Weekday (t : gotime) : Z := weekday_of_days t.

(* t.AddDate(dy, dm, dd) = Date(y+dy, m+dm, d+dd, ...) *)
Definition time_AddDate (t : gotime) (dy dm dd : Z) : gotime :=
  let '(y, m, d) := time_civil t in time_Date (y + dy) (m + dm) (d + dd).

Definition time_Saturday : Z := 6.
Definition time_Sunday : Z := 0.
