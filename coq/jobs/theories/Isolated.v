(* M5i -- isolated job.  Executable model of job/isolated_job.go (isolatedJob.Execute).
   Definitions only; proofs are in IsolatedProofs.v.

     func (j *isolatedJob) Execute(ctx) error {
        if wasRunning := j.isRunning.Swap(true); wasRunning { return errors.New("job is running") }
        defer j.isRunning.Store(false)
        return j.Job.Execute(ctx)
     }

   Any number of threads (ids are nat) call Execute on ONE isolated job.  Labels are the atomic
   actions of a thread; "all interleavings" = all label sequences.  The model is parameterised by
   the two structural facts genparams reads from the source (Gen/Params.v): whether admission is
   one atomic Swap(true) and whether the release Store(false) is deferred.  The theorems are about
   the configuration of the source (go_cfg); the other configurations serve the sensitivity
   examples. *)
From Coq Require Import Arith List Bool.
Require Import QzJobs.Gen.Params.
Import ListNotations.

Record iso_cfg := { cfg_swap : bool; cfg_deferred : bool }.
Definition go_cfg : iso_cfg := {| cfg_swap := iso_uses_swap; cfg_deferred := iso_store_deferred |}.

(* how the underlying job's Execute ended *)
Inductive outcome := OOk | OErr | OPanic.

Inductive ipc :=
| Idle                     (* not inside Execute *)
| Loaded (old : bool)      (* load-then-store variant only: flag read, not yet written *)
| Swapped (old : bool)     (* flag is claimed; old = value observed by the swap *)
| Running                  (* inside j.Job.Execute(ctx) *)
| Finished (o : outcome).  (* the underlying job ended; the release has not run yet *)

(* history events, newest first *)
Inductive iev :=
| EvEnter (t : nat)                (* underlying job invoked by t *)
| EvExit (t : nat) (o : outcome)   (* underlying job of t ended *)
| EvReject (t : nat)               (* t's Execute returned the fail-fast error *)
| EvReturn (t : nat) (o : outcome). (* t's Execute returned / propagated the job's outcome *)

Record istate := { i_flag : bool; i_pc : nat -> ipc; i_log : list iev }.

Definition upd (f : nat -> ipc) (t : nat) (p : ipc) : nat -> ipc :=
  fun u => if Nat.eqb u t then p else f u.

Inductive ilabel :=
| ISwap (t : nat)               (* old := isRunning.Swap(true) *)
| ILoad (t : nat)               (* variant: old := isRunning.Load() *)
| IStoreTrue (t : nat)          (* variant: isRunning.Store(true) after a Load that saw false *)
| IReject (t : nat)             (* return errors.New("job is running") *)
| IEnter (t : nat)              (* (defer registered;) call j.Job.Execute(ctx) *)
| IFinish (t : nat) (o : outcome)  (* the underlying job returns nil / returns an error / panics *)
| IRelease (t : nat).           (* leave Execute: deferred Store(false) runs on every exit path;
                                   a non-deferred Store(false) is skipped when the job panicked *)

Definition iinit : istate := {| i_flag := false; i_pc := fun _ => Idle; i_log := [] |}.

Definition releases (c : iso_cfg) (o : outcome) : bool :=
  cfg_deferred c || match o with OPanic => false | _ => true end.

Definition istep (c : iso_cfg) (s : istate) (a : ilabel) : option istate :=
  match a with
  | ISwap t =>
      if cfg_swap c then
        match i_pc s t with
        | Idle => Some {| i_flag := true; i_pc := upd (i_pc s) t (Swapped (i_flag s)); i_log := i_log s |}
        | _ => None end
      else None
  | ILoad t =>
      if cfg_swap c then None else
        match i_pc s t with
        | Idle => Some {| i_flag := i_flag s; i_pc := upd (i_pc s) t (Loaded (i_flag s)); i_log := i_log s |}
        | _ => None end
  | IStoreTrue t =>
      match i_pc s t with
      | Loaded true => Some {| i_flag := i_flag s; i_pc := upd (i_pc s) t (Swapped true); i_log := i_log s |}
      | Loaded false => Some {| i_flag := true; i_pc := upd (i_pc s) t (Swapped false); i_log := i_log s |}
      | _ => None end
  | IReject t =>
      match i_pc s t with
      | Swapped true => Some {| i_flag := i_flag s; i_pc := upd (i_pc s) t Idle; i_log := EvReject t :: i_log s |}
      | _ => None end
  | IEnter t =>
      match i_pc s t with
      | Swapped false => Some {| i_flag := i_flag s; i_pc := upd (i_pc s) t Running; i_log := EvEnter t :: i_log s |}
      | _ => None end
  | IFinish t o =>
      match i_pc s t with
      | Running => Some {| i_flag := i_flag s; i_pc := upd (i_pc s) t (Finished o); i_log := EvExit t o :: i_log s |}
      | _ => None end
  | IRelease t =>
      match i_pc s t with
      | Finished o => Some {| i_flag := if releases c o then false else i_flag s;
                              i_pc := upd (i_pc s) t Idle; i_log := EvReturn t o :: i_log s |}
      | _ => None end
  end.

Fixpoint irun (c : iso_cfg) (s : istate) (tr : list ilabel) : option istate :=
  match tr with
  | [] => Some s
  | a :: tr' => match istep c s a with Some s' => irun c s' tr' | None => None end
  end.

(* t is between its successful claim of the flag and its release *)
Definition holds (p : ipc) : bool :=
  match p with Swapped false | Running | Finished _ => true | _ => false end.
Definition in_job (p : ipc) : bool := match p with Running => true | _ => false end.

(* history checker: enter/exit events of the underlying job alternate and match.
   Some c = well formed so far, c = the thread currently inside the underlying job. *)
Fixpoint log_cur (l : list iev) : option (option nat) :=
  match l with
  | [] => Some None
  | e :: l' =>
      match log_cur l' with
      | None => None
      | Some c =>
          match e, c with
          | EvEnter t, None => Some (Some t)
          | EvEnter _, Some _ => None
          | EvExit t _, Some u => if Nat.eqb t u then Some None else None
          | EvExit _ _, None => None
          | EvReject _, _ => Some c
          | EvReturn _ _, _ => Some c
          end
      end
  end.

Fixpoint count_ev (p : iev -> bool) (l : list iev) : nat :=
  match l with [] => 0 | e :: l' => (if p e then 1 else 0) + count_ev p l' end.
Definition is_enter (t : nat) (e : iev) : bool := match e with EvEnter u => Nat.eqb u t | _ => false end.
Definition is_reject (t : nat) (e : iev) : bool := match e with EvReject u => Nat.eqb u t | _ => false end.
Definition is_return (t : nat) (e : iev) : bool := match e with EvReturn u _ => Nat.eqb u t | _ => false end.

(* ---- entry point for the correspondence check: replay an observed history; returns the number
   of labels accepted and the final state (None = the label at that index is not enabled) ---- *)
Fixpoint irun_count (c : iso_cfg) (s : istate) (tr : list ilabel) (n : nat) : nat * option istate :=
  match tr with
  | [] => (n, Some s)
  | a :: tr' => match istep c s a with Some s' => irun_count c s' tr' (S n) | None => (n, None) end
  end.

Definition replay_verdict (tr : list ilabel) (threads : list nat) : nat * bool * bool * bool :=
  match irun_count go_cfg iinit tr 0 with
  | (n, Some s) => (n, true, negb (i_flag s),
                    forallb (fun t => match i_pc s t with Idle => true | _ => false end) threads)
  | (n, None) => (n, false, false, false)
  end.

(* ---- chains of wrappers: h0 = NewIsolatedJob(job), h(i+1) = NewIsolatedJob(h i), every handle in use ----
   gates_passed w i: the gates (numbered like the handles) an execution that enters through handle i has
   swapped successfully when it reaches the underlying job, outermost first.  `w` says whether the
   constructor wraps exactly the job it was handed (Params.iso_ctor_wraps_argument) or looks through an
   argument that is itself an isolated job and wraps the innermost job directly. *)
Fixpoint gates_passed (wraps_arg : bool) (i : nat) : list nat :=
  i :: match i with
       | O => []
       | S k => if wraps_arg then gates_passed wraps_arg k else []
       end.
