(* Proofs about the built-in job models (JobsModel.v). *)
From Coq Require Import ZArith List Bool Arith Lia.
Require Import QzJobs.Gen.Params QzJobs.JobsModel.
Import ListNotations.
Open Scope nat_scope.

(* ------------------------------------------------------------------ status functions *)
Theorem status_constants_distinct :
  go_StatusNA <> go_StatusOK /\ go_StatusNA <> go_StatusFailure /\ go_StatusOK <> go_StatusFailure.
Proof. repeat split; intros H; vm_compute in H; discriminate. Qed.

(* structural facts of the source that the models rely on and that have no other place *)
Theorem source_shape :
  sh_fields_from_this_run = true /\ sh_uses_ctx = true /\ sh_callback_after_unlock = true /\
  cu_rebinds_ctx = true /\ cu_status_after_do = true /\ cu_callback_after_unlock = true /\
  cu_nil_guard = true /\ fn_returns_call_err = true /\ sh_returns_run_err = true /\ cu_returns_do_err = true.
Proof. repeat split; reflexivity. Qed.

Theorem fn_commit_spec : forall (R E : Type) (zero res : R) (err : option E),
  fn_commit R E zero (res, err) =
  match err with
  | None => (go_StatusOK, res, None)
  | Some e => (go_StatusFailure, zero, Some e)
  end.
Proof. intros R E zero res [e|]; reflexivity. Qed.

Theorem fn_status_ok_iff : forall (R E : Type) (zero res : R) (err : option E),
  fst (fst (fn_commit R E zero (res, err))) = go_StatusOK <-> err = None.
Proof.
  intros R E zero res err. rewrite fn_commit_spec. destruct err as [e|]; cbn [fst]; split; intros H;
    try reflexivity; try discriminate.
Qed.

Theorem fn_return_spec : forall (R E : Type) (o : fn_outcome R E), fn_return R E o = snd o.
Proof. reflexivity. Qed.

Lemma sh_status_spec : forall r, sh_status r = match run_err r with None => go_StatusOK | Some _ => go_StatusFailure end.
Proof. intros r. unfold sh_status. destruct (run_err r); reflexivity. Qed.

Lemma run_err_none_iff : forall r, run_err r = None <-> r = Exited 0%Z.
Proof.
  intros r. destruct r as [c| |]; cbn [run_err]; try (split; intros H; discriminate).
  destruct (Z.eqb_spec c 0); split; intros H; try reflexivity; try discriminate; try congruence.
Qed.

Theorem sh_status_ok_iff : forall r, sh_status r = go_StatusOK <-> r = Exited 0%Z.
Proof.
  intros r. rewrite sh_status_spec, <- run_err_none_iff.
  destruct (run_err r); split; intros H; try reflexivity; try discriminate.
Qed.

Theorem sh_status_exit_codes : forall c : Z,
  (sh_status (Exited c) = go_StatusOK <-> c = 0%Z) /\
  (sh_status (Exited c) = go_StatusFailure <-> c <> 0%Z).
Proof.
  intros c. rewrite sh_status_spec. cbn [run_err]. destruct (Z.eqb_spec c 0); split; split; intros H;
    try reflexivity; try discriminate; try congruence; try contradiction.
Qed.

Theorem sh_failure_iff_err : forall r, sh_status r = go_StatusFailure <-> run_err r <> None.
Proof.
  intros r. rewrite sh_status_spec. destruct (run_err r); split; intros H; try reflexivity; try discriminate;
    try congruence.
Qed.

Theorem sh_commit_spec : forall (S : Type) (r : run_result) (out err : S),
  sh_commit S (r, out, err) = (out, err, exit_code r, sh_status r) /\ sh_return S (r, out, err) = run_err r.
Proof. intros; split; reflexivity. Qed.

Theorem http_code_ok_iff : forall c : Z, http_code_ok c = true <-> (200 <= c < 400)%Z.
Proof.
  intros c. unfold http_code_ok. change cu_code_cmps with [(OpGe, 200%Z); (OpLt, 400%Z)].
  cbn [forallb fst snd cmp]. rewrite andb_true_r, andb_true_iff, Z.leb_le, Z.ltb_lt. reflexivity.
Qed.

Lemma cu_status_spec : forall resp,
  cu_status resp = match resp with
                   | Some (c, _) => if http_code_ok c then go_StatusOK else go_StatusFailure
                   | None => go_StatusFailure end.
Proof. intros [[c b]|]; reflexivity. Qed.

Theorem cu_status_ok_iff : forall resp : option (Z * bool),
  cu_status resp = go_StatusOK <-> exists c b, resp = Some (c, b) /\ (200 <= c < 400)%Z.
Proof.
  intros resp. rewrite cu_status_spec. destruct resp as [[c b]|].
  - destruct (http_code_ok c) eqn:E; split; intros H.
    + exists c, b. split; [reflexivity|]. apply http_code_ok_iff. exact E.
    + reflexivity.
    + discriminate.
    + destruct H as [c' [b' [Heq Hr]]]. injection Heq as <- <-. apply http_code_ok_iff in Hr. congruence.
  - split; intros H; [discriminate|]. destruct H as [c [b [H _]]]. discriminate.
Qed.

Theorem cu_status_total : forall resp, cu_status resp = go_StatusOK \/ cu_status resp = go_StatusFailure.
Proof. intros resp. rewrite cu_status_spec. destruct resp as [[c b]|]; [destruct (http_code_ok c)|]; auto. Qed.

Theorem cu_transport_error_fails : cu_status None = go_StatusFailure.
Proof. reflexivity. Qed.

Theorem cu_commit_spec : forall (E : Type) (o : cu_outcome E),
  cu_commit E o = (fst o, cu_status (fst o)) /\ cu_return E o = snd o.
Proof. intros; split; reflexivity. Qed.

(* the finite domain the harness sweeps, decided inside Coq: every code 100..599 *)
Theorem http_codes_100_599 :
  forallb (fun n => let c := Z.of_nat (100 + n) in
                    Z.eqb (cu_status (Some (c, true))) (if ((200 <=? c) && (c <? 400))%Z then go_StatusOK else go_StatusFailure))
          (seq 0 500) = true.
Proof. vm_compute. reflexivity. Qed.

(* ------------------------------------------------------------------ concurrent executions *)
Section LTS.
  Variable O : Type.
  Variable body : O -> nat.
  Variable c : jcfg.

  Notation nf := (jc_nfields c).
  Notation step := (jstep body c).
  Notation run := (jrun body c).

  Lemma jupd_same : forall (f : nat -> jpc O) t p, jupd f t p t = p.
  Proof. intros; unfold jupd; rewrite Nat.eqb_refl; reflexivity. Qed.
  Lemma jupd_other : forall (f : nat -> jpc O) t p u, u <> t -> jupd f t p u = f u.
  Proof. intros f t p u H; unfold jupd. destruct (Nat.eqb_spec u t); [contradiction|reflexivity]. Qed.
  Lemma vupd_same : forall (f : nat -> option (nat * O)) k v, vupd f k v k = v.
  Proof. intros; unfold vupd; rewrite Nat.eqb_refl; reflexivity. Qed.
  Lemma vupd_other : forall (f : nat -> option (nat * O)) k v i, i <> k -> vupd f k v i = f i.
  Proof. intros f k v i H; unfold vupd. destruct (Nat.eqb_spec i k); [contradiction|reflexivity]. Qed.

  Record jinv (s : jstate O) : Prop := {
    ji_lock : forall t, holds_lock (j_pc s t) = true <-> j_lock s = Some t;
    ji_free : j_lock s = None -> forall k, k < nf -> j_vis s k = j_last s;
    ji_locked : forall t, j_pc s t = JLocked -> forall k, k < nf -> j_vis s k = j_last s;
    ji_writing : forall t o k, j_pc s t = JWriting o k ->
                   k <= nf /\ (forall i, i < k -> j_vis s i = Some (t, o)) /\
                   (forall i, k <= i -> i < nf -> j_vis s i = j_last s);
    ji_nogap : forall t o k, j_pc s t <> JGap o k;
    ji_lastlog : last_commit (j_log s) = j_last s
  }.

  Lemma jinv_init : jinv jinit.
  Proof.
    split; cbn; intros; try discriminate; try reflexivity.
    split; intros; discriminate.
  Qed.

  Ltac jcases u t H :=
    destruct (Nat.eq_dec u t) as [->|?];
    [rewrite jupd_same in H | rewrite jupd_other in H by assumption].

  (* a step that only moves one thread between pcs outside the critical section *)
  Lemma jinv_set_pc : forall s t p n l,
    jinv s -> holds_lock (j_pc s t) = false -> holds_lock p = false -> (forall o k, p <> JGap o k) ->
    last_commit l = last_commit (j_log s) ->
    jinv {| j_lock := j_lock s; j_pc := jupd (j_pc s) t p; j_vis := j_vis s; j_last := j_last s;
            j_open := n; j_log := l |}.
  Proof.
    intros s t p n l [Hl Hf Hk Hw Hg Hll] Hold Hp Hpg Hlog.
    split; cbn [j_lock j_pc j_vis j_last j_log].
    - intros u. destruct (Nat.eq_dec u t) as [->|Hne].
      + rewrite jupd_same, Hp. split; intros H; [discriminate|]. apply Hl in H. congruence.
      + rewrite jupd_other by exact Hne. apply Hl.
    - exact Hf.
    - intros u Hu. jcases u t Hu; [subst p; discriminate|]. exact (Hk _ Hu).
    - intros u o k Hu. jcases u t Hu; [subst p; discriminate|]. exact (Hw _ _ _ Hu).
    - intros u o k Hu. jcases u t Hu; [exact (Hpg _ _ Hu)|exact (Hg _ _ _ Hu)].
    - rewrite Hlog. exact Hll.
  Qed.

  Hypothesis Hsplit : jc_split c = false.

  Lemma jinv_step : forall s a s', jinv s -> step s a = Some s' -> jinv s'.
  Proof.
    intros s a s' I Hstep. pose proof I as [Hl Hf Hk Hw Hg Hll].
    destruct a as [t o|t|t o|t|t|t|t|t]; cbn [jstep] in Hstep.
    - (* JCompute *)
      destruct (jc_in_lock c); [discriminate|].
      destruct (j_pc s t) eqn:Et; try discriminate. injection Hstep as <-.
      apply jinv_set_pc; try assumption; try reflexivity; try (rewrite Et; reflexivity). intros; discriminate.
    - (* JLock *)
      destruct (j_lock s) eqn:El; [discriminate|].
      assert (Hnoholder : forall u, holds_lock (j_pc s u) = true -> False).
      { intros u Hu. apply Hl in Hu. discriminate. }
      destruct (j_pc s t) as [|o| |o k|o k|o n] eqn:Et; try discriminate.
      + destruct (jc_in_lock c); [|discriminate]. injection Hstep as <-.
        split; cbn [j_lock j_pc j_vis j_last j_log].
        * intros u. destruct (Nat.eq_dec u t) as [->|Hne].
          -- rewrite jupd_same. split; reflexivity.
          -- rewrite jupd_other by exact Hne. split; intros H; [exfalso; exact (Hnoholder _ H)|congruence].
        * discriminate.
        * intros u Hu. jcases u t Hu; [exact (Hf eq_refl)|exact (Hk _ Hu)].
        * intros u o k Hu. jcases u t Hu; [discriminate|exact (Hw _ _ _ Hu)].
        * intros u o k Hu. jcases u t Hu; [discriminate|exact (Hg _ _ _ Hu)].
        * exact Hll.
      + injection Hstep as <-.
        split; cbn [j_lock j_pc j_vis j_last j_log].
        * intros u. destruct (Nat.eq_dec u t) as [->|Hne].
          -- rewrite jupd_same. split; reflexivity.
          -- rewrite jupd_other by exact Hne. split; intros H; [exfalso; exact (Hnoholder _ H)|congruence].
        * discriminate.
        * intros u Hu. jcases u t Hu; [discriminate|exact (Hk _ Hu)].
        * intros u o' k Hu. jcases u t Hu; [|exact (Hw _ _ _ Hu)].
          injection Hu as <- <-. split; [lia|]. split; [intros i Hi; lia|].
          intros i _ Hi. exact (Hf eq_refl i Hi).
        * intros u o' k Hu. jcases u t Hu; [discriminate|exact (Hg _ _ _ Hu)].
        * exact Hll.
      + exfalso. exact (Hg _ _ _ Et).
    - (* JDo *)
      destruct (j_pc s t) eqn:Et; try discriminate. injection Hstep as <-.
      assert (Hlt : j_lock s = Some t) by (apply Hl; rewrite Et; reflexivity).
      split; cbn [j_lock j_pc j_vis j_last j_log].
      + intros u. destruct (Nat.eq_dec u t) as [->|Hne].
        * rewrite jupd_same. split; intros _; [exact Hlt|reflexivity].
        * rewrite jupd_other by exact Hne. apply Hl.
      + exact Hf.
      + intros u Hu. jcases u t Hu; [discriminate|exact (Hk _ Hu)].
      + intros u o' k Hu. jcases u t Hu; [|exact (Hw _ _ _ Hu)].
        injection Hu as <- <-. split; [lia|]. split; [intros i Hi; lia|].
        intros i _ Hi. exact (Hk _ Et i Hi).
      + intros u o' k Hu. jcases u t Hu; [discriminate|exact (Hg _ _ _ Hu)].
      + exact Hll.
    - (* JWrite *)
      destruct (j_pc s t) as [|o| |o k|o k|o n] eqn:Et; try discriminate.
      destruct (Nat.ltb_spec k nf) as [Hk'|]; [|discriminate]. injection Hstep as <-.
      assert (Hlt : j_lock s = Some t) by (apply Hl; rewrite Et; reflexivity).
      assert (Honly : forall u, holds_lock (j_pc s u) = true -> u = t).
      { intros u Hu. apply Hl in Hu. congruence. }
      destruct (Hw _ _ _ Et) as [_ [Hlow Hhigh]].
      split; cbn [j_lock j_pc j_vis j_last j_log].
      + intros u. destruct (Nat.eq_dec u t) as [->|Hne].
        * rewrite jupd_same. split; intros _; [exact Hlt|reflexivity].
        * rewrite jupd_other by exact Hne. apply Hl.
      + intros H. congruence.
      + intros u Hu. jcases u t Hu; [discriminate|].
        exfalso. apply n. apply Honly. rewrite Hu. reflexivity.
      + intros u o' k' Hu. jcases u t Hu.
        * injection Hu as <- <-. split; [lia|]. split.
          -- intros i Hi. destruct (Nat.eq_dec i k) as [->|Hne]; [apply vupd_same|].
             rewrite vupd_other by exact Hne. apply Hlow. lia.
          -- intros i Hi1 Hi2. rewrite vupd_other by lia. apply Hhigh; lia.
        * exfalso. apply n. apply Honly. rewrite Hu. reflexivity.
      + intros u o' k' Hu. jcases u t Hu; [discriminate|exact (Hg _ _ _ Hu)].
      + exact Hll.
    - (* JSplit: not a step of a configuration with one critical section *)
      rewrite Hsplit in Hstep. discriminate.
    - (* JUnlock *)
      destruct (j_pc s t) as [|o| |o k|o k|o n] eqn:Et; try discriminate.
      destruct (Nat.eqb_spec k nf) as [->|]; [|discriminate]. injection Hstep as <-.
      assert (Hlt : j_lock s = Some t) by (apply Hl; rewrite Et; reflexivity).
      assert (Honly : forall u, holds_lock (j_pc s u) = true -> u = t).
      { intros u Hu. apply Hl in Hu. congruence. }
      destruct (Hw _ _ _ Et) as [_ [Hlow _]].
      split; cbn [j_lock j_pc j_vis j_last j_log last_commit].
      + intros u. destruct (Nat.eq_dec u t) as [->|Hne].
        * rewrite jupd_same. cbn. split; intros; discriminate.
        * rewrite jupd_other by exact Hne. split; intros H; [|discriminate].
          exfalso. apply Hne. exact (Honly _ H).
      + intros _ k Hk'. exact (Hlow _ Hk').
      + intros u Hu. jcases u t Hu; [discriminate|].
        exfalso. apply n. apply Honly. rewrite Hu. reflexivity.
      + intros u o' k' Hu. jcases u t Hu; [discriminate|].
        exfalso. apply n. apply Honly. rewrite Hu. reflexivity.
      + intros u o' k' Hu. jcases u t Hu; [discriminate|exact (Hg _ _ _ Hu)].
      + reflexivity.
    - (* JCallback *)
      destruct (j_pc s t) as [|o| |o k|o k|o n] eqn:Et; try discriminate.
      destruct (n <? jc_ncb c); [|discriminate]. injection Hstep as <-.
      apply jinv_set_pc; try assumption; try reflexivity; try (rewrite Et; reflexivity). intros; discriminate.
    - (* JReturn *)
      destruct (j_pc s t) as [|o| |o k|o k|o n] eqn:Et; try discriminate.
      destruct (Nat.eqb n (jc_ncb c)); [|discriminate]. injection Hstep as <-.
      apply jinv_set_pc; try assumption; try reflexivity; try (rewrite Et; reflexivity). intros; discriminate.
  Qed.

  Lemma jinv_run_from : forall tr s s', jinv s -> run s tr = Some s' -> jinv s'.
  Proof.
    induction tr as [|a tr IH]; intros s s' Hi Hr; cbn [jrun] in Hr.
    - injection Hr as <-. exact Hi.
    - destruct (step s a) as [s1|] eqn:E; [|discriminate].
      exact (IH _ _ (jinv_step _ _ _ Hi E) Hr).
  Qed.

  Lemma jinv_reachable : forall tr s, run jinit tr = Some s -> jinv s.
  Proof. intros tr s H. exact (jinv_run_from _ _ _ jinv_init H). Qed.

  (* whenever the mutex is free (= whenever a getter can look), every field was written by the
     execution whose commit completed last, and that is the newest commit event of the history *)
  Theorem last_outcome_atomic : forall tr s,
    run jinit tr = Some s -> j_lock s = None ->
    (forall k, k < nf -> j_vis s k = j_last s) /\ last_commit (j_log s) = j_last s.
  Proof.
    intros tr s H Hfree. pose proof (jinv_reachable _ _ H) as I. split.
    - exact (ji_free _ I Hfree).
    - exact (ji_lastlog _ I).
  Qed.

  (* executions are serialised between Lock and Unlock *)
  Theorem critical_section_exclusive : forall tr s t u,
    run jinit tr = Some s -> holds_lock (j_pc s t) = true -> holds_lock (j_pc s u) = true -> t = u.
  Proof.
    intros tr s t u H Ht Hu. pose proof (jinv_reachable _ _ H) as I.
    apply (ji_lock _ I) in Ht. apply (ji_lock _ I) in Hu. congruence.
  Qed.

  (* ---- open response bodies (CurlJob: outcome produced under the lock, previous body closed) ---- *)
  Hypothesis Hin : jc_in_lock c = true.
  Hypothesis Hclose : jc_close_prev c = true.
  Hypothesis Hnf : 0 < nf.
  Hypothesis Hbody : forall o, body o <= 1.

  Record oinv (s : jstate O) : Prop := {
    oi_free : j_lock s = None -> j_open s = body_of body (j_last s);
    oi_locked : forall t, j_pc s t = JLocked -> j_open s = body_of body (j_last s);
    oi_writing : forall t o k, j_pc s t = JWriting o k -> j_open s = body o;
    oi_nocomp : forall t o, j_pc s t <> JComputed o
  }.

  Lemma oinv_init : oinv jinit.
  Proof. split; cbn; intros; try discriminate; reflexivity. Qed.

  Lemma oinv_step : forall s a s', jinv s -> oinv s -> step s a = Some s' -> oinv s'.
  Proof.
    intros s a s' [Hl Hf Hk Hw Hg Hll] [Of Ok Ow Oc] Hstep.
    destruct a as [t o|t|t o|t|t|t|t|t]; cbn [jstep] in Hstep.
    - rewrite Hin in Hstep. discriminate.
    - destruct (j_lock s) eqn:El; [discriminate|].
      destruct (j_pc s t) as [|o| |o k|o k|o n] eqn:Et; try discriminate.
      + rewrite Hin in Hstep. injection Hstep as <-.
        split; cbn [j_lock j_pc j_vis j_last j_log j_open].
        * discriminate.
        * intros u Hu. jcases u t Hu; [exact (Of eq_refl)|exact (Ok _ Hu)].
        * intros u o k Hu. jcases u t Hu; [discriminate|exact (Ow _ _ _ Hu)].
        * intros u o Hu. jcases u t Hu; [discriminate|exact (Oc _ _ Hu)].
      + exfalso. exact (Oc _ _ Et).
      + exfalso. exact (Hg _ _ _ Et).
    - destruct (j_pc s t) eqn:Et; try discriminate. injection Hstep as <-.
      assert (Hlt : j_lock s = Some t) by (apply Hl; rewrite Et; reflexivity).
      assert (Honly : forall u, holds_lock (j_pc s u) = true -> u = t).
      { intros u Hu. apply Hl in Hu. congruence. }
      assert (Hop : (if jc_close_prev c then j_open s - body_of body (j_vis s 0) else j_open s) + body o = body o).
      { rewrite Hclose, (Hk _ Et 0 Hnf), (Ok _ Et). lia. }
      split; cbn [j_lock j_pc j_vis j_last j_log j_open].
      + intros H. congruence.
      + intros u Hu. jcases u t Hu; [discriminate|].
        exfalso. apply n. apply Honly. rewrite Hu. reflexivity.
      + intros u o' k Hu. jcases u t Hu.
        * injection Hu as <- _. exact Hop.
        * exfalso. apply n. apply Honly. rewrite Hu. reflexivity.
      + intros u o' Hu. jcases u t Hu; [discriminate|exact (Oc _ _ Hu)].
    - destruct (j_pc s t) as [|o| |o k|o k|o n] eqn:Et; try discriminate.
      destruct (k <? nf); [|discriminate]. injection Hstep as <-.
      assert (Hlt : j_lock s = Some t) by (apply Hl; rewrite Et; reflexivity).
      split; cbn [j_lock j_pc j_vis j_last j_log j_open].
      + intros H. congruence.
      + intros u Hu. jcases u t Hu; [discriminate|exact (Ok _ Hu)].
      + intros u o' k' Hu. jcases u t Hu; [injection Hu as <- _; exact (Ow _ _ _ Et)|exact (Ow _ _ _ Hu)].
      + intros u o' Hu. jcases u t Hu; [discriminate|exact (Oc _ _ Hu)].
    - rewrite Hsplit in Hstep. discriminate.
    - destruct (j_pc s t) as [|o| |o k|o k|o n] eqn:Et; try discriminate.
      destruct (Nat.eqb k nf); [|discriminate]. injection Hstep as <-.
      assert (Hlt : j_lock s = Some t) by (apply Hl; rewrite Et; reflexivity).
      assert (Honly : forall u, holds_lock (j_pc s u) = true -> u = t).
      { intros u Hu. apply Hl in Hu. congruence. }
      split; cbn [j_lock j_pc j_vis j_last j_log j_open body_of].
      + intros _. exact (Ow _ _ _ Et).
      + intros u Hu. jcases u t Hu; [discriminate|].
        exfalso. apply n. apply Honly. rewrite Hu. reflexivity.
      + intros u o' k' Hu. jcases u t Hu; [discriminate|].
        exfalso. apply n. apply Honly. rewrite Hu. reflexivity.
      + intros u o' Hu. jcases u t Hu; [discriminate|exact (Oc _ _ Hu)].
    - destruct (j_pc s t) as [|o| |o k|o k|o n] eqn:Et; try discriminate.
      destruct (n <? jc_ncb c); [|discriminate]. injection Hstep as <-.
      split; cbn [j_lock j_pc j_vis j_last j_log j_open].
      + exact Of.
      + intros u Hu. jcases u t Hu; [discriminate|exact (Ok _ Hu)].
      + intros u o' k' Hu. jcases u t Hu; [discriminate|exact (Ow _ _ _ Hu)].
      + intros u o' Hu. jcases u t Hu; [discriminate|exact (Oc _ _ Hu)].
    - destruct (j_pc s t) as [|o| |o k|o k|o n] eqn:Et; try discriminate.
      destruct (Nat.eqb n (jc_ncb c)); [|discriminate]. injection Hstep as <-.
      split; cbn [j_lock j_pc j_vis j_last j_log j_open].
      + exact Of.
      + intros u Hu. jcases u t Hu; [discriminate|exact (Ok _ Hu)].
      + intros u o' k' Hu. jcases u t Hu; [discriminate|exact (Ow _ _ _ Hu)].
      + intros u o' Hu. jcases u t Hu; [discriminate|exact (Oc _ _ Hu)].
  Qed.

  Lemma oinv_run_from : forall tr s s', jinv s -> oinv s -> run s tr = Some s' -> jinv s' /\ oinv s'.
  Proof.
    induction tr as [|a tr IH]; intros s s' Hi Ho Hr; cbn [jrun] in Hr.
    - injection Hr as <-. split; assumption.
    - destruct (step s a) as [s1|] eqn:E; [|discriminate].
      exact (IH _ _ (jinv_step _ _ _ Hi E) (oinv_step _ _ _ Hi Ho E) Hr).
  Qed.

  Theorem open_bodies_bounded : forall tr s, run jinit tr = Some s -> j_open s <= 1.
  Proof.
    intros tr s H. destruct (oinv_run_from _ _ _ jinv_init oinv_init H) as [I [Of Ok Ow _]].
    assert (Hb : body_of body (j_last s) <= 1).
    { unfold body_of. destruct (j_last s) as [[u o]|]; [apply Hbody|lia]. }
    destruct (j_lock s) as [t|] eqn:El.
    - apply (ji_lock _ I) in El. destruct (j_pc s t) as [|o| |o k|o k|o n] eqn:Et; try discriminate.
      + rewrite (Ok _ Et). exact Hb.
      + rewrite (Ow _ _ _ Et). apply Hbody.
    - rewrite (Of eq_refl). exact Hb.
  Qed.

  (* with the mutex free, the only body still open is the one of the response currently held *)
  Theorem open_bodies_quiescent : forall tr s,
    run jinit tr = Some s -> j_lock s = None -> j_open s = body_of body (j_last s).
  Proof.
    intros tr s H Hfree. destruct (oinv_run_from _ _ _ jinv_init oinv_init H) as [_ [Of _ _ _]]. exact (Of Hfree).
  Qed.
End LTS.

(* ---- callbacks: counted per thread, for every configuration ---- *)
Section Callbacks.
  Variable O : Type.
  Variable body : O -> nat.
  Variable c : jcfg.
  Notation ncb := (jc_ncb c).

  Definition pend (p : jpc O) : nat := match p with JUnlocked _ n => ncb - n | _ => 0 end.
  Definition unl (p : jpc O) : nat := match p with JUnlocked _ _ => 1 | _ => 0 end.

  Definition cinv (t : nat) (s : jstate O) : Prop :=
    jcount (is_callback t) (j_log s) + pend (j_pc s t) = ncb * jcount (is_commit t) (j_log s) /\
    jcount (is_jreturn t) (j_log s) + unl (j_pc s t) = jcount (is_commit t) (j_log s) /\
    (forall o n, j_pc s t = JUnlocked o n -> n <= ncb).

  Lemma cinv_step : forall t s a s', cinv t s -> jstep body c s a = Some s' -> cinv t s'.
  Proof.
    intros t s a s' [H1 [H2 H3]] Hstep. unfold cinv.
    destruct a as [u o|u|u o|u|u|u|u|u]; cbn [jstep] in Hstep.
    - destruct (jc_in_lock c); [discriminate|]. destruct (j_pc s u) eqn:Eu; try discriminate.
      injection Hstep as <-. cbn [set_pc j_pc j_log].
      destruct (Nat.eq_dec t u) as [->|Hne].
      + rewrite jupd_same. rewrite Eu in *. cbn [pend unl] in *. repeat split; try assumption. intros; discriminate.
      + rewrite jupd_other by exact Hne. repeat split; assumption.
    - destruct (j_lock s); [discriminate|].
      destruct (j_pc s u) as [|o| |o k|o k|o n] eqn:Eu; try discriminate;
        [destruct (jc_in_lock c); [|discriminate]| |]; injection Hstep as <-; cbn [j_pc j_log];
        (destruct (Nat.eq_dec t u) as [->|Hne];
         [rewrite jupd_same; rewrite Eu in *; cbn [pend unl] in *; repeat split; try assumption; intros; discriminate
         |rewrite jupd_other by exact Hne; repeat split; assumption]).
    - destruct (j_pc s u) eqn:Eu; try discriminate. injection Hstep as <-. cbn [j_pc j_log].
      destruct (Nat.eq_dec t u) as [->|Hne].
      + rewrite jupd_same. rewrite Eu in *. cbn [pend unl] in *. repeat split; try assumption. intros; discriminate.
      + rewrite jupd_other by exact Hne. repeat split; assumption.
    - destruct (j_pc s u) as [|o| |o k|o k|o n] eqn:Eu; try discriminate.
      destruct (k <? jc_nfields c); [|discriminate]. injection Hstep as <-. cbn [j_pc j_log].
      destruct (Nat.eq_dec t u) as [->|Hne].
      + rewrite jupd_same. rewrite Eu in *. cbn [pend unl] in *. repeat split; try assumption. intros; discriminate.
      + rewrite jupd_other by exact Hne. repeat split; assumption.
    - destruct (jc_split c); [|discriminate].
      destruct (j_pc s u) as [|o| |o k|o k|o n] eqn:Eu; try discriminate.
      destruct ((0 <? k) && (k <? jc_nfields c)); [|discriminate]. injection Hstep as <-. cbn [j_pc j_log].
      destruct (Nat.eq_dec t u) as [->|Hne].
      + rewrite jupd_same. rewrite Eu in *. cbn [pend unl] in *. repeat split; try assumption. intros; discriminate.
      + rewrite jupd_other by exact Hne. repeat split; assumption.
    - destruct (j_pc s u) as [|o| |o k|o k|o n] eqn:Eu; try discriminate.
      destruct (Nat.eqb k (jc_nfields c)); [|discriminate]. injection Hstep as <-.
      cbn [j_pc j_log jcount is_commit is_callback is_jreturn].
      destruct (Nat.eq_dec t u) as [->|Hne].
      + rewrite jupd_same, Nat.eqb_refl. rewrite Eu in *. cbn [pend unl] in *.
        split; [|split].
        * rewrite Nat.mul_add_distr_l, Nat.mul_1_r. cbn [Nat.add]. lia.
        * cbn [Nat.add]. lia.
        * intros o' n' Hu. injection Hu as _ <-. lia.
      + rewrite jupd_other by exact Hne. destruct (Nat.eqb_spec u t); [congruence|].
        cbn [Nat.add]. repeat split; assumption.
    - destruct (j_pc s u) as [|o| |o k|o k|o n] eqn:Eu; try discriminate.
      destruct (Nat.ltb_spec n ncb) as [Hlt|]; [|discriminate]. injection Hstep as <-.
      cbn [j_pc j_log jcount is_commit is_callback is_jreturn].
      destruct (Nat.eq_dec t u) as [->|Hne].
      + rewrite jupd_same, Nat.eqb_refl. rewrite Eu in *. cbn [pend unl] in *.
        split; [|split].
        * cbn [Nat.add]. lia.
        * cbn [Nat.add]. lia.
        * intros o' n' Hu. injection Hu as _ <-. lia.
      + rewrite jupd_other by exact Hne. destruct (Nat.eqb_spec u t); [congruence|].
        cbn [Nat.add]. repeat split; assumption.
    - destruct (j_pc s u) as [|o| |o k|o k|o n] eqn:Eu; try discriminate.
      destruct (Nat.eqb_spec n ncb) as [->|]; [|discriminate]. injection Hstep as <-.
      cbn [j_pc j_log jcount is_commit is_callback is_jreturn].
      destruct (Nat.eq_dec t u) as [->|Hne].
      + rewrite jupd_same, Nat.eqb_refl. rewrite Eu in *. cbn [pend unl] in *.
        split; [|split].
        * cbn [Nat.add]. lia.
        * cbn [Nat.add]. lia.
        * intros; discriminate.
      + rewrite jupd_other by exact Hne. destruct (Nat.eqb_spec u t); [congruence|].
        cbn [Nat.add]. repeat split; assumption.
  Qed.

  Lemma cinv_run_from : forall t tr s s', cinv t s -> jrun body c s tr = Some s' -> cinv t s'.
  Proof.
    induction tr as [|a tr IH]; intros s s' Hi Hr; cbn [jrun] in Hr.
    - injection Hr as <-. exact Hi.
    - destruct (jstep body c s a) as [s1|] eqn:E; [|discriminate].
      exact (IH _ _ (cinv_step _ _ _ _ Hi E) Hr).
  Qed.

  (* in every history, per thread: callbacks never run ahead of the thread's own commits; once the
     thread is back outside Execute it made exactly ncb callbacks per execution, each execution
     committed exactly once and returned exactly once *)
  Theorem callback_once : forall tr s t,
    jrun body c jinit tr = Some s ->
    jcount (is_callback t) (j_log s) <= ncb * jcount (is_commit t) (j_log s) /\
    (j_pc s t = JIdle ->
       jcount (is_callback t) (j_log s) = ncb * jcount (is_jreturn t) (j_log s) /\
       jcount (is_commit t) (j_log s) = jcount (is_jreturn t) (j_log s)).
  Proof.
    intros tr s t H.
    assert (I : cinv t s).
    { apply (cinv_run_from t tr jinit s); [|exact H]. unfold cinv. cbn. repeat split; try lia. intros; discriminate. }
    destruct I as [H1 [H2 _]]. split; [lia|].
    intros Et. rewrite Et in *. cbn [pend unl] in *. split; [|lia].
    rewrite Nat.add_0_r in H1, H2. rewrite H1, H2. reflexivity.
  Qed.

  (* a callback step is possible only after the thread's own unlock, and the return only after
     all callbacks *)
  Theorem callback_only_after_unlock : forall s t s',
    jstep body c s (JCallback t) = Some s' ->
    exists o n, j_pc s t = JUnlocked o n /\ n < ncb /\ j_pc s' t = JUnlocked o (S n).
  Proof.
    intros s t s' H. cbn [jstep] in H. destruct (j_pc s t) as [|o| |o k|o k|o n] eqn:Et; try discriminate.
    destruct (Nat.ltb_spec n ncb); [|discriminate]. injection H as <-. exists o, n.
    split; [reflexivity|]. split; [assumption|]. cbn [j_pc]. apply jupd_same.
  Qed.

  Theorem return_carries_own_outcome : forall s t s',
    jstep body c s (JReturn t) = Some s' ->
    exists o, j_pc s t = JUnlocked o ncb /\ j_log s' = JEvReturn t o :: j_log s /\ j_pc s' t = JIdle.
  Proof.
    intros s t s' H. cbn [jstep] in H. destruct (j_pc s t) as [|o| |o k|o k|o n] eqn:Et; try discriminate.
    destruct (Nat.eqb_spec n ncb) as [->|]; [|discriminate]. injection H as <-. exists o.
    split; [reflexivity|]. split; [reflexivity|]. cbn [j_pc]. apply jupd_same.
  Qed.
End Callbacks.

(* ------------------------------------------------------------------ the three jobs *)
Definition no_body {O : Type} : O -> nat := fun _ => 0.

Lemma fn_cfg_split : jc_split fn_cfg = false.            Proof. reflexivity. Qed.
Lemma sh_cfg_split : forall cb, jc_split (sh_cfg cb) = false.  Proof. reflexivity. Qed.
Lemma cu_cfg_split : forall cb, jc_split (cu_cfg cb) = false.  Proof. reflexivity. Qed.

Theorem callback_counts :
  jc_ncb fn_cfg = 0 /\ jc_ncb (sh_cfg false) = 0 /\ jc_ncb (cu_cfg false) = 0 /\
  jc_ncb (sh_cfg true) = 1 /\ jc_ncb (cu_cfg true) = 1.
Proof. repeat split; reflexivity. Qed.

Theorem where_outcome_is_computed :
  jc_in_lock fn_cfg = false /\ (forall cb, jc_in_lock (sh_cfg cb) = false) /\ (forall cb, jc_in_lock (cu_cfg cb) = true).
Proof. repeat split; reflexivity. Qed.

Theorem fn_last_outcome_atomic : forall (R E : Type) (zero : R) tr (s : jstate (fn_outcome R E)),
  jrun no_body fn_cfg jinit tr = Some s -> j_lock s = None ->
  fn_visible zero s = match j_last s with Some (_, o) => fn_commit R E zero o | None => fn_initial R E zero end /\
  last_commit (j_log s) = j_last s.
Proof.
  intros R E zero tr s H Hfree.
  destruct (last_outcome_atomic _ no_body fn_cfg fn_cfg_split tr s H Hfree) as [Hv Hl]. split; [|exact Hl].
  unfold fn_visible, field_of. change (jc_nfields fn_cfg) with 3 in Hv.
  rewrite (Hv 0), (Hv 1), (Hv 2) by lia.
  destruct (j_last s) as [[u o]|]; [|reflexivity].
  destruct (fn_commit R E zero o) as [[a b] d]. reflexivity.
Qed.

Theorem sh_last_outcome_atomic : forall (S : Type) (empty : S) cb tr (s : jstate (sh_outcome S)),
  jrun no_body (sh_cfg cb) jinit tr = Some s -> j_lock s = None ->
  sh_visible empty s = match j_last s with Some (_, o) => sh_commit S o | None => (empty, empty, 0%Z, go_StatusNA) end /\
  last_commit (j_log s) = j_last s.
Proof.
  intros S empty cb tr s H Hfree.
  destruct (last_outcome_atomic _ no_body (sh_cfg cb) (sh_cfg_split cb) tr s H Hfree) as [Hv Hl]. split; [|exact Hl].
  unfold sh_visible, field_of. change (jc_nfields (sh_cfg cb)) with 4 in Hv.
  rewrite (Hv 0), (Hv 1), (Hv 2), (Hv 3) by lia.
  destruct (j_last s) as [[u o]|]; [|reflexivity].
  destruct (sh_commit S o) as [[[a b] d] e]. reflexivity.
Qed.

Theorem cu_last_outcome_atomic : forall (E : Type) cb tr (s : jstate (cu_outcome E)),
  jrun (cu_body E) (cu_cfg cb) jinit tr = Some s -> j_lock s = None ->
  cu_visible s = match j_last s with Some (_, o) => cu_commit E o | None => (None, go_StatusNA) end /\
  last_commit (j_log s) = j_last s.
Proof.
  intros E cb tr s H Hfree.
  destruct (last_outcome_atomic _ (cu_body E) (cu_cfg cb) (cu_cfg_split cb) tr s H Hfree) as [Hv Hl]. split; [|exact Hl].
  unfold cu_visible, field_of. change (jc_nfields (cu_cfg cb)) with 2 in Hv.
  rewrite (Hv 0), (Hv 1) by lia.
  destruct (j_last s) as [[u o]|]; reflexivity.
Qed.

Lemma cu_body_le1 : forall E (o : cu_outcome E), cu_body E o <= 1.
Proof. intros E [[[c [|]]|] e]; cbn; lia. Qed.

Theorem cu_open_bodies_bounded : forall (E : Type) cb tr (s : jstate (cu_outcome E)),
  jrun (cu_body E) (cu_cfg cb) jinit tr = Some s -> j_open s <= 1.
Proof.
  intros E cb tr s H.
  apply (open_bodies_bounded _ (cu_body E) (cu_cfg cb) (cu_cfg_split cb)) with (tr := tr);
    try reflexivity; try exact H; try (cbn; lia); try apply cu_body_le1.
Qed.

Theorem cu_open_bodies_quiescent : forall (E : Type) cb tr (s : jstate (cu_outcome E)),
  jrun (cu_body E) (cu_cfg cb) jinit tr = Some s -> j_lock s = None ->
  j_open s = body_of (cu_body E) (j_last s).
Proof.
  intros E cb tr s H.
  apply (open_bodies_quiescent _ (cu_body E) (cu_cfg cb) (cu_cfg_split cb)) with (tr := tr);
    try reflexivity; try exact H; try (cbn; lia); try apply cu_body_le1.
Qed.

Theorem cu_do_serialised : forall (E : Type) cb tr (s : jstate (cu_outcome E)) t u,
  jrun (cu_body E) (cu_cfg cb) jinit tr = Some s ->
  holds_lock (j_pc s t) = true -> holds_lock (j_pc s u) = true -> t = u.
Proof. intros E cb tr s t u. apply critical_section_exclusive. apply cu_cfg_split. Qed.

(* ---- non-vacuity ---- *)
Definition o200 : cu_outcome unit := (Some (200%Z, true), None).
Definition o500 : cu_outcome unit := (Some (500%Z, true), None).
Definition oerr : cu_outcome unit := (None, Some tt).
Definition one_exec (t : nat) (o : cu_outcome unit) : list (jlabel (cu_outcome unit)) :=
  [JLock t; JDo t o; JWrite t; JWrite t; JUnlock t; JCallback t; JReturn t].

Example cu_reachable_nontrivial :
  exists s, jrun (cu_body unit) (cu_cfg true) jinit (one_exec 0 o200 ++ one_exec 1 o500 ++ [JLock 2; JDo 2 oerr]) = Some s /\
            j_lock s = Some 2 /\ j_last s = Some (1, o500) /\ j_open s = 0 /\ cu_visible s = (Some (500%Z, true), go_StatusFailure).
Proof. eexists. split; [vm_compute; reflexivity|]. vm_compute. repeat split. Qed.

Example cu_quiescent_nontrivial :
  exists s, jrun (cu_body unit) (cu_cfg true) jinit (one_exec 0 o500 ++ one_exec 1 o200) = Some s /\
            j_lock s = None /\ j_open s = 1 /\ cu_visible s = (Some (200%Z, true), go_StatusOK) /\
            jcount (is_callback 1) (j_log s) = 1.
Proof. eexists. split; [vm_compute; reflexivity|]. vm_compute. repeat split. Qed.

Example fn_interleaved_nontrivial :
  exists s, jrun no_body fn_cfg jinit
              [JCompute 0 (7, None); JCompute 1 (9, Some tt); JLock 1; JWrite 1; JWrite 1; JWrite 1; JUnlock 1;
               JLock 0; JWrite 0; JWrite 0; JWrite 0; JUnlock 0; JReturn 1] = Some s /\
            j_lock s = None /\ fn_visible 0 s = (go_StatusOK, 7, None) /\ j_last s = Some (0, (7, @None unit)).
Proof. eexists. split; [vm_compute; reflexivity|]. vm_compute. repeat split. Qed.

(* ---- sensitivity ---- *)
(* the field assignments split over two critical sections: a reader can see a mixed tuple
   (status of execution 1, result and err of execution 0) *)
Definition fn_cfg_split_commit : jcfg :=
  {| jc_in_lock := false; jc_nfields := 3; jc_split := true; jc_ncb := 0; jc_close_prev := false |}.

Example split_commit_mixes :
  exists s, jrun no_body fn_cfg_split_commit jinit
              [JCompute 0 (7, None); JCompute 1 (9, Some tt); JLock 0; JWrite 0; JSplit 0;
               JLock 1; JWrite 1; JWrite 1; JWrite 1; JUnlock 1;
               JLock 0; JWrite 0; JWrite 0; JUnlock 0] = Some s /\
            j_lock s = None /\ j_last s = Some (0, (7, @None unit)) /\
            fn_visible 0 s = (go_StatusFailure, 7, None) /\
            fn_commit nat unit 0 (7, None) = (go_StatusOK, 7, None).
Proof. eexists. split; [vm_compute; reflexivity|]. vm_compute. repeat split. Qed.

(* the previous body is not closed: one more open body per execution *)
Definition cu_cfg_no_close : jcfg :=
  {| jc_in_lock := true; jc_nfields := 2; jc_split := false; jc_ncb := 0; jc_close_prev := false |}.
Definition exec_nocb (t : nat) (o : cu_outcome unit) : list (jlabel (cu_outcome unit)) :=
  [JLock t; JDo t o; JWrite t; JWrite t; JUnlock t; JReturn t].

Example no_close_leaks :
  exists s, jrun (cu_body unit) cu_cfg_no_close jinit
              (exec_nocb 0 o200 ++ exec_nocb 0 o200 ++ exec_nocb 0 o500 ++ exec_nocb 0 o200 ++ exec_nocb 0 o200) = Some s /\
            j_lock s = None /\ j_open s = 5.
Proof. eexists. split; [vm_compute; reflexivity|]. vm_compute. repeat split. Qed.

(* ---- ShellJob: an execution in which the shell is never started (context already done, shell
   missing / not executable: Run fails before a process exists) is an execution like any other ---- *)
Lemma sh_not_started_spec : forall (S : Type) (out err : S),
  sh_commit S (NotStarted, out, err) = (out, err, (-1)%Z, go_StatusFailure) /\
  sh_return S (NotStarted, out, err) = Some NotStarted /\
  sh_status NotStarted <> go_StatusOK.
Proof. intros. split; [reflexivity|]. split; [reflexivity|]. vm_compute. discriminate. Qed.

(* any threads, any interleaving, whatever was executed before: once such an execution is the last
   one committed, a reader sees its tuple (its own, empty, buffers; -1; Failure), not an older one *)
Lemma sh_not_started_visible : forall (S : Type) (empty : S) cb tr (s : jstate (sh_outcome S)) t out err,
  jrun no_body (sh_cfg cb) jinit tr = Some s -> j_lock s = None ->
  j_last s = Some (t, (NotStarted, out, err)) ->
  sh_visible empty s = (out, err, (-1)%Z, go_StatusFailure).
Proof.
  intros S empty cb tr s t out err Hr Hl Hlast.
  destruct (sh_last_outcome_atomic S empty cb tr s Hr Hl) as [Hv _].
  rewrite Hv, Hlast. reflexivity.
Qed.

(* non-vacuity: run(exit 0) then an execution that never starts the shell, with a callback *)
Example sh_not_started_nontrivial :
  exists s, jrun no_body (sh_cfg true) jinit
              [JCompute 0 (Exited 0%Z, 5, 6); JLock 0; JWrite 0; JWrite 0; JWrite 0; JWrite 0; JUnlock 0; JCallback 0; JReturn 0;
               JCompute 0 (NotStarted, 0, 0); JLock 0; JWrite 0; JWrite 0; JWrite 0; JWrite 0; JUnlock 0; JCallback 0; JReturn 0] = Some s /\
            j_lock s = None /\ j_last s = Some (0, (NotStarted, 0, 0)) /\
            sh_visible 0 s = (0, 0, (-1)%Z, go_StatusFailure).
Proof. eexists. split; [vm_compute; reflexivity|]. vm_compute. repeat split. Qed.
