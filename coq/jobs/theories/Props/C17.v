(* C17 -- Isolated job: executions never overlap, and the gate always reopens.
   This file contains only the property theorems; each is closed by `exact` of a lemma proved in
   IsolatedProofs.v and followed by Print Assumptions.  Model: Isolated.v (labelled transition
   system of isolatedJob.Execute for any number of threads; go_cfg is read from the Go source by
   genparams).  "Reachable" = `irun go_cfg iinit tr = Some s` for an arbitrary label sequence tr. *)
From Coq Require Import Arith List Bool.
Require Import QzJobs.Gen.Params QzJobs.Isolated QzJobs.IsolatedProofs.
Import ListNotations.

(* (1) mutual exclusion: at most one thread is inside the underlying job *)
Theorem C17_isolated_mutex : forall tr s t u,
  irun go_cfg iinit tr = Some s ->
  i_pc s t = Running -> i_pc s u = Running -> t = u.
Proof. exact isolated_mutex. Qed.
Print Assumptions C17_isolated_mutex.

(* ... and at most one thread is anywhere between its successful swap and its release *)
Theorem C17_holder_unique : forall tr s t u,
  irun go_cfg iinit tr = Some s ->
  holds (i_pc s t) = true -> holds (i_pc s u) = true -> t = u.
Proof. exact holder_unique. Qed.
Print Assumptions C17_holder_unique.

(* history form: in every history the enter/exit events of the underlying job alternate and
   match (no two executions overlap); the open execution, if any, is the Running thread *)
Theorem C17_history_no_overlap : forall tr s,
  irun go_cfg iinit tr = Some s ->
  exists c, log_cur (i_log s) = Some c /\ forall t, c = Some t <-> i_pc s t = Running.
Proof. exact history_no_overlap. Qed.
Print Assumptions C17_history_no_overlap.

(* (2) the flag is true exactly while some thread is between its successful swap and its store *)
Theorem C17_flag_iff_holder : forall tr s,
  irun go_cfg iinit tr = Some s ->
  (i_flag s = true <-> exists t, holds (i_pc s t) = true).
Proof. exact flag_iff_holder. Qed.
Print Assumptions C17_flag_iff_holder.

(* (3) a call is never blocked at the swap; the swap observes true iff ANOTHER thread's admitted
   execution is in progress (between its swap and its store) *)
Theorem C17_swap_observes_holder : forall tr s t,
  irun go_cfg iinit tr = Some s -> i_pc s t = Idle ->
  exists s', istep go_cfg s (ISwap t) = Some s' /\ i_pc s' t = Swapped (i_flag s) /\ i_flag s' = true /\
             (i_flag s = true <-> exists u, u <> t /\ holds (i_pc s u) = true).
Proof. exact swap_observes_holder. Qed.
Print Assumptions C17_swap_observes_holder.

(* observed true: the only thing the call can do is return the fail-fast error; the job is not
   invoked and the flag is left alone *)
Theorem C17_observed_true_rejects : forall s t,
  i_pc s t = Swapped true ->
  (forall a, label_thread a = t -> istep go_cfg s a <> None -> a = IReject t) /\
  exists s', istep go_cfg s (IReject t) = Some s' /\ i_pc s' t = Idle /\ i_flag s' = i_flag s /\
             i_log s' = EvReject t :: i_log s.
Proof. exact observed_true_rejects. Qed.
Print Assumptions C17_observed_true_rejects.

(* observed false: the only thing the call can do is invoke the underlying job *)
Theorem C17_observed_false_enters : forall s t,
  i_pc s t = Swapped false ->
  (forall a, label_thread a = t -> istep go_cfg s a <> None -> a = IEnter t) /\
  exists s', istep go_cfg s (IEnter t) = Some s' /\ i_pc s' t = Running /\ i_flag s' = i_flag s /\
             i_log s' = EvEnter t :: i_log s.
Proof. exact observed_false_enters. Qed.
Print Assumptions C17_observed_false_enters.

(* per thread, in every history: invocations of the job = returns of admitted calls (+1 while
   inside); rejected calls contribute no invocation *)
Theorem C17_enter_return_balance : forall tr s t,
  irun go_cfg iinit tr = Some s ->
  count_ev (is_enter t) (i_log s) =
  count_ev (is_return t) (i_log s) + (match i_pc s t with Running | Finished _ => 1 | _ => 0 end).
Proof. exact enter_return_balance. Qed.
Print Assumptions C17_enter_return_balance.

(* (4) after the underlying job ended in ANY way (ok, error, panic) the thread's only next label
   stores false, and then a call by any idle thread is admitted and runs *)
Theorem C17_gate_reopens : forall tr s t o,
  irun go_cfg iinit tr = Some s -> i_pc s t = Finished o ->
  (forall a, label_thread a = t -> istep go_cfg s a <> None -> a = IRelease t) /\
  exists s1, istep go_cfg s (IRelease t) = Some s1 /\ i_flag s1 = false /\ i_pc s1 t = Idle /\
    forall u, i_pc s1 u = Idle ->
      exists s2 s3, istep go_cfg s1 (ISwap u) = Some s2 /\ i_pc s2 u = Swapped false /\
                    istep go_cfg s2 (IEnter u) = Some s3 /\ i_pc s3 u = Running.
Proof. exact gate_reopens. Qed.
Print Assumptions C17_gate_reopens.

(* whenever no execution is in progress a call is admitted (the gate cannot be shut with nobody inside) *)
Theorem C17_free_gate_admits : forall tr s u,
  irun go_cfg iinit tr = Some s -> (forall t, holds (i_pc s t) = false) -> i_pc s u = Idle ->
  exists s', istep go_cfg s (ISwap u) = Some s' /\ i_pc s' u = Swapped false.
Proof. exact free_gate_admits. Qed.
Print Assumptions C17_free_gate_admits.

(* (5) progress: every thread can always take a step (nobody ever blocks) ... *)
Theorem C17_every_thread_can_step : forall tr s t,
  irun go_cfg iinit tr = Some s ->
  exists a s', label_thread a = t /\ istep go_cfg s a = Some s'.
Proof. exact every_thread_can_step. Qed.
Print Assumptions C17_every_thread_can_step.

(* ... and whenever the gate is shut, its holder alone reopens it within three of its own steps,
   whatever the outcome o of the underlying job (no wedging) *)
Theorem C17_holder_reopens_alone : forall tr s (o : outcome),
  irun go_cfg iinit tr = Some s -> i_flag s = true ->
  exists t tr' s', Forall (fun a => label_thread a = t) tr' /\ length tr' <= 3 /\
                   irun go_cfg s tr' = Some s' /\ i_flag s' = false /\ i_pc s' t = Idle.
Proof. exact holder_reopens_alone. Qed.
Print Assumptions C17_holder_reopens_alone.

(* sensitivity: load-then-store admission lets two threads run the job at once; a non-deferred
   release leaves the gate shut for ever after a panic *)
Theorem C17_load_store_breaks_mutex :
  exists s, irun cfg_load_store iinit [ILoad 0; ILoad 1; IStoreTrue 0; IStoreTrue 1; IEnter 0; IEnter 1] = Some s /\
            i_pc s 0 = Running /\ i_pc s 1 = Running /\ log_cur (i_log s) = None.
Proof. exact load_store_breaks_mutex. Qed.
Print Assumptions C17_load_store_breaks_mutex.

Theorem C17_not_deferred_wedges :
  exists s, irun cfg_not_deferred iinit [ISwap 0; IEnter 0; IFinish 0 OPanic; IRelease 0] = Some s /\
            i_flag s = true /\ (forall t, i_pc s t = Idle) /\
            forall u, exists s', istep cfg_not_deferred s (ISwap u) = Some s' /\ i_pc s' u = Swapped true.
Proof. exact not_deferred_wedges. Qed.
Print Assumptions C17_not_deferred_wedges.

(* an isolated job wrapped again (and again), every handle of the chain in use: executions entering
   through ANY two handles both hold the innermost gate h0 while inside the job, so they are callers of
   one isolated job and the theorems above apply to them *)
Theorem C17_chain_common_gate : forall i j,
  In 0 (gates_passed iso_ctor_wraps_argument i) /\ In 0 (gates_passed iso_ctor_wraps_argument j).
Proof. exact chain_common_gate. Qed.
Print Assumptions C17_chain_common_gate.

(* sensitivity: a constructor that looks through an isolated argument leaves h0 and h1 without a common gate *)
Theorem C17_unwrapping_ctor_splits_gates :
  gates_passed false 0 = [0] /\ gates_passed false 1 = [1] /\
  forall g, In g (gates_passed false 0) -> In g (gates_passed false 1) -> False.
Proof. exact unwrapping_ctor_splits_gates. Qed.
Print Assumptions C17_unwrapping_ctor_splits_gates.
