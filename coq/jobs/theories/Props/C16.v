(* C16 -- Built-in jobs report each execution faithfully and do not leak resources.
   This file contains only the property theorems; each is closed by `exact` of a lemma proved in
   JobsProofs.v and followed by Print Assumptions.  Model: JobsModel.v.  The branch tests, status
   constants, HTTP limits and operators, the position of the outcome computation, of the field
   assignments and of the callback relative to mtx.Lock/Unlock, and the body close are read from
   the Go source by genparams (Gen/Params.v).  Runtime facts (processes, sockets, descriptors,
   goroutines) are observed by the harness, not proved. *)
From Coq Require Import ZArith List Bool Arith.
Require Import QzJobs.Gen.Params QzJobs.JobsModel QzJobs.JobsProofs.
Import ListNotations.
Open Scope nat_scope.

Theorem C16_status_constants_distinct :
  go_StatusNA <> go_StatusOK /\ go_StatusNA <> go_StatusFailure /\ go_StatusOK <> go_StatusFailure.
Proof. exact status_constants_distinct. Qed.
Print Assumptions C16_status_constants_distinct.

(* facts about the source text that the models assume: fields come from this run's buffers and
   process state, the command and the request are bound to ctx, the status is computed after Do,
   callbacks follow the unlock, Execute returns the error of the call it made *)
Theorem C16_source_shape :
  sh_fields_from_this_run = true /\ sh_uses_ctx = true /\ sh_callback_after_unlock = true /\
  cu_rebinds_ctx = true /\ cu_status_after_do = true /\ cu_callback_after_unlock = true /\
  cu_nil_guard = true /\ fn_returns_call_err = true /\ sh_returns_run_err = true /\ cu_returns_do_err = true.
Proof. exact source_shape. Qed.
Print Assumptions C16_source_shape.

(* ---- FunctionJob: OK iff err = nil; result zeroed on error; Execute returns err ---- *)
Theorem C16_function_commit : forall (R E : Type) (zero res : R) (err : option E),
  fn_commit R E zero (res, err) =
  match err with
  | None => (go_StatusOK, res, None)
  | Some e => (go_StatusFailure, zero, Some e)
  end.
Proof. exact fn_commit_spec. Qed.
Print Assumptions C16_function_commit.

Theorem C16_function_status_ok_iff : forall (R E : Type) (zero res : R) (err : option E),
  fst (fst (fn_commit R E zero (res, err))) = go_StatusOK <-> err = None.
Proof. exact fn_status_ok_iff. Qed.
Print Assumptions C16_function_status_ok_iff.

Theorem C16_function_returns_err : forall (R E : Type) (o : fn_outcome R E), fn_return R E o = snd o.
Proof. exact fn_return_spec. Qed.
Print Assumptions C16_function_returns_err.

(* ---- ShellJob: OK iff Run's error is nil iff the command exited 0, for ALL exit codes ---- *)
Theorem C16_shell_status_ok_iff : forall r, sh_status r = go_StatusOK <-> r = Exited 0%Z.
Proof. exact sh_status_ok_iff. Qed.
Print Assumptions C16_shell_status_ok_iff.

Theorem C16_shell_status_exit_codes : forall c : Z,
  (sh_status (Exited c) = go_StatusOK <-> c = 0%Z) /\
  (sh_status (Exited c) = go_StatusFailure <-> c <> 0%Z).
Proof. exact sh_status_exit_codes. Qed.
Print Assumptions C16_shell_status_exit_codes.

Theorem C16_shell_failure_iff_err : forall r, sh_status r = go_StatusFailure <-> run_err r <> None.
Proof. exact sh_failure_iff_err. Qed.
Print Assumptions C16_shell_failure_iff_err.

Theorem C16_shell_commit : forall (S : Type) (r : run_result) (out err : S),
  sh_commit S (r, out, err) = (out, err, exit_code r, sh_status r) /\ sh_return S (r, out, err) = run_err r.
Proof. exact sh_commit_spec. Qed.
Print Assumptions C16_shell_commit.

(* ---- CurlJob: OK iff a response exists and 200 <= code < 400; transport error => Failure ---- *)
Theorem C16_http_code_ok_iff : forall c : Z, http_code_ok c = true <-> (200 <= c < 400)%Z.
Proof. exact http_code_ok_iff. Qed.
Print Assumptions C16_http_code_ok_iff.

Theorem C16_http_status_ok_iff : forall resp : option (Z * bool),
  cu_status resp = go_StatusOK <-> exists c b, resp = Some (c, b) /\ (200 <= c < 400)%Z.
Proof. exact cu_status_ok_iff. Qed.
Print Assumptions C16_http_status_ok_iff.

Theorem C16_http_status_total : forall resp, cu_status resp = go_StatusOK \/ cu_status resp = go_StatusFailure.
Proof. exact cu_status_total. Qed.
Print Assumptions C16_http_status_total.

Theorem C16_http_transport_error_fails : cu_status None = go_StatusFailure.
Proof. exact cu_transport_error_fails. Qed.
Print Assumptions C16_http_transport_error_fails.

Theorem C16_curl_commit : forall (E : Type) (o : cu_outcome E),
  cu_commit E o = (fst o, cu_status (fst o)) /\ cu_return E o = snd o.
Proof. exact cu_commit_spec. Qed.
Print Assumptions C16_curl_commit.

(* ---- concurrent executions of one job object (any number of threads, any label sequence) ----
   Whenever the mutex is free -- i.e. whenever a getter can look -- the visible tuple is exactly
   the committed tuple of the execution whose commit completed last (the newest commit event of
   the history), never a mixture. *)
Theorem C16_function_last_outcome_atomic : forall (R E : Type) (zero : R) tr (s : jstate (fn_outcome R E)),
  jrun no_body fn_cfg jinit tr = Some s -> j_lock s = None ->
  fn_visible zero s = match j_last s with Some (_, o) => fn_commit R E zero o | None => fn_initial R E zero end /\
  last_commit (j_log s) = j_last s.
Proof. exact fn_last_outcome_atomic. Qed.
Print Assumptions C16_function_last_outcome_atomic.

Theorem C16_shell_last_outcome_atomic : forall (S : Type) (empty : S) cb tr (s : jstate (sh_outcome S)),
  jrun no_body (sh_cfg cb) jinit tr = Some s -> j_lock s = None ->
  sh_visible empty s = match j_last s with Some (_, o) => sh_commit S o | None => (empty, empty, 0%Z, go_StatusNA) end /\
  last_commit (j_log s) = j_last s.
Proof. exact sh_last_outcome_atomic. Qed.
Print Assumptions C16_shell_last_outcome_atomic.

Theorem C16_curl_last_outcome_atomic : forall (E : Type) cb tr (s : jstate (cu_outcome E)),
  jrun (cu_body E) (cu_cfg cb) jinit tr = Some s -> j_lock s = None ->
  cu_visible s = match j_last s with Some (_, o) => cu_commit E o | None => (None, go_StatusNA) end /\
  last_commit (j_log s) = j_last s.
Proof. exact cu_last_outcome_atomic. Qed.
Print Assumptions C16_curl_last_outcome_atomic.

(* ---- callbacks: for every configuration c, in every history and per thread, callbacks never run
   ahead of the thread's own commits; back outside Execute the thread made jc_ncb c callbacks per
   execution and committed / returned once per execution.  jc_ncb is 1 for ShellJob / CurlJob
   with a callback and 0 otherwise (C16_callback_counts). *)
Theorem C16_callback_once : forall (O : Type) (body : O -> nat) (c : jcfg) tr (s : jstate O) t,
  jrun body c jinit tr = Some s ->
  jcount (is_callback t) (j_log s) <= jc_ncb c * jcount (is_commit t) (j_log s) /\
  (j_pc s t = JIdle ->
     jcount (is_callback t) (j_log s) = jc_ncb c * jcount (is_jreturn t) (j_log s) /\
     jcount (is_commit t) (j_log s) = jcount (is_jreturn t) (j_log s)).
Proof. exact callback_once. Qed.
Print Assumptions C16_callback_once.

Theorem C16_callback_counts :
  jc_ncb fn_cfg = 0 /\ jc_ncb (sh_cfg false) = 0 /\ jc_ncb (cu_cfg false) = 0 /\
  jc_ncb (sh_cfg true) = 1 /\ jc_ncb (cu_cfg true) = 1.
Proof. exact callback_counts. Qed.
Print Assumptions C16_callback_counts.

Theorem C16_callback_only_after_unlock : forall (O : Type) (body : O -> nat) (c : jcfg) (s : jstate O) t s',
  jstep body c s (JCallback t) = Some s' ->
  exists o n, j_pc s t = JUnlocked o n /\ n < jc_ncb c /\ j_pc s' t = JUnlocked o (S n).
Proof. exact callback_only_after_unlock. Qed.
Print Assumptions C16_callback_only_after_unlock.

(* Execute returns with the outcome this very execution produced (its error is fn/sh/cu_return of it) *)
Theorem C16_return_carries_own_outcome : forall (O : Type) (body : O -> nat) (c : jcfg) (s : jstate O) t s',
  jstep body c s (JReturn t) = Some s' ->
  exists o, j_pc s t = JUnlocked o (jc_ncb c) /\ j_log s' = JEvReturn t o :: j_log s /\ j_pc s' t = JIdle.
Proof. exact return_carries_own_outcome. Qed.
Print Assumptions C16_return_carries_own_outcome.

Theorem C16_where_outcome_is_computed :
  jc_in_lock fn_cfg = false /\ (forall cb, jc_in_lock (sh_cfg cb) = false) /\ (forall cb, jc_in_lock (cu_cfg cb) = true).
Proof. exact where_outcome_is_computed. Qed.
Print Assumptions C16_where_outcome_is_computed.

(* ---- CurlJob response bodies: at most one unclosed body in EVERY reachable state, sequential or
   concurrent (the mutex spans close-previous, Do and the assignment, so executions serialise);
   with the mutex free the only open body is that of the response currently held *)
Theorem C16_curl_open_bodies_bounded : forall (E : Type) cb tr (s : jstate (cu_outcome E)),
  jrun (cu_body E) (cu_cfg cb) jinit tr = Some s -> j_open s <= 1.
Proof. exact cu_open_bodies_bounded. Qed.
Print Assumptions C16_curl_open_bodies_bounded.

Theorem C16_curl_open_bodies_quiescent : forall (E : Type) cb tr (s : jstate (cu_outcome E)),
  jrun (cu_body E) (cu_cfg cb) jinit tr = Some s -> j_lock s = None ->
  j_open s = body_of (cu_body E) (j_last s).
Proof. exact cu_open_bodies_quiescent. Qed.
Print Assumptions C16_curl_open_bodies_quiescent.

Theorem C16_curl_do_serialised : forall (E : Type) cb tr (s : jstate (cu_outcome E)) t u,
  jrun (cu_body E) (cu_cfg cb) jinit tr = Some s ->
  holds_lock (j_pc s t) = true -> holds_lock (j_pc s u) = true -> t = u.
Proof. exact cu_do_serialised. Qed.
Print Assumptions C16_curl_do_serialised.

(* the finite domain swept by the harness, decided in Coq: every HTTP code 100..599 *)
Theorem C16_http_codes_100_599 :
  forallb (fun n => let c := Z.of_nat (100 + n) in
                    Z.eqb (cu_status (Some (c, true))) (if ((200 <=? c) && (c <? 400))%Z then go_StatusOK else go_StatusFailure))
          (seq 0 500) = true.
Proof. exact http_codes_100_599. Qed.
Print Assumptions C16_http_codes_100_599.

(* ---- sensitivity: what the theorems exclude does happen in the broken variants ---- *)
Theorem C16_split_commit_mixes :
  exists s, jrun no_body fn_cfg_split_commit jinit
              [JCompute 0 (7, None); JCompute 1 (9, Some tt); JLock 0; JWrite 0; JSplit 0;
               JLock 1; JWrite 1; JWrite 1; JWrite 1; JUnlock 1;
               JLock 0; JWrite 0; JWrite 0; JUnlock 0] = Some s /\
            j_lock s = None /\ j_last s = Some (0, (7, @None unit)) /\
            fn_visible 0 s = (go_StatusFailure, 7, None) /\
            fn_commit nat unit 0 (7, None) = (go_StatusOK, 7, None).
Proof. exact split_commit_mixes. Qed.
Print Assumptions C16_split_commit_mixes.

Theorem C16_no_close_leaks :
  exists s, jrun (cu_body unit) cu_cfg_no_close jinit
              (exec_nocb 0 o200 ++ exec_nocb 0 o200 ++ exec_nocb 0 o500 ++ exec_nocb 0 o200 ++ exec_nocb 0 o200) = Some s /\
            j_lock s = None /\ j_open s = 5.
Proof. exact no_close_leaks. Qed.
Print Assumptions C16_no_close_leaks.

(* ---- ShellJob: an execution that never starts the shell (ctx already done, shell missing / not
   executable) commits (its empty buffers, -1, Failure) and returns the launch error; once it is the
   last committed execution a reader sees exactly that, whatever ran before, under any interleaving ---- *)
Theorem C16_shell_not_started_outcome : forall (S : Type) (out err : S),
  sh_commit S (NotStarted, out, err) = (out, err, (-1)%Z, go_StatusFailure) /\
  sh_return S (NotStarted, out, err) = Some NotStarted /\
  sh_status NotStarted <> go_StatusOK.
Proof. exact sh_not_started_spec. Qed.
Print Assumptions C16_shell_not_started_outcome.

Theorem C16_shell_not_started_visible : forall (S : Type) (empty : S) cb tr (s : jstate (sh_outcome S)) t out err,
  jrun no_body (sh_cfg cb) jinit tr = Some s -> j_lock s = None ->
  j_last s = Some (t, (NotStarted, out, err)) ->
  sh_visible empty s = (out, err, (-1)%Z, go_StatusFailure).
Proof. exact sh_not_started_visible. Qed.
Print Assumptions C16_shell_not_started_visible.
