(* Proofs about the isolated-job model (Isolated.v): invariant by induction over all label
   sequences, for any number of threads. *)
From Coq Require Import Arith List Bool Lia.
Require Import QzJobs.Gen.Params QzJobs.Isolated.
Import ListNotations.

Definition label_thread (a : ilabel) : nat :=
  match a with
  | ISwap t | ILoad t | IStoreTrue t | IReject t | IEnter t | IFinish t _ | IRelease t => t
  end.

Lemma go_cfg_swap : cfg_swap go_cfg = true.
Proof. reflexivity. Qed.
Lemma go_cfg_deferred : cfg_deferred go_cfg = true.
Proof. reflexivity. Qed.
Lemma go_releases : forall o, releases go_cfg o = true.
Proof. intros o. unfold releases. rewrite go_cfg_deferred. reflexivity. Qed.

Lemma upd_same : forall f t p, upd f t p t = p.
Proof. intros; unfold upd; rewrite Nat.eqb_refl; reflexivity. Qed.

Lemma upd_other : forall f t p u, u <> t -> upd f t p u = f u.
Proof. intros f t p u H; unfold upd. destruct (Nat.eqb_spec u t); [contradiction|reflexivity]. Qed.

Record iinv (s : istate) : Prop := {
  inv_flag : forall t, holds (i_pc s t) = true -> i_flag s = true;
  inv_uniq : forall t u, holds (i_pc s t) = true -> holds (i_pc s u) = true -> t = u;
  inv_some : i_flag s = true -> exists t, holds (i_pc s t) = true;
  inv_noload : forall t b, i_pc s t <> Loaded b;
  inv_log : exists c, log_cur (i_log s) = Some c /\ forall t, c = Some t <-> i_pc s t = Running
}.

Lemma iinv_init : iinv iinit.
Proof.
  split; cbn; intros; try discriminate.
  exists None. split; [reflexivity|]. intros t; split; intros H; discriminate.
Qed.

(* case split on u = t after an update of t *)
Ltac upd_cases u t H :=
  destruct (Nat.eq_dec u t) as [->|?];
  [rewrite upd_same in H | rewrite upd_other in H by assumption].

Lemma iinv_step : forall s a s', iinv s -> istep go_cfg s a = Some s' -> iinv s'.
Proof.
  intros s a s' [Hf Hu Hs Hn [c [Hl Hc]]] Hstep.
  destruct a as [t|t|t|t|t|t o|t]; cbn [istep] in Hstep.
  - (* ISwap *)
    rewrite go_cfg_swap in Hstep.
    destruct (i_pc s t) eqn:Et; try discriminate. injection Hstep as <-.
    split; cbn [i_flag i_pc i_log].
    + reflexivity.
    + intros u v Hu1 Hv1. upd_cases u t Hu1; upd_cases v t Hv1.
      * reflexivity.
      * (* t claims with old flag false; v holds => flag true: contradiction *)
        destruct (i_flag s) eqn:Ef; [discriminate|]. apply Hf in Hv1. congruence.
      * destruct (i_flag s) eqn:Ef; [discriminate|]. apply Hf in Hu1. congruence.
      * exact (Hu _ _ Hu1 Hv1).
    + intros _. destruct (i_flag s) eqn:Ef.
      * destruct (Hs eq_refl) as [u Hu1]. exists u.
        destruct (Nat.eq_dec u t) as [->|Hne]; [rewrite Et in Hu1; discriminate|].
        rewrite upd_other by exact Hne. exact Hu1.
      * exists t. rewrite upd_same. reflexivity.
    + intros u b Hu1. upd_cases u t Hu1; [discriminate|]. exact (Hn _ _ Hu1).
    + exists c. split; [exact Hl|]. intros u. rewrite Hc. split; intros Hr.
      * destruct (Nat.eq_dec u t) as [->|Hne]; [congruence|]. rewrite upd_other by exact Hne. exact Hr.
      * upd_cases u t Hr; [discriminate|exact Hr].
  - (* ILoad: not a step of the source configuration *)
    rewrite go_cfg_swap in Hstep. discriminate.
  - (* IStoreTrue: needs a Loaded pc, which never occurs *)
    destruct (i_pc s t) eqn:Et; try discriminate. exfalso. exact (Hn _ _ Et).
  - (* IReject *)
    destruct (i_pc s t) as [| |[|]| |] eqn:Et; try discriminate. injection Hstep as <-.
    split; cbn [i_flag i_pc i_log].
    + intros u Hu1. upd_cases u t Hu1; [discriminate|]. exact (Hf _ Hu1).
    + intros u v Hu1 Hv1. upd_cases u t Hu1; [discriminate|]. upd_cases v t Hv1; [discriminate|].
      exact (Hu _ _ Hu1 Hv1).
    + intros Hfl. destruct (Hs Hfl) as [u Hu1]. exists u.
      destruct (Nat.eq_dec u t) as [->|Hne]; [rewrite Et in Hu1; discriminate|].
      rewrite upd_other by exact Hne. exact Hu1.
    + intros u b Hu1. upd_cases u t Hu1; [discriminate|]. exact (Hn _ _ Hu1).
    + exists c. cbn [log_cur]. rewrite Hl. split; [reflexivity|]. intros u. rewrite Hc. split; intros Hr.
      * destruct (Nat.eq_dec u t) as [->|Hne]; [congruence|]. rewrite upd_other by exact Hne. exact Hr.
      * upd_cases u t Hr; [discriminate|exact Hr].
  - (* IEnter *)
    destruct (i_pc s t) as [| |[|]| |] eqn:Et; try discriminate. injection Hstep as <-.
    assert (Ht : holds (i_pc s t) = true) by (rewrite Et; reflexivity).
    split; cbn [i_flag i_pc i_log].
    + intros u Hu1. upd_cases u t Hu1; [exact (Hf _ Ht)|exact (Hf _ Hu1)].
    + intros u v Hu1 Hv1. upd_cases u t Hu1; upd_cases v t Hv1.
      * reflexivity.
      * symmetry. exact (Hu _ _ Hv1 Ht).
      * exact (Hu _ _ Hu1 Ht).
      * exact (Hu _ _ Hu1 Hv1).
    + intros _. exists t. rewrite upd_same. reflexivity.
    + intros u b Hu1. upd_cases u t Hu1; [discriminate|]. exact (Hn _ _ Hu1).
    + (* nobody was running: a running thread would hold the flag, but t is the holder *)
      assert (Hnone : c = None).
      { destruct c as [u|]; [|reflexivity]. exfalso.
        assert (Hr : i_pc s u = Running) by (apply Hc; reflexivity).
        assert (Hh : holds (i_pc s u) = true) by (rewrite Hr; reflexivity).
        assert (u = t) by exact (Hu _ _ Hh Ht). subst u. congruence. }
      subst c. exists (Some t). cbn [log_cur]. rewrite Hl. split; [reflexivity|].
      intros u. split; intros Hr.
      * injection Hr as <-. rewrite upd_same. reflexivity.
      * upd_cases u t Hr; [reflexivity|]. apply Hc in Hr. discriminate.
  - (* IFinish *)
    destruct (i_pc s t) eqn:Et; try discriminate. injection Hstep as <-.
    assert (Ht : holds (i_pc s t) = true) by (rewrite Et; reflexivity).
    split; cbn [i_flag i_pc i_log].
    + intros u Hu1. upd_cases u t Hu1; [exact (Hf _ Ht)|exact (Hf _ Hu1)].
    + intros u v Hu1 Hv1. upd_cases u t Hu1; upd_cases v t Hv1.
      * reflexivity.
      * symmetry. exact (Hu _ _ Hv1 Ht).
      * exact (Hu _ _ Hu1 Ht).
      * exact (Hu _ _ Hu1 Hv1).
    + intros _. exists t. rewrite upd_same. reflexivity.
    + intros u b Hu1. upd_cases u t Hu1; [discriminate|]. exact (Hn _ _ Hu1).
    + assert (Hct : c = Some t) by (apply Hc; exact Et). subst c.
      exists None. cbn [log_cur]. rewrite Hl. rewrite Nat.eqb_refl. split; [reflexivity|].
      intros u. split; intros Hr; [discriminate|].
      upd_cases u t Hr; [discriminate|].
      assert (Hh : holds (i_pc s u) = true) by (rewrite Hr; reflexivity).
      exfalso. apply n. exact (Hu _ _ Hh Ht).
  - (* IRelease *)
    destruct (i_pc s t) eqn:Et; try discriminate. injection Hstep as <-.
    assert (Ht : holds (i_pc s t) = true) by (rewrite Et; reflexivity).
    rewrite ?go_releases.
    split; cbn [i_flag i_pc i_log].
    + intros u Hu1. upd_cases u t Hu1; [discriminate|]. exfalso. apply n. exact (Hu _ _ Hu1 Ht).
    + intros u v Hu1 Hv1. upd_cases u t Hu1; [discriminate|]. upd_cases v t Hv1; [discriminate|].
      exact (Hu _ _ Hu1 Hv1).
    + discriminate.
    + intros u b Hu1. upd_cases u t Hu1; [discriminate|]. exact (Hn _ _ Hu1).
    + exists c. cbn [log_cur]. rewrite Hl. split; [destruct c; reflexivity|].
      intros u. rewrite Hc. split; intros Hr.
      * destruct (Nat.eq_dec u t) as [->|Hne]; [congruence|]. rewrite upd_other by exact Hne. exact Hr.
      * upd_cases u t Hr; [discriminate|exact Hr].
Qed.

Lemma iinv_run_from : forall tr s s', iinv s -> irun go_cfg s tr = Some s' -> iinv s'.
Proof.
  induction tr as [|a tr IH]; intros s s' Hi Hr; cbn [irun] in Hr.
  - injection Hr as <-. exact Hi.
  - destruct (istep go_cfg s a) as [s1|] eqn:E; [|discriminate].
    exact (IH _ _ (iinv_step _ _ _ Hi E) Hr).
Qed.

Lemma iinv_reachable : forall tr s, irun go_cfg iinit tr = Some s -> iinv s.
Proof. intros tr s H. exact (iinv_run_from _ _ _ iinv_init H). Qed.

(* ---- (1) mutual exclusion ---- *)
Theorem holder_unique : forall tr s t u,
  irun go_cfg iinit tr = Some s ->
  holds (i_pc s t) = true -> holds (i_pc s u) = true -> t = u.
Proof. intros tr s t u H. exact (inv_uniq _ (iinv_reachable _ _ H) t u). Qed.

Theorem isolated_mutex : forall tr s t u,
  irun go_cfg iinit tr = Some s ->
  i_pc s t = Running -> i_pc s u = Running -> t = u.
Proof.
  intros tr s t u H Ht Hu. apply (holder_unique tr s t u H); [rewrite Ht|rewrite Hu]; reflexivity.
Qed.

(* history form: enter/exit events of the underlying job alternate, matching thread *)
Theorem history_no_overlap : forall tr s,
  irun go_cfg iinit tr = Some s ->
  exists c, log_cur (i_log s) = Some c /\ forall t, c = Some t <-> i_pc s t = Running.
Proof. intros tr s H. exact (inv_log _ (iinv_reachable _ _ H)). Qed.

(* ---- (2) the flag is set exactly while some thread is between claim and release ---- *)
Theorem flag_iff_holder : forall tr s,
  irun go_cfg iinit tr = Some s ->
  (i_flag s = true <-> exists t, holds (i_pc s t) = true).
Proof.
  intros tr s H. pose proof (iinv_reachable _ _ H) as I. split.
  - exact (inv_some _ I).
  - intros [t Ht]. exact (inv_flag _ I t Ht).
Qed.

(* ---- (3) fail-fast exactly when the swap observed the flag held by another thread ---- *)
Theorem swap_observes_holder : forall tr s t,
  irun go_cfg iinit tr = Some s -> i_pc s t = Idle ->
  exists s', istep go_cfg s (ISwap t) = Some s' /\ i_pc s' t = Swapped (i_flag s) /\ i_flag s' = true /\
             (i_flag s = true <-> exists u, u <> t /\ holds (i_pc s u) = true).
Proof.
  intros tr s t H Et. pose proof (iinv_reachable _ _ H) as I.
  cbn [istep]. rewrite go_cfg_swap, Et. eexists. split; [reflexivity|].
  cbn [i_pc i_flag]. rewrite upd_same. split; [reflexivity|]. split; [reflexivity|]. split.
  - intros Hf. destruct (inv_some _ I Hf) as [u Hu]. exists u. split; [|exact Hu].
    intros ->. rewrite Et in Hu. discriminate.
  - intros [u [_ Hu]]. exact (inv_flag _ I u Hu).
Qed.

Theorem observed_true_rejects : forall s t,
  i_pc s t = Swapped true ->
  (forall a, label_thread a = t -> istep go_cfg s a <> None -> a = IReject t) /\
  exists s', istep go_cfg s (IReject t) = Some s' /\ i_pc s' t = Idle /\ i_flag s' = i_flag s /\
             i_log s' = EvReject t :: i_log s.
Proof.
  intros s t Et. split.
  - intros a Ha Hen. destruct a; cbn [label_thread] in Ha; subst; cbn [istep] in Hen;
      rewrite ?go_cfg_swap, ?Et in Hen; try (exfalso; apply Hen; reflexivity). reflexivity.
  - cbn [istep]. rewrite Et. eexists. split; [reflexivity|]. cbn [i_pc i_flag i_log].
    rewrite upd_same. repeat split.
Qed.

Theorem observed_false_enters : forall s t,
  i_pc s t = Swapped false ->
  (forall a, label_thread a = t -> istep go_cfg s a <> None -> a = IEnter t) /\
  exists s', istep go_cfg s (IEnter t) = Some s' /\ i_pc s' t = Running /\ i_flag s' = i_flag s /\
             i_log s' = EvEnter t :: i_log s.
Proof.
  intros s t Et. split.
  - intros a Ha Hen. destruct a; cbn [label_thread] in Ha; subst; cbn [istep] in Hen;
      rewrite ?go_cfg_swap, ?Et in Hen; try (exfalso; apply Hen; reflexivity). reflexivity.
  - cbn [istep]. rewrite Et. eexists. split; [reflexivity|]. cbn [i_pc i_flag i_log].
    rewrite upd_same. repeat split.
Qed.

(* a rejected call never invoked the job: per thread, enters = returns + (1 if inside) and a
   reject step adds no enter event *)
Theorem enter_return_balance : forall tr s t,
  irun go_cfg iinit tr = Some s ->
  count_ev (is_enter t) (i_log s) =
  count_ev (is_return t) (i_log s) + (match i_pc s t with Running | Finished _ => 1 | _ => 0 end).
Proof.
  intros tr s t H.
  assert (G : forall tr s0 s, irun go_cfg s0 tr = Some s ->
     count_ev (is_enter t) (i_log s0) =
       count_ev (is_return t) (i_log s0) + (match i_pc s0 t with Running | Finished _ => 1 | _ => 0 end) ->
     count_ev (is_enter t) (i_log s) =
       count_ev (is_return t) (i_log s) + (match i_pc s t with Running | Finished _ => 1 | _ => 0 end)).
  { clear. induction tr as [|a tr IH]; intros s0 s Hr H0; cbn [irun] in Hr.
    - injection Hr as <-. exact H0.
    - destruct (istep go_cfg s0 a) as [s1|] eqn:E; [|discriminate].
      apply (IH _ _ Hr). clear IH Hr.
      destruct a as [u|u|u|u|u|u o|u]; cbn [istep] in E; rewrite ?go_cfg_swap in E; try discriminate.
      + destruct (i_pc s0 u) eqn:Eu; try discriminate. injection E as <-. cbn [i_log i_pc].
        destruct (Nat.eq_dec t u) as [->|Hne]; [rewrite upd_same, Eu in *; exact H0|].
        rewrite upd_other by exact Hne. exact H0.
      + destruct (i_pc s0 u) as [|[|]| | |] eqn:Eu; try discriminate; injection E as <-; cbn [i_log i_pc];
          (destruct (Nat.eq_dec t u) as [->|Hne]; [rewrite upd_same, Eu in *; exact H0|];
           rewrite upd_other by exact Hne; exact H0).
      + destruct (i_pc s0 u) as [| |[|]| |] eqn:Eu; try discriminate. injection E as <-. cbn [i_log i_pc count_ev is_enter is_return].
        destruct (Nat.eq_dec t u) as [->|Hne]; [rewrite upd_same, Eu in *; exact H0|].
        rewrite upd_other by exact Hne. exact H0.
      + destruct (i_pc s0 u) as [| |[|]| |] eqn:Eu; try discriminate. injection E as <-. cbn [i_log i_pc count_ev is_enter is_return].
        destruct (Nat.eq_dec t u) as [->|Hne].
        * rewrite upd_same, Eu, Nat.eqb_refl in *. lia.
        * rewrite upd_other by exact Hne. destruct (Nat.eqb_spec u t); [congruence|]. exact H0.
      + destruct (i_pc s0 u) eqn:Eu; try discriminate. injection E as <-. cbn [i_log i_pc count_ev is_enter is_return].
        destruct (Nat.eq_dec t u) as [->|Hne]; [rewrite upd_same, Eu in *; exact H0|].
        rewrite upd_other by exact Hne. exact H0.
      + destruct (i_pc s0 u) eqn:Eu; try discriminate. injection E as <-. cbn [i_log i_pc count_ev is_enter is_return].
        destruct (Nat.eq_dec t u) as [->|Hne].
        * rewrite upd_same, Eu, Nat.eqb_refl in *. lia.
        * rewrite upd_other by exact Hne. destruct (Nat.eqb_spec u t); [congruence|]. exact H0. }
  apply (G tr iinit s H). reflexivity.
Qed.

(* ---- (4) the gate reopens after ANY outcome ---- *)
Theorem gate_reopens : forall tr s t o,
  irun go_cfg iinit tr = Some s -> i_pc s t = Finished o ->
  (forall a, label_thread a = t -> istep go_cfg s a <> None -> a = IRelease t) /\
  exists s1, istep go_cfg s (IRelease t) = Some s1 /\ i_flag s1 = false /\ i_pc s1 t = Idle /\
    forall u, i_pc s1 u = Idle ->
      exists s2 s3, istep go_cfg s1 (ISwap u) = Some s2 /\ i_pc s2 u = Swapped false /\
                    istep go_cfg s2 (IEnter u) = Some s3 /\ i_pc s3 u = Running.
Proof.
  intros tr s t o H Et. split.
  - intros a Ha Hen. destruct a; cbn [label_thread] in Ha; subst; cbn [istep] in Hen;
      rewrite ?go_cfg_swap, ?Et in Hen; try (exfalso; apply Hen; reflexivity). reflexivity.
  - cbn [istep]. rewrite Et, go_releases. eexists. split; [reflexivity|]. cbn [i_flag i_pc].
    split; [reflexivity|]. split; [apply upd_same|].
    intros u Hu. cbn [istep]. rewrite go_cfg_swap. cbn [i_pc i_flag]. rewrite Hu.
    eexists. eexists. split; [reflexivity|]. cbn [i_pc]. rewrite upd_same.
    split; [reflexivity|]. split; [reflexivity|]. cbn [i_pc]. apply upd_same.
Qed.

Theorem free_gate_admits : forall tr s u,
  irun go_cfg iinit tr = Some s -> (forall t, holds (i_pc s t) = false) -> i_pc s u = Idle ->
  exists s', istep go_cfg s (ISwap u) = Some s' /\ i_pc s' u = Swapped false.
Proof.
  intros tr s u H Hnone Hu.
  destruct (swap_observes_holder tr s u H Hu) as [s' [E [Hp [_ Hiff]]]].
  exists s'. split; [exact E|]. rewrite Hp. destruct (i_flag s); [|reflexivity].
  destruct (proj1 Hiff eq_refl) as [v [_ Hv]]. rewrite Hnone in Hv. discriminate.
Qed.

(* ---- (5) progress: no thread is ever blocked; the holder alone reopens the gate ---- *)
Theorem every_thread_can_step : forall tr s t,
  irun go_cfg iinit tr = Some s ->
  exists a s', label_thread a = t /\ istep go_cfg s a = Some s'.
Proof.
  intros tr s t H. pose proof (iinv_reachable _ _ H) as I.
  destruct (i_pc s t) as [|b|[|]| |o] eqn:Et.
  - exists (ISwap t). cbn [istep]. rewrite go_cfg_swap, Et. eexists; split; reflexivity.
  - exfalso. exact (inv_noload _ I _ _ Et).
  - exists (IReject t). cbn [istep]. rewrite Et. eexists; split; reflexivity.
  - exists (IEnter t). cbn [istep]. rewrite Et. eexists; split; reflexivity.
  - exists (IFinish t OOk). cbn [istep]. rewrite Et. eexists; split; reflexivity.
  - exists (IRelease t). cbn [istep]. rewrite Et. eexists; split; reflexivity.
Qed.

Theorem holder_reopens_alone : forall tr s (o : outcome),
  irun go_cfg iinit tr = Some s -> i_flag s = true ->
  exists t tr' s', Forall (fun a => label_thread a = t) tr' /\ length tr' <= 3 /\
                   irun go_cfg s tr' = Some s' /\ i_flag s' = false /\ i_pc s' t = Idle.
Proof.
  intros tr s o H Hf. pose proof (iinv_reachable _ _ H) as I.
  destruct (inv_some _ I Hf) as [t Ht]. exists t.
  destruct (i_pc s t) as [|b|[|]| |o'] eqn:Et; try discriminate.
  - exists [IEnter t; IFinish t o; IRelease t]. cbn [irun istep]. rewrite Et. cbn [i_pc].
    rewrite upd_same. cbn [i_pc]. rewrite upd_same, go_releases. eexists.
    split; [repeat constructor|]. split; [cbn; lia|]. split; [reflexivity|]. cbn [i_flag i_pc].
    split; [reflexivity|apply upd_same].
  - exists [IFinish t o; IRelease t]. cbn [irun istep]. rewrite Et. cbn [i_pc].
    rewrite upd_same, go_releases. eexists.
    split; [repeat constructor|]. split; [cbn; lia|]. split; [reflexivity|]. cbn [i_flag i_pc].
    split; [reflexivity|apply upd_same].
  - exists [IRelease t]. cbn [irun istep]. rewrite Et, go_releases. eexists.
    split; [repeat constructor|]. split; [cbn; lia|]. split; [reflexivity|]. cbn [i_flag i_pc].
    split; [reflexivity|apply upd_same].
Qed.

(* ---- non-vacuity: a reachable state with a holder, a rejected caller and history ---- *)
Example reachable_nontrivial :
  exists s, irun go_cfg iinit [ISwap 0; ISwap 1; IEnter 0; IReject 1; IFinish 0 OPanic; ISwap 2] = Some s /\
            i_flag s = true /\ i_pc s 0 = Finished OPanic /\ i_pc s 1 = Idle /\ i_pc s 2 = Swapped true.
Proof. eexists. split; [vm_compute; reflexivity|]. vm_compute. repeat split. Qed.

Example free_gate_nontrivial :
  exists s, irun go_cfg iinit [ISwap 0; IEnter 0; IFinish 0 OErr; IRelease 0] = Some s /\
            (forall t, holds (i_pc s t) = false) /\ i_pc s 5 = Idle.
Proof.
  eexists. split; [reflexivity|]. split; [|reflexivity].
  intros t. destruct t; reflexivity.
Qed.

(* ---- sensitivity: the variants the translator distinguishes break the property ---- *)
Definition cfg_load_store : iso_cfg := {| cfg_swap := false; cfg_deferred := true |}.
Definition cfg_not_deferred : iso_cfg := {| cfg_swap := true; cfg_deferred := false |}.

(* load-then-store admission: two threads inside the underlying job at once *)
Example load_store_breaks_mutex :
  exists s, irun cfg_load_store iinit [ILoad 0; ILoad 1; IStoreTrue 0; IStoreTrue 1; IEnter 0; IEnter 1] = Some s /\
            i_pc s 0 = Running /\ i_pc s 1 = Running /\ log_cur (i_log s) = None.
Proof. eexists. split; [vm_compute; reflexivity|]. vm_compute. repeat split. Qed.

(* non-deferred release: after a panic the flag stays set with no holder; every later call is rejected *)
Example not_deferred_wedges :
  exists s, irun cfg_not_deferred iinit [ISwap 0; IEnter 0; IFinish 0 OPanic; IRelease 0] = Some s /\
            i_flag s = true /\ (forall t, i_pc s t = Idle) /\
            forall u, exists s', istep cfg_not_deferred s (ISwap u) = Some s' /\ i_pc s' u = Swapped true.
Proof.
  eexists. split; [reflexivity|]. split; [reflexivity|].
  split.
  - intros t. destruct t; reflexivity.
  - intros u. eexists. split.
    + destruct u; reflexivity.
    + destruct u; cbn; unfold upd; rewrite ?Nat.eqb_refl; reflexivity.
Qed.

(* ---- chains of wrappers ---- *)
Lemma gates_passed_innermost : forall i, In 0 (gates_passed true i).
Proof. induction i as [|k IH]; cbn [gates_passed]; [left; reflexivity|right; exact IH]. Qed.

(* whatever handles two executions enter through, both hold the innermost gate h0 when they are inside
   the job: they are two callers of ONE isolated job, to which isolated_mutex / observed_true_rejects
   apply (any threads, any interleaving) *)
Lemma chain_common_gate : forall i j,
  In 0 (gates_passed iso_ctor_wraps_argument i) /\ In 0 (gates_passed iso_ctor_wraps_argument j).
Proof. intros i j. change iso_ctor_wraps_argument with true. split; apply gates_passed_innermost. Qed.

(* sensitivity: a constructor that looks through an isolated argument gives the two handles of a pair
   disjoint gate sets: nothing orders an execution through h0 and one through h1 *)
Lemma unwrapping_ctor_splits_gates :
  gates_passed false 0 = [0] /\ gates_passed false 1 = [1] /\
  forall g, In g (gates_passed false 0) -> In g (gates_passed false 1) -> False.
Proof.
  split; [reflexivity|]. split; [reflexivity|].
  cbn. intros g [H0|[]] [H1|[]]. congruence.
Qed.
