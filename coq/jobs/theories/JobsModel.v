(* placeholder *)
