(* M5j -- built-in jobs.  Executable model of FunctionJob.Execute (job/function_job.go),
   ShellJob.Execute (job/shell_job.go), CurlJob.Execute (job/curl_job.go) and the Status constants
   (job/job_status.go).  Definitions only; proofs are in JobsProofs.v.
   Everything read from the source by genparams (Gen/Params.v) is used here: the branch tests,
   the status constants of each branch, the HTTP code comparisons, what is stored in which field,
   whether the outcome is computed inside the mutex, whether all field assignments lie in one
   critical section, how many callbacks follow the unlock, whether the previous body is closed. *)
From Coq Require Import ZArith List Bool Arith.
Require Import QzJobs.Gen.Params.
Import ListNotations.
Open Scope nat_scope.

Definition cmp (op : cmp_op) (a b : Z) : bool :=
  match op with
  | OpGe => (b <=? a)%Z | OpGt => (b <? a)%Z | OpLe => (a <=? b)%Z | OpLt => (a <? b)%Z
  | OpEq => (a =? b)%Z | OpNe => negb (a =? b)%Z
  end.

(* `x <op> nil` for a pointer/interface x; only == and != are meaningful *)
Definition nil_test (op : cmp_op) (is_nil : bool) : bool :=
  match op with OpNe => negb is_nil | OpEq => is_nil | _ => false end.

Definition is_none {A} (x : option A) : bool := match x with None => true | Some _ => false end.

(* ------------------------------------------------------------------ FunctionJob *)
Section FunctionJob.
  Variables (R E : Type) (zero : R).
  (* what f.function(ctx) returned: (result, err); err = None is Go's nil *)
  Definition fn_outcome : Type := R * option E.
  Definition pick_val (v : val_src) (res : R) : R := match v with VZero => zero | VResult => res end.
  Definition pick_err (e : err_src) (err : option E) : option E := match e with ENil => None | EErr => err end.
  (* the tuple (jobStatus, result, err) stored under the mutex *)
  Definition fn_commit (o : fn_outcome) : Z * R * option E :=
    let '(res, err) := o in
    let '(st, vs, es) := if nil_test fn_cond_op (is_none err) then fn_then else fn_else in
    (st, pick_val vs res, pick_err es err).
  (* what Execute returns *)
  Definition fn_return (o : fn_outcome) : option E := if fn_returns_call_err then snd o else None.
  Definition fn_initial : Z * R * option E := (go_StatusNA, zero, None).
End FunctionJob.

(* ------------------------------------------------------------------ ShellJob *)
(* how cmd.Run() ended (os/exec, os.ProcessState) *)
Inductive run_result :=
| Exited (code : Z)      (* the shell exited with this status *)
| Killed                 (* terminated by a signal, e.g. because ctx was cancelled *)
| NotStarted.            (* the process could not be started (ProcessState == nil) *)

(* os/exec: Run returns nil iff the command started, ran and exited with status 0 *)
Definition run_err (r : run_result) : option run_result :=
  match r with Exited c => if (c =? 0)%Z then None else Some r | _ => Some r end.
(* ProcessState.ExitCode(): the exit status, or -1 if signalled / nil *)
Definition exit_code (r : run_result) : Z := match r with Exited c => c | _ => (-1)%Z end.

Section ShellJob.
  Variable S : Type.   (* captured output *)
  Definition sh_outcome : Type := run_result * S * S.   (* how Run ended, stdout, stderr *)
  Definition sh_status (r : run_result) : Z :=
    if nil_test sh_cond_op (is_none (run_err r)) then sh_then_status else sh_else_status.
  (* the tuple (stdout, stderr, exitCode, jobStatus) stored under the mutex *)
  Definition sh_commit (o : sh_outcome) : S * S * Z * Z :=
    let '(r, out, err) := o in (out, err, exit_code r, sh_status r).
  Definition sh_return (o : sh_outcome) : option run_result :=
    let '(r, _, _) := o in if sh_returns_run_err then run_err r else None.
End ShellJob.

(* ------------------------------------------------------------------ CurlJob *)
Definition http_code_ok (c : Z) : bool :=
  forallb (fun oc => cmp (fst oc) c (snd oc)) cu_code_cmps.

Section CurlJob.
  Variable E : Type.
  (* what httpClient.Do returned: response (status code, body open?) and err *)
  Definition cu_outcome : Type := option (Z * bool) * option E.
  Definition cu_status (resp : option (Z * bool)) : Z :=
    match resp with
    | Some (c, _) => if http_code_ok c then cu_then_status else cu_else_status
    | None => if cu_nil_guard then cu_else_status else (-1)%Z  (* no guard: nil dereference *)
    end.
  (* the pair (response, jobStatus) stored under the mutex *)
  Definition cu_commit (o : cu_outcome) : option (Z * bool) * Z := (fst o, cu_status (fst o)).
  Definition cu_return (o : cu_outcome) : option E := if cu_returns_do_err then snd o else None.
  Definition cu_body (o : cu_outcome) : nat := match fst o with Some (_, true) => 1 | _ => 0 end.
End CurlJob.

(* ------------------------------------------------------------------ concurrent executions *)
(* Any number of threads (ids are nat) execute ONE job object.  O = type of raw outcomes (what
   the user function / the shell / the HTTP client produced).  A field of the job object is
   represented by who wrote it last: (thread, outcome); its value is the corresponding component
   of the job's commit function applied to that outcome. *)
Record jcfg := {
  jc_in_lock : bool;     (* the outcome is produced while holding mtx (CurlJob) or before (Function, Shell) *)
  jc_nfields : nat;      (* number of fields assigned in the commit *)
  jc_split : bool;       (* the field assignments are NOT all in one critical section (never in the source) *)
  jc_ncb : nat;          (* callback invocations after the unlock *)
  jc_close_prev : bool   (* the previous response's body is closed before Do *)
}.

Section JobLTS.
  Variable O : Type.
  Variable body : O -> nat.   (* 1 if the outcome carries a response with an open body *)

  Inductive jpc :=
  | JIdle
  | JComputed (o : O)            (* outcome known, lock not yet taken *)
  | JLocked                      (* lock held, outcome not yet produced (CurlJob before Do) *)
  | JWriting (o : O) (k : nat)   (* lock held, fields 0..k-1 written *)
  | JGap (o : O) (k : nat)       (* split variant only: lock released with fields k.. unwritten *)
  | JUnlocked (o : O) (c : nat). (* commit complete, c callbacks made *)

  Inductive jev := JEvCommit (t : nat) (o : O) | JEvCallback (t : nat) | JEvReturn (t : nat) (o : O).

  Record jstate := {
    j_lock : option nat;               (* owner of mtx *)
    j_pc : nat -> jpc;
    j_vis : nat -> option (nat * O);   (* per field: last writer and its outcome (None = initial value) *)
    j_last : option (nat * O);         (* the execution whose commit completed last *)
    j_open : nat;                      (* response bodies obtained from Do and not closed *)
    j_log : list jev                   (* newest first *)
  }.

  Definition jupd (f : nat -> jpc) (t : nat) (p : jpc) : nat -> jpc := fun u => if Nat.eqb u t then p else f u.
  Definition vupd (f : nat -> option (nat * O)) (k : nat) (v : option (nat * O)) := fun i => if Nat.eqb i k then v else f i.
  Definition body_of (x : option (nat * O)) : nat := match x with Some (_, o) => body o | None => 0 end.

  Inductive jlabel :=
  | JCompute (t : nat) (o : O)   (* the function / the command finishes with outcome o, outside the lock *)
  | JLock (t : nat)
  | JDo (t : nat) (o : O)        (* inside the lock: close the previous body, Do returns outcome o *)
  | JWrite (t : nat)             (* assign the next field *)
  | JSplit (t : nat)             (* split variant only: unlock in the middle of the assignments *)
  | JUnlock (t : nat)
  | JCallback (t : nat)
  | JReturn (t : nat).

  Definition jinit : jstate :=
    {| j_lock := None; j_pc := fun _ => JIdle; j_vis := fun _ => None; j_last := None; j_open := 0; j_log := [] |}.

  Definition set_pc (s : jstate) (t : nat) (p : jpc) : jstate :=
    {| j_lock := j_lock s; j_pc := jupd (j_pc s) t p; j_vis := j_vis s; j_last := j_last s;
       j_open := j_open s; j_log := j_log s |}.

  Definition jstep (c : jcfg) (s : jstate) (a : jlabel) : option jstate :=
    match a with
    | JCompute t o =>
        if jc_in_lock c then None else
          match j_pc s t with JIdle => Some (set_pc s t (JComputed o)) | _ => None end
    | JLock t =>
        match j_lock s with
        | Some _ => None
        | None =>
            match j_pc s t with
            | JIdle => if jc_in_lock c then
                         Some {| j_lock := Some t; j_pc := jupd (j_pc s) t JLocked; j_vis := j_vis s;
                                 j_last := j_last s; j_open := j_open s; j_log := j_log s |}
                       else None
            | JComputed o => Some {| j_lock := Some t; j_pc := jupd (j_pc s) t (JWriting o 0); j_vis := j_vis s;
                                     j_last := j_last s; j_open := j_open s; j_log := j_log s |}
            | JGap o k => Some {| j_lock := Some t; j_pc := jupd (j_pc s) t (JWriting o k); j_vis := j_vis s;
                                  j_last := j_last s; j_open := j_open s; j_log := j_log s |}
            | _ => None
            end
        end
    | JDo t o =>
        match j_pc s t with
        | JLocked => Some {| j_lock := j_lock s; j_pc := jupd (j_pc s) t (JWriting o 0); j_vis := j_vis s;
                             j_last := j_last s;
                             j_open := (if jc_close_prev c then j_open s - body_of (j_vis s 0) else j_open s) + body o;
                             j_log := j_log s |}
        | _ => None
        end
    | JWrite t =>
        match j_pc s t with
        | JWriting o k =>
            if k <? jc_nfields c then
              Some {| j_lock := j_lock s; j_pc := jupd (j_pc s) t (JWriting o (Datatypes.S k));
                      j_vis := vupd (j_vis s) k (Some (t, o)); j_last := j_last s; j_open := j_open s; j_log := j_log s |}
            else None
        | _ => None
        end
    | JSplit t =>
        if jc_split c then
          match j_pc s t with
          | JWriting o k =>
              if (0 <? k) && (k <? jc_nfields c) then
                Some {| j_lock := None; j_pc := jupd (j_pc s) t (JGap o k); j_vis := j_vis s;
                        j_last := j_last s; j_open := j_open s; j_log := j_log s |}
              else None
          | _ => None
          end
        else None
    | JUnlock t =>
        match j_pc s t with
        | JWriting o k =>
            if Nat.eqb k (jc_nfields c) then
              Some {| j_lock := None; j_pc := jupd (j_pc s) t (JUnlocked o 0); j_vis := j_vis s;
                      j_last := Some (t, o); j_open := j_open s; j_log := JEvCommit t o :: j_log s |}
            else None
        | _ => None
        end
    | JCallback t =>
        match j_pc s t with
        | JUnlocked o n =>
            if n <? jc_ncb c then
              Some {| j_lock := j_lock s; j_pc := jupd (j_pc s) t (JUnlocked o (Datatypes.S n)); j_vis := j_vis s;
                      j_last := j_last s; j_open := j_open s; j_log := JEvCallback t :: j_log s |}
            else None
        | _ => None
        end
    | JReturn t =>
        match j_pc s t with
        | JUnlocked o n =>
            if Nat.eqb n (jc_ncb c) then
              Some {| j_lock := j_lock s; j_pc := jupd (j_pc s) t JIdle; j_vis := j_vis s;
                      j_last := j_last s; j_open := j_open s; j_log := JEvReturn t o :: j_log s |}
            else None
        | _ => None
        end
    end.

  Fixpoint jrun (c : jcfg) (s : jstate) (tr : list jlabel) : option jstate :=
    match tr with
    | [] => Some s
    | a :: tr' => match jstep c s a with Some s' => jrun c s' tr' | None => None end
    end.

  Definition holds_lock (p : jpc) : bool := match p with JLocked | JWriting _ _ => true | _ => false end.

  Fixpoint last_commit (l : list jev) : option (nat * O) :=
    match l with
    | [] => None
    | JEvCommit t o :: _ => Some (t, o)
    | _ :: l' => last_commit l'
    end.

  Fixpoint jcount (p : jev -> bool) (l : list jev) : nat :=
    match l with [] => 0 | e :: l' => (if p e then 1 else 0) + jcount p l' end.
  Definition is_commit (t : nat) (e : jev) : bool := match e with JEvCommit u _ => Nat.eqb u t | _ => false end.
  Definition is_callback (t : nat) (e : jev) : bool := match e with JEvCallback u => Nat.eqb u t | _ => false end.
  Definition is_jreturn (t : nat) (e : jev) : bool := match e with JEvReturn u _ => Nat.eqb u t | _ => false end.
End JobLTS.

Arguments JIdle {O}. Arguments JLocked {O}.
Arguments JCompute {O}. Arguments JLock {O}. Arguments JDo {O}. Arguments JWrite {O}. Arguments JSplit {O}.
Arguments JUnlock {O}. Arguments JCallback {O}. Arguments JReturn {O}.
Arguments JEvCommit {O}. Arguments JEvCallback {O}. Arguments JEvReturn {O}.
Arguments jinit {O}.
Arguments JComputed {O}. Arguments JWriting {O}. Arguments JGap {O}. Arguments JUnlocked {O}.
Arguments j_lock {O}. Arguments j_pc {O}. Arguments j_vis {O}. Arguments j_last {O}. Arguments j_open {O}. Arguments j_log {O}.
Arguments jstep {O}. Arguments jrun {O}. Arguments jupd {O}. Arguments vupd {O}. Arguments body_of {O}.
Arguments holds_lock {O}. Arguments last_commit {O}. Arguments jcount {O}.
Arguments is_commit {O}. Arguments is_callback {O}. Arguments is_jreturn {O}. Arguments set_pc {O}.

(* the configurations of the three jobs, from the source *)
Definition fn_cfg : jcfg :=
  {| jc_in_lock := negb fn_call_before_lock; jc_nfields := 3; jc_split := negb fn_commit_locked;
     jc_ncb := 0; jc_close_prev := false |}.
Definition sh_cfg (with_callback : bool) : jcfg :=
  {| jc_in_lock := negb sh_run_before_lock; jc_nfields := 4; jc_split := negb sh_commit_locked;
     jc_ncb := if with_callback then (if sh_callback_after_unlock then sh_callback_calls else 0) else 0;
     jc_close_prev := false |}.
Definition cu_cfg (with_callback : bool) : jcfg :=
  {| jc_in_lock := cu_do_under_lock; jc_nfields := 2; jc_split := negb cu_commit_locked;
     jc_ncb := if with_callback then (if cu_callback_after_unlock then cu_callback_calls else 0) else 0;
     jc_close_prev := cu_closes_prev_body |}.

(* the tuple a reader sees, field by field, for each job *)
Definition field_of {O A} (s : jstate O) (k : nat) (init : A) (proj : O -> A) : A :=
  match j_vis s k with Some (_, o) => proj o | None => init end.

Definition fn_visible {R E} (zero : R) (s : jstate (fn_outcome R E)) : Z * R * option E :=
  (field_of s 0 go_StatusNA (fun o => fst (fst (fn_commit R E zero o))),
   field_of s 1 zero (fun o => snd (fst (fn_commit R E zero o))),
   field_of s 2 None (fun o => snd (fn_commit R E zero o))).

Definition sh_visible {S} (empty : S) (s : jstate (sh_outcome S)) : S * S * Z * Z :=
  (field_of s 0 empty (fun o => fst (fst (fst (sh_commit S o)))),
   field_of s 1 empty (fun o => snd (fst (fst (sh_commit S o)))),
   field_of s 2 0%Z (fun o => snd (fst (sh_commit S o))),
   field_of s 3 go_StatusNA (fun o => snd (sh_commit S o))).

Definition cu_visible {E} (s : jstate (cu_outcome E)) : option (Z * bool) * Z :=
  (field_of s 0 None (fun o => fst (cu_commit E o)),
   field_of s 1 go_StatusNA (fun o => snd (cu_commit E o))).

(* ---- entry points for the correspondence check (evaluated inside Coq on observed cases) ---- *)
(* observed: HTTP code (or -1 for a nil response) and the status the job reported *)
Definition cu_status_of_code (code : Z) : Z :=
  cu_status (if (code <? 0)%Z then None else Some (code, true)).
Definition sh_status_of_exit (code : Z) : Z := sh_status (if (code <? 0)%Z then Killed else Exited code).
Definition sh_err_nil_of_exit (code : Z) : bool := is_none (run_err (if (code <? 0)%Z then Killed else Exited code)).
Definition fn_status_of (err_is_nil : bool) : Z :=
  fst (fst (fn_commit unit unit tt (tt, if err_is_nil then None else Some tt))).
Definition fn_result_kept (err_is_nil : bool) : bool :=
  match snd (fst (fn_commit bool unit false (true, if err_is_nil then None else Some tt))) with true => true | false => false end.

(* sequential executions of one CurlJob by thread 0 with the scripted outcomes (code < 0 = transport
   error); returns (open bodies, code of the held response or -1, status) or None if a label is
   not enabled *)
Definition cu_script_outcome (with_body : bool) (code : Z) : cu_outcome unit :=
  if (code <? 0)%Z then (None, Some tt) else (Some (code, with_body), None).
Definition cu_one_exec (cb : bool) (o : cu_outcome unit) : list (jlabel (cu_outcome unit)) :=
  [JLock 0; JDo 0 o; JWrite 0; JWrite 0; JUnlock 0] ++ (if cb then [JCallback 0] else []) ++ [JReturn 0].
Definition cu_seq_model (cb with_body : bool) (script : list Z) : option (nat * Z * Z * nat) :=
  match jrun (cu_body unit) (cu_cfg cb) jinit (flat_map (fun c => cu_one_exec cb (cu_script_outcome with_body c)) script) with
  | Some s => Some (j_open s,
                    match fst (cu_visible s) with Some (c, _) => c | None => (-1)%Z end,
                    snd (cu_visible s),
                    jcount (is_callback 0) (j_log s))
  | None => None
  end.

(* two overlapping executions of one FunctionJob, A = thread 0 returning (7, errA?), B = thread 1
   returning (42, errB?); abba: B completes first, then A (else A then B).  Returns the visible
   (status, result) at the end *)
Definition fn_overlap_model (abba a_fails b_fails : bool) : option (Z * nat) :=
  let a : fn_outcome nat unit := (7, if a_fails then Some tt else None) in
  let b : fn_outcome nat unit := (42, if b_fails then Some tt else None) in
  let ex (t : nat) (o : fn_outcome nat unit) : list (jlabel (fn_outcome nat unit)) :=
      [JCompute t o; JLock t; JWrite t; JWrite t; JWrite t; JUnlock t; JReturn t] in
  match jrun (fun _ => 0) fn_cfg jinit (if abba then ex 1 b ++ ex 0 a else ex 0 a ++ ex 1 b) with
  | Some s => Some (fst (fst (fn_visible 0 s)), snd (fst (fn_visible 0 s)))
  | None => None
  end.
