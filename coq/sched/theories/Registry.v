(* The sequential specification of the scheduler's registry: a finite map
   key -> (suspended, fire time, trigger) with the documented outcome of every API call.
   Definitions only. *)
From Coq Require Import ZArith List Bool String.
Require Import QzSched.Gen.Params QzSched.SchedModel.
Import ListNotations.
Open Scope Z_scope.

Record rentry := mkR { r_susp : bool; r_prio : Z; r_tid : tid }.
Definition reg := list (jkey * rentry).

Fixpoint r_lookup (k : jkey) (r : reg) : option rentry :=
  match r with
  | [] => None
  | (k', v) :: r' => if key_eqb k k' then Some v else r_lookup k r'
  end.
Definition r_remove (k : jkey) (r : reg) : reg := filter (fun kv => negb (key_eqb (fst kv) k)) r.
Definition r_set (k : jkey) (v : rentry) (r : reg) : reg := (k, v) :: r_remove k r.
Definition r_keys (r : reg) : list jkey := map fst r.

Inductive sresult := SOk | SErr (e : errc) | SJob (k : jkey) (v : rentry) | SKeys (ks : list jkey).

Definition s_is_error (r : sresult) : bool := match r with SErr _ => true | _ => false end.

Section Spec.
  Variable tstate : Type.
  Variable nft : tid -> tstate -> Z -> tstate * (Z + terr).
  Notation tsmap := (tid -> tstate).

  Definition spec_insert (k : jkey) (v : rentry) (replace : bool) (r : reg) : reg * sresult :=
    match r_lookup k r with
    | Some _ => if replace then (r_set k v r, SOk) else (r, SErr (ESent SJobAlreadyExists))
    | None => (r_set k v r, SOk)
    end.

  Definition spec_api (now : Z) (op : apiop) (r : reg) (ts : tsmap) : reg * tsmap * sresult :=
    match op with
    | OpSchedule (Some d) (Some t) =>
      match jd_key d with
      | None => (r, ts, SErr (ESent SIllegalArgument))
      | Some k =>
        if name_empty k then (r, ts, SErr (ESent SIllegalArgument))
        else if jd_susp d then
          let (r', res) := spec_insert k (mkR true go_MaxInt64 t) (jd_repl d) r in (r', ts, res)
        else
          let (st', fire) := nft t (ts t) now in
          let ts' := upd tstate ts t st' in
          match fire with
          | inr e => (r, ts', SErr (ETrig e))
          | inl p => let (r', res) := spec_insert k (mkR false p t) (jd_repl d) r in (r', ts', res)
          end
      end
    | OpSchedule _ _ => (r, ts, SErr (ESent SIllegalArgument))
    | OpDelete None | OpPause None | OpResume None | OpGet None => (r, ts, SErr (ESent SIllegalArgument))
    | OpDelete (Some k) =>
      match r_lookup k r with
      | None => (r, ts, SErr (ESent SJobNotFound))
      | Some _ => (r_remove k r, ts, SOk)
      end
    | OpPause (Some k) =>
      match r_lookup k r with
      | None => (r, ts, SErr (ESent SJobNotFound))
      | Some v => if r_susp v then (r, ts, SErr (ESent SJobIsSuspended))
                  else (r_set k (mkR true go_MaxInt64 (r_tid v)) r, ts, SOk)
      end
    | OpResume (Some k) =>
      match r_lookup k r with
      | None => (r, ts, SErr (ESent SJobNotFound))
      | Some v =>
        if negb (r_susp v) then (r, ts, SErr (ESent SJobIsActive))
        else
          let (st', fire) := nft (r_tid v) (ts (r_tid v)) now in
          let ts' := upd tstate ts (r_tid v) st' in
          match fire with
          | inr e => (r, ts', SErr (ETrig e))
          | inl p => (r_set k (mkR false p (r_tid v)) r, ts', SOk)
          end
      end
    | OpClear => ([], ts, SOk)
    | OpGet (Some k) =>
      match r_lookup k r with
      | None => (r, ts, SErr (ESent SJobNotFound))
      | Some v => (r, ts, SJob k v)
      end
    | OpKeys => (r, ts, SKeys (r_keys r))
    end.

  Fixpoint spec_run (ops : list (Z * apiop)) (r : reg) (ts : tsmap) : list sresult * reg * tsmap :=
    match ops with
    | [] => ([], r, ts)
    | (now, op) :: rest =>
      let '(r', ts', res) := spec_api now op r ts in
      let '(outs, r'', ts'') := spec_run rest r' ts' in
      (res :: outs, r'', ts'')
    end.
End Spec.

(* what a caller can see of a model result, compared with the specification's result *)
Definition proj (e : entry) : rentry := mkR (e_susp e) (e_prio e) (e_tid e).

Definition res_match (m : result) (s : sresult) : Prop :=
  match m, s with
  | ROk, SOk => True
  | RErr e, SErr e' => e = e'
  | RJob e, SJob k v => e_key e = k /\ proj e = v
  | RKeys l, SKeys l' => NoDup l /\ forall k, In k l <-> In k l'
  | _, _ => False
  end.

(* the abstraction relation between a queue and a registry *)
Definition refines (O : queue_ops) (q : Q O) (r : reg) : Prop :=
  q_wf O q /\ NoDup (r_keys r) /\ forall k, option_map proj (q_get O k q) = r_lookup k r.
