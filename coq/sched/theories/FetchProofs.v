(* C04: what one fetchAndReschedule step does, over any queue meeting the contract. *)
From Coq Require Import ZArith List Bool String Lia.
Require Import QzSched.Gen.Params QzSched.SchedModel QzSched.Registry QzSched.ApiProofs.
Import ListNotations.
Open Scope Z_scope.

Definition with_prio (e : entry) (p : Z) : entry := mkEntry (e_key e) p (e_susp e) (e_repl e) (e_tid e).

Lemma with_prio_same : forall e, with_prio e (e_prio e) = e.
Proof. destruct e; reflexivity. Qed.

(* ---- validateJob, as the generated branch table says ---- *)
Lemma validate_susp : forall thr now e, e_susp e = true ->
  validate thr now e = {| vb_cond := CondSuspended; vb_valid := false; vb_next := XConst go_MaxInt64;
                          vb_misfire := false; vb_nonblocking := true |}.
Proof. intros thr now e H. unfold validate, validate_branches. simpl. rewrite H. reflexivity. Qed.

Lemma validate_late : forall thr now e, e_susp e = false -> e_prio e < now - thr ->
  validate thr now e = {| vb_cond := CondPrioVsNowMinusThr OpLt; vb_valid := false; vb_next := XTrigger PrevNow;
                          vb_misfire := true; vb_nonblocking := true |}.
Proof.
  intros thr now e H L. unfold validate, validate_branches. simpl. rewrite H.
  apply Z.ltb_lt in L. rewrite L. reflexivity.
Qed.

Lemma validate_notdue : forall thr now e, e_susp e = false -> now - thr <= e_prio e -> now < e_prio e ->
  validate thr now e = {| vb_cond := CondPrioVsNow OpGt; vb_valid := false; vb_next := XKeep;
                          vb_misfire := false; vb_nonblocking := true |}.
Proof.
  intros thr now e H L1 L2. unfold validate, validate_branches. simpl. rewrite H.
  apply Z.ltb_ge in L1. rewrite L1. apply Z.ltb_lt in L2. rewrite L2. reflexivity.
Qed.

Lemma validate_due : forall thr now e, e_susp e = false -> now - thr <= e_prio e -> e_prio e <= now ->
  validate thr now e = validate_default.
Proof.
  intros thr now e H L1 L2. unfold validate, validate_branches. simpl. rewrite H.
  apply Z.ltb_ge in L1. rewrite L1. apply Z.ltb_ge in L2. rewrite L2. reflexivity.
Qed.

(* valid exactly when active and inside the window [now - thr, now] *)
Lemma validate_valid_iff : forall thr now e,
  vb_valid (validate thr now e) = true <-> e_susp e = false /\ now - thr <= e_prio e <= now.
Proof.
  intros thr now e. destruct (e_susp e) eqn:S.
  - rewrite validate_susp by assumption. simpl. split; [discriminate|intros [H _]; discriminate].
  - destruct (Z_lt_dec (e_prio e) (now - thr)) as [L|L].
    + rewrite validate_late by assumption. simpl. split; [discriminate|lia].
    + destruct (Z_lt_dec now (e_prio e)) as [L2|L2].
      * rewrite validate_notdue by (auto; lia). simpl. split; [discriminate|lia].
      * rewrite validate_due by (auto; lia). simpl. split; [intros _; split; [reflexivity|lia]|reflexivity].
Qed.

Section Fetch.
  Variable O : queue_ops.
  Hypothesis HC : queue_contract O.
  Variable tstate : Type.
  Variable nft : tid -> tstate -> Z -> tstate * (Z + terr).
  Notation tsmap := (tid -> tstate).

  Lemma fetch_empty : forall thr now id i q ts, q_pop O q = None ->
    fetch O tstate nft thr now id i q ts = (q, ts, [], None, false).
  Proof. intros. unfold fetch. rewrite H. reflexivity. Qed.

  (* push-back after the pop: the key is absent, so Push succeeds and sets exactly that key *)
  Lemma push_back : forall q job q1 e', q_wf O q -> q_pop O q = Some (job, q1) -> e_key e' = e_key job ->
    exists q2, q_push O e' q1 = Some q2 /\ q_wf O q2 /\ lookup_set O q q2 (e_key job) (Some e').
  Proof.
    intros q job q1 e' Hwf Hp Hk. destruct (qc_pop_some O HC q job q1 Hwf Hp) as (_ & _ & Hw1 & Hl1).
    assert (Hn : q_get O (e_key e') q1 = None) by (rewrite Hk, Hl1, key_eqb_refl; reflexivity).
    destruct (qc_push_ok O HC q1 e' Hw1 (or_introl Hn)) as (q2 & Hpush & Hw2 & Hl2).
    exists q2. split; [assumption|]. split; [assumption|].
    intros k. rewrite Hl2, Hk. destruct (key_eqb k (e_key job)) eqn:E; [reflexivity|]. rewrite Hl1, E. reflexivity.
  Qed.

  Definition after_fetch (q q' : Q O) (job : entry) (fire : Z + terr) : Prop :=
    q_wf O q' /\
    match fire with
    | inl p => lookup_set O q q' (e_key job) (Some (with_prio job p))    (* pushed back with the new fire time *)
    | inr _ => lookup_set O q q' (e_key job) None                        (* the job has left the registry *)
    end.

  (* fetch_classification *)
  Lemma fetch_classification : forall thr now id i q ts job q1 q' ts' evs ret rst,
    q_wf O q -> q_pop O q = Some (job, q1) ->
    fetch O tstate nft thr now id i q ts = (q', ts', evs, ret, rst) ->
    (e_susp job = true ->
       ret = Some (job, false) /\ ts' = ts /\ evs = [EvDeq id i job false now] /\
       after_fetch q q' job (inl go_MaxInt64) /\ rst = true) /\
    (e_susp job = false -> e_prio job < now - thr ->
       let (st', fire) := nft (e_tid job) (ts (e_tid job)) now in
       ret = Some (job, false) /\ ts' = upd tstate ts (e_tid job) st' /\
       evs = [EvTrig (e_key job) (e_tid job) now fire CFetchRebase; EvMisfire id (e_key job) (e_prio job);
              EvDeq id i job false now] /\
       after_fetch q q' job fire) /\
    (e_susp job = false -> now - thr <= e_prio job -> now < e_prio job ->
       ret = Some (job, false) /\ ts' = ts /\ evs = [EvDeq id i job false now] /\
       after_fetch q q' job (inl (e_prio job)) /\ rst = true) /\
    (e_susp job = false -> now - thr <= e_prio job -> e_prio job <= now ->
       let (st', fire) := nft (e_tid job) (ts (e_tid job)) (e_prio job) in
       ret = Some (job, true) /\ ts' = upd tstate ts (e_tid job) st' /\
       evs = [EvTrig (e_key job) (e_tid job) (e_prio job) fire CFetchValid; EvDeq id i job true now] /\
       after_fetch q q' job fire).
  Proof.
    intros thr now id i q ts job q1 q' ts' evs ret rst Hwf Hp H.
    destruct (qc_pop_some O HC q job q1 Hwf Hp) as (Hg & _ & Hw1 & Hl1).
    unfold fetch in H. rewrite Hp in H.
    Ltac red_fetch H := cbv beta iota zeta delta [next_run call_trigger vb_next vb_valid vb_misfire
                                                  fetch_priority_is_extractor_result validate_default app] in H.
    split; [|split; [|split]].
    - intros S. rewrite (validate_susp thr now job S) in H. red_fetch H.
      destruct (push_back q job q1 (with_prio job go_MaxInt64) Hwf Hp eq_refl) as (q2 & Hpush & Hw2 & Hl2).
      unfold with_prio in Hpush. rewrite Hpush in H. injection H as <- <- <- <- <-. repeat split; auto.
    - intros S L. rewrite (validate_late thr now job S L) in H. red_fetch H.
      destruct (nft (e_tid job) (ts (e_tid job)) now) as [st' [p|err]].
      + destruct (push_back q job q1 (with_prio job p) Hwf Hp eq_refl) as (q2 & Hpush & Hw2 & Hl2).
        unfold with_prio in Hpush. rewrite Hpush in H. injection H as <- <- <- <- <-. repeat split; auto.
      + injection H as <- <- <- <- <-. repeat split; auto.
    - intros S L1 L2. rewrite (validate_notdue thr now job S L1 L2) in H. red_fetch H.
      destruct (push_back q job q1 (with_prio job (e_prio job)) Hwf Hp eq_refl) as (q2 & Hpush & Hw2 & Hl2).
      unfold with_prio in Hpush. rewrite Hpush in H. injection H as <- <- <- <- <-. repeat split; auto.
    - intros S L1 L2. rewrite (validate_due thr now job S L1 L2) in H. red_fetch H.
      destruct (nft (e_tid job) (ts (e_tid job)) (e_prio job)) as [st' [p|err]].
      + destruct (push_back q job q1 (with_prio job p) Hwf Hp eq_refl) as (q2 & Hpush & Hw2 & Hl2).
        unfold with_prio in Hpush. rewrite Hpush in H. injection H as <- <- <- <- <-. repeat split; auto.
      + injection H as <- <- <- <- <-. repeat split; auto.
  Qed.
End Fetch.
