(* Invariants of the transition system (C03, C04 accounting / no drift, C08). *)
From Coq Require Import ZArith List Bool String Lia.
Require Import QzSched.Gen.Params QzSched.SchedModel QzSched.Registry QzSched.ApiProofs QzSched.WfProofs QzSched.FetchProofs QzSched.LtsDefs.
Import ListNotations.
Open Scope Z_scope.

(* ---------- logs ---------- *)
Lemma trig_gave_mono : forall l l' k t p, incl l l' -> trig_gave l k t p -> trig_gave l' k t p.
Proof. intros l l' k t p Hi (prev & c & H). exists prev, c. apply Hi. assumption. Qed.
Lemma foreign_wrote_mono : forall l l' k t p, incl l l' -> foreign_wrote l k t p -> foreign_wrote l' k t p.
Proof. intros l l' k t p Hi (e & H & R). exists e. split; [apply Hi; assumption|assumption]. Qed.
Lemma produced_mono : forall l l' k t p, incl l l' -> produced l k t p -> produced l' k t p.
Proof. intros l l' k t p Hi [H|H]; [left; eapply trig_gave_mono|right; eapply foreign_wrote_mono]; eauto. Qed.
Lemma entry_ok_mono : forall l l' e, incl l l' -> entry_ok l e -> entry_ok l' e.
Proof.
  intros l l' e Hi [H|H]; [left; eapply foreign_wrote_mono; eauto|right].
  destruct (e_susp e); [assumption|eapply trig_gave_mono; eauto].
Qed.
Lemma entry_ok_same : forall l e e', e_key e' = e_key e -> e_tid e' = e_tid e -> e_prio e' = e_prio e ->
  e_susp e' = e_susp e -> entry_ok l e -> entry_ok l e'.
Proof. intros l e e' Hk Ht Hp Hs H. unfold entry_ok in *. rewrite Hk, Ht, Hp, Hs. assumption. Qed.

Lemma deq_ids_quiet_app : forall evs l, Forall quiet_ev evs -> deq_ids (evs ++ l) = deq_ids l.
Proof.
  induction evs as [|ev evs IH]; intros l H; simpl; [reflexivity|].
  inversion H as [|? ? Hq Hr]; subst. destruct ev; simpl in *; try contradiction; auto.
Qed.
Lemma exec_ids_quiet_app : forall evs l, Forall quiet_ev evs -> exec_ids (evs ++ l) = exec_ids l.
Proof.
  induction evs as [|ev evs IH]; intros l H; simpl; [reflexivity|].
  inversion H as [|? ? Hq Hr]; subst. destruct ev; simpl in *; try contradiction; auto.
Qed.
Lemma log_ok_quiet_app : forall evs l, Forall quiet_ev evs -> log_ok l -> log_ok (evs ++ l).
Proof.
  induction evs as [|ev evs IH]; intros l H Hl; simpl; [assumption|].
  inversion H as [|? ? Hq Hr]; subst. destruct ev; simpl in *; try contradiction; auto.
Qed.
Lemma in_deq_ids : forall l id i e v n, In (EvDeq id i e v n) l -> In id (deq_ids l).
Proof.
  induction l as [|ev l IH]; intros id i e v n H; simpl in *; [contradiction|].
  destruct H as [->|H]; [simpl; auto|]. specialize (IH _ _ _ _ _ H). destruct ev; simpl; auto.
Qed.
Lemma exec_in_deq : forall l id, log_ok l -> In id (exec_ids l) -> In id (deq_ids l).
Proof.
  induction l as [|ev l IH]; intros id Hl H; simpl in *; [contradiction|].
  destruct ev; simpl in *; auto.
  - destruct Hl as (_ & _ & Hl). right. auto.
  - destruct Hl as ((i & e & n & Hin & _) & _ & Hl). destruct H as [<-|H]; [eapply in_deq_ids; eauto|auto].
Qed.
Lemma log_ok_suffix : forall l1 l2, log_ok (l1 ++ l2) -> log_ok l2.
Proof.
  induction l1 as [|ev l1 IH]; intros l2 H; simpl in *; [assumption|].
  destruct ev; simpl in H; try (apply IH; assumption); [destruct H as (_ & _ & H)|destruct H as (_ & _ & H)]; auto.
Qed.
Lemma log_ok_nodup : forall l, log_ok l -> NoDup (deq_ids l) /\ NoDup (exec_ids l).
Proof.
  induction l as [|ev l IH]; intros H; simpl in *; [split; constructor|].
  destruct ev; simpl in *; try (apply IH; assumption).
  - destruct H as (Hn & _ & H). destruct (IH H). split; [constructor|]; assumption.
  - destruct H as (_ & Hn & H). destruct (IH H). split; [|constructor]; assumption.
Qed.

Section Lts.
  Variable O : queue_ops.
  Hypothesis HC : queue_contract O.
  Variable tstate : Type.
  Variable nft : tid -> tstate -> Z -> tstate * (Z + terr).
  Variable thr : nat -> Z.
  Notation tsmap := (tid -> tstate).
  Notation state := (state O tstate).
  Notation step := (step O tstate nft thr).
  Notation run := (run O tstate nft thr).
  Notation s_q := (s_q O tstate).
  Notation s_ts := (s_ts O tstate).
  Notation s_now := (s_now O tstate).
  Notation s_log := (s_log O tstate).
  Notation s_disp := (s_disp O tstate).
  Notation s_pre := (s_pre O tstate).
  Notation s_next := (s_next O tstate).
  Notation init := (init O tstate).

  (* key an API call is about *)
  Definition opkey (op : apiop) : option jkey :=
    match op with
    | OpSchedule jd _ => sched_key jd
    | OpDelete k | OpPause k | OpResume k | OpGet k => k
    | OpClear | OpKeys => None
    end.

  (* ---------- the effect of one API call, in four shapes ---------- *)
  Definition api_shape (now : Z) (op : apiop) (q q' : Q O) (evs : list event) (r : result) : Prop :=
      (* nothing changed in the queue; at most one trigger call, which failed or was followed by an error *)
      (q' = q /\ (evs = [] \/ exists k t fire c, evs = [EvTrig k t now fire c] /\ opkey op = Some k /\
                    (((exists jd tr, op = OpSchedule jd tr) /\ c = CSchedule) \/
                     (op = OpResume (Some k) /\ c = CResume /\ exists err, fire = inr err))))
      \/ (* one key set *)
      (exists k e, opkey op = Some k /\ e_key e = k /\ lookup_set O q q' k (Some e) /\ r = ROk /\
         ((op = OpPause (Some k) /\ evs = [] /\ exists old, q_get O k q = Some old /\ e_susp old = false /\ e = parked old)
          \/ (op = OpResume (Some k) /\ exists old p, q_get O k q = Some old /\ e_susp old = true /\ e = resumed old p /\
                evs = [EvTrig k (e_tid old) now (inl p) CResume])
          \/ ((exists jd tr, op = OpSchedule jd tr) /\
              ((e_susp e = true /\ e_prio e = go_MaxInt64 /\ evs = []) \/
               (e_susp e = false /\ evs = [EvTrig k (e_tid e) now (inl (e_prio e)) CSchedule])))))
      \/ (* one key removed *)
      (exists k, op = OpDelete (Some k) /\ lookup_set O q q' k None /\ evs = [] /\ r = ROk)
      \/ (* everything removed *)
      (op = OpClear /\ (forall k, q_get O k q' = None) /\ evs = [] /\ r = ROk).

  Lemma sched_args_key : forall jd tr k d t, sched_args jd tr = Some (k, d, t) -> sched_key jd = Some k.
  Proof.
    intros jd tr k d t Ha. unfold sched_args in Ha. destruct jd as [d0|]; [|discriminate]. destruct tr; [|discriminate].
    simpl. destruct (jd_key d0) as [k0|]; [|discriminate]. destruct (name_empty k0); [discriminate|]. congruence.
  Qed.

  (* ScheduleJob under the locker, with what the part before the locker produced *)
  Lemma commit_shape : forall now jd tr k ent evs q q1 res1, q_wf O q -> sched_key jd = Some k -> e_key ent = k ->
    ((e_susp ent = true /\ e_prio ent = go_MaxInt64 /\ evs = []) \/
     (e_susp ent = false /\ evs = [EvTrig k (e_tid ent) now (inl (e_prio ent)) CSchedule])) ->
    sched_commit O ent q = (q1, res1) -> api_shape now (OpSchedule jd tr) q q1 evs res1.
  Proof.
    intros now jd tr k ent evs q q1 res1 Hwf Hk Hke Hshape Cm.
    pose proof (sched_commit_spec O HC ent q q1 res1 Hwf Cm) as S.
    assert (Hok : res1 = ROk /\ q_wf O q1 /\ lookup_set O q q1 (e_key ent) (Some ent) ->
                  api_shape now (OpSchedule jd tr) q q1 evs res1).
    { intros (-> & _ & Hl). right. left. exists k, ent. rewrite Hke in Hl. simpl. repeat split; auto.
      right. right. split; [eauto|assumption]. }
    destruct (q_get O (e_key ent) q); [destruct (e_repl ent)|]; auto.
    destruct S as (-> & ->). left. split; [reflexivity|]. destruct Hshape as [(_ & _ & ->)|(_ & ->)]; [left; reflexivity|].
    right. exists k, (e_tid ent), (inl (e_prio ent)), CSchedule. simpl. repeat split; eauto.
  Qed.

  Lemma api_effect : forall now op q ts q' ts' evs r, q_wf O q -> api O tstate nft now op q ts = (q', ts', evs, r) ->
    q_wf O q' /\ api_shape now op q q' evs r.
  Proof.
    intros now op q ts q' ts' evs r Hwf H. split; [eapply api_wf; eauto|].
    destruct op as [jd tr|k|k|k| |k| ]; simpl in H.
    - destruct (sched_pre tstate nft now jd tr ts) as [[ts1 evs1] r1] eqn:P.
      pose proof (sched_pre_spec tstate nft now jd tr ts ts1 evs1 r1 P) as SP.
      destruct (sched_args jd tr) as [[[k d] t]|] eqn:Ha.
      + pose proof (sched_args_key jd tr k d t Ha) as Hk.
        destruct (jd_susp d).
        * destruct SP as (-> & -> & ->). destruct (sched_commit O _ q) as [q1 res1] eqn:Cm. injection H as <- _ <- <-.
          refine (commit_shape now jd tr k (mkEntry k go_MaxInt64 true (jd_repl d) t) _ _ _ _ Hwf Hk eq_refl _ Cm). left. auto.
        * destruct (nft t (ts t) now) as [st' [p|err]]; destruct SP as (-> & -> & ->).
          -- destruct (sched_commit O _ q) as [q1 res1] eqn:Cm. injection H as <- _ <- <-.
             refine (commit_shape now jd tr k (mkEntry k p false (jd_repl d) t) _ _ _ _ Hwf Hk eq_refl _ Cm). right. auto.
          -- injection H as <- _ <- <-. left. split; [reflexivity|]. right.
             exists k, t, (inr err), CSchedule. simpl. repeat split; eauto.
      + destruct SP as (-> & -> & ->). injection H as <- _ <- <-. left. auto.
    - destruct (delete O k q) as [q1 res1] eqn:D. injection H as <- _ <- <-.
      pose proof (delete_spec O HC k q q1 res1 Hwf D) as S. destruct k as [k|]; [destruct (q_get O k q)|].
      + destruct S as (-> & _ & Hl). right. right. left. exists k. auto.
      + destruct S as (-> & _). left. auto.
      + destruct S as (-> & _). left. auto.
    - destruct (pause O k q) as [q1 res1] eqn:D. injection H as <- _ <- <-.
      pose proof (pause_spec O HC k q q1 res1 Hwf D) as S.
      destruct k as [k|]; [destruct (q_get O k q) as [x|] eqn:G; [destruct (e_susp x) eqn:Sx|]|].
      + destruct S as (-> & _). left. auto.
      + destruct S as (-> & _ & Hl). right. left. exists k, (parked x). simpl.
        pose proof (qc_get_key O HC q k x Hwf G). repeat split; auto. left. repeat split; auto. exists x. auto.
      + destruct S as (-> & _). left. auto.
      + destruct S as (-> & _). left. auto.
    - pose proof (resume_spec O HC tstate nft now k q ts q' ts' evs r Hwf H) as S.
      destruct k as [k|]; [destruct (q_get O k q) as [x|] eqn:G; [destruct (negb (e_susp x)) eqn:Sx|]|].
      + destruct S as (-> & _ & -> & _). left. auto.
      + destruct (nft (e_tid x) (ts (e_tid x)) now) as [st' [p|err]]; destruct S as (_ & -> & S).
        * destruct S as (-> & _ & Hl). right. left. exists k, (resumed x p). simpl.
          pose proof (qc_get_key O HC q k x Hwf G). repeat split; auto. right. left. split; [reflexivity|].
          exists x, p. apply negb_false_iff in Sx. auto.
        * destruct S as (-> & _). left. split; [reflexivity|]. right. exists k, (e_tid x), (inr err), CResume.
          repeat split; auto. right. split; eauto.
      + destruct S as (-> & _ & -> & _). left. auto.
      + destruct S as (-> & _ & -> & _). left. auto.
    - unfold clear in H. injection H as <- _ <- <-. right. right. right. repeat split; auto. apply (qc_clear_get O HC).
    - injection H as <- _ <- _. left. auto.
    - injection H as <- _ <- _. left. auto.
  Qed.

  (* ---------- the effect of one fetchAndReschedule ---------- *)
  Definition fetch_shape (th now : Z) (id i : nat) (q : Q O) (ts : tsmap) (q' : Q O) (ts' : tsmap)
             (evs : list event) (ret : option (entry * bool)) : Prop :=
    (q_pop O q = None /\ q' = q /\ ts' = ts /\ evs = [] /\ ret = None) \/
    exists job, q_get O (e_key job) q = Some job /\ q_wf O q' /\
      ( (e_susp job = true /\ ret = Some (job, false) /\ ts' = ts /\ evs = [EvDeq id i job false now] /\
         lookup_set O q q' (e_key job) (Some (with_prio job go_MaxInt64)))
        \/ (e_susp job = false /\ e_prio job < now - th /\ ret = Some (job, false) /\
            exists st' fire, nft (e_tid job) (ts (e_tid job)) now = (st', fire) /\ ts' = upd tstate ts (e_tid job) st' /\
              evs = [EvTrig (e_key job) (e_tid job) now fire CFetchRebase; EvMisfire id (e_key job) (e_prio job);
                     EvDeq id i job false now] /\
              match fire with inl p => lookup_set O q q' (e_key job) (Some (with_prio job p))
                            | inr _ => lookup_set O q q' (e_key job) None end)
        \/ (e_susp job = false /\ now < e_prio job /\ ret = Some (job, false) /\ ts' = ts /\
            evs = [EvDeq id i job false now] /\ lookup_set O q q' (e_key job) (Some job))
        \/ (e_susp job = false /\ now - th <= e_prio job <= now /\ ret = Some (job, true) /\
            exists st' fire, nft (e_tid job) (ts (e_tid job)) (e_prio job) = (st', fire) /\ ts' = upd tstate ts (e_tid job) st' /\
              evs = [EvTrig (e_key job) (e_tid job) (e_prio job) fire CFetchValid; EvDeq id i job true now] /\
              match fire with inl p => lookup_set O q q' (e_key job) (Some (with_prio job p))
                            | inr _ => lookup_set O q q' (e_key job) None end) ).

  Lemma fetch_effect : forall th now id i q ts q' ts' evs ret rst, q_wf O q ->
    fetch O tstate nft th now id i q ts = (q', ts', evs, ret, rst) -> fetch_shape th now id i q ts q' ts' evs ret.
  Proof.
    intros th now id i q ts q' ts' evs ret rst Hwf H. destruct (q_pop O q) as [[job q1]|] eqn:Hp.
    - right. exists job. destruct (qc_pop_some O HC q job q1 Hwf Hp) as (Hg & _ & _ & _).
      split; [assumption|].
      pose proof (fetch_classification O HC tstate nft th now id i q ts job q1 q' ts' evs ret rst Hwf Hp H) as (C1 & C2 & C3 & C4).
      destruct (e_susp job) eqn:S.
      + destruct (C1 eq_refl) as (-> & -> & -> & (Hw & Hl) & _). split; [assumption|]. left. repeat split; auto.
      + destruct (Z_lt_dec (e_prio job) (now - th)) as [L|L].
        * specialize (C2 eq_refl L). destruct (nft (e_tid job) (ts (e_tid job)) now) as [st' fire] eqn:N.
          destruct C2 as (-> & -> & -> & (Hw & Hl)). split; [assumption|]. right. left.
          repeat split; auto. exists st', fire. auto.
        * destruct (Z_lt_dec now (e_prio job)) as [L2|L2].
          -- destruct (C3 eq_refl ltac:(lia) L2) as (-> & -> & -> & (Hw & Hl) & _). split; [assumption|].
             right. right. left. rewrite with_prio_same in Hl. repeat split; auto.
          -- specialize (C4 eq_refl ltac:(lia) ltac:(lia)).
             destruct (nft (e_tid job) (ts (e_tid job)) (e_prio job)) as [st' fire] eqn:N.
             destruct C4 as (-> & -> & -> & (Hw & Hl)). split; [assumption|]. right. right. right.
             repeat split; auto; try lia. exists st', fire. auto.
    - left. rewrite (fetch_empty O tstate nft th now id i q ts Hp) in H. injection H as <- <- <- <- _. auto.
  Qed.

  (* lookups after a foreign change: the pushed entry, or an old one *)
  Lemma foreign_lookup : forall m q k e, q_wf O q -> q_get O k (foreign O m q) = Some e ->
    q_get O k q = Some e \/ (m = FPush e).
  Proof.
    intros m q k e Hwf H. destruct m as [x|k0| ]; simpl in H.
    - assert (Hok : forall q2, lookup_set O q q2 (e_key x) (Some x) -> q_get O k q2 = Some e -> q_get O k q = Some e \/ FPush x = FPush e).
      { intros q2 Hl H2. rewrite Hl in H2. destruct (key_eqb k (e_key x)); [right; congruence|left; assumption]. }
      destruct (q_get O (e_key x) q) as [y|] eqn:G.
      + destruct (e_repl x) eqn:R.
        * destruct (qc_push_ok O HC q x Hwf (or_intror R)) as (q2 & Hp & _ & Hl). rewrite Hp in H. eauto.
        * rewrite (qc_push_exists O HC q x Hwf) in H; [auto|congruence|assumption].
      + destruct (qc_push_ok O HC q x Hwf (or_introl G)) as (q2 & Hp & _ & Hl). rewrite Hp in H. eauto.
    - destruct (q_get O k0 q) as [y|] eqn:G.
      + destruct (qc_remove_some O HC q k0 y Hwf G) as (q2 & Hr & _ & Hl). rewrite Hr in H. rewrite Hl in H.
        destruct (key_eqb k k0); [discriminate|auto].
      + rewrite (qc_remove_none O HC q k0 Hwf G) in H. auto.
    - rewrite (qc_clear_get O HC) in H. discriminate.
  Qed.

  (* ---------- the invariant behind C03 and the accounting part of C04 ---------- *)
  Record Inv (s : state) : Prop := {
    inv_wf : q_wf O (s_q s);
    inv_entries : forall k e, q_get O k (s_q s) = Some e -> entry_ok (s_log s) e;
    inv_pre : forall p, In p (s_pre s) -> entry_ok (s_log s) (ps_entry p);
    inv_log : log_ok (s_log s);
    inv_ids : forall id, In id (deq_ids (s_log s)) -> (id < s_next s)%nat;
    inv_disp : forall p, In p (s_disp s) ->
        (exists e now', In (EvDeq (p_id p) (p_sched p) e true now') (s_log s) /\ e_key e = p_key p /\
                        e_prio e = p_prio p /\ p_prio p <= now' /\ now' <= s_now s) /\
        ~ In (p_id p) (exec_ids (s_log s));
    inv_disp_nodup : NoDup (map p_id (s_disp s))
  }.

  Lemma inv_init : forall ts0 now0, Inv (init ts0 now0).
  Proof.
    intros. constructor; simpl.
    - apply (qc_empty_wf O HC).
    - intros k e H. rewrite (qc_empty_get O HC) in H. discriminate.
    - tauto.
    - exact I.
    - tauto.
    - tauto.
    - constructor.
  Qed.

  Lemma api_shape_quiet : forall now op q q' evs r, api_shape now op q q' evs r -> Forall quiet_ev evs.
  Proof.
    intros now op q q' evs r [(_ & [->|(k & t & f & c & -> & _)])|[(k & e & _ & _ & _ & _ & H)|[(k & _ & _ & -> & _)|(_ & _ & -> & _)]]];
      try (constructor; fail); try (repeat constructor; fail).
    destruct H as [(_ & -> & _)|[(_ & old & p & _ & _ & _ & ->)|(_ & [(_ & _ & ->)|(_ & ->)])]]; repeat constructor.
  Qed.

  Lemma inv_quiet_extend : forall s q' ts' evs pre',
    Inv s -> Forall quiet_ev evs -> q_wf O q' ->
    (forall k e, q_get O k q' = Some e -> entry_ok (evs ++ s_log s) e) ->
    (forall p, In p pre' -> entry_ok (evs ++ s_log s) (ps_entry p)) ->
    Inv (mkState O tstate q' ts' (s_now s) (evs ++ s_log s) (s_disp s) pre' (s_next s)).
  Proof.
    intros s q' ts' evs pre' HI Hq Hwf He Hp. destruct HI. constructor; simpl; auto.
    - apply log_ok_quiet_app; assumption.
    - rewrite deq_ids_quiet_app by assumption. assumption.
    - intros p Hin. destruct (inv_disp0 p Hin) as ((e & n & H1 & H2) & H3). split.
      + exists e, n. split; [apply in_or_app; right; assumption|assumption].
      + rewrite exec_ids_quiet_app by assumption. assumption.
  Qed.

  Lemma find_pend_some : forall id l p, find_pend id l = Some p -> In p l /\ p_id p = id.
  Proof.
    induction l as [|x l IH]; intros p H; simpl in H; [discriminate|].
    destruct (Nat.eqb (p_id x) id) eqn:E.
    - injection H as <-. apply Nat.eqb_eq in E. simpl. auto.
    - destruct (IH p H). simpl. auto.
  Qed.
  Lemma find_pre_some : forall c l p, find_pre c l = Some p -> In p l /\ ps_client p = c.
  Proof.
    induction l as [|x l IH]; intros p H; simpl in H; [discriminate|].
    destruct (Nat.eqb (ps_client x) c) eqn:E.
    - injection H as <-. apply Nat.eqb_eq in E. simpl. auto.
    - destruct (IH p H). simpl. auto.
  Qed.
  Lemma nodup_map_filter : forall (A B : Type) (f : A -> B) (g : A -> bool) l, NoDup (map f l) -> NoDup (map f (filter g l)).
  Proof.
    intros A B f g l. induction l as [|x l IH]; simpl; intros H; [constructor|].
    inversion H as [|? ? Hn Hd]; subst. destruct (g x); simpl; auto. constructor; auto.
    intros Hin. apply Hn. apply in_map_iff in Hin. destruct Hin as (y & Hy & Hin). apply filter_In in Hin.
    apply in_map_iff. exists y. tauto.
  Qed.

  Lemma p_exec_guard : exec_guard_valid = true. Proof. reflexivity. Qed.

  Lemma inv_step : forall s l s', Inv s -> step s l = Some s' -> Inv s'.
  Proof.
    intros s l s' HI H. pose proof HI as HI0. destruct HI as [Hwf Hent Hpre Hlog Hids Hdisp Hnd].
    destruct l; simpl in H.
    - (* API call *)
      destruct (api O tstate nft (s_now s) op (s_q s) (s_ts s)) as [[[q1 ts1] evs1] r1] eqn:A.
      injection H as <-. destruct (api_effect _ _ _ _ _ _ _ _ Hwf A) as (Hw1 & Sh).
      pose proof (api_shape_quiet _ _ _ _ _ _ Sh) as Hq.
      change (EvApi op r1 :: evs1 ++ s_log s) with ((EvApi op r1 :: evs1) ++ s_log s).
      apply inv_quiet_extend; auto.
      + constructor; [exact I|assumption].
      + assert (Hinc : incl (s_log s) ((EvApi op r1 :: evs1) ++ s_log s)) by (apply incl_appr, incl_refl).
        intros k e G.
        destruct Sh as [(-> & _)|[(k0 & e0 & _ & Hk0 & Hl & _ & Hc)|[(k0 & _ & Hl & _)|(_ & Hl & _)]]].
        * eapply entry_ok_mono; eauto.
        * rewrite Hl in G. destruct (key_eqb k k0); [|eapply entry_ok_mono; eauto]. injection G as <-.
          destruct Hc as [(_ & _ & old & _ & _ & ->)|[(_ & old & p & Go & _ & -> & ->)|(_ & [(Hs & Hp & _)|(Hs & ->)])]].
          -- right. reflexivity.
          -- right. simpl. exists (s_now s), CResume. right. left.
             rewrite (qc_get_key O HC _ _ _ Hwf Go). reflexivity.
          -- right. rewrite Hs. assumption.
          -- right. rewrite Hs. exists (s_now s), CSchedule. right. left. rewrite Hk0. reflexivity.
        * rewrite Hl in G. destruct (key_eqb k k0); [discriminate|]. eapply entry_ok_mono; eauto.
        * rewrite Hl in G. discriminate.
      + intros p Hin. eapply entry_ok_mono; [|apply Hpre; assumption]. apply incl_appr, incl_refl.
    - (* ScheduleJob, before the locker *)
      destruct (find_pre c (s_pre s)); [discriminate|].
      destruct (sched_pre tstate nft (s_now s) jd tr (s_ts s)) as [[ts1 evs1] r1] eqn:P.
      pose proof (sched_pre_spec tstate nft _ _ _ _ _ _ _ P) as SP.
      assert (Hq : Forall quiet_ev evs1 /\ forall ent, r1 = inr ent -> entry_ok (evs1 ++ s_log s) ent).
      { destruct (sched_args jd tr) as [[[k d] t]|].
        - destruct (jd_susp d).
          + destruct SP as (_ & -> & ->). split; [constructor|]. intros ent E. injection E as <-. right. reflexivity.
          + destruct (nft t (ts1 t) (s_now s)) as [st' [p|err]] eqn:N.
            * destruct (nft t (s_ts s t) (s_now s)) as [st2 [p2|err2]]; destruct SP as (_ & -> & ->).
              -- split; [repeat constructor|]. intros ent E. injection E as <-. right. simpl.
                 exists (s_now s), CSchedule. left. reflexivity.
              -- split; [repeat constructor|]. discriminate.
            * destruct (nft t (s_ts s t) (s_now s)) as [st2 [p2|err2]]; destruct SP as (_ & -> & ->).
              -- split; [repeat constructor|]. intros ent E. injection E as <-. right. simpl.
                 exists (s_now s), CSchedule. left. reflexivity.
              -- split; [repeat constructor|]. discriminate.
        - destruct SP as (_ & -> & ->). split; [constructor|]. discriminate. }
      destruct Hq as (Hq & Hok). destruct r1 as [e|ent]; injection H as <-.
      + change (EvApi (OpSchedule jd tr) (RErr e) :: evs1 ++ s_log s) with ((EvApi (OpSchedule jd tr) (RErr e) :: evs1) ++ s_log s).
        apply inv_quiet_extend; auto.
        * constructor; [exact I|assumption].
        * intros k x G. eapply entry_ok_mono; [|apply (Hent k x G)]. apply incl_appr, incl_refl.
        * intros p Hin. eapply entry_ok_mono; [|apply Hpre; assumption]. apply incl_appr, incl_refl.
      + apply inv_quiet_extend; auto.
        * intros k x G. eapply entry_ok_mono; [|apply (Hent k x G)]. apply incl_appr, incl_refl.
        * intros p [<-|Hin]; [simpl; auto|]. eapply entry_ok_mono; [|apply Hpre; assumption]. apply incl_appr, incl_refl.
    - (* ScheduleJob, under the locker *)
      destruct (find_pre c (s_pre s)) as [p|] eqn:Fp; [|discriminate]. apply find_pre_some in Fp. destruct Fp as [Hin _].
      destruct (sched_commit O (ps_entry p) (s_q s)) as [q1 r1] eqn:Cm. injection H as <-.
      pose proof (sched_commit_spec O HC _ _ _ _ Hwf Cm) as S.
      change (EvApi (OpSchedule (ps_jd p) (ps_tr p)) r1 :: s_log s) with ([EvApi (OpSchedule (ps_jd p) (ps_tr p)) r1] ++ s_log s).
      assert (Hinc : incl (s_log s) ([EvApi (OpSchedule (ps_jd p) (ps_tr p)) r1] ++ s_log s)) by (apply incl_appr, incl_refl).
      assert (Hset : r1 = ROk /\ q_wf O q1 /\ lookup_set O (s_q s) q1 (e_key (ps_entry p)) (Some (ps_entry p)) ->
                Inv (mkState O tstate q1 (s_ts s) (s_now s) ([EvApi (OpSchedule (ps_jd p) (ps_tr p)) r1] ++ s_log s)
                             (s_disp s) (drop_pre c (s_pre s)) (s_next s))).
      { intros (_ & Hw1 & Hl). apply inv_quiet_extend; auto.
        - repeat constructor.
        - intros k e G. rewrite Hl in G. destruct (key_eqb k (e_key (ps_entry p))).
          + injection G as <-. eapply entry_ok_mono; eauto.
          + eapply entry_ok_mono; eauto.
        - intros p0 Hp0. apply filter_In in Hp0. eapply entry_ok_mono; [exact Hinc|]. apply Hpre. tauto. }
      destruct (q_get O (e_key (ps_entry p)) (s_q s)); [destruct (e_repl (ps_entry p))|]; auto.
      destruct S as (-> & ->). apply inv_quiet_extend; auto.
      + repeat constructor.
      + intros k x G. eapply entry_ok_mono; eauto.
      + intros p0 Hp0. apply filter_In in Hp0. eapply entry_ok_mono; [exact Hinc|]. apply Hpre. tauto.
    - (* fetchAndReschedule *)
      destruct (fetch O tstate nft (thr i) (s_now s) (s_next s) i (s_q s) (s_ts s)) as [[[[q1 ts1] evs1] ret] rst] eqn:F.
      injection H as <-.
      assert (Hfresh : ~ In (s_next s) (deq_ids (s_log s))) by (intros Hx; apply Hids in Hx; lia).
      assert (Hfresh2 : ~ In (s_next s) (exec_ids (s_log s))) by (intros Hx; apply Hfresh; apply exec_in_deq; assumption).
      assert (Hfresh3 : ~ In (s_next s) (map p_id (s_disp s))).
      { intros Hx. apply in_map_iff in Hx. destruct Hx as (p & Hp & Hin). destruct (Hdisp p Hin) as ((e & n & Hd & _) & _).
        apply in_deq_ids in Hd. rewrite Hp in Hd. contradiction. }
      destruct (fetch_effect _ _ _ _ _ _ _ _ _ _ _ Hwf F) as [(_ & -> & -> & -> & ->)|(job & Gj & Hw1 & Cases)].
      + simpl. constructor; simpl; auto. intros id Hin. apply Hids in Hin. lia.
      + (* common part: what any of the four outcomes gives *)
        assert (Hgen : forall evt valid e_new,
                  evs1 = evt ++ [EvDeq (s_next s) i job valid (s_now s)] -> Forall quiet_ev evt ->
                  ret = Some (job, valid) ->
                  (valid = true -> e_susp job = false /\ e_prio job <= s_now s) ->
                  lookup_set O (s_q s) q1 (e_key job) e_new ->
                  (forall e, e_new = Some e -> entry_ok (evs1 ++ s_log s) e) ->
                  Inv (mkState O tstate q1 ts1 (s_now s) (evs1 ++ s_log s)
                         (if valid || false then mkPend (s_next s) i (e_key job) (e_prio job) :: s_disp s else s_disp s)
                         (s_pre s) (S (s_next s)))).
        { intros evt valid e_new -> Hq -> Hval Hl Hnew.
          assert (Hinc : incl (s_log s) ((evt ++ [EvDeq (s_next s) i job valid (s_now s)]) ++ s_log s)) by (apply incl_appr, incl_refl).
          rewrite <- app_assoc in *. simpl app in *.
          constructor; simpl.
          - assumption.
          - intros k e G. rewrite Hl in G. destruct (key_eqb k (e_key job)); [auto|eapply entry_ok_mono; eauto].
          - intros p Hin. eapply entry_ok_mono; eauto.
          - apply log_ok_quiet_app; [assumption|]. simpl. split; [assumption|]. split; [|assumption].
            intros Hv. destruct (Hval Hv) as (Hs & Hle). repeat split; auto.
            pose proof (Hent _ _ Gj) as [Hf|Ht]; [right; assumption|]. rewrite Hs in Ht. left. assumption.
          - intros id. rewrite deq_ids_quiet_app by assumption. simpl. intros [<-|Hin]; [lia|]. apply Hids in Hin. lia.
          - assert (Hold : forall p, In p (s_disp s) ->
                      (exists e now', In (EvDeq (p_id p) (p_sched p) e true now') (evt ++ EvDeq (s_next s) i job valid (s_now s) :: s_log s) /\
                          e_key e = p_key p /\ e_prio e = p_prio p /\ p_prio p <= now' /\ now' <= s_now s) /\
                      ~ In (p_id p) (exec_ids (evt ++ EvDeq (s_next s) i job valid (s_now s) :: s_log s))).
            { intros p Hin. destruct (Hdisp p Hin) as ((e & n & H1 & H2) & H3). split.
              - exists e, n. split; [apply Hinc; assumption|assumption].
              - rewrite exec_ids_quiet_app by assumption. simpl. assumption. }
            destruct valid; simpl; [|assumption].
            intros p [<-|Hin]; [|auto]. simpl. destruct (Hval eq_refl) as (_ & Hle). split.
            + exists job, (s_now s). split; [apply in_or_app; right; left; reflexivity|]. repeat split; auto. lia.
            + rewrite exec_ids_quiet_app by assumption. simpl. assumption.
          - destruct valid; simpl; [|assumption]. constructor; assumption. }
        destruct Cases as [(Hs & -> & -> & -> & Hl)|[(Hs & Hlt & -> & st' & fire & N & -> & -> & Hl)|
                           [(Hs & Hlt & -> & -> & -> & Hl)|(Hs & Hlt & -> & st' & fire & N & -> & -> & Hl)]]].
        * apply (Hgen [] false (Some (with_prio job go_MaxInt64))); auto; [discriminate|].
          intros e E. injection E as <-. right. simpl. rewrite Hs. reflexivity.
        * apply (Hgen [EvTrig (e_key job) (e_tid job) (s_now s) fire CFetchRebase; EvMisfire (s_next s) (e_key job) (e_prio job)]
                      false (match fire with inl p => Some (with_prio job p) | inr _ => None end)); auto.
          -- repeat constructor.
          -- discriminate.
          -- destruct fire; assumption.
          -- intros e E. destruct fire as [p|err]; [|discriminate]. injection E as <-. right. simpl. rewrite Hs.
             exists (s_now s), CFetchRebase. left. reflexivity.
        * apply (Hgen [] false (Some job)); auto; [discriminate|].
          intros e E. injection E as <-. eapply entry_ok_mono; [|apply (Hent _ _ Gj)]. apply incl_appr, incl_refl.
        * apply (Hgen [EvTrig (e_key job) (e_tid job) (e_prio job) fire CFetchValid]
                      true (match fire with inl p => Some (with_prio job p) | inr _ => None end)); auto.
          -- repeat constructor.
          -- intros _. split; [assumption|lia].
          -- destruct fire; assumption.
          -- intros e E. destruct fire as [p|err]; [|discriminate]. injection E as <-. right. simpl. rewrite Hs.
             exists (e_prio job), CFetchValid. left. reflexivity.
    - (* an execution starts *)
      destruct (find_pend id (s_disp s)) as [p|] eqn:Fp; [|discriminate]. injection H as <-.
      apply find_pend_some in Fp. destruct Fp as [Hin Hid]. subst id.
      destruct (Hdisp p Hin) as ((e & n & H1 & H2 & H3 & H4 & H5) & Hne).
      assert (Hinc : incl (s_log s) (EvExec (p_id p) (p_key p) (p_prio p) (s_now s) :: s_log s)) by (apply incl_tl, incl_refl).
      constructor; simpl; auto.
      + intros k x G. eapply entry_ok_mono; eauto.
      + intros p0 Hp0. eapply entry_ok_mono; eauto.
      + split; [|split; assumption]. exists (p_sched p), e, n. auto.
      + intros p0 Hp0. apply filter_In in Hp0. destruct Hp0 as [Hp0 Hneq]. apply negb_true_iff, Nat.eqb_neq in Hneq.
        destruct (Hdisp p0 Hp0) as ((e0 & n0 & K1 & K2) & K3). split.
        * exists e0, n0. split; [right; assumption|assumption].
        * intros [Hx|Hx]; [congruence|contradiction].
      + apply nodup_map_filter. assumption.
    - (* the clock advances *)
      destruct (dt <? 0) eqn:E; [discriminate|]. injection H as <-. apply Z.ltb_ge in E.
      constructor; simpl; auto. intros p Hin. destruct (Hdisp p Hin) as ((e & n & H1 & H2 & H3 & H4 & H5) & Hne).
      split; [|assumption]. exists e, n. repeat split; auto. lia.
    - (* a foreign process changes the queue *)
      injection H as <-. change (EvForeign m :: s_log s) with ([EvForeign m] ++ s_log s).
      apply inv_quiet_extend; auto.
      + repeat constructor.
      + apply (foreign_wf O HC). assumption.
      + intros k e G. destruct (foreign_lookup _ _ _ _ Hwf G) as [Go| ->].
        * eapply entry_ok_mono; [|apply (Hent _ _ Go)]. apply incl_appr, incl_refl.
        * left. exists e. split; [left; reflexivity|auto].
      + intros p Hin. eapply entry_ok_mono; [|apply Hpre; assumption]. apply incl_appr, incl_refl.
  Qed.

  Lemma inv_run : forall tr s s', Inv s -> run s tr = Some s' -> Inv s'.
  Proof.
    induction tr as [|l tr IH]; intros s s' HI H; simpl in H.
    - injection H as <-. assumption.
    - destruct (step s l) as [s1|] eqn:S; [|discriminate]. eapply IH; [|exact H]. eapply inv_step; eauto.
  Qed.
End Lts.
